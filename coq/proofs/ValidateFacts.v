(* ValidateFacts.v — lemmas about the generation-time validators (C12). *)
From Sebuf Require Import Text Schema Validate.
From SebufProofs Require Import TextFacts.

(* ---- generic ------------------------------------------------------------------------------- *)
Lemma first_some_none {A B} (f : A -> option B) l :
  first_some f l = None <-> forall x, In x l -> f x = None.
Proof.
  induction l as [|a l IH]; cbn; [split; [intros _ x []|reflexivity]|].
  destruct (f a) eqn:E; split.
  - discriminate.
  - intros H. specialize (H a (or_introl eq_refl)). congruence.
  - intros H x [<-|Hx]; [exact E|]. now apply IH.
  - intros H. apply IH. intros x Hx. apply H. now right.
Qed.

Lemma first_some_some {A B} (f : A -> option B) l b :
  first_some f l = Some b -> exists x, In x l /\ f x = Some b.
Proof.
  induction l as [|a l IH]; cbn; [discriminate|].
  destruct (f a) eqn:E.
  - intros [= <-]. exists a. split; [now left|exact E].
  - intros H. destruct (IH H) as (x & Hx & Hf). exists x. split; [now right|exact Hf].
Qed.

Lemma first_some_not_none {A B} (f : A -> option B) l x :
  In x l -> f x <> None -> first_some f l <> None.
Proof. intros Hx Hf H. rewrite first_some_none in H. now apply Hf, H. Qed.

Lemma or_else_none {B} (a b : option B) : or_else a b = None <-> a = None /\ b = None.
Proof.
  destruct a; cbn; split.
  - discriminate.
  - intros [H _]. discriminate.
  - auto.
  - tauto.
Qed.

Lemma or_else_some {B} (a b : option B) e :
  or_else a b = Some e -> a = Some e \/ (a = None /\ b = Some e).
Proof. destruct a; cbn; [left|right]; tauto. Qed.

Lemma in_when b v x : In v (when b x) <-> b = true /\ v = x.
Proof. destruct b; cbn; split; intuition (try discriminate; auto). Qed.

Lemma when_nil b x : when b x = [] <-> b = false.
Proof. destruct b; cbn; split; try discriminate; auto. Qed.

Lemma flat_map_nil {A B} (f : A -> list B) l :
  flat_map f l = [] <-> forall x, In x l -> f x = [].
Proof.
  induction l as [|a l IH]; cbn; [split; [intros _ x []|reflexivity]|].
  split.
  - intros H. apply app_eq_nil in H as [H1 H2]. intros x [<-|Hx]; [exact H1|]. now apply IH.
  - intros H. rewrite (H a (or_introl eq_refl)). cbn. apply IH. intros x Hx. apply H. now right.
Qed.

Lemma app_nil_both {A} (l l' : list A) : l = [] -> l' = [] -> l ++ l' = [].
Proof. now intros -> ->. Qed.

Lemma mem_str_in x l : mem_str x l = true <-> In x l.
Proof.
  unfold mem_str. rewrite existsb_exists. split.
  - intros (y & Hy & E). apply str_eqb_eq in E. now subst.
  - intros H. exists x. split; [exact H|apply str_eqb_refl].
Qed.

Lemma mem_str_false x l : mem_str x l = false <-> ~ In x l.
Proof. rewrite <- mem_str_in. destruct (mem_str x l); split; congruence. Qed.

Lemma nonempty_false {A} (l : list A) : nonempty l = false <-> l = [].
Proof. destruct l; cbn; split; congruence. Qed.

Lemma existsb_false {A} (p : A -> bool) l : existsb p l = false <-> forall x, In x l -> p x = false.
Proof.
  split.
  - intros H x Hx. destruct (p x) eqn:E; [|reflexivity].
    assert (existsb p l = true) by (apply existsb_exists; eauto). congruence.
  - intros H. destruct (existsb p l) eqn:E; [|reflexivity].
    apply existsb_exists in E as (x & Hx & Hp). rewrite (H x Hx) in Hp. discriminate.
Qed.

Ltac bsimp :=
  repeat (rewrite ?andb_true_iff, ?orb_true_iff, ?negb_true_iff, ?andb_false_iff, ?orb_false_iff, ?negb_false_iff in *).

(* ---- single fields: checks pass => no field rule broken ---------------------------------------- *)
Section Field.
Variable sc : schema.
Variable m : message.

Lemma nullable_ok f : nullable_check m f = None ->
  is_nullable f && negb (is_opt (f_card f)) = false /\ is_nullable f && is_msg_kind (f_kind f) = false.
Proof.
  unfold nullable_check, desc_is_message. destruct (is_nullable f); cbn; [|auto].
  destruct (f_card f), (f_kind f); cbn; try discriminate; auto.
Qed.

Lemma empty_ok f : empty_check m f = None ->
  has_empty f && negb (is_msg_kind (f_kind f) && negb (is_rep (f_card f)) && negb (is_map (f_card f))) = false.
Proof.
  unfold empty_check, desc_is_message. destruct (has_empty f); cbn; [|auto].
  destruct (f_card f), (f_kind f); cbn; try discriminate; auto.
Qed.

Lemma tsfmt_ok f : tsfmt_check m f = None ->
  tsfmt_set f && negb (is_timestamp (f_kind f) && negb (is_map (f_card f))) = false.
Proof.
  unfold tsfmt_check, is_timestamp_field. destruct (tsfmt_set f); cbn; [|auto].
  destruct (is_map (f_card f)), (is_timestamp (f_kind f)); cbn; try discriminate; auto.
Qed.

Lemma bytesenc_ok f : bytesenc_check m f = None ->
  bytesenc_set f && negb (is_bytes_kind (f_kind f) && negb (is_map (f_card f))) = false.
Proof.
  unfold bytesenc_check, desc_is_bytes. destruct (bytesenc_set f); cbn; [|auto].
  destruct (is_map (f_card f)), (is_bytes_kind (f_kind f)); cbn; try discriminate; auto.
Qed.

Lemma flatten_field_ok f : flatten_field_check m f = None ->
  is_flatten f && is_rep (f_card f) = false /\ is_flatten f && is_map (f_card f) = false /\
  is_flatten f && negb (is_msg_kind (f_kind f)) = false /\
  is_flatten f && match f_oneof f with Some _ => true | None => false end = false /\
  negb (is_flatten f) && nonempty (flatten_prefix f) = false /\
  (is_flatten f = true -> in_some_oneof f = false).
Proof.
  unfold flatten_field_check, in_some_oneof. destruct (is_flatten f); cbn.
  - destruct (f_card f); cbn; try discriminate;
      destruct (is_msg_kind (f_kind f)); cbn; try discriminate;
      destruct (f_oneof f); cbn; try discriminate; auto 10.
  - destruct (nonempty (flatten_prefix f)); cbn; try discriminate. intros _. repeat split; auto. discriminate.
Qed.

Lemma enum_ok f : enum_check sc m f = None ->
  is_map (f_card f) && enum_number f && field_enum_has_custom sc f = false ->
  enum_number f && field_enum_has_custom sc f = false.
Proof.
  unfold enum_check, desc_is_enum, field_enum_has_custom.
  destruct (enum_number f); cbn; [|auto].
  destruct (f_kind f); cbn; auto.
  destruct (is_map (f_card f)); cbn; destruct (enum_has_custom sc tn); cbn; try discriminate; auto.
Qed.

Lemma field_no_violation f :
  (f_unwrap f = true -> is_rep (f_card f) || is_map (f_card f) = true) ->
  is_map (f_card f) && enum_number f && field_enum_has_custom sc f = false ->
  enum_check sc m f = None -> nullable_check m f = None -> empty_check m f = None -> tsfmt_check m f = None ->
  bytesenc_check m f = None -> flatten_field_check m f = None ->
  field_violations sc f = [].
Proof.
  intros Hu Hg He Hn Hem Ht Hb Hf. unfold field_violations.
  destruct (nullable_ok f Hn) as [N1 N2].
  destruct (flatten_field_ok f Hf) as (F1 & F2 & F3 & F4 & F5 & _).
  rewrite N1, N2, (empty_ok f Hem), (tsfmt_ok f Ht), (bytesenc_ok f Hb), F1, F2, F3, F4, F5, (enum_ok f He Hg).
  destruct (f_unwrap f); cbn; [|reflexivity]. now rewrite (Hu eq_refl).
Qed.

(* ---- single fields: a check fails => a field rule is broken, and the text names it ---------- *)
Lemma enum_err f e : enum_check sc m f = Some e ->
  In (viol REnumNumberWithCustomValues (f_name f)) (field_violations sc f) /\ e_items e = [f_name f].
Proof.
  unfold enum_check. destruct (desc_is_enum f && enum_number f && field_enum_has_custom sc f) eqn:E; [|discriminate].
  intros [= <-]. split; [|reflexivity]. bsimp. destruct E as [[_ E1] E2].
  unfold field_violations. rewrite !in_app_iff. do 11 right. rewrite E1, E2. now left.
Qed.

Lemma nullable_err f e : nullable_check m f = Some e ->
  exists v, In v (field_violations sc f) /\ v_item v = f_name f /\ e_items e = [f_name f].
Proof.
  unfold nullable_check. destruct (is_nullable f) eqn:N; [|discriminate].
  destruct (negb (is_opt (f_card f))) eqn:O.
  - intros [= <-]. exists (viol RNullableNonOptional (f_name f)). repeat split.
    unfold field_violations. rewrite !in_app_iff. right; left. rewrite N, O. now left.
  - destruct (desc_is_message f) eqn:D; [|discriminate]. intros [= <-].
    exists (viol RNullableMessage (f_name f)). repeat split.
    unfold field_violations. rewrite !in_app_iff. right; right; left. rewrite N.
    unfold desc_is_message in D. destruct (f_card f); cbn in *; try discriminate. rewrite D. now left.
Qed.

Lemma empty_err f e : empty_check m f = Some e ->
  In (viol REmptyBehaviorWrongType (f_name f)) (field_violations sc f) /\ e_items e = [f_name f].
Proof.
  unfold empty_check. destruct (has_empty f) eqn:H; [|discriminate].
  intros He.
  assert (negb (is_msg_kind (f_kind f) && negb (is_rep (f_card f)) && negb (is_map (f_card f))) = true /\ e_items e = [f_name f]) as [C I].
  { unfold desc_is_message in He. destruct (f_card f), (f_kind f); cbn in *; inversion He; subst; auto. }
  split; [|exact I]. unfold field_violations. rewrite !in_app_iff. do 3 right; left. rewrite H, C. now left.
Qed.

Lemma tsfmt_err f e : tsfmt_check m f = Some e ->
  In (viol RTimestampFormatWrongType (f_name f)) (field_violations sc f) /\ e_items e = [f_name f].
Proof.
  unfold tsfmt_check. destruct (tsfmt_set f && negb (is_timestamp_field f)) eqn:E; [|discriminate].
  intros [= <-]. split; [|reflexivity]. bsimp. destruct E as [E1 E2].
  unfold field_violations. rewrite !in_app_iff. do 4 right; left. rewrite E1.
  unfold is_timestamp_field in E2. replace (negb (is_timestamp (f_kind f) && negb (is_map (f_card f)))) with true; [now left|].
  destruct (is_map (f_card f)), (is_timestamp (f_kind f)); cbn in *; congruence.
Qed.

Lemma bytesenc_err f e : bytesenc_check m f = Some e ->
  In (viol RBytesEncodingWrongType (f_name f)) (field_violations sc f) /\ e_items e = [f_name f].
Proof.
  unfold bytesenc_check. destruct (bytesenc_set f && negb (desc_is_bytes f)) eqn:E; [|discriminate].
  intros [= <-]. split; [|reflexivity]. bsimp. destruct E as [E1 E2].
  unfold field_violations. rewrite !in_app_iff. do 5 right; left. rewrite E1.
  unfold desc_is_bytes in E2. replace (negb (is_bytes_kind (f_kind f) && negb (is_map (f_card f)))) with true; [now left|].
  destruct (is_map (f_card f)), (is_bytes_kind (f_kind f)); cbn in *; congruence.
Qed.

(* flatten on a proto3 optional message field is the one refusal without a broken rule *)
Lemma flatten_field_err f e : flatten_field_check m f = Some e ->
  is_flatten f && is_opt (f_card f) && is_msg_kind (f_kind f) = false ->
  exists v, In v (field_violations sc f) /\ v_item v = f_name f /\ e_items e = [f_name f].
Proof.
  unfold flatten_field_check. intros H G.
  destruct (is_flatten f) eqn:F; cbn in H.
  - destruct (is_rep (f_card f)) eqn:R.
    { inversion H; subst. exists (viol RFlattenRepeated (f_name f)). repeat split.
      unfold field_violations. rewrite !in_app_iff. do 6 right; left. rewrite F, R. now left. }
    destruct (is_map (f_card f)) eqn:M.
    { inversion H; subst. exists (viol RFlattenMap (f_name f)). repeat split.
      unfold field_violations. rewrite !in_app_iff. do 7 right; left. rewrite F, M. now left. }
    destruct (is_msg_kind (f_kind f)) eqn:K; cbn in H.
    2:{ inversion H; subst. exists (viol RFlattenScalar (f_name f)). repeat split.
        unfold field_violations. rewrite !in_app_iff. do 8 right; left. rewrite F, K. now left. }
    destruct (in_some_oneof f) eqn:O; [|discriminate]. inversion H; subst.
    exists (viol RFlattenOneofMember (f_name f)). repeat split.
    unfold field_violations. rewrite !in_app_iff. do 9 right; left. rewrite F.
    unfold in_some_oneof in O. destruct (f_oneof f); [now left|]. cbn in G. rewrite O in G. discriminate.
  - destruct (nonempty (flatten_prefix f)) eqn:P; [|discriminate]. inversion H; subst.
    exists (viol RPrefixWithoutFlatten (f_name f)). repeat split.
    unfold field_violations. rewrite !in_app_iff. do 10 right; left. rewrite F, P. now left.
Qed.
End Field.

(* ---- unwrap ------------------------------------------------------------------------------------ *)
Lemma unwrap_scan_inr mn fs : forall seen r, unwrap_scan mn seen fs = inr r ->
  (forall f, In f fs -> f_unwrap f = true -> is_rep (f_card f) || is_map (f_card f) = true) /\
  match seen with
  | Some _ => filter f_unwrap fs = [] /\ r = seen
  | None => (filter f_unwrap fs = [] /\ r = None) \/ (exists f, filter f_unwrap fs = [f] /\ r = Some f)
  end.
Proof.
  induction fs as [|f fs IH]; cbn; intros seen r H.
  - inversion H; subst. split; [intros ? []|]. destruct r; auto.
  - destruct (f_unwrap f) eqn:U.
    + destruct (is_rep (f_card f) || is_map (f_card f)) eqn:RM; cbn in H; [|discriminate].
      destruct seen as [s0|]; [discriminate|].
      destruct (IH _ _ H) as [A [B ->]]. split.
      * intros g [<-|Hg] Ug; auto.
      * right. exists f. now rewrite B.
    + destruct (IH _ _ H) as [A B]. split; [|exact B].
      intros g [<-|Hg] Ug; [congruence|auto].
Qed.

Lemma unwrap_scan_inl mn fs : forall seen e, unwrap_scan mn seen fs = inl e ->
  exists f, In f fs /\ f_unwrap f = true /\ e_items e = [f_name f] /\
    (is_rep (f_card f) || is_map (f_card f) = false \/ seen <> None \/ 2 <= List.length (filter f_unwrap fs)).
Proof.
  induction fs as [|f fs IH]; cbn; intros seen e H; [discriminate|].
  destruct (f_unwrap f) eqn:U.
  - destruct (is_rep (f_card f) || is_map (f_card f)) eqn:RM; cbn in H.
    + destruct seen as [s0|].
      * inversion H; subst. exists f. repeat split; auto. right; left. discriminate.
      * destruct (IH _ _ H) as (g & Hg & Ug & I & D). exists g. repeat split; auto.
        destruct D as [D|[_|D]]; auto; right; right; cbn.
        -- assert (In g (filter f_unwrap fs)) by (apply filter_In; auto).
           destruct (filter f_unwrap fs); [contradiction|cbn; lia].
        -- lia.
    + inversion H; subst. exists f. repeat split; auto.
  - destruct (IH _ _ H) as (g & Hg & Ug & I & D). exists g. repeat split; auto.
Qed.

Lemma unwrap_check_none m : unwrap_check m = None ->
  (forall f, In f (m_fields m) -> f_unwrap f = true -> is_rep (f_card f) || is_map (f_card f) = true) /\
  Nat.ltb 1 (count_unwrap m) = false /\
  (forall f, In f (m_fields m) -> f_unwrap f && is_map (f_card f) && negb (Nat.eqb (List.length (m_fields m)) 1) = false).
Proof.
  unfold unwrap_check, get_unwrap_field, count_unwrap.
  destruct (unwrap_scan (short_name m) None (m_fields m)) as [e|r] eqn:S; [discriminate|].
  destruct (unwrap_scan_inr _ _ _ _ S) as [A B]. intros H. split; [exact A|].
  destruct B as [[B ->]|[g [B ->]]]; rewrite B; cbn; (split; [reflexivity|]).
  - intros f Hf. destruct (f_unwrap f) eqn:U; [|reflexivity].
    assert (In f (filter f_unwrap (m_fields m))) by (apply filter_In; auto). rewrite B in H0. contradiction.
  - intros f Hf. destruct (f_unwrap f) eqn:U; [|reflexivity].
    assert (In f (filter f_unwrap (m_fields m))) as I by (apply filter_In; auto). rewrite B in I.
    destruct I as [<-|[]]. cbn.
    destruct (Nat.eqb (List.length (m_fields m)) 1); cbn in *; [now rewrite andb_false_r|].
    destruct (is_map (f_card g)); cbn in *; [discriminate|reflexivity].
Qed.

Lemma unwrap_check_some sc m e : unwrap_check m = Some e ->
  exists v, In v (message_violations sc m) /\ In (v_item v) (e_items e).
Proof.
  unfold unwrap_check, get_unwrap_field.
  destruct (unwrap_scan (short_name m) None (m_fields m)) as [e0|r] eqn:S.
  - intros [= <-]. destruct (unwrap_scan_inl _ _ _ _ S) as (f & Hf & U & I & D).
    destruct D as [D|[D|D]]; [| congruence |].
    + exists (viol RUnwrapNonRepeated (f_name f)). rewrite I. split; [|now left].
      unfold message_violations. apply in_or_app. left. apply in_flat_map. exists f. split; [exact Hf|].
      unfold field_violations. apply in_or_app. left. rewrite U, D. now left.
    + exists (viol RUnwrapTwice (f_name f)). rewrite I. split; [|now left].
      unfold message_violations. apply in_or_app. right. apply in_or_app. left.
      apply in_flat_map. exists f. split; [exact Hf|]. rewrite U. unfold count_unwrap.
      replace (Nat.ltb 1 (List.length (filter f_unwrap (m_fields m)))) with true; [now left|].
      symmetry. apply Nat.ltb_lt. lia.
  - destruct (unwrap_scan_inr _ _ _ _ S) as [A B].
    destruct r as [g|]; [|discriminate].
    destruct (negb (Nat.eqb (List.length (m_fields m)) 1) && is_map (f_card g)) eqn:C; [|discriminate].
    intros [= <-]. cbn.
    destruct B as [[_ B]|[g' [B [= <-]]]]; [discriminate|].
    assert (In g (filter f_unwrap (m_fields m))) as I by (rewrite B; now left).
    apply filter_In in I as [Hg U].
    exists (viol RUnwrapMapNotAlone (f_name g)). split; [|now left].
    unfold message_violations. apply in_or_app. right. apply in_or_app. right. apply in_or_app. left.
    apply in_flat_map. exists g. split; [exact Hg|]. bsimp. destruct C as [C1 C2].
    rewrite U, C2, C1. now left.
Qed.

(* ---- flatten: the sequential used-name scan finds a collision iff the names are not distinct --- *)
Definition occurrences (x : str) (l : list str) : nat := List.length (filter (str_eqb x) l).

Lemma occurrences_zero x l : (forall y, In y l -> y <> x) -> occurrences x l = 0.
Proof.
  unfold occurrences. induction l as [|a l IH]; cbn; intros H; [reflexivity|].
  destruct (str_eqb x a) eqn:E.
  - apply str_eqb_eq in E. subst. exfalso. now apply (H a (or_introl eq_refl)).
  - apply IH. intros y Hy. apply H. now right.
Qed.

Lemma occurrences_in x l : In x l -> 1 <= occurrences x l.
Proof.
  unfold occurrences. induction l as [|a l IH]; cbn; intros H; [contradiction|].
  destruct (str_eqb x a) eqn:E; cbn; [lia|].
  destruct H as [->|H]; [now rewrite str_eqb_refl in E|now apply IH].
Qed.

Lemma scan_used_none ns : forall used, scan_used used ns = None ->
  forall n, In n ns -> mem_str (snd n) used = false /\ occurrences (snd n) (map snd ns) <= 1.
Proof.
  induction ns as [|a ns IH]; cbn; intros used H n Hn; [contradiction|].
  destruct (mem_str (snd a) used) eqn:M; [discriminate|].
  specialize (IH _ H).
  assert (forall y, In y (map snd ns) -> y <> snd a) as Fresh.
  { intros y Hy E. apply in_map_iff in Hy as (b & <- & Hb). destruct (IH b Hb) as [Mb _].
    cbn in Mb. rewrite E, str_eqb_refl in Mb. discriminate. }
  destruct Hn as [<-|Hn].
  - split; [exact M|]. unfold occurrences. cbn. rewrite str_eqb_refl. cbn.
    fold (occurrences (snd a) (map snd ns)). rewrite occurrences_zero; auto.
  - destruct (IH n Hn) as [Mn On]. cbn in Mn. apply orb_false_iff in Mn as [Ne Mn]. split; [exact Mn|].
    unfold occurrences. cbn. rewrite Ne. exact On.
Qed.

Lemma scan_used_some ns : forall used n, scan_used used ns = Some n ->
  In n ns /\ (mem_str (snd n) used = true \/ 2 <= occurrences (snd n) (map snd ns)).
Proof.
  induction ns as [|a ns IH]; cbn; intros used n H; [discriminate|].
  destruct (mem_str (snd a) used) eqn:M.
  - inversion H; subst. split; [now left|now left].
  - destruct (IH _ _ H) as [Hn D]. split; [now right|].
    destruct D as [D|D].
    + cbn in D. apply orb_true_iff in D as [D|D]; [|now left]. right.
      unfold occurrences. cbn. rewrite D. cbn.
      assert (1 <= occurrences (snd n) (map snd ns)) by (apply occurrences_in, in_map, Hn).
      unfold occurrences in H0. lia.
    + right. unfold occurrences in *. cbn. destruct (str_eqb (snd n) (snd a)); cbn; lia.
Qed.

Lemma flatten_sources_agree m :
  (forall f, In f (m_fields m) -> flatten_field_check m f = None) ->
  impl_flatten_sources m = filter well_formed_flatten (m_fields m).
Proof.
  intros H. unfold impl_flatten_sources. apply filter_ext_in. intros f Hf.
  destruct (flatten_field_ok m f (H f Hf)) as (F1 & F2 & F3 & _).
  unfold well_formed_flatten, desc_is_message.
  destruct (is_flatten f); cbn in *; [|reflexivity].
  rewrite F1, F2. cbn. apply negb_false_iff in F3. now rewrite F3.
Qed.

Lemma no_flatten_no_sources m : has_flatten m = false -> filter well_formed_flatten (m_fields m) = [].
Proof.
  unfold has_flatten. intros H. rewrite existsb_false in H.
  induction (m_fields m) as [|f l IH]; cbn; [reflexivity|].
  unfold well_formed_flatten at 1. rewrite (H f (or_introl eq_refl)). cbn. apply IH. intros x Hx. apply H. now right.
Qed.

Definition collision_part (sc : schema) (m : message) : list violation :=
  flat_map (fun n => when (mem_str (snd n) (parent_json_names m) ||
                           Nat.ltb 1 (List.length (filter (str_eqb (snd n)) (flat_json_names sc m))))
                          (viol RFlattenCollision (fst (fst n)))) (spec_flattened sc m).

Lemma flatten_msg_none sc m : flatten_msg_check sc m = None ->
  (forall f, In f (m_fields m) -> flatten_field_check m f = None) /\ collision_part sc m = [].
Proof.
  unfold flatten_msg_check. intros H. apply or_else_none in H as [H1 H2].
  rewrite first_some_none in H1. split; [exact H1|].
  unfold collision_part, spec_flattened, flat_json_names, spec_flattened.
  destruct (has_flatten m) eqn:HF.
  - apply or_else_none in H2 as [H2 _]. unfold flatten_collision_check, flattened_names in H2.
    rewrite (flatten_sources_agree m H1) in H2.
    destruct (scan_used (parent_json_names m) (names_of sc (filter well_formed_flatten (m_fields m)))) as [[[a b] c]|] eqn:S; [discriminate|].
    apply flat_map_nil. intros n Hn. apply when_nil.
    destruct (scan_used_none _ _ S n Hn) as [M O]. rewrite M, orb_false_l.
    apply Nat.ltb_ge. exact O.
  - rewrite (no_flatten_no_sources m HF). reflexivity.
Qed.

Lemma flatten_msg_some sc m e : flatten_msg_check sc m = Some e ->
  msg_flatten_optional m = false -> msg_flatten_conflict m = false ->
  exists v, In v (message_violations sc m) /\ In (v_item v) (e_items e).
Proof.
  unfold flatten_msg_check. intros H GO GC.
  apply or_else_some in H as [H|[H1 H2]].
  - apply first_some_some in H as (f & Hf & H).
    unfold msg_flatten_optional in GO. rewrite existsb_false in GO.
    destruct (flatten_field_err sc m f e H (GO f Hf)) as (v & Hv & I & E).
    exists v. split.
    + unfold message_violations. apply in_or_app. left. apply in_flat_map. now exists f.
    + rewrite I, E. now left.
  - rewrite first_some_none in H1.
    destruct (has_flatten m) eqn:HF; [|discriminate].
    apply or_else_some in H2 as [H2|[_ H2]].
    + unfold flatten_collision_check, flattened_names in H2. rewrite (flatten_sources_agree m H1) in H2.
      destruct (scan_used (parent_json_names m) (names_of sc (filter well_formed_flatten (m_fields m)))) as [[[fld child] nm]|] eqn:S; [|discriminate].
      inversion H2; subst. cbn.
      destruct (scan_used_some _ _ _ S) as [Hn D].
      exists (viol RFlattenCollision fld). split; [|now left].
      unfold message_violations. apply in_or_app. right. apply in_or_app. right. apply in_or_app. right. apply in_or_app. left.
      apply in_flat_map. exists (fld, child, nm). split; [exact Hn|].
      apply in_when. split; [|reflexivity]. cbn [snd fst] in *. destruct D as [D|D]; [now rewrite D|].
      apply orb_true_iff. right. apply Nat.ltb_lt. exact D.
    + unfold flatten_conflict_check in H2. unfold msg_flatten_conflict in GC. rewrite HF in GC. cbn in GC.
      rewrite GC in H2. discriminate.
Qed.

(* ---- discriminated oneofs ------------------------------------------------------------------------ *)
Lemma str_eqb_sym a b : str_eqb a b = str_eqb b a.
Proof.
  destruct (str_eqb a b) eqn:E.
  - apply str_eqb_eq in E. subst. symmetry. apply str_eqb_refl.
  - destruct (str_eqb b a) eqn:F; [|reflexivity]. apply str_eqb_eq in F. subst. now rewrite str_eqb_refl in E.
Qed.

Definition oneof_part (sc : schema) (m : message) (o : oneof) : list violation :=
  if oneof_configured o then
    when (mem_str (o_discriminator o) (map (fun f => json_name (f_name f)) (outside_fields m o)))
         (viol RDiscriminatorCollision (o_name o)) ++
    (if o_flatten o then
       when (existsb (fun v => negb (is_msg_kind (f_kind v))) (variants m o)) (viol ROneofFlattenScalarVariant (o_name o)) ++
       when (existsb (fun v => existsb (fun c => mem_str (snd c) (reserved_names m o)) (kind_children sc (f_kind v))) (variants m o))
            (viol ROneofFlattenChildCollision (o_name o))
     else [])
  else [].

Definition oneof_members_singular (m : message) : Prop :=
  forall f, In f (m_fields m) -> match f_oneof f with Some _ => f_card f = Singular | None => True end.

Lemma variant_desc_kind m o v : oneof_members_singular m -> In v (variants m o) -> desc_is_message v = is_msg_kind (f_kind v).
Proof.
  intros W Hv. apply filter_In in Hv as [Hv I]. specialize (W v Hv).
  unfold in_oneof in I. destruct (f_oneof v); [|discriminate]. unfold desc_is_message. now rewrite W.
Qed.

Lemma oneof_check_none sc m o : oneof_members_singular m -> oneof_check sc m o = None -> oneof_part sc m o = [].
Proof.
  intros W. unfold oneof_check, oneof_part. destruct (oneof_configured o); [|reflexivity].
  intros H. apply or_else_none in H as [H1 H2].
  unfold disc_collision_check in H1. rewrite first_some_none in H1.
  replace (mem_str (o_discriminator o) (map (fun f => json_name (f_name f)) (outside_fields m o))) with false.
  2:{ symmetry. apply mem_str_false. intros I. apply in_map_iff in I as (f & E & Hf).
      specialize (H1 f Hf). rewrite E, str_eqb_refl in H1. discriminate. }
  cbn [when app]. destruct (o_flatten o); [|reflexivity].
  unfold oneof_flatten_check in H2. apply or_else_none in H2 as [H2 H3].
  rewrite first_some_none in H2, H3.
  replace (existsb (fun v => negb (is_msg_kind (f_kind v))) (variants m o)) with false.
  2:{ symmetry. apply existsb_false. intros v Hv. specialize (H2 v Hv). cbn in H2.
      rewrite (variant_desc_kind m o v W Hv) in H2. destruct (is_msg_kind (f_kind v)); [reflexivity|discriminate]. }
  replace (existsb (fun v => existsb (fun c => mem_str (snd c) (reserved_names m o)) (kind_children sc (f_kind v))) (variants m o)) with false; [reflexivity|].
  symmetry. apply existsb_false. intros v Hv. apply existsb_false. intros c Hc.
  specialize (H3 v Hv). cbv beta in H3. rewrite first_some_none in H3. specialize (H3 c Hc). cbv beta in H3.
  destruct (mem_str (snd c) (reserved_names m o)); [discriminate|reflexivity].
Qed.

Lemma oneof_check_some sc m o e : oneof_members_singular m -> oneof_check sc m o = Some e ->
  exists v, In v (oneof_part sc m o) /\ In (v_item v) (e_items e).
Proof.
  intros W. unfold oneof_check, oneof_part. destruct (oneof_configured o); [|discriminate].
  intros H. apply or_else_some in H as [H|[_ H]].
  - unfold disc_collision_check in H. apply first_some_some in H as (f & Hf & H).
    destruct (str_eqb (json_name (f_name f)) (o_discriminator o)) eqn:E; [|discriminate].
    inversion H; subst. exists (viol RDiscriminatorCollision (o_name o)). split; [|now left].
    apply in_or_app. left. apply in_when. split; [|reflexivity].
    apply mem_str_in. apply str_eqb_eq in E. rewrite <- E. apply in_map_iff. now exists f.
  - destruct (o_flatten o); [|discriminate]. unfold oneof_flatten_check in H.
    apply or_else_some in H as [H|[_ H]].
    + apply first_some_some in H as (v & Hv & H). cbn in H.
      destruct (negb (desc_is_message v)) eqn:D; [|discriminate]. inversion H; subst.
      exists (viol ROneofFlattenScalarVariant (o_name o)). split; [|now left].
      apply in_or_app. right. apply in_or_app. left. apply in_when. split; [|reflexivity].
      apply existsb_exists. exists v. split; [exact Hv|]. now rewrite <- (variant_desc_kind m o v W Hv).
    + apply first_some_some in H as (v & Hv & H). cbv beta in H.
      apply first_some_some in H as (c & Hc & H). cbv beta in H.
      destruct (mem_str (snd c) (reserved_names m o)) eqn:M; [|discriminate]. inversion H; subst.
      exists (viol ROneofFlattenChildCollision (o_name o)). split; [|now left].
      apply in_or_app. right. apply in_or_app. right. apply in_when. split; [|reflexivity].
      apply existsb_exists. exists v. split; [exact Hv|]. apply existsb_exists. now exists c.
Qed.

(* ---- one message ---------------------------------------------------------------------------------- *)
Lemma message_violations_parts sc m :
  message_violations sc m =
    flat_map (field_violations sc) (m_fields m) ++
    flat_map (fun f => when (f_unwrap f && Nat.ltb 1 (count_unwrap m)) (viol RUnwrapTwice (f_name f))) (m_fields m) ++
    flat_map (fun f => when (f_unwrap f && is_map (f_card f) && negb (Nat.eqb (List.length (m_fields m)) 1))
                            (viol RUnwrapMapNotAlone (f_name f))) (m_fields m) ++
    collision_part sc m ++ flat_map (oneof_part sc m) (m_oneofs m).
Proof. reflexivity. Qed.

Definition field_checks_none (sc : schema) (m : message) : Prop :=
  forall f, In f (m_fields m) ->
    enum_check sc m f = None /\ nullable_check m f = None /\ empty_check m f = None /\
    tsfmt_check m f = None /\ bytesenc_check m f = None.

Lemma message_none sc m :
  oneof_members_singular m -> msg_enum_map_gap sc m = false ->
  unwrap_check m = None -> field_checks_none sc m ->
  flatten_msg_check sc m = None -> oneof_msg_check sc m = None ->
  message_violations sc m = [].
Proof.
  intros W G HU HF HFl HO. rewrite message_violations_parts.
  destruct (unwrap_check_none m HU) as (U1 & U2 & U3).
  destruct (flatten_msg_none sc m HFl) as [F1 F2].
  unfold msg_enum_map_gap in G. rewrite existsb_false in G.
  unfold oneof_msg_check in HO. rewrite first_some_none in HO.
  repeat apply app_nil_both.
  - apply flat_map_nil. intros f Hf. destruct (HF f Hf) as (A & B & C & D & E).
    apply (field_no_violation sc m f); auto.
  - apply flat_map_nil. intros f Hf. apply when_nil. rewrite U2. apply andb_false_r.
  - apply flat_map_nil. intros f Hf. apply when_nil. apply U3, Hf.
  - exact F2.
  - apply flat_map_nil. intros o Ho. apply oneof_check_none; auto.
Qed.

Lemma in_message_fields sc m f v : In f (m_fields m) -> In v (field_violations sc f) -> In v (message_violations sc m).
Proof. intros Hf Hv. rewrite message_violations_parts. apply in_or_app. left. apply in_flat_map. now exists f. Qed.

Lemma in_message_oneof sc m o v : In o (m_oneofs m) -> In v (oneof_part sc m o) -> In v (message_violations sc m).
Proof.
  intros Ho Hv. rewrite message_violations_parts. do 4 (apply in_or_app; right). apply in_flat_map. now exists o.
Qed.

Definition named_violation (l : list violation) (e : gen_error) : Prop :=
  exists v, In v l /\ In (v_item v) (e_items e).

Lemma field_check_some sc m f e :
  In f (m_fields m) ->
  (enum_check sc m f = Some e \/ nullable_check m f = Some e \/ empty_check m f = Some e \/
   tsfmt_check m f = Some e \/ bytesenc_check m f = Some e) ->
  named_violation (message_violations sc m) e.
Proof.
  intros Hf [H|[H|[H|[H|H]]]].
  - destruct (enum_err sc m f e H) as [V I]. eexists. split; [eapply in_message_fields; eauto|]. rewrite I. now left.
  - destruct (nullable_err sc m f e H) as (v & V & I & E). exists v. split; [eapply in_message_fields; eauto|]. rewrite I, E. now left.
  - destruct (empty_err sc m f e H) as [V I]. eexists. split; [eapply in_message_fields; eauto|]. rewrite I. now left.
  - destruct (tsfmt_err sc m f e H) as [V I]. eexists. split; [eapply in_message_fields; eauto|]. rewrite I. now left.
  - destruct (bytesenc_err sc m f e H) as [V I]. eexists. split; [eapply in_message_fields; eauto|]. rewrite I. now left.
Qed.

Lemma oneof_msg_some sc m e : oneof_members_singular m -> oneof_msg_check sc m = Some e ->
  named_violation (message_violations sc m) e.
Proof.
  intros W H. apply first_some_some in H as (o & Ho & H).
  destruct (oneof_check_some sc m o e W H) as (v & V & I). exists v. split; [eapply in_message_oneof; eauto|exact I].
Qed.

(* ---- RPCs with an HTTP configuration -------------------------------------------------------------- *)
Lemma scalar_is_compatible f : is_scalar_field f = true -> path_compatible f = true.
Proof. unfold is_scalar_field, path_compatible. destruct (f_card f), (f_kind f); cbn; congruence. Qed.

Lemma compatible_nonrep_scalar f : path_compatible f = true -> is_rep (f_card f) = false -> is_scalar_field f = true.
Proof. unfold is_scalar_field, path_compatible. destruct (f_card f), (f_kind f); cbn; congruence. Qed.

Lemma filter_nil {A} (p : A -> bool) l : filter p l = [] -> forall x, In x l -> p x = false.
Proof.
  induction l as [|a l IH]; cbn; intros H x Hx; [contradiction|].
  destruct (p a) eqn:E; [discriminate|]. destruct Hx as [<-|Hx]; auto.
Qed.

Lemma method_none sc sv md : msg_repeated_pathvar sc md = false -> method_check sc sv md = None -> method_violations sc md = [].
Proof.
  unfold msg_repeated_pathvar, method_check, method_violations. cbv zeta. destruct (md_has_cfg md); cbn [negb andb]; [|reflexivity].
  intros G H. rewrite existsb_false in G.
  apply or_else_none in H as [H1 H2]. apply or_else_none in H2 as [H2 H3].
  rewrite first_some_none in H1. rewrite first_some_none in H2.
  repeat apply app_nil_both.
  - apply flat_map_nil. intros p Hp. specialize (H1 p Hp). specialize (G p Hp). cbv beta in *.
    destruct (find_field (input_fields sc md) p) as [f|]; [|discriminate].
    destruct (path_compatible f) eqn:C; [|discriminate]. rewrite andb_true_r in G.
    now rewrite (compatible_nonrep_scalar f C G).
  - apply flat_map_nil. intros f Hf. specialize (H2 f Hf). cbv beta in H2.
    destruct (has_query f && mem_str (f_name f) (extract_path_params (md_path md))); [discriminate|reflexivity].
  - destruct (verb_bodiless (md_verb md)); [|reflexivity].
    destruct (filter _ (input_fields sc md)) eqn:F; [|discriminate].
    apply flat_map_nil. intros f Hf. now rewrite (filter_nil _ _ F f Hf).
Qed.

Lemma method_some sc sv md e : method_check sc sv md = Some e -> named_violation (method_violations sc md) e.
Proof.
  unfold method_check, method_violations. cbv zeta. destruct (md_has_cfg md); cbn [negb]; [|discriminate].
  intros H. apply or_else_some in H as [H|[_ H]].
  - apply first_some_some in H as (p & Hp & H). cbv beta in H.
    destruct (find_field (input_fields sc md) p) as [f|] eqn:FF.
    + destruct (path_compatible f) eqn:C; [discriminate|]. inversion H; subst.
      exists (viol RPathVariableNonScalar p). split; [|now left].
      apply in_or_app. left. apply in_flat_map. exists p. split; [exact Hp|]. rewrite FF.
      apply in_when. split; [|reflexivity]. destruct (is_scalar_field f) eqn:S; [|reflexivity].
      apply scalar_is_compatible in S. congruence.
    + inversion H; subst. exists (viol RPathVariableNoField p). split; [|now left].
      apply in_or_app. left. apply in_flat_map. exists p. split; [exact Hp|]. rewrite FF. now left.
  - apply or_else_some in H as [H|[_ H]].
    + apply first_some_some in H as (f & Hf & H). cbv beta in H.
      destruct (has_query f && mem_str (f_name f) (extract_path_params (md_path md))) eqn:C; [|discriminate].
      inversion H; subst. exists (viol RPathAndQuery (f_name f)). split; [|now left].
      apply in_or_app. right. apply in_or_app. left. apply in_flat_map. exists f. split; [exact Hf|]. rewrite C. now left.
    + destruct (verb_bodiless (md_verb md)); [|discriminate].
      destruct (filter _ (input_fields sc md)) as [|f body] eqn:F; [discriminate|]. inversion H; subst.
      assert (In f (filter (fun f => negb (mem_str (f_name f) (extract_path_params (md_path md))) && negb (has_query f)) (input_fields sc md))) as I
        by (rewrite F; now left).
      apply filter_In in I as [Hf C].
      exists (viol RBodilessUnbound (f_name f)). split; [|now left].
      apply in_or_app. right. apply in_or_app. right. apply in_flat_map. exists f. split; [exact Hf|]. rewrite C. now left.
Qed.

Lemma ts_method_some sc md e : ts_method_check sc md = Some e -> named_violation (method_violations sc md) e.
Proof.
  unfold ts_method_check, method_violations. cbv zeta. destruct (md_has_cfg md); cbn [negb].
  2:{ cbn. discriminate. }
  intros H. apply or_else_some in H as [H|[_ H]].
  - apply first_some_some in H as (p & Hp & H). cbv beta in H.
    destruct (find_field (input_fields sc md) p) as [f|] eqn:FF; [discriminate|]. inversion H; subst.
    exists (viol RPathVariableNoField p). split; [|now left].
    apply in_or_app. left. apply in_flat_map. exists p. split; [exact Hp|]. rewrite FF. now left.
  - destruct (verb_bodiless (md_verb md)); [|discriminate].
    destruct (filter _ (input_fields sc md)) as [|f body] eqn:F; [discriminate|]. inversion H; subst.
    assert (In f (filter (fun f => negb (mem_str (f_name f) (extract_path_params (md_path md))) && negb (has_query f)) (input_fields sc md))) as I
      by (rewrite F; now left).
    apply filter_In in I as [Hf C].
    exists (viol RBodilessUnbound (f_name f)). split; [|now left].
    apply in_or_app. right. apply in_or_app. right. apply in_flat_map. exists f. split; [exact Hf|]. rewrite C. now left.
Qed.

(* ---- what remains of a field's violations when every codec check passes: only the unwrap rule ---- *)
Lemma field_violations_codec_ok sc m f :
  is_map (f_card f) && enum_number f && field_enum_has_custom sc f = false ->
  enum_check sc m f = None -> nullable_check m f = None -> empty_check m f = None -> tsfmt_check m f = None ->
  bytesenc_check m f = None -> flatten_field_check m f = None ->
  field_violations sc f = when (f_unwrap f && negb (is_rep (f_card f) || is_map (f_card f))) (viol RUnwrapNonRepeated (f_name f)).
Proof.
  intros Hg He Hn Hem Ht Hb Hf. unfold field_violations.
  destruct (nullable_ok m f Hn) as [N1 N2].
  destruct (flatten_field_ok m f Hf) as (F1 & F2 & F3 & F4 & F5 & _).
  rewrite N1, N2, (empty_ok m f Hem), (tsfmt_ok m f Ht), (bytesenc_ok m f Hb), F1, F2, F3, F4, F5, (enum_ok sc m f He Hg).
  cbn [when app]. now rewrite app_nil_r.
Qed.

Definition unwrap_rule (r : rule) : bool :=
  match r with RUnwrapNonRepeated | RUnwrapTwice | RUnwrapMapNotAlone => true | _ => false end.

Lemma message_codec_ok sc m :
  oneof_members_singular m -> msg_enum_map_gap sc m = false ->
  field_checks_none sc m -> flatten_msg_check sc m = None -> oneof_msg_check sc m = None ->
  forall v, In v (message_violations sc m) -> unwrap_rule (v_rule v) = true.
Proof.
  intros W G HF HFl HO v. rewrite message_violations_parts.
  destruct (flatten_msg_none sc m HFl) as [F1 F2].
  unfold msg_enum_map_gap in G. rewrite existsb_false in G.
  unfold oneof_msg_check in HO. rewrite first_some_none in HO.
  rewrite F2. replace (flat_map (oneof_part sc m) (m_oneofs m)) with (@nil violation).
  2:{ symmetry. apply flat_map_nil. intros o Ho. apply oneof_check_none; auto. }
  rewrite !in_app_iff. intros [H|[H|[H|[[]|[]]]]].
  - apply in_flat_map in H as (f & Hf & H). destruct (HF f Hf) as (A & B & C & D & E).
    rewrite (field_violations_codec_ok sc m f) in H; auto. apply in_when in H as [_ ->]. reflexivity.
  - apply in_flat_map in H as (f & Hf & H). apply in_when in H as [_ ->]. reflexivity.
  - apply in_flat_map in H as (f & Hf & H). apply in_when in H as [_ ->]. reflexivity.
Qed.

Lemma method_violations_not_client sc md v : In v (method_violations sc md) -> client_rule (v_rule v) = false.
Proof.
  unfold method_violations. cbv zeta. destruct (md_has_cfg md); cbn [negb]; [|intros []].
  rewrite !in_app_iff. intros [H|[H|H]].
  - apply in_flat_map in H as (p & _ & H). destruct (find_field (input_fields sc md) p).
    + apply in_when in H as [_ ->]. reflexivity.
    + destruct H as [<-|[]]. reflexivity.
  - apply in_flat_map in H as (f & _ & H). apply in_when in H as [_ ->]. reflexivity.
  - destruct (verb_bodiless (md_verb md)); [|contradiction].
    apply in_flat_map in H as (f & _ & H). apply in_when in H as [_ ->]. reflexivity.
Qed.

Lemma unwrap_rule_not_client r : unwrap_rule r = true -> client_rule r = false.
Proof. destruct r; cbn; congruence. Qed.

(* ---- one file ---------------------------------------------------------------------------------------- *)
Lemma per_field_none chk f : per_field chk f = None <->
  forall m, In m (fl_messages f) -> forall x, In x (m_fields m) -> chk m x = None.
Proof.
  unfold per_field. rewrite first_some_none. split; intros H m Hm.
  - intros x Hx. specialize (H m Hm). cbv beta in H. rewrite first_some_none in H. auto.
  - cbv beta. rewrite first_some_none. auto.
Qed.

Lemma per_field_some chk f e : per_field chk f = Some e ->
  exists m x, In m (fl_messages f) /\ In x (m_fields m) /\ chk m x = Some e.
Proof.
  unfold per_field. intros H. apply first_some_some in H as (m & Hm & H). cbv beta in H.
  apply first_some_some in H as (x & Hx & H). now exists m, x.
Qed.

Lemma codec_passes_none sc f : codec_passes sc f = None ->
  forall m, In m (fl_messages f) ->
    field_checks_none sc m /\ flatten_msg_check sc m = None /\ oneof_msg_check sc m = None /\ oneof_conflict_check m = None.
Proof.
  unfold codec_passes. intros H.
  apply or_else_none in H as [H1 H]. apply or_else_none in H as [H2 H]. apply or_else_none in H as [H3 H].
  apply or_else_none in H as [H4 H]. apply or_else_none in H as [H5 H]. apply or_else_none in H as [H6 H].
  apply or_else_none in H as [H7 H8].
  rewrite per_field_none in H1, H2, H3, H4, H5.
  rewrite first_some_none in H6. rewrite first_some_none in H7. rewrite first_some_none in H8.
  intros m Hm. repeat split; auto.
Qed.

Definition file_no_gap (sc : schema) (f : file) : Prop :=
  forall m, In m (fl_messages f) ->
    oneof_members_singular m /\ msg_enum_map_gap sc m = false /\ msg_flatten_conflict m = false /\
    msg_oneof_conflict m = false /\ msg_flatten_optional m = false.

Lemma codec_passes_some sc f e : file_no_gap sc f -> codec_passes sc f = Some e ->
  exists m, In m (fl_messages f) /\ named_violation (message_violations sc m) e.
Proof.
  intros NG H. unfold codec_passes in H.
  apply or_else_some in H as [H|[_ H]].
  { apply per_field_some in H as (m & x & Hm & Hx & H). exists m. split; [exact Hm|]. eapply field_check_some; eauto. }
  apply or_else_some in H as [H|[_ H]].
  { apply per_field_some in H as (m & x & Hm & Hx & H). exists m. split; [exact Hm|]. eapply field_check_some; eauto. }
  apply or_else_some in H as [H|[_ H]].
  { apply per_field_some in H as (m & x & Hm & Hx & H). exists m. split; [exact Hm|]. eapply field_check_some; eauto 6. }
  apply or_else_some in H as [H|[_ H]].
  { apply per_field_some in H as (m & x & Hm & Hx & H). exists m. split; [exact Hm|]. eapply field_check_some; eauto 6. }
  apply or_else_some in H as [H|[_ H]].
  { apply per_field_some in H as (m & x & Hm & Hx & H). exists m. split; [exact Hm|]. eapply field_check_some; eauto 7. }
  apply or_else_some in H as [H|[_ H]].
  { apply first_some_some in H as (m & Hm & H). exists m. split; [exact Hm|].
    destruct (NG m Hm) as (_ & _ & GC & _ & GO). eapply flatten_msg_some; eauto. }
  apply or_else_some in H as [H|[_ H]].
  { apply first_some_some in H as (m & Hm & H). exists m. split; [exact Hm|].
    destruct (NG m Hm) as (W & _). eapply oneof_msg_some; eauto. }
  apply first_some_some in H as (m & Hm & H).
  destruct (NG m Hm) as (_ & _ & _ & GC & _). unfold oneof_conflict_check in H. unfold msg_oneof_conflict in GC.
  rewrite GC in H. discriminate.
Qed.

(* ---- the whole request --------------------------------------------------------------------------------- *)
Lemma in_gen_messages sc f m : In f (gen_files sc) -> In m (fl_messages f) -> In m (gen_messages sc).
Proof. intros Hf Hm. unfold gen_messages. apply in_flat_map. now exists f. Qed.

Lemma in_gen_methods sc f sv md : In f (gen_files sc) -> In sv (fl_services f) -> In md (sv_methods sv) -> In md (gen_methods sc).
Proof.
  intros Hf Hs Hm. unfold gen_methods. apply in_flat_map. exists f. split; [exact Hf|].
  apply in_flat_map. now exists sv.
Qed.

Lemma gen_files_in sc f : In f (gen_files sc) -> In f sc.
Proof. unfold gen_files. intros H. now apply filter_In in H. Qed.

Lemma dom_members_singular sc f m : dom_C12 sc = true -> In f sc -> In m (fl_messages f) -> oneof_members_singular m.
Proof.
  unfold dom_C12. intros D Hf Hm. apply andb_true_iff in D as [D _].
  rewrite forallb_forall in D. assert (In m (flat_map fl_messages sc)) as I by (apply in_flat_map; now exists f).
  specialize (D m I). unfold dom_message in D. apply andb_true_iff in D as [D _]. apply andb_true_iff in D as [D _].
  rewrite forallb_forall in D. intros x Hx. specialize (D x Hx). cbv beta in D.
  destruct (f_oneof x); [|exact Logic.I]. destruct (f_card x); try discriminate. reflexivity.
Qed.

Lemma defects_nil sc : defects_C12 sc = [] ->
  existsb (msg_repeated_pathvar sc) (gen_methods sc) = false /\
  existsb (msg_enum_map_gap sc) (gen_messages sc) = false /\
  broken_imported sc = [] /\
  existsb msg_flatten_conflict (gen_messages sc) = false /\
  existsb msg_oneof_conflict (gen_messages sc) = false /\
  existsb msg_flatten_optional (gen_messages sc) = false.
Proof.
  unfold defects_C12. intros H.
  destruct (existsb (msg_repeated_pathvar sc) (gen_methods sc)); [discriminate|].
  destruct (existsb (msg_enum_map_gap sc) (gen_messages sc)); [discriminate|].
  destruct (nonempty (broken_imported sc)) eqn:N; [discriminate|].
  destruct (existsb msg_flatten_conflict (gen_messages sc)); [discriminate|].
  destruct (existsb msg_oneof_conflict (gen_messages sc)); [discriminate|].
  destruct (existsb msg_flatten_optional (gen_messages sc)); [discriminate|].
  repeat split; auto. now apply nonempty_false.
Qed.

Lemma no_gap_files sc : dom_C12 sc = true -> defects_C12 sc = [] ->
  forall f, In f (gen_files sc) -> file_no_gap sc f.
Proof.
  intros D H f Hf m Hm. destruct (defects_nil sc H) as (_ & G2 & _ & G4 & G5 & G6).
  rewrite existsb_false in G2, G4, G5, G6. pose proof (in_gen_messages sc f m Hf Hm) as I.
  repeat split; auto. eapply dom_members_singular; eauto. now apply gen_files_in.
Qed.

Lemma in_broken_msg sc f m v : In f (gen_files sc) -> In m (fl_messages f) -> In v (message_violations sc m) -> In v (broken_generated sc).
Proof.
  intros Hf Hm Hv. unfold broken_generated. apply in_flat_map. exists f. split; [exact Hf|].
  unfold file_violations. apply in_or_app. left. apply in_flat_map. now exists m.
Qed.

Lemma in_broken_method sc f sv md v : In f (gen_files sc) -> In sv (fl_services f) -> In md (sv_methods sv) ->
  In v (method_violations sc md) -> In v (broken_generated sc).
Proof.
  intros Hf Hs Hm Hv. unfold broken_generated. apply in_flat_map. exists f. split; [exact Hf|].
  unfold file_violations. apply in_or_app. right. apply in_flat_map. exists sv. split; [exact Hs|].
  apply in_flat_map. now exists md.
Qed.

Lemma named_lift (l l' : list violation) e : (forall v, In v l -> In v l') -> named_violation l e -> named_violation l' e.
Proof. intros S (v & Hv & I). exists v. auto. Qed.

(* A: nothing refused => no rule broken in a generated file *)
Theorem go_http_none_no_violation sc : dom_C12 sc = true -> defects_C12 sc = [] ->
  go_http_accepts sc = None -> broken_generated sc = [].
Proof.
  intros D H A. unfold go_http_accepts in A. apply or_else_none in A as [A1 A2].
  rewrite first_some_none in A1. rewrite first_some_none in A2.
  pose proof (no_gap_files sc D H) as NG.
  destruct (defects_nil sc H) as (G1 & _). rewrite existsb_false in G1.
  unfold broken_generated. apply flat_map_nil. intros f Hf.
  specialize (A1 f Hf). cbv beta in A1. rewrite first_some_none in A1.
  specialize (A2 f Hf). unfold http_file_check in A2. apply or_else_none in A2 as [A2 A3].
  rewrite first_some_none in A3.
  unfold file_violations. apply app_nil_both.
  - apply flat_map_nil. intros m Hm.
    destruct (codec_passes_none sc f A2 m Hm) as (C1 & C2 & C3 & _).
    destruct (NG f Hf m Hm) as (W & G & _).
    apply message_none; auto.
  - apply flat_map_nil. intros sv Hs. apply flat_map_nil. intros md Hm.
    specialize (A3 sv Hs). unfold service_check in A3. rewrite first_some_none in A3.
    apply (method_none sc sv md); auto. apply G1. eapply in_gen_methods; eauto.
Qed.

(* B: a refusal names an actual offender *)
Theorem go_http_some_named sc e : dom_C12 sc = true -> defects_C12 sc = [] ->
  go_http_accepts sc = Some e -> named_violation (broken_generated sc) e.
Proof.
  intros D H A. pose proof (no_gap_files sc D H) as NG.
  unfold go_http_accepts in A. apply or_else_some in A as [A|[_ A]].
  - apply first_some_some in A as (f & Hf & A). cbv beta in A. apply first_some_some in A as (m & Hm & A).
    eapply named_lift; [|apply (unwrap_check_some sc m e A)]. intros v. now apply in_broken_msg with (f := f).
  - apply first_some_some in A as (f & Hf & A). unfold http_file_check in A.
    apply or_else_some in A as [A|[_ A]].
    + destruct (codec_passes_some sc f e (NG f Hf) A) as (m & Hm & N).
      eapply named_lift; [|exact N]. intros v. now apply in_broken_msg with (f := f).
    + apply first_some_some in A as (sv & Hs & A). unfold service_check in A.
      apply first_some_some in A as (md & Hm & A).
      eapply named_lift; [|apply (method_some sc sv md e A)]. intros v. now apply in_broken_method with (f := f) (sv := sv).
Qed.

Theorem go_client_some_named sc e : dom_C12 sc = true -> defects_C12 sc = [] ->
  go_client_accepts sc = Some e -> named_violation (broken_generated sc) e.
Proof.
  intros D H A. pose proof (no_gap_files sc D H) as NG.
  unfold go_client_accepts in A. apply first_some_some in A as (f & Hf & A).
  destruct (codec_passes_some sc f e (NG f Hf) A) as (m & Hm & N).
  eapply named_lift; [|exact N]. intros v. now apply in_broken_msg with (f := f).
Qed.

Theorem go_client_none_only_other_rules sc : dom_C12 sc = true -> defects_C12 sc = [] ->
  go_client_accepts sc = None -> forall v, In v (broken_generated sc) -> client_rule (v_rule v) = false.
Proof.
  intros D H A v Hv. pose proof (no_gap_files sc D H) as NG.
  unfold go_client_accepts in A. rewrite first_some_none in A.
  unfold broken_generated in Hv. apply in_flat_map in Hv as (f & Hf & Hv).
  unfold file_violations in Hv. apply in_app_iff in Hv as [Hv|Hv].
  - apply in_flat_map in Hv as (m & Hm & Hv).
    destruct (codec_passes_none sc f (A f Hf) m Hm) as (C1 & C2 & C3 & _).
    destruct (NG f Hf m Hm) as (W & G & _).
    apply unwrap_rule_not_client. eapply message_codec_ok; eauto.
  - apply in_flat_map in Hv as (sv & Hs & Hv). apply in_flat_map in Hv as (md & Hm & Hv).
    eapply method_violations_not_client; eauto.
Qed.

Theorem ts_server_some_named sc e : ts_server_accepts sc = Some e -> named_violation (broken_generated sc) e.
Proof.
  unfold ts_server_accepts. intros A.
  apply first_some_some in A as (f & Hf & A). cbv beta in A.
  apply first_some_some in A as (sv & Hs & A). cbv beta in A.
  apply first_some_some in A as (md & Hm & A).
  eapply named_lift; [|apply (ts_method_some sc md e A)]. intros v. now apply in_broken_method with (f := f) (sv := sv).
Qed.
