(* JsonSchemaFacts.v — facts about decimals, strings, vall and the schema reader. *)
From Sebuf Require Import JsonSchema Yaml.
From Coq Require Import Btauto DecimalString DecimalN.

(* ---- strings ---------------------------------------------------------------------------------- *)
Lemma str_eqb_refl x : str_eqb x x = true.
Proof. induction x as [|c x IH]; cbn; [reflexivity|]. now rewrite Ascii.eqb_refl, IH. Qed.

Lemma str_eqb_eq x y : str_eqb x y = true <-> x = y.
Proof.
  split.
  - revert y; induction x as [|c x IH]; intros [|d y]; cbn; try discriminate; [reflexivity|].
    intros H. apply andb_prop in H as [H1 H2]. apply Ascii.eqb_eq in H1. apply IH in H2. now subst.
  - intros ->. apply str_eqb_refl.
Qed.

Lemma str_eqb_sym x y : str_eqb x y = str_eqb y x.
Proof.
  destruct (str_eqb x y) eqn:E.
  - apply str_eqb_eq in E. subst. symmetry. apply str_eqb_refl.
  - destruct (str_eqb y x) eqn:E'; [|reflexivity]. apply str_eqb_eq in E'. subst. now rewrite str_eqb_refl in E.
Qed.

(* ---- decimals --------------------------------------------------------------------------------- *)
Lemma dec_compare_int a b : dec_compare (mkdec a 0) (mkdec b 0) = Z.compare a b.
Proof. unfold dec_compare, dec_scale; cbn. now rewrite !Z.mul_1_r. Qed.

Lemma dec_eqb_int a b : dec_eqb (mkdec a 0) (mkdec b 0) = (a =? b)%Z.
Proof.
  unfold dec_eqb. rewrite dec_compare_int. destruct (Z.compare_spec a b) as [H|H|H].
  - subst. now rewrite Z.eqb_refl.
  - symmetry. apply Z.eqb_neq. lia.
  - symmetry. apply Z.eqb_neq. lia.
Qed.

Lemma dec_record_eq a b : (de a =? de b)%Z && (dm a =? dm b)%Z = true -> a = b.
Proof.
  destruct a as [ma ea], b as [mb eb]; cbn. intros H. apply andb_prop in H as [H1 H2].
  apply Z.eqb_eq in H1, H2. now subst.
Qed.

Lemma dec_is_int_e0 m : dec_is_int (mkdec m 0) = true.
Proof. reflexivity. Qed.

Lemma nat_of_jv_N n : nat_of_jv (JVNum (dec_of_N n)) = Some n.
Proof.
  unfold nat_of_jv, dec_of_N, dec_to_Z; cbn [de dm]. rewrite dec_is_int_e0. cbn.
  rewrite Z.mul_1_r. replace (0 <=? Z.of_N n)%Z with true by (symmetry; apply Z.leb_le, N2Z.is_nonneg).
  now rewrite N2Z.id.
Qed.

(* ---- vall -------------------------------------------------------------------------------------- *)
Lemma vall_app l1 l2 : vall (l1 ++ l2) = match vall l1 with VOk a => match vall l2 with VOk b => VOk (a && b) | e => e end | e => e end.
Proof.
  unfold vall. induction l1 as [|r l1 IH].
  - cbn [app fold_right]. destruct (fold_right vand (VOk true) l2); reflexivity.
  - cbn [app fold_right]. rewrite IH. clear IH.
    destruct r as [x| | |]; cbn [vand]; try reflexivity.
    destruct (fold_right vand (VOk true) l1) as [a| | |]; cbn [vand]; try reflexivity.
    destruct (fold_right vand (VOk true) l2) as [b| | |]; cbn [vand]; try reflexivity.
    now rewrite andb_assoc.
Qed.

Lemma vall_ok_app l1 l2 a b : vall l1 = VOk a -> vall l2 = VOk b -> vall (l1 ++ l2) = VOk (a && b).
Proof. intros H1 H2. now rewrite vall_app, H1, H2. Qed.

Lemma vall_all_ok {A} (f : A -> vres) (p : A -> bool) (l : list A) :
  (forall a, In a l -> f a = VOk (p a)) -> vall (map f l) = VOk (forallb p l).
Proof.
  unfold vall. induction l as [|a l IH]; intros H; [reflexivity|].
  cbn [map fold_right forallb]. rewrite IH by (intros; apply H; now right). rewrite (H a) by now left. reflexivity.
Qed.

(* ---- show_Z is injective ------------------------------------------------------------------------ *)
Lemma show_N_inj a b : show_N a = show_N b -> a = b.
Proof.
  unfold show_N. intros H.
  apply (f_equal string_of_list_ascii) in H. rewrite !string_of_list_ascii_of_string in H.
  apply (f_equal NilEmpty.uint_of_string) in H. rewrite !NilEmpty.usu in H.
  injection H as H. apply (f_equal N.of_uint) in H. now rewrite !DecimalN.Unsigned.of_to in H.
Qed.

Lemma string_of_uint_head d c r : list_ascii_of_string (NilEmpty.string_of_uint d) = c :: r -> is_digit c = true.
Proof. destruct d; cbn; intros H; try discriminate; injection H as <- _; reflexivity. Qed.

Lemma show_N_not_minus n r : show_N n <> "-"%char :: r.
Proof. unfold show_N. intros H. apply string_of_uint_head in H. discriminate. Qed.

Lemma show_N_pos_not_zero p : show_N (Npos p) <> s "0".
Proof. intros H. change (s "0") with (show_N 0) in H. apply show_N_inj in H. discriminate. Qed.

Lemma show_Z_inj a b : show_Z a = show_Z b -> a = b.
Proof.
  destruct a as [|p|p], b as [|q|q]; unfold show_Z; intros H; try reflexivity.
  - symmetry in H. now apply show_N_pos_not_zero in H.
  - discriminate.
  - now apply show_N_pos_not_zero in H.
  - apply show_N_inj in H. now injection H as ->.
  - now apply show_N_not_minus in H.
  - discriminate.
  - symmetry in H. now apply show_N_not_minus in H.
  - injection H as H. apply show_N_inj in H. now injection H as ->.
Qed.

Lemma str_eqb_show_Z a b : str_eqb (show_Z a) (show_Z b) = (a =? b)%Z.
Proof.
  destruct (a =? b)%Z eqn:E.
  - apply Z.eqb_eq in E. subst. apply str_eqb_refl.
  - destruct (str_eqb (show_Z a) (show_Z b)) eqn:E'; [|reflexivity].
    apply str_eqb_eq, show_Z_inj in E'. subst. now rewrite Z.eqb_refl in E.
Qed.
