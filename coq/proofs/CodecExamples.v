(* CodecExamples.v — small concrete schemas and values used as witnesses (refutations, non-vacuity). *)
From Sebuf Require Import CodecCases.

Open Scope Z_scope.

Definition fld (n : string) (num : Z) (k : kind) (c : card) : field :=
  {| f_name := s n; f_number := num; f_kind := k; f_card := c; f_oneof := None; f_query := None;
     f_unwrap := false; f_int64 := None; f_enumenc := None; f_nullable := None; f_empty := None;
     f_tsfmt := None; f_bytesenc := None; f_oneof_value := None; f_flatten := None; f_flatten_prefix := None |}.

Definition set_i64 (f : field) : field :=
  {| f_name := f_name f; f_number := f_number f; f_kind := f_kind f; f_card := f_card f; f_oneof := f_oneof f; f_query := f_query f;
     f_unwrap := f_unwrap f; f_int64 := Some I64Number; f_enumenc := f_enumenc f; f_nullable := f_nullable f; f_empty := f_empty f;
     f_tsfmt := f_tsfmt f; f_bytesenc := f_bytesenc f; f_oneof_value := f_oneof_value f; f_flatten := f_flatten f; f_flatten_prefix := f_flatten_prefix f |}.
Definition set_nullable (f : field) : field :=
  {| f_name := f_name f; f_number := f_number f; f_kind := f_kind f; f_card := f_card f; f_oneof := f_oneof f; f_query := f_query f;
     f_unwrap := f_unwrap f; f_int64 := f_int64 f; f_enumenc := f_enumenc f; f_nullable := Some true; f_empty := f_empty f;
     f_tsfmt := f_tsfmt f; f_bytesenc := f_bytesenc f; f_oneof_value := f_oneof_value f; f_flatten := f_flatten f; f_flatten_prefix := f_flatten_prefix f |}.
Definition set_empty (b : empty_beh) (f : field) : field :=
  {| f_name := f_name f; f_number := f_number f; f_kind := f_kind f; f_card := f_card f; f_oneof := f_oneof f; f_query := f_query f;
     f_unwrap := f_unwrap f; f_int64 := f_int64 f; f_enumenc := f_enumenc f; f_nullable := f_nullable f; f_empty := Some b;
     f_tsfmt := f_tsfmt f; f_bytesenc := f_bytesenc f; f_oneof_value := f_oneof_value f; f_flatten := f_flatten f; f_flatten_prefix := f_flatten_prefix f |}.
Definition set_ts (t : ts_fmt) (f : field) : field :=
  {| f_name := f_name f; f_number := f_number f; f_kind := f_kind f; f_card := f_card f; f_oneof := f_oneof f; f_query := f_query f;
     f_unwrap := f_unwrap f; f_int64 := f_int64 f; f_enumenc := f_enumenc f; f_nullable := f_nullable f; f_empty := f_empty f;
     f_tsfmt := Some t; f_bytesenc := f_bytesenc f; f_oneof_value := f_oneof_value f; f_flatten := f_flatten f; f_flatten_prefix := f_flatten_prefix f |}.
Definition set_bytes (e : bytes_enc) (f : field) : field :=
  {| f_name := f_name f; f_number := f_number f; f_kind := f_kind f; f_card := f_card f; f_oneof := f_oneof f; f_query := f_query f;
     f_unwrap := f_unwrap f; f_int64 := f_int64 f; f_enumenc := f_enumenc f; f_nullable := f_nullable f; f_empty := f_empty f;
     f_tsfmt := f_tsfmt f; f_bytesenc := Some e; f_oneof_value := f_oneof_value f; f_flatten := f_flatten f; f_flatten_prefix := f_flatten_prefix f |}.
Definition set_flatten (f : field) : field :=
  {| f_name := f_name f; f_number := f_number f; f_kind := f_kind f; f_card := f_card f; f_oneof := f_oneof f; f_query := f_query f;
     f_unwrap := f_unwrap f; f_int64 := f_int64 f; f_enumenc := f_enumenc f; f_nullable := f_nullable f; f_empty := f_empty f;
     f_tsfmt := f_tsfmt f; f_bytesenc := f_bytesenc f; f_oneof_value := f_oneof_value f; f_flatten := Some true; f_flatten_prefix := f_flatten_prefix f |}.
Definition set_unwrap (f : field) : field :=
  {| f_name := f_name f; f_number := f_number f; f_kind := f_kind f; f_card := f_card f; f_oneof := f_oneof f; f_query := f_query f;
     f_unwrap := true; f_int64 := f_int64 f; f_enumenc := f_enumenc f; f_nullable := f_nullable f; f_empty := f_empty f;
     f_tsfmt := f_tsfmt f; f_bytesenc := f_bytesenc f; f_oneof_value := f_oneof_value f; f_flatten := f_flatten f; f_flatten_prefix := f_flatten_prefix f |}.
Definition set_oneof (o : string) (f : field) : field :=
  {| f_name := f_name f; f_number := f_number f; f_kind := f_kind f; f_card := f_card f; f_oneof := Some (s o); f_query := f_query f;
     f_unwrap := f_unwrap f; f_int64 := f_int64 f; f_enumenc := f_enumenc f; f_nullable := f_nullable f; f_empty := f_empty f;
     f_tsfmt := f_tsfmt f; f_bytesenc := f_bytesenc f; f_oneof_value := f_oneof_value f; f_flatten := f_flatten f; f_flatten_prefix := f_flatten_prefix f |}.
Definition set_enumnum (f : field) : field :=
  {| f_name := f_name f; f_number := f_number f; f_kind := f_kind f; f_card := f_card f; f_oneof := f_oneof f; f_query := f_query f;
     f_unwrap := f_unwrap f; f_int64 := f_int64 f; f_enumenc := Some EENumber; f_nullable := f_nullable f; f_empty := f_empty f;
     f_tsfmt := f_tsfmt f; f_bytesenc := f_bytesenc f; f_oneof_value := f_oneof_value f; f_flatten := f_flatten f; f_flatten_prefix := f_flatten_prefix f |}.

Definition msg (n : string) (fs : list field) (os : list oneof) : message :=
  {| m_name := s "x.v1." ++ s n; m_path := [s n]; m_fields := fs; m_oneofs := os |}.
Definition T (n : string) : kind := KMessage (s "x.v1." ++ s n).
Definition TS : kind := KMessage ts_name.

Definition status_enum : enum :=
  {| e_name := s "x.v1.Status";
     e_values := [ {| ev_name := s "STATUS_UNSPECIFIED"; ev_number := 0; ev_custom := None |};
                   {| ev_name := s "STATUS_ACTIVE"; ev_number := 1; ev_custom := Some (s "active") |} ] |}.

(* one schema with every construct used by the witnesses *)
Definition xs : schema :=
  [ {| fl_path := s "x/a.proto"; fl_package := s "x.v1"; fl_gopkg := s "x"; fl_generate := true;
       fl_messages :=
         [ msg "Plain" [fld "id" 1 KString Singular; fld "big_num" 2 KInt64 Singular; fld "tags" 3 KString Repeated;
                        fld "by_key" 4 (T "Leaf") (MapOf KString); fld "leaf" 5 (T "Leaf") Singular; fld "at" 6 TS Singular;
                        fld "raw" 7 KBytes Singular; fld "ratio" 8 KDouble Singular; fld "opt_n" 9 KInt32 Optional] [];
           msg "Leaf" [fld "a" 1 KString Singular; fld "n" 2 KInt64 Singular] [];
           msg "Nums" [set_i64 (fld "big" 1 KInt64 Singular); fld "name" 2 KString Singular] [];
           msg "NumsHolder" [fld "id" 1 KString Singular; fld "inner" 2 (T "Nums") Singular] [];
           msg "Nul" [set_nullable (fld "nick" 1 KString Optional); fld "id" 2 KString Singular] [];
           msg "NulHolder" [fld "n" 1 (T "Nul") Singular] [];
           msg "Emp" [set_empty EBNull (fld "nul_it" 1 (T "Leaf") Singular); set_empty EBOmit (fld "omit" 2 (T "Leaf") Singular); fld "id" 3 KString Singular] [];
           msg "EmpHolder" [fld "e" 1 (T "Emp") Singular] [];
           msg "Times" [set_ts TFUnixSeconds (fld "secs" 1 TS Singular); set_ts TFDate (fld "day" 2 TS Singular); fld "id" 3 KString Singular] [];
           msg "TimesHolder" [fld "t" 1 (T "Times") Singular] [];
           msg "Blob" [set_bytes BEHex (fld "h" 1 KBytes Singular); fld "id" 2 KString Singular] [];
           msg "BlobHolder" [fld "b" 1 (T "Blob") Singular] [];
           msg "Detail" [fld "body_text" 1 KString Singular; fld "n" 2 KInt32 Singular] [];
           msg "Post" [fld "id" 1 KString Singular; set_flatten (fld "detail" 2 (T "Detail") Singular)] [];
           msg "PostHolder" [fld "p" 1 (T "Post") Singular] [];
           msg "Addr" [fld "street" 1 KString Singular] [];
           msg "Person" [fld "id" 1 KString Singular; set_flatten (fld "home" 2 (T "Addr") Singular)] [];
           msg "ImageP" [fld "url" 1 KString Singular; fld "size" 2 KInt64 Singular] [];
           msg "WideP" [fld "alt_text" 1 KString Singular] [];
           msg "Event" [fld "eid" 1 KString Singular; set_oneof "content" (fld "image" 2 (T "ImageP") Singular)]
               [{| o_name := s "content"; o_has_cfg := true; o_discriminator := s "ctype"; o_flatten := false |}];
           msg "EventHolder" [fld "ev" 1 (T "Event") Singular] [];
           msg "FlatEvent" [fld "eid" 1 KString Singular; set_oneof "content" (fld "wide" 2 (T "WideP") Singular);
                            set_oneof "content" (fld "times" 3 (T "Times") Singular)]
               [{| o_name := s "content"; o_has_cfg := true; o_discriminator := s "ctype"; o_flatten := true |}];
           msg "BarList" [set_unwrap (fld "bars" 1 (T "Leaf") Repeated)] [];
           msg "BarHolder" [fld "bl" 1 (T "BarList") Singular] [];
           msg "Strs" [set_unwrap (fld "vals" 1 KString Repeated)] [];
           msg "Series" [fld "by_sym" 1 (T "BarList") (MapOf KString); fld "total_count" 2 KInt64 Singular; fld "ratio" 3 KDouble Singular] [];
           msg "NumMap" [set_i64 (fld "big" 1 KInt64 Singular); set_i64 (fld "by_k" 2 KInt64 (MapOf KString))] [];
           msg "WithEnum" [fld "status" 1 (KEnum (s "x.v1.Status")) Singular; set_enumnum (fld "level" 2 (KEnum (s "x.v1.Status")) Singular)] [];
           msg "EnumSeries" [fld "by_sym" 1 (T "BarList") (MapOf KString); fld "st" 2 (KEnum (s "x.v1.Status")) Singular] [] ];
       fl_enums := [status_enum]; fl_services := [] |} ].

(* library instance for the witnesses: no floats except the ones listed *)
Definition Ex : ExtLib :=
  E0 [(true, 4609434218613702656, jflt 4609434218613702656); (true, 9223372036854775808, jflt 9223372036854775808)]
     [(jflt 4609434218613702656, (4609434218613702656, 1069547520)); (jflt 9223372036854775808, (9223372036854775808, 2147483648))].

Definition q (n : string) : str := s "x.v1." ++ s n.
Definition vstr (x : string) : fval := FS (VStr (s x)).
Definition vint (z : Z) : fval := FS (VInt z).
Definition tsv (sec n : Z) : fval := ts_value sec n.
Close Scope Z_scope.
