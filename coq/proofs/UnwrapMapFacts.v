(* UnwrapMapFacts.v — the map-value unwrap codec (internal/httpgen/unwrap.go:356-522) in general:
   MarshalJSON   = one entry per populated field, in declaration order: an unwrap map as an object of arrays
                   (message items through protojson, scalar items through encoding/json), message siblings
                   through protojson, every other sibling through encoding/json;
   UnmarshalJSON = the same field by field; a map value is rebuilt as the wrapper &T{F: items}.
   Hence the round trip (C04) up to [norm] (= the other fields of a wrapper are lost) for every message
   whose codec is the map-value unwrap one, for all schemas and all well-typed values: [unwrap_map_roundtrip].
     Part A  one scalar of every kind through encoding/json and back          (gj_scalar_rt)
     Part B  the loops of Codec.v, named; MarshalJSON as a list of per-field pieces
     Part D  repeated scalars, scalar maps, protojson items, one wrapper, one unwrap map
     Part F  a message value through encoding/json's REFLECTION and back, by induction on the value, for
             un-annotated values (no codec-owning message below; Timestamp = {seconds, nanos})
             (reflect_roundtrip / gj_reflect_roundtrip) — the shape of a sibling map whose values are messages
             without an unwrap field
     Part E  UnmarshalJSON sets fields in declaration order, values list them in field-number order
     Part G  the theorem;  Part H  witnesses: non-vacuity, one refutation per side condition, the remainder. *)
From Coq Require Import Lia ZArith List.
From Sebuf Require Import CodecCases.
From SebufProofs Require Import TextFacts CodecTextFacts ProtoJsonFacts CodecExamples CodecFacts.
From SebufProofs Require NullableFacts Int64Facts BytesFacts EmptyFacts TimestampFacts CodecCompose ClashFacts.
Import ListNotations.

Open Scope Z_scope.

(* ================================================================================================================ *)
(* generic facts about [res] lists *)

Lemma rall_ok {A B} (g : A -> res B) l ys :
  rall (map g l) = ROk ys -> Forall2 (fun x y => g x = ROk y) l ys.
Proof.
  revert ys. induction l as [|x r IH]; intros ys H; cbn [map rall] in H.
  - inversion H. constructor.
  - apply rbind_ok in H. destruct H as [a [Ha H]]. apply rbind_ok in H. destruct H as [t [Ht H]].
    inversion H; subst ys. constructor; [exact Ha|apply IH; exact Ht].
Qed.

(* ================================================================================================================ *)
(* Part A: one scalar through encoding/json and back *)

(* the number of an enum value written by an emitted enum MarshalJSON is read back by UnmarshalJSON: the number
   is declared (an undefined number is written as "99" and refused) and the text written for it — custom
   enum_value or proto name — names, first, a value with the same number *)
Definition enum_gj_rt (sc : schema) (k : kind) (n : Z) : bool :=
  match k with
  | KEnum tn =>
      match find_enum (all_enums sc) tn with
      | Some e =>
          negb (enum_codec e) ||
          match ev_by_number (e_values e) n with
          | Some v => match ev_by_json (e_values e) (ev_json v) with
                      | Some v' => ev_number v' =? n
                      | None => false
                      end
          | None => false
          end
      | None => true
      end
  | _ => true
  end.

Definition sval_gj_ok (sc : schema) (k : kind) (x : sval) : bool :=
  match x with VEnum n => enum_gj_rt sc k n | _ => true end.

Section Scalars.
Variable E : ExtLib.
Hypothesis EL : ExtLaws E.
Variable sc : schema.

Lemma gj_float_rt (w : bool) k b j :
  k = (if w then KDouble else KFloat) ->
  float_ok w b = true ->
  match fclassify w b with
  | FFinite => match x_fprint E w b with Some j => ROk j | None => RUnm (s "float value missing from the print table") end
  | _ => RErr (s "json: unsupported value")
  end = ROk j ->
  gj_unscalar E sc k j = ROk (Some (VFloat b)).
Proof.
  intros Hk Hok Hj. unfold float_ok in Hok.
  destruct (fclassify w b); try discriminate Hj.
  destruct (x_fprint E w b) as [j'|] eqn:Ep; [|discriminate Hj]. inversion Hj; subst j'. clear Hj.
  apply Z.leb_le in Hok.
  assert (Hscan : exists b64 b32, x_fscan E j = Some (b64, b32) /\ (if w then b64 else b32) = b).
  { destruct w.
    - destruct (law_f64 E EL _ _ Ep) as [b32 Hs]. exists b, b32. split; [exact Hs|reflexivity].
    - destruct (law_f32 E EL _ _ Ep) as [b64 Hs]. exists b64, b. split; [exact Hs|reflexivity]. }
  destruct Hscan as [b64 [b32 [Hs Hb]]].
  assert (Hlt : (b <? 0) = false) by (apply Z.ltb_ge; lia).
  destruct (law_fprint_num E EL _ _ _ Ep) as [[z Hz]|[f Hf]]; subst j.
  - destruct w; subst k; cbn [gj_unscalar is_jnumber]; rewrite Hs; subst b; rewrite Hlt; reflexivity.
  - unfold jflt in *.
    assert (Hn : is_jnumber (JObj [(s "$f", JNum f)]) = true) by reflexivity.
    destruct w; subst k; cbn [gj_unscalar]; rewrite Hn, Hs; subst b; rewrite Hlt; reflexivity.
Qed.

Lemma b64_std_no_crlf x : has_crlf (b64_enc false true x) = false.
Proof. apply BytesFacts.ncrlf_no_crlf. apply BytesFacts.b64_enc_ncrlf. Qed.

Lemma gj_scalar_rt k x j :
  is_msgk k = false -> wt_scalar sc k x = true -> sval_gj_ok sc k x = true ->
  gj_scalar E sc k x = ROk j -> gj_unscalar E sc k j = ROk (Some x).
Proof.
  intros Hk Hwt Hgj Hj.
  destruct x as [z|b|x|x|b|n].
  - (* VInt *)
    assert (Hw : (is_int32_kind k || is_int64_kind k) = true /\ in_int_range k z = true).
    { destruct k; try discriminate Hwt; apply andb_prop; exact Hwt. }
    destruct Hw as [Hw1 Hw2].
    assert (Hjz : j = JNum z).
    { destruct k; cbn in Hw1; try discriminate Hw1; cbn in Hj; inversion Hj; reflexivity. }
    subst j.
    destruct k; cbn in Hw1; try discriminate Hw1; cbn [gj_unscalar]; rewrite Hw2; reflexivity.
  - destruct k; cbn in Hwt; try discriminate Hwt. cbn in Hj. inversion Hj; subst j. reflexivity.
  - destruct k; cbn in Hwt; try discriminate Hwt. cbn in Hj. inversion Hj; subst j. reflexivity.
  - destruct k; cbn in Hwt; try discriminate Hwt. cbn in Hj. inversion Hj; subst j.
    cbn [gj_unscalar]. rewrite b64_std_no_crlf, b64_roundtrip. reflexivity.
  - destruct k; cbn [wt_scalar] in Hwt; try discriminate Hwt; cbn [gj_scalar] in Hj.
    + exact (gj_float_rt true KDouble b j eq_refl Hwt Hj).
    + exact (gj_float_rt false KFloat b j eq_refl Hwt Hj).
  - destruct k; cbn [wt_scalar] in Hwt; try discriminate Hwt.
    cbn [gj_scalar] in Hj. unfold gj_enum in Hj. cbn [sval_gj_ok enum_gj_rt] in Hgj. cbn [gj_unscalar].
    destruct (find_enum (all_enums sc) tn) as [e|]; [|discriminate Hwt].
    unfold enum_rt in Hwt. apply andb_prop in Hwt. destruct Hwt as [Hr _].
    destruct (enum_codec e).
    + cbn [negb orb] in Hgj.
      destruct (ev_by_number (e_values e) n) as [v|]; [|discriminate Hgj].
      inversion Hj; subst j.
      destruct (ev_by_json (e_values e) (ev_json v)) as [v'|]; [|discriminate Hgj].
      apply Z.eqb_eq in Hgj. rewrite Hgj. reflexivity.
    + inversion Hj; subst j. rewrite Hr. reflexivity.
Qed.

(* what encoding/json writes for a scalar is never null *)
Lemma gj_scalar_not_null k x j : gj_scalar E sc k x = ROk j -> j <> JNull.
Proof.
  intros H Hn. subst j.
  assert (Hfl : forall w b,
    match fclassify w b with
    | FFinite => match x_fprint E w b with Some j => ROk j | None => RUnm (s "float value missing from the print table") end
    | _ => RErr (s "json: unsupported value")
    end = ROk JNull -> False).
  { intros w b Hf. destruct (fclassify w b); try discriminate Hf.
    destruct (x_fprint E w b) as [j'|] eqn:Ep; [|discriminate Hf]. inversion Hf; subst j'.
    destruct (law_fprint_num E EL _ _ _ Ep) as [[z Hz]|[f Hz]]; discriminate Hz. }
  destruct x as [z|b|x|x|b|n].
  - destruct k; cbn [gj_scalar is_int32_kind is_int64_kind orb] in H; discriminate H.
  - destruct k; cbn [gj_scalar] in H; discriminate H.
  - destruct k; cbn [gj_scalar] in H; discriminate H.
  - destruct k; cbn [gj_scalar] in H; discriminate H.
  - destruct k; cbn [gj_scalar] in H; try discriminate H; exact (Hfl _ _ H).
  - destruct k; cbn [gj_scalar] in H; try discriminate H.
    unfold gj_enum in H. destruct (find_enum (all_enums sc) tn) as [e|]; [|discriminate H].
    destruct (enum_codec e); [destruct (ev_by_number (e_values e) n)|]; discriminate H.
Qed.
End Scalars.

(* ================================================================================================================ *)
(* Part B: the loops of Codec.v, named *)
Section Loops.
Variable E : ExtLib.
Variable sc : schema.

Definition g_list (k : kind) : list fval -> res (list json) :=
  fix go (l : list fval) : res (list json) :=
    match l with
    | [] => ROk []
    | x :: r => gj_fval E sc k x >>= (fun j => go r >>= (fun t => ROk (j :: t)))
    end.
Definition g_map (k : kind) : list (sval * fval) -> res (list (str * json)) :=
  fix go (kv : list (sval * fval)) : res (list (str * json)) :=
    match kv with
    | [] => ROk []
    | (key, x) :: r => gj_key_text key >>= (fun kt => gj_fval E sc k x >>= (fun j => go r >>= (fun t => ROk ((kt, j) :: t))))
    end.
Lemma gj_fval_FS k x : gj_fval E sc k (FS x) = gj_scalar E sc k x.
Proof. reflexivity. Qed.
Lemma gj_fval_FL k l : gj_fval E sc k (FL l) = g_list k l >>= (fun js => ROk (JArr js)).
Proof. reflexivity. Qed.
Lemma gj_fval_FMap k kv : gj_fval E sc k (FMap kv) = g_map k kv >>= (fun es => ROk (JObj es)).
Proof. reflexivity. Qed.

(* the decoder's local functions *)
Definition list_un (n : nat) (ek : kind) (jv : json) : res (option fval) :=
  match jv with
  | JNull => ROk None
  | JArr l =>
      rall (map (fun x => gj_un E sc n ek x >>= (fun o =>
              match o with Some v => ROk v | None => RUnm (s "null element in an array") end)) l)
      >>= (fun vs => ROk (Some (FL vs)))
  | _ => RErr (s "json: cannot unmarshal into slice")
  end.
Definition map_un (n : nat) (kk ek : kind) (jv : json) : res (option fval) :=
  match jv with
  | JNull => ROk None
  | JObj kv =>
      if kind_eqb kk KBool then RErr (s "json: cannot unmarshal object into Go value of type map[bool]") else
      rall (map (fun e => key_of_text kk (fst e) >>= (fun key => gj_un E sc n ek (snd e) >>= (fun o =>
              match o with Some v => ROk (key, v) | None => RUnm (s "null map value") end))) kv)
      >>= (fun es => ROk (Some (FMap (sort_entries es))))
  | _ => RErr (s "json: cannot unmarshal into map")
  end.

(* UnmarshalJSON of the map-value unwrap codec, one declared field *)
Definition dec_field (n : nat) (raw : rawmap) (f : field) : res (option (field * fval)) :=
  match raw_get (jn f) raw with
  | None => ROk None
  | Some v =>
      (match f_card f with
       | MapOf kk =>
           match value_unwrap sc f with
           | Some uf => if is_repeated uf then unwrap_map_un E sc kk uf v >>= (fun x => ROk (Some x))
                        else RUnm (s "map value whose unwrap field is itself a map")
           | None => map_un n kk (f_kind f) v
           end
       | Repeated =>
           if is_msg_kind (f_kind f) then pj_elems E sc (f_kind f) v >>= (fun l => ROk (Some (FL l)))
           else list_un n (f_kind f) v
       | _ =>
           if is_msg_kind (f_kind f) then pj_elem E sc (f_kind f) v >>= (fun x => ROk (Some x))
           else gj_unscalar E sc (f_kind f) v >>= (fun o => ROk (option_map FS o))
       end) >>= (fun o => ROk (option_map (fun x => (f, x)) o))
  end.

Lemma gj_un_unwrap_map n tn md raw :
  is_wkt_other tn = false -> lookup_message sc tn = Some md -> owner_of sc md = Own FtUnwrapMap ->
  buildable sc FtUnwrapMap md = true ->
  gj_un E sc (S n) (KMessage tn) (JObj raw) =
  rall (map (dec_field n raw) (m_fields md)) >>= (fun ofs => ROk (Some (FM (assemble (flat_map opt_list ofs))))).
Proof. intros H1 H2 H3 H4. simpl. rewrite H1, H2, H3, H4. reflexivity. Qed.

Lemma gj_un_scalar n k j :
  is_msgk k = false -> gj_un E sc (S n) k j = gj_unscalar E sc k j >>= (fun o => ROk (option_map FS o)).
Proof. intros H. destruct k; try discriminate H; reflexivity. Qed.

(* MarshalJSON of the map-value unwrap codec, one declared field: the entries it adds *)
Definition enc_field (m : mval) (ks : kids_t) (f : field) : res (list (str * json)) :=
  match mget m (f_name f) with
  | None => ROk []
  | Some v =>
      match f_card f with
      | MapOf _ =>
          match value_unwrap sc f with
          | Some uf =>
              if is_repeated uf then
                match v with
                | FMap kv => unwrap_map_obj E sc uf kv >>= (fun j => ROk [(jn f, j)])
                | _ => RUnm (s "ill-typed map")
                end
              else RUnm (s "map value whose unwrap field is itself a map")
          | None => kid ks (f_name f) >>= (fun j => ROk [(jn f, j)])
          end
      | Repeated =>
          if is_msg_kind (f_kind f) then pj_list E sc (f_kind f) (Some v) >>= (fun j => ROk [(jn f, j)])
          else kid ks (f_name f) >>= (fun j => ROk [(jn f, j)])
      | _ =>
          if is_msg_kind (f_kind f) then pj_fval E sc (f_kind f) v >>= (fun j => ROk [(jn f, j)])
          else if go_zero (f_kind f) v then ROk []
          else kid ks (f_name f) >>= (fun j => ROk [(jn f, j)])
      end
  end.

Definition enc_step (m : mval) (ks : kids_t) (acc : res (list (str * json))) (f : field) : res (list (str * json)) :=
  acc >>= (fun out =>
    match mget m (f_name f) with
    | None => ROk out
    | Some v =>
        match f_card f with
        | MapOf _ =>
            match value_unwrap sc f with
            | Some uf =>
                if is_repeated uf then
                  match v with
                  | FMap kv => unwrap_map_obj E sc uf kv >>= (fun j => ROk (out ++ [(jn f, j)]))
                  | _ => RUnm (s "ill-typed map")
                  end
                else RUnm (s "map value whose unwrap field is itself a map")
            | None => kid ks (f_name f) >>= (fun j => ROk (out ++ [(jn f, j)]))
            end
        | Repeated =>
            if is_msg_kind (f_kind f) then pj_list E sc (f_kind f) (Some v) >>= (fun j => ROk (out ++ [(jn f, j)]))
            else kid ks (f_name f) >>= (fun j => ROk (out ++ [(jn f, j)]))
        | _ =>
            if is_msg_kind (f_kind f) then pj_fval E sc (f_kind f) v >>= (fun j => ROk (out ++ [(jn f, j)]))
            else if go_zero (f_kind f) v then ROk out
            else kid ks (f_name f) >>= (fun j => ROk (out ++ [(jn f, j)]))
        end
    end).

Lemma enc_unwrap_map_fold md m ks :
  enc_unwrap_map E sc md m ks = fold_left (enc_step m ks) (m_fields md) (ROk []) >>= (fun out => ROk (JObj out)).
Proof. reflexivity. Qed.

Lemma enc_step_field m ks acc f :
  enc_step m ks acc f = acc >>= (fun out => enc_field m ks f >>= (fun p => ROk (out ++ p))).
Proof.
  unfold enc_step, enc_field. destruct acc as [out|e|w]; cbn [rbind]; try reflexivity.
  destruct (mget m (f_name f)) as [v|]; [|cbn [rbind]; rewrite app_nil_r; reflexivity].
  destruct (f_card f) as [| | |kk].
  - destruct (is_msg_kind (f_kind f)); [destruct (pj_fval E sc (f_kind f) v); reflexivity|].
    destruct (go_zero (f_kind f) v); [cbn [rbind]; rewrite app_nil_r; reflexivity|].
    destruct (kid ks (f_name f)); reflexivity.
  - destruct (is_msg_kind (f_kind f)); [destruct (pj_fval E sc (f_kind f) v); reflexivity|].
    destruct (go_zero (f_kind f) v); [cbn [rbind]; rewrite app_nil_r; reflexivity|].
    destruct (kid ks (f_name f)); reflexivity.
  - destruct (is_msg_kind (f_kind f)); [destruct (pj_list E sc (f_kind f) (Some v)); reflexivity|].
    destruct (kid ks (f_name f)); reflexivity.
  - destruct (value_unwrap sc f) as [uf|]; [|destruct (kid ks (f_name f)); reflexivity].
    destruct (is_repeated uf); [|reflexivity].
    destruct v as [x|cm|l|kv]; try reflexivity.
    destruct (unwrap_map_obj E sc uf kv); reflexivity.
Qed.

Lemma enc_fold m ks fs : forall acc,
  fold_left (enc_step m ks) fs acc =
  acc >>= (fun out => rall (map (enc_field m ks) fs) >>= (fun ps => ROk (out ++ List.concat ps))).
Proof.
  induction fs as [|f r IH]; intros acc; cbn [fold_left map rall List.concat].
  - destruct acc; cbn [rbind]; rewrite ?app_nil_r; reflexivity.
  - rewrite IH, enc_step_field. destruct acc as [out|e|w]; cbn [rbind]; try reflexivity.
    destruct (enc_field m ks f) as [p|e|w]; cbn [rbind]; try reflexivity.
    destruct (rall (map (enc_field m ks) r)) as [ps|e|w]; cbn [rbind]; try reflexivity.
    cbn [List.concat]. rewrite app_assoc. reflexivity.
Qed.

Lemma enc_unwrap_map_pieces md m ks :
  enc_unwrap_map E sc md m ks = rall (map (enc_field m ks) (m_fields md)) >>= (fun ps => ROk (JObj (List.concat ps))).
Proof.
  rewrite enc_unwrap_map_fold, enc_fold. cbn [rbind].
  destruct (rall (map (enc_field m ks) (m_fields md))); reflexivity.
Qed.

(* an encoded field adds nothing, or one entry under its JSON name *)
Lemma enc_field_shape m ks f p : enc_field m ks f = ROk p -> p = [] \/ exists j, p = [(jn f, j)].
Proof.
  unfold enc_field. intros H.
  assert (Hb : forall (x : res json), x >>= (fun j => ROk [(jn f, j)]) = ROk p -> exists j, p = [(jn f, j)]).
  { intros x Hx. apply rbind_ok in Hx. destruct Hx as [j [_ Hx]]. inversion Hx. exists j. reflexivity. }
  destruct (mget m (f_name f)) as [v|]; [|inversion H; left; reflexivity].
  destruct (f_card f) as [| | |kk].
  - destruct (is_msg_kind (f_kind f)); [right; exact (Hb _ H)|].
    destruct (go_zero (f_kind f) v); [inversion H; left; reflexivity|right; exact (Hb _ H)].
  - destruct (is_msg_kind (f_kind f)); [right; exact (Hb _ H)|].
    destruct (go_zero (f_kind f) v); [inversion H; left; reflexivity|right; exact (Hb _ H)].
  - destruct (is_msg_kind (f_kind f)); right; exact (Hb _ H).
  - destruct (value_unwrap sc f) as [uf|]; [|right; exact (Hb _ H)].
    destruct (is_repeated uf); [|discriminate H].
    destruct v as [x|cm|l|kv]; try discriminate H. right. exact (Hb _ H).
Qed.

(* the children MarshalJSON hands to json.Marshal, looked up by field name *)
Lemma kid_of_kids md m ks :
  NullableFacts.kids_loop E sc FtUnwrapMap md m = ROk ks ->
  forall name x f, mget m name = Some x -> find_field (m_fields md) name = Some f ->
  needs_gj sc FtUnwrapMap md f = true -> kid ks name = gj_fval E sc (f_kind f) x.
Proof.
  revert ks. induction m as [|[n0 x0] r IH]; intros ks Hks name x f Hget Hf Hn; [discriminate Hget|].
  cbn [NullableFacts.kids_loop] in Hks. cbn [mget] in Hget.
  destruct (find_field (m_fields md) n0) as [f0|] eqn:Ef0; [|discriminate Hks].
  destruct (str_eqb name n0) eqn:En.
  - apply str_eqb_eq in En. subst n0. inversion Hget; subst x0. rewrite Hf in Ef0. inversion Ef0; subst f0.
    rewrite Hn in Hks.
    destruct (gj_fval E sc (f_kind f) x) as [j|e|w] eqn:Eg; try discriminate Hks;
      apply rbind_ok in Hks; destruct Hks as [t [_ Hks]]; inversion Hks; subst ks;
      cbn [kid]; rewrite str_eqb_refl; reflexivity.
  - assert (Hrest : forall ks', NullableFacts.kids_loop E sc FtUnwrapMap md r = ROk ks' -> kid ks' name = gj_fval E sc (f_kind f) x).
    { intros ks' Hk. exact (IH ks' Hk name x f Hget Hf Hn). }
    destruct (needs_gj sc FtUnwrapMap md f0).
    + destruct (gj_fval E sc (f_kind f0) x0) as [j|e|w]; try discriminate Hks;
        apply rbind_ok in Hks; destruct Hks as [t [Ht Hks]]; inversion Hks; subst ks;
        cbn [kid]; rewrite En; exact (Hrest t Ht).
    + exact (Hrest ks Hks).
Qed.
End Loops.

(* ================================================================================================================ *)
(* Part D: values through the codec and back *)

Lemma is_msg_kind_msgk k : is_msg_kind k = is_msgk k.
Proof. reflexivity. Qed.

Lemma find_field_none fs n : find_field fs n = None -> forall f, In f fs -> f_name f <> n.
Proof.
  induction fs as [|g r IH]; intros H f Hin; [contradiction|]. cbn [find_field] in H.
  destruct (str_eqb (f_name g) n) eqn:Eg; [discriminate H|].
  destruct Hin as [Hin|Hin]; [subst g; intros Hn; subst n; rewrite str_eqb_refl in Eg; discriminate Eg|exact (IH H f Hin)].
Qed.

Lemma find_field_complete md f :
  msg_ok md = true -> In f (m_fields md) -> find_field (m_fields md) (f_name f) = Some f.
Proof.
  intros Hok Hin. pose proof (Int64Facts.msg_ok_nodup_jn md Hok) as Hnd.
  destruct (find_field (m_fields md) (f_name f)) as [g|] eqn:Eg.
  - destruct (find_field_spec _ _ _ Eg) as [Hg Hn]. f_equal.
    apply (NullableFacts.nodup_jn_inj (m_fields md) g f Hnd Hg Hin). unfold jn. rewrite Hn. reflexivity.
  - exfalso. exact (find_field_none _ _ Eg f Hin eq_refl).
Qed.

Lemma unwrap_field_in md uf : unwrap_field md = Some uf -> In uf (m_fields md).
Proof.
  unfold unwrap_field, unwrap_fields. intros H.
  destruct (filter (fun f => f_unwrap f) (m_fields md)) as [|f [|g r]] eqn:Ef; try discriminate H.
  destruct (is_repeated f || is_map f); [|discriminate H]. inversion H; subst f.
  assert (Hin : In uf (filter (fun f => f_unwrap f) (m_fields md))) by (rewrite Ef; left; reflexivity).
  apply filter_In in Hin. apply Hin.
Qed.

Lemma filter_name_miss (wm : mval) name :
  mget wm name = None -> filter (fun we : str * fval => str_eqb (fst we) name) wm = [].
Proof.
  induction wm as [|[n0 x0] r IH]; intros H; [reflexivity|]. cbn [mget] in H. cbn [filter fst].
  rewrite Int64Facts.str_eqb_sym. destruct (str_eqb name n0); [discriminate H|exact (IH H)].
Qed.

Lemma filter_name_hit (wm : mval) name x :
  NullableFacts.nodup_str (map fst wm) = true -> In (name, x) wm ->
  filter (fun we : str * fval => str_eqb (fst we) name) wm = [(name, x)].
Proof.
  induction wm as [|[n0 x0] r IH]; intros Hnd Hin; [contradiction|].
  cbn [map fst NullableFacts.nodup_str] in Hnd. apply andb_prop in Hnd. destruct Hnd as [Hhd Hr].
  apply Bool.negb_true_iff in Hhd. apply EmptyFacts.existsb_str_notin in Hhd.
  cbn [filter fst]. destruct Hin as [Hin|Hin].
  - inversion Hin; subst n0 x0. rewrite str_eqb_refl. f_equal. apply filter_name_miss.
    destruct (mget r name) as [y|] eqn:Eg; [|reflexivity]. exfalso. apply Hhd.
    exact (NullableFacts.mget_some_in r name y Eg).
  - destruct (str_eqb n0 name) eqn:En.
    + exfalso. apply str_eqb_eq in En. subst n0. apply Hhd. apply in_map_iff. exists (name, x). split; [reflexivity|exact Hin].
    + exact (IH Hr Hin).
Qed.

Lemma wrapper_of_cons uf e l : wrapper_of uf (e :: l) = FM [(f_name uf, FL (e :: l))].
Proof. reflexivity. Qed.
Lemma wrapper_of_nil uf : wrapper_of uf [] = FM [].
Proof. reflexivity. Qed.

Lemma sw_value_fst uf kv : map fst (map (EmptyFacts.sw_value uf) kv) = map fst kv.
Proof.
  induction kv as [|[key w] r IH]; [reflexivity|]. cbn [map]. rewrite IH. f_equal.
  unfold EmptyFacts.sw_value. cbn [fst snd]. destruct w; reflexivity.
Qed.

Lemma gj_key_text_pj key t : gj_key_text key = ROk t -> key_text key = ROk t.
Proof. destruct key; cbn; intros H; try discriminate H; exact H. Qed.

Section RT.
Variable E : ExtLib.
Hypothesis EL : ExtLaws E.
Variable sc : schema.

Definition gj_ok (k : kind) (v : fval) : bool := forallb (enum_gj_rt sc k) (enum_nums v).

Lemma gj_ok_FL_cons k x r : gj_ok k (FL (x :: r)) = gj_ok k x && gj_ok k (FL r).
Proof. unfold gj_ok. change (enum_nums (FL (x :: r))) with (enum_nums x ++ enum_nums (FL r)). apply forallb_app. Qed.
Lemma gj_ok_FMap_cons k key x r : gj_ok k (FMap ((key, x) :: r)) = gj_ok k x && gj_ok k (FMap r).
Proof. unfold gj_ok. change (enum_nums (FMap ((key, x) :: r))) with (enum_nums x ++ enum_nums (FMap r)). apply forallb_app. Qed.
Lemma gj_ok_FS k x : gj_ok k (FS x) = true -> sval_gj_ok sc k x = true.
Proof.
  destruct x; try reflexivity. unfold gj_ok. cbn [enum_nums forallb sval_gj_ok].
  rewrite Bool.andb_true_r. auto.
Qed.

Definition all_wt (k : kind) : list fval -> bool :=
  fix all (l : list fval) : bool := match l with [] => true | y :: t => wt sc k y && all t end.
Definition all_wt_kv (kk k : kind) : list (sval * fval) -> bool :=
  fix all (kv : list (sval * fval)) : bool :=
    match kv with [] => true | (key, y) :: t => wt_key kk key && wt sc k y && all t end.
Lemma all_wt_cons k y t : all_wt k (y :: t) = wt sc k y && all_wt k t.
Proof. reflexivity. Qed.
Lemma all_wt_kv_cons kk k key y t : all_wt_kv kk k ((key, y) :: t) = wt_key kk key && wt sc k y && all_wt_kv kk k t.
Proof. reflexivity. Qed.
Lemma g_list_cons k x r :
  g_list E sc k (x :: r) = gj_fval E sc k x >>= (fun j => g_list E sc k r >>= (fun t => ROk (j :: t))).
Proof. reflexivity. Qed.
Lemma g_map_cons k key x r :
  g_map E sc k ((key, x) :: r) =
  gj_key_text key >>= (fun kt => gj_fval E sc k x >>= (fun j => g_map E sc k r >>= (fun t => ROk ((kt, j) :: t)))).
Proof. reflexivity. Qed.

(* json.Marshal wrote the map, so its keys are no bools: the target map is one json.Unmarshal accepts *)
Lemma g_map_not_boolkey kk k e kv es :
  all_wt_kv kk k (e :: kv) = true -> g_map E sc k (e :: kv) = ROk es -> kind_eqb kk KBool = false.
Proof.
  intros Hwe Hes. destruct e as [key y]. rewrite all_wt_kv_cons in Hwe. apply andb_prop in Hwe. destruct Hwe as [Hwk _].
  apply andb_prop in Hwk. destruct Hwk as [Hwk _].
  rewrite g_map_cons in Hes. apply rbind_ok in Hes. destruct Hes as [kt [Hkt _]].
  destruct key as [z|b|y0|y0|b|z]; try discriminate Hkt; destruct kk; try discriminate Hwk; reflexivity.
Qed.

Lemma pj_rt_any v k j : wt sc k v = true -> pj_fval E sc k v = ROk j -> pj_un E sc k j = ROk v.
Proof. exact (Q_of_PP E sc v (pj_roundtrip_fval E EL sc v) k j). Qed.

Lemma wt_nonmsg_scalar k y : is_msgk k = false -> wt sc k y = true -> exists x, y = FS x /\ wt_scalar sc k x = true.
Proof.
  intros Hk Hw. destruct y as [x|cm|l|kv]; try discriminate Hw.
  - exists x. split; [reflexivity|]. cbn [wt] in Hw. rewrite Hk in Hw. exact Hw.
  - destruct k; try discriminate Hw. discriminate Hk.
Qed.

Lemma wt_msg_shape tn y : wt sc (KMessage tn) y = true -> exists cm, y = FM cm.
Proof. destruct y as [x|cm|l|kv]; intros H; try discriminate H. exists cm. reflexivity. Qed.

(* repeated scalars through json.Marshal / json.Unmarshal *)
Lemma g_list_scalar_rt n k l : is_msgk k = false -> forall js,
  all_wt k l = true -> gj_ok k (FL l) = true -> g_list E sc k l = ROk js ->
  rall (map (fun x => gj_un E sc (S n) k x >>= (fun o =>
          match o with Some v => ROk v | None => RUnm (s "null element in an array") end)) js) = ROk l.
Proof.
  intros Hk. induction l as [|y t IH]; intros js Hw Hg Hj.
  - inversion Hj. reflexivity.
  - rewrite all_wt_cons in Hw. apply andb_prop in Hw. destruct Hw as [Hwy Hwt].
    rewrite gj_ok_FL_cons in Hg. apply andb_prop in Hg. destruct Hg as [Hgy Hgt].
    rewrite g_list_cons in Hj. apply rbind_ok in Hj. destruct Hj as [j [Hjy Hj]].
    apply rbind_ok in Hj. destruct Hj as [js' [Hjs Hj]]. inversion Hj; subst js.
    destruct (wt_nonmsg_scalar k y Hk Hwy) as [x [Hy Hws]]. subst y. rewrite gj_fval_FS in Hjy.
    cbn [map rall]. rewrite (gj_un_scalar E sc n k j Hk), (gj_scalar_rt E EL sc k x j Hk Hws (gj_ok_FS k x Hgy) Hjy).
    cbn [rbind option_map]. rewrite (IH js' Hwt Hgt Hjs). reflexivity.
Qed.

(* the scalar items of a wrapper *)
Lemma scalar_list_rt k l : is_msgk k = false -> forall js,
  all_wt k l = true -> gj_ok k (FL l) = true ->
  rall (map (fun v => match v with FS x => gj_scalar E sc k x | _ => RUnm (s "ill-typed list") end) l) = ROk js ->
  rall (map (fun x => gj_unscalar E sc k x >>= (fun o =>
          match o with Some v => ROk (FS v) | None => RUnm (s "null element in a scalar array") end)) js) = ROk l.
Proof.
  intros Hk. induction l as [|y t IH]; intros js Hw Hg Hj.
  - inversion Hj. reflexivity.
  - rewrite all_wt_cons in Hw. apply andb_prop in Hw. destruct Hw as [Hwy Hwt].
    rewrite gj_ok_FL_cons in Hg. apply andb_prop in Hg. destruct Hg as [Hgy Hgt].
    cbn [map rall] in Hj. apply rbind_ok in Hj. destruct Hj as [j [Hjy Hj]].
    apply rbind_ok in Hj. destruct Hj as [js' [Hjs Hj]]. inversion Hj; subst js.
    destruct (wt_nonmsg_scalar k y Hk Hwy) as [x [Hy Hws]]. subst y.
    cbn [map rall]. rewrite (gj_scalar_rt E EL sc k x j Hk Hws (gj_ok_FS k x Hgy) Hjy).
    cbn [rbind]. rewrite (IH js' Hwt Hgt Hjs). reflexivity.
Qed.

(* message items through protojson *)
Lemma pj_list_rt k l : forall js,
  all_wt k l = true -> rall (map (pj_fval E sc k) l) = ROk js -> rall (map (pj_elem E sc k) js) = ROk l.
Proof.
  induction l as [|y t IH]; intros js Hw Hj.
  - inversion Hj. reflexivity.
  - rewrite all_wt_cons in Hw. apply andb_prop in Hw. destruct Hw as [Hwy Hwt].
    cbn [map rall] in Hj. apply rbind_ok in Hj. destruct Hj as [j [Hjy Hj]].
    apply rbind_ok in Hj. destruct Hj as [js' [Hjs Hj]]. inversion Hj; subst js.
    cbn [map rall]. unfold pj_elem at 1. rewrite (pj_rt_any y k j Hwy Hjy). cbn [rbind].
    rewrite (IH js' Hwt Hjs). reflexivity.
Qed.

(* a scalar map through json.Marshal / json.Unmarshal *)
Lemma g_map_scalar_rt n kk k kv : is_msgk k = false -> forall es,
  all_wt_kv kk k kv = true -> gj_ok k (FMap kv) = true -> g_map E sc k kv = ROk es ->
  rall (map (fun e => key_of_text kk (fst e) >>= (fun key => gj_un E sc (S n) k (snd e) >>= (fun o =>
          match o with Some v => ROk (key, v) | None => RUnm (s "null map value") end))) es) = ROk kv.
Proof.
  intros Hk. induction kv as [|[key y] t IH]; intros es Hw Hg Hj.
  - inversion Hj. reflexivity.
  - rewrite all_wt_kv_cons in Hw. apply andb_prop in Hw. destruct Hw as [Hw Hwt].
    apply andb_prop in Hw. destruct Hw as [Hwk Hwy].
    rewrite gj_ok_FMap_cons in Hg. apply andb_prop in Hg. destruct Hg as [Hgy Hgt].
    rewrite g_map_cons in Hj. apply rbind_ok in Hj. destruct Hj as [kt [Hkt Hj]].
    apply rbind_ok in Hj. destruct Hj as [j [Hjy Hj]].
    apply rbind_ok in Hj. destruct Hj as [es' [Hes Hj]]. inversion Hj; subst es.
    destruct (wt_nonmsg_scalar k y Hk Hwy) as [x [Hy Hws]]. subst y. rewrite gj_fval_FS in Hjy.
    cbn [map rall fst snd]. rewrite (key_rt kk key kt Hwk (gj_key_text_pj key kt Hkt)). cbn [rbind].
    rewrite (gj_un_scalar E sc n k j Hk), (gj_scalar_rt E EL sc k x j Hk Hws (gj_ok_FS k x Hgy) Hjy).
    cbn [rbind option_map]. rewrite (IH es' Hwt Hgt Hes). reflexivity.
Qed.

(* ---- one wrapper: &T{F: items} keeps exactly the unwrap field ------------------------------------------------ *)
Lemma unwrap_array_rt uf vtn vmd wm a :
  find_message (all_messages sc) vtn = Some vmd -> str_eqb vtn ts_name = false ->
  unwrap_field vmd = Some uf -> is_repeated uf = true ->
  wt sc (KMessage vtn) (FM wm) = true ->
  match mget wm (f_name uf) with Some x => gj_ok (f_kind uf) x | None => true end = true ->
  unwrap_array E sc uf (FM wm) = ROk a ->
  unwrap_items E sc uf a = ROk (FM (filter (fun we : str * fval => str_eqb (fst we) (f_name uf)) wm)).
Proof.
  intros Hfm Hts Huf Hrep Hwt Hgj Ha.
  rewrite wt_FM, Hts, Hfm in Hwt. apply andb_prop in Hwt. destruct Hwt as [_ Hwt].
  apply andb_prop in Hwt. destruct Hwt as [Hwt Hwf]. apply andb_prop in Hwt. destruct Hwt as [Hok Hsorted].
  pose proof (TimestampFacts.sorted_names_nodup vmd wm Hsorted) as Hnames.
  pose proof (unwrap_field_in vmd uf Huf) as Hin.
  pose proof (find_field_complete vmd uf Hok Hin) as Hff.
  unfold unwrap_array in Ha. unfold unwrap_items.
  destruct (mget wm (f_name uf)) as [x|] eqn:Eg.
  - pose proof (Int64Facts.mget_pair wm _ x Eg) as Hinw.
    destruct (Int64Facts.wt_fields_in sc vmd wm _ x Hwf Hinw) as [f' [Hf' Hwe]].
    rewrite Hff in Hf'. inversion Hf'; subst f'. clear Hf'.
    rewrite (filter_name_hit wm _ x Hnames Hinw).
    assert (Hc : f_card uf = Repeated) by (unfold is_repeated in Hrep; destruct (f_card uf); try discriminate Hrep; reflexivity).
    unfold wt_entry in Hwe. rewrite Hc in Hwe.
    destruct x as [sx|cm|[|e l]|kv]; try discriminate Hwe.
    change (all_wt (f_kind uf) (e :: l) = true) in Hwe.
    destruct (is_msg_kind (f_kind uf)) eqn:Emk.
    + cbn [pj_list] in Ha. apply rbind_ok in Ha. destruct Ha as [js [Hjs Ha]]. inversion Ha; subst a.
      cbn [pj_elems]. rewrite (pj_list_rt (f_kind uf) (e :: l) js Hwe Hjs). cbn [rbind].
      rewrite wrapper_of_cons. reflexivity.
    + unfold gj_scalar_list in Ha. apply rbind_ok in Ha. destruct Ha as [js [Hjs Ha]]. inversion Ha; subst a.
      cbn [scalar_elems]. rewrite (scalar_list_rt (f_kind uf) (e :: l) Emk js Hwe Hgj Hjs). cbn [rbind].
      rewrite wrapper_of_cons. reflexivity.
  - rewrite (filter_name_miss wm _ Eg).
    destruct (is_msg_kind (f_kind uf)); cbn [pj_list] in Ha; inversion Ha; subst a; reflexivity.
Qed.

Definition wrappers_ok (uf : field) (kv : list (sval * fval)) : bool :=
  forallb (fun e => match snd e with
                    | FM wm => match mget wm (f_name uf) with Some x => gj_ok (f_kind uf) x | None => true end
                    | _ => true
                    end) kv.

Lemma unwrap_map_rt uf vtn vmd kv : 
  find_message (all_messages sc) vtn = Some vmd -> str_eqb vtn ts_name = false ->
  unwrap_field vmd = Some uf -> is_repeated uf = true -> forall es,
  all_wt_kv KString (KMessage vtn) kv = true -> wrappers_ok uf kv = true ->
  rall (map (fun e => key_text (fst e) >>= (fun k => unwrap_array E sc uf (snd e) >>= (fun a => ROk (k, a)))) kv) = ROk es ->
  rall (map (fun e => key_of_text KString (fst e) >>= (fun k => unwrap_items E sc uf (snd e) >>= (fun w => ROk (k, w)))) es)
  = ROk (map (EmptyFacts.sw_value uf) kv).
Proof.
  intros Hfm Hts Huf Hrep. induction kv as [|[key w] t IH]; intros es Hw Hg Hj.
  - inversion Hj. reflexivity.
  - rewrite all_wt_kv_cons in Hw. apply andb_prop in Hw. destruct Hw as [Hw Hwt].
    apply andb_prop in Hw. destruct Hw as [Hwk Hww].
    cbn [wrappers_ok forallb] in Hg. apply andb_prop in Hg. destruct Hg as [Hgw Hgt].
    cbn [map rall fst snd] in Hj. apply rbind_ok in Hj. destruct Hj as [p [Hp Hj]].
    apply rbind_ok in Hj. destruct Hj as [es' [Hes Hj]]. inversion Hj; subst es.
    apply rbind_ok in Hp. destruct Hp as [kt [Hkt Hp]]. apply rbind_ok in Hp. destruct Hp as [a [Ha Hp]].
    inversion Hp; subst p.
    destruct (wt_msg_shape vtn w Hww) as [wm Hwm]. subst w. cbn [snd] in Hgw.
    cbn [map rall fst snd].
    fold (wrappers_ok uf t) in Hgt. rewrite (IH es' Hwt Hgt Hes).
    rewrite (unwrap_array_rt uf vtn vmd wm a Hfm Hts Huf Hrep Hww Hgw Ha).
    destruct key as [z|b|x|x|b|z]; try discriminate Hwk. cbn in Hkt. inversion Hkt; subst kt. reflexivity.
Qed.

(* ================================================================================================================ *)
(* Part F: a message value through encoding/json's reflection over the protoc-gen-go struct and back
   (`json:"<proto_name>,omitempty"` tags; keys are proto names; int64 are numbers; nested structs recurse).
   Proved for un-annotated values: every message met owns no codec (a Timestamp is the struct {seconds, nanos}),
   no present-but-empty bytes field (omitempty drops it), enum numbers as in Part A. *)
Fixpoint reflectable (k : kind) (v : fval) {struct v} : bool :=
  match v with
  | FS x => sval_gj_ok sc k x
  | FL l => (fix all (l : list fval) : bool := match l with [] => true | y :: t => reflectable k y && all t end) l
  | FMap kv => (fix all (kv : list (sval * fval)) : bool :=
                  match kv with [] => true | (_, y) :: t => reflectable k y && all t end) kv
  | FM cm =>
      match k with
      | KMessage tn =>
          if str_eqb tn ts_name then true else
          match find_message (all_messages sc) tn with
          | Some md =>
              match owner_of sc md with OwnNone => true | _ => false end &&
              (fix go (cm : list (str * fval)) : bool :=
                 match cm with
                 | [] => true
                 | (name, x) :: r =>
                     match find_field (m_fields md) name with
                     | Some f => negb (match x with FS (VBytes []) => true | _ => false end) &&
                                 reflectable (f_kind f) x && go r
                     | None => false
                     end
                 end) cm
          | None => false
          end
      | _ => false
      end
  end.

Definition refl_fields (md : message) : list (str * fval) -> bool :=
  fix go (cm : list (str * fval)) : bool :=
    match cm with
    | [] => true
    | (name, x) :: r =>
        match find_field (m_fields md) name with
        | Some f => negb (match x with FS (VBytes []) => true | _ => false end) && reflectable (f_kind f) x && go r
        | None => false
        end
    end.
Lemma reflectable_FM tn cm :
  reflectable (KMessage tn) (FM cm) =
  if str_eqb tn ts_name then true else
  match find_message (all_messages sc) tn with
  | Some md => match owner_of sc md with OwnNone => true | _ => false end && refl_fields md cm
  | None => false
  end.
Proof. reflexivity. Qed.
Lemma reflectable_FL_cons k y t : reflectable k (FL (y :: t)) = reflectable k y && reflectable k (FL t).
Proof. reflexivity. Qed.
Lemma reflectable_FMap_cons k key y t : reflectable k (FMap ((key, y) :: t)) = reflectable k y && reflectable k (FMap t).
Proof. reflexivity. Qed.

(* the reflection encoder's loop over the populated fields *)
Definition g_msg (md : message) : list (str * fval) -> res (list (str * json)) :=
  fix go (m : list (str * fval)) : res (list (str * json)) :=
    match m with
    | [] => ROk []
    | (name, x) :: r =>
        match find_field (m_fields md) name with
        | None => RUnm (s "value names an undeclared field")
        | Some f =>
            match x with
            | FS (VBytes []) => go r
            | _ => gj_fval E sc (f_kind f) x >>= (fun j => go r >>= (fun t => ROk ((name, j) :: t)))
            end
        end
    end.
Lemma gj_fval_reflect tn md m :
  is_wkt_other tn = false -> lookup_message sc tn = Some md -> owner_of sc md = OwnNone ->
  gj_fval E sc (KMessage tn) (FM m) =
  if real_oneof_set md m then RUnm (s "encoding/json on a struct with a populated oneof")
  else g_msg md m >>= (fun es => ROk (JObj es)).
Proof. intros H1 H2 H3. simpl. rewrite H1, H2, H3. reflexivity. Qed.

Definition dec_entry (n : nat) (md : message) (e : str * json) : res (option (field * fval)) :=
  match field_by_fold md (fst e) with
  | None => ROk None
  | Some f =>
      (match f_card f with
       | Repeated => list_un E sc n (f_kind f) (snd e)
       | MapOf kk => map_un E sc n kk (f_kind f) (snd e)
       | _ => gj_un E sc n (f_kind f) (snd e)
       end) >>= (fun o => ROk (option_map (fun v => (f, v)) o))
  end.
(* the struct fields the keys of an object address (exact name, else case-folded) *)
Definition key_fields (md : message) (kv : list (str * json)) : list field :=
  flat_map (fun e => opt_list (field_by_fold md (fst e))) kv.
Lemma gj_un_reflect n tn md kv :
  is_wkt_other tn = false -> lookup_message sc tn = Some md -> owner_of sc md = OwnNone ->
  has_real_oneof md = false ->
  gj_un E sc (S n) (KMessage tn) (JObj kv) =
  if clash_unm (key_fields md kv)
  then RUnm (s "two keys of one object address the same slice, map, pointer or struct field") else
  rall (map (dec_entry n md) kv) >>= (fun ofs => ROk (Some (FM (assemble (last_wins (flat_map opt_list ofs)))))).
Proof. intros H1 H2 H3 H4. simpl. rewrite H1, H2, H3, H4. reflexivity. Qed.

Lemma msg_ok_no_oneof md : msg_ok md = true -> forall f, In f (m_fields md) -> f_oneof f = None.
Proof.
  intros Hok f Hin. unfold msg_ok in Hok. apply andb_prop in Hok. destruct Hok as [_ Hall].
  rewrite forallb_forall in Hall. specialize (Hall f Hin). apply andb_prop in Hall. destruct Hall as [_ Ho].
  destruct (f_oneof f); [discriminate Ho|reflexivity].
Qed.
Lemma msg_ok_has_no_oneof md : msg_ok md = true -> has_real_oneof md = false.
Proof.
  intros Hok. unfold has_real_oneof.
  destruct (existsb (fun f => match f_oneof f with Some _ => true | None => false end) (m_fields md)) eqn:Hex; [|reflexivity].
  apply existsb_exists in Hex. destruct Hex as [f [Hin Hf]]. rewrite (msg_ok_no_oneof md Hok f Hin) in Hf. discriminate Hf.
Qed.
Lemma msg_ok_oneof_unset md m : msg_ok md = true -> real_oneof_set md m = false.
Proof.
  intros Hok. unfold real_oneof_set.
  destruct (existsb (fun f => match f_oneof f, mget m (f_name f) with Some _, Some _ => true | _, _ => false end) (m_fields md)) eqn:Hex;
    [|reflexivity].
  apply existsb_exists in Hex. destruct Hex as [f [Hin Hf]]. rewrite (msg_ok_no_oneof md Hok f Hin) in Hf. discriminate Hf.
Qed.

(* sizes: the fuel [decode] supplies covers every nested value *)
Lemma json_size_pos j : (1 <= json_size j)%nat.
Proof. destruct j; cbn [json_size]; lia. Qed.
Lemma json_size_arr_cons x r : json_size (JArr (x :: r)) = (json_size x + json_size (JArr r))%nat.
Proof. cbn [json_size fold_right]. lia. Qed.
Lemma json_size_obj_cons k v r : json_size (JObj ((k, v) :: r)) = (json_size v + json_size (JObj r))%nat.
Proof. cbn [json_size]. lia. Qed.
Lemma json_size_obj_in k v kv : In (k, v) kv -> (json_size v < json_size (JObj kv))%nat.
Proof.
  induction kv as [|[k0 v0] r IH]; intros Hin; [contradiction|]. rewrite json_size_obj_cons.
  pose proof (json_size_pos (JObj r)). pose proof (json_size_pos v0).
  destruct Hin as [Hin|Hin]; [inversion Hin; subst; lia|specialize (IH Hin); lia].
Qed.

(* the statement proved by induction on the value *)
Definition R (v : fval) : Prop :=
  forall k j n, wt sc k v = true -> reflectable k v = true -> gj_fval E sc k v = ROk j ->
                (json_size j <= n)%nat -> gj_un E sc (S n) k j = ROk (Some v).
Definition RR (v : fval) : Prop :=
  match v with
  | FL l => Forall R l
  | FMap kv => Forall (fun e => R (snd e)) kv
  | _ => R v
  end.
Lemma R_of_RR v : RR v -> R v.
Proof. destruct v; cbn [RR]; auto; intros _ k j n Hwt; cbn [wt] in Hwt; discriminate Hwt. Qed.

Lemma refl_list_rt n k l : Forall R l -> forall js,
  all_wt k l = true -> reflectable k (FL l) = true -> g_list E sc k l = ROk js -> (json_size (JArr js) <= n)%nat ->
  rall (map (fun x => gj_un E sc (S n) k x >>= (fun o =>
          match o with Some v => ROk v | None => RUnm (s "null element in an array") end)) js) = ROk l.
Proof.
  induction 1 as [|y t Hy _ IH]; intros js Hw Hr Hj Hn.
  - inversion Hj. reflexivity.
  - rewrite all_wt_cons in Hw. apply andb_prop in Hw. destruct Hw as [Hwy Hwt].
    rewrite reflectable_FL_cons in Hr. apply andb_prop in Hr. destruct Hr as [Hry Hrt].
    rewrite g_list_cons in Hj. apply rbind_ok in Hj. destruct Hj as [j [Hjy Hj]].
    apply rbind_ok in Hj. destruct Hj as [js' [Hjs Hj]]. inversion Hj; subst js.
    rewrite json_size_arr_cons in Hn. pose proof (json_size_pos j). pose proof (json_size_pos (JArr js')).
    cbn [map rall]. rewrite (Hy k j n Hwy Hry Hjy) by lia. cbn [rbind].
    rewrite (IH js' Hwt Hrt Hjs) by lia. reflexivity.
Qed.

Lemma refl_map_rt n kk k kv : Forall (fun e => R (snd e)) kv -> forall es,
  all_wt_kv kk k kv = true -> reflectable k (FMap kv) = true -> g_map E sc k kv = ROk es ->
  (json_size (JObj es) <= n)%nat ->
  rall (map (fun e => key_of_text kk (fst e) >>= (fun key => gj_un E sc (S n) k (snd e) >>= (fun o =>
          match o with Some v => ROk (key, v) | None => RUnm (s "null map value") end))) es) = ROk kv.
Proof.
  induction 1 as [|[key y] t Hy _ IH]; intros es Hw Hr Hj Hn.
  - inversion Hj. reflexivity.
  - rewrite all_wt_kv_cons in Hw. apply andb_prop in Hw. destruct Hw as [Hw Hwt].
    apply andb_prop in Hw. destruct Hw as [Hwk Hwy].
    rewrite reflectable_FMap_cons in Hr. apply andb_prop in Hr. destruct Hr as [Hry Hrt].
    rewrite g_map_cons in Hj. apply rbind_ok in Hj. destruct Hj as [kt [Hkt Hj]].
    apply rbind_ok in Hj. destruct Hj as [j [Hjy Hj]].
    apply rbind_ok in Hj. destruct Hj as [es' [Hes Hj]]. inversion Hj; subst es.
    rewrite json_size_obj_cons in Hn. pose proof (json_size_pos j). pose proof (json_size_pos (JObj es')).
    cbn [snd] in Hy.
    cbn [map rall fst snd]. rewrite (key_rt kk key kt Hwk (gj_key_text_pj key kt Hkt)). cbn [rbind].
    rewrite (Hy k j n Hwy Hry Hjy) by lia. cbn [rbind].
    rewrite (IH es' Hwt Hrt Hes) by lia. reflexivity.
Qed.

(* one populated field of a reflected struct *)
Lemma refl_entry_rt n f x j :
  RR x -> wt_entry sc f x = true -> reflectable (f_kind f) x = true ->
  gj_fval E sc (f_kind f) x = ROk j -> (json_size j < n)%nat ->
  match f_card f with
  | Repeated => list_un E sc n (f_kind f) j
  | MapOf kk => map_un E sc n kk (f_kind f) j
  | _ => gj_un E sc n (f_kind f) j
  end = ROk (Some x) /\ populated f x = true.
Proof.
  intros HR Hwe Hr Hj Hn. destruct n as [|n]; [lia|]. assert (Hn' : (json_size j <= n)%nat) by lia. clear Hn.
  unfold wt_entry in Hwe.
  destruct x as [sx|cm|l|kv].
  - assert (Hc : (wt sc (f_kind f) (FS sx) && populated f (FS sx)) = true /\
                 match f_card f with Singular | Optional => True | _ => False end).
    { destruct (f_card f); try discriminate Hwe; split; auto. }
    destruct Hc as [Hw Hcard]. apply andb_prop in Hw. destruct Hw as [Hwt Hpop].
    split; [|exact Hpop]. pose proof (HR (f_kind f) j n Hwt Hr Hj Hn') as Hu.
    destruct (f_card f); try contradiction; exact Hu.
  - assert (Hc : wt sc (f_kind f) (FM cm) = true /\ match f_card f with Singular | Optional => True | _ => False end).
    { destruct (f_card f); try discriminate Hwe; split; auto. }
    destruct Hc as [Hwt Hcard]. split; [|reflexivity].
    pose proof (HR (f_kind f) j n Hwt Hr Hj Hn') as Hu.
    destruct (f_card f); try contradiction; exact Hu.
  - destruct l as [|e l]; [destruct (f_card f); discriminate Hwe|].
    assert (Hc : f_card f = Repeated) by (destruct (f_card f); try discriminate Hwe; reflexivity).
    rewrite Hc in Hwe |- *. change (all_wt (f_kind f) (e :: l) = true) in Hwe. split; [|reflexivity].
    rewrite gj_fval_FL in Hj. apply rbind_ok in Hj. destruct Hj as [js [Hjs Hj]]. inversion Hj; subst j.
    cbn [list_un]. rewrite (refl_list_rt n (f_kind f) (e :: l) HR js Hwe Hr Hjs Hn'). reflexivity.
  - destruct kv as [|e kv]; [destruct (f_card f); discriminate Hwe|].
    destruct (f_card f) as [| | |kk] eqn:Hc; try discriminate Hwe.
    apply andb_prop in Hwe. destruct Hwe as [Hs Hwe]. change (all_wt_kv kk (f_kind f) (e :: kv) = true) in Hwe.
    split; [|reflexivity].
    rewrite gj_fval_FMap in Hj. apply rbind_ok in Hj. destruct Hj as [es [Hes Hj]]. inversion Hj; subst j.
    cbn [map_un]. rewrite (g_map_not_boolkey kk (f_kind f) e kv es Hwe Hes), (refl_map_rt n kk (f_kind f) (e :: kv) HR es Hwe Hr Hes Hn'). cbn [rbind].
    rewrite (sorted_key_sort _ Hs). reflexivity.
Qed.

Lemma field_by_fold_exact md name f : find_field (m_fields md) name = Some f -> field_by_fold md name = Some f.
Proof. intros H. unfold field_by_fold. rewrite H. reflexivity. Qed.

Lemma refl_fields_rt n md cm : Forall (fun e => RR (snd e)) cm -> forall es,
  wt_fields sc md cm = true -> refl_fields md cm = true -> g_msg md cm = ROk es ->
  (json_size (JObj es) <= n)%nat ->
  exists fvs, rall (map (dec_entry n md) es) = ROk (map Some fvs) /\ Forall2 (rel md) cm fvs /\
              key_fields md es = map fst fvs.
Proof.
  induction 1 as [|[name x] r Hx _ IH]; intros es Hw Hr Hj Hn.
  - inversion Hj. exists []. split; [reflexivity|split; [constructor|reflexivity]].
  - cbn [wt_fields] in Hw. cbn [refl_fields] in Hr. cbn [g_msg] in Hj.
    destruct (find_field (m_fields md) name) as [f|] eqn:Ef; [|discriminate Hw].
    apply andb_prop in Hw. destruct Hw as [Hwe Hwr].
    apply andb_prop in Hr. destruct Hr as [Hr Hrr]. apply andb_prop in Hr. destruct Hr as [Hnb Hrx].
    assert (Hj' : gj_fval E sc (f_kind f) x >>= (fun j => g_msg md r >>= (fun t => ROk ((name, j) :: t))) = ROk es).
    { destruct x as [[z|b|y|[|c y]|b|z]|cm|l|kv]; try exact Hj. discriminate Hnb. }
    clear Hj. apply rbind_ok in Hj'. destruct Hj' as [j [Hjx Hj]].
    apply rbind_ok in Hj. destruct Hj as [t [Ht Hj]]. inversion Hj; subst es.
    rewrite json_size_obj_cons in Hn. pose proof (json_size_pos j). pose proof (json_size_pos (JObj t)).
    destruct (IH t Hwr Hrr Ht) as [fvs [Hu [Hrel Hkf]]]; [lia|].
    cbn [snd] in Hx.
    destruct (refl_entry_rt n f x j Hx Hwe Hrx Hjx) as [Hdec Hpop]; [lia|].
    exists ((f, x) :: fvs). split; [|split].
    + cbn [map rall]. unfold dec_entry at 1. cbn [fst snd]. rewrite (field_by_fold_exact md name f Ef), Hdec.
      cbn [rbind option_map]. rewrite Hu. reflexivity.
    + constructor; [|exact Hrel]. unfold rel. cbn [fst snd]. auto.
    + unfold key_fields in *. cbn [flat_map map fst]. rewrite (field_by_fold_exact md name f Ef), Hkf. reflexivity.
Qed.

Lemma flat_map_opt_some {A} (l : list A) : flat_map opt_list (map Some l) = l.
Proof. induction l as [|x r IH]; [reflexivity|]. cbn [map flat_map opt_list app]. rewrite IH. reflexivity. Qed.

Lemma reflect_msg_rt tn md cm :
  Forall (fun e => RR (snd e)) cm ->
  is_wkt_other tn = false -> lookup_message sc tn = Some md -> owner_of sc md = OwnNone ->
  msg_ok md = true -> sorted_Z (map (fun e => num_of md (fst e)) cm) = true ->
  wt_fields sc md cm = true -> refl_fields md cm = true ->
  forall j n, gj_fval E sc (KMessage tn) (FM cm) = ROk j -> (json_size j <= n)%nat ->
  gj_un E sc (S n) (KMessage tn) j = ROk (Some (FM cm)).
Proof.
  intros HP Hwk Hlk Hown Hok Hsorted Hwf Hrf j n Hj Hn.
  rewrite (gj_fval_reflect tn md cm Hwk Hlk Hown), (msg_ok_oneof_unset md cm Hok) in Hj.
  apply rbind_ok in Hj. destruct Hj as [es [Hes Hj]]. inversion Hj; subst j.
  rewrite (gj_un_reflect n tn md es Hwk Hlk Hown (msg_ok_has_no_oneof md Hok)).
  destruct (refl_fields_rt n md cm HP es Hwf Hrf Hes Hn) as [fvs [Hu [Hrel Hkf]]].
  (* the keys are the proto names of the populated fields: pairwise distinct, no field is addressed twice *)
  assert (Hnames : NoDup (map (fun e : field * fval => f_name (fst e)) fvs)).
  { assert (Heq : map (fun e : field * fval => f_name (fst e)) fvs = map fst cm).
    { rewrite <- (rel_names md cm fvs Hrel) at 1. rewrite map_map. reflexivity. }
    rewrite Heq. exact (Int64Facts.sorted_names_nodup md cm Hsorted). }
  rewrite Hkf, (ClashFacts.clash_unm_nodup (map fst fvs)) by (rewrite map_map; exact Hnames).
  rewrite Hu. cbn [rbind]. rewrite flat_map_opt_some, (ClashFacts.last_wins_nodup fvs Hnames).
  rewrite assemble_canon.
  - rewrite (rel_names md cm fvs Hrel). reflexivity.
  - rewrite (rel_nums md cm fvs Hrel). exact Hsorted.
  - exact (rel_pop md cm fvs Hrel).
Qed.

(* a canonical Timestamp value is a well-typed value of the struct {seconds int64, nanos int32} *)
Lemma ts_ok_fields cm :
  ts_ok cm = true ->
  sorted_Z (map (fun e => num_of ts_message (fst e)) cm) = true /\
  wt_fields sc ts_message cm = true /\ refl_fields ts_message cm = true.
Proof.
  assert (Hsec : forall z, ts_in_range z 0 = true -> in_int_range KInt64 z = true).
  { intros z Hr. apply TimestampFacts.ts_in_range_spec in Hr. apply TimestampFacts.in_i64. lia. }
  assert (Hnan : forall z, ts_in_range 0 z = true -> in_int_range KInt32 z = true).
  { intros z Hr. apply TimestampFacts.ts_in_range_spec in Hr. unfold in_int_range.
    change (int_lo KInt32) with (- 2147483648). change (int_hi KInt32) with 2147483647.
    apply andb_true_intro. split; apply Z.leb_le; lia. }
  assert (Hsplit : forall a b, ts_in_range a b = true -> ts_in_range a 0 = true /\ ts_in_range 0 b = true).
  { intros a b Hr. apply TimestampFacts.ts_in_range_spec in Hr. split; apply TimestampFacts.ts_in_range_spec; lia. }
  unfold ts_ok. destruct cm as [|[k1 v1] [|[k2 v2] [|e3 r]]].
  - intros _. repeat split.
  - destruct v1 as [[z| | | | | ]| | | ]; try discriminate.
    intros H. apply Bool.orb_true_iff in H. destruct H as [H|H];
      apply andb_prop in H; destruct H as [H Hr]; apply andb_prop in H; destruct H as [Hk Hz];
      apply str_eqb_eq in Hk; subst k1; apply Bool.negb_true_iff in Hz.
    + pose proof (Hsec z Hr) as Hi. split; [reflexivity|split; [|reflexivity]].
      cbn. rewrite Hi, Hz. reflexivity.
    + pose proof (Hnan z Hr) as Hi. split; [reflexivity|split; [|reflexivity]].
      cbn. rewrite Hi, Hz. reflexivity.
  - destruct v1 as [[a| | | | | ]| | | ]; try discriminate.
    destruct v2 as [[b| | | | | ]| | | ]; try discriminate.
    intros H. apply andb_prop in H. destruct H as [H Hrng]. apply andb_prop in H. destruct H as [H Hb0].
    apply andb_prop in H. destruct H as [H Ha0]. apply andb_prop in H. destruct H as [Hk1 Hk2].
    apply str_eqb_eq in Hk1. apply str_eqb_eq in Hk2. subst k1 k2.
    apply Bool.negb_true_iff in Ha0. apply Bool.negb_true_iff in Hb0.
    destruct (Hsplit a b Hrng) as [Hra Hrb].
    pose proof (Hsec a Hra) as Hia. pose proof (Hnan b Hrb) as Hib.
    split; [reflexivity|split; [|reflexivity]].
    cbn. rewrite Hia, Hib, Ha0, Hb0. reflexivity.
  - destruct v1 as [[a| | | | | ]| | | ]; try discriminate.
    destruct v2 as [[b| | | | | ]| | | ]; discriminate.
Qed.

Theorem reflect_roundtrip : forall v, RR v.
Proof.
  apply fval_ind'.
  - (* scalar *)
    intros x k j n Hwt Hr Hj _. cbn [wt] in Hwt. apply andb_prop in Hwt. destruct Hwt as [Hk Hwt].
    apply Bool.negb_true_iff in Hk. rewrite gj_fval_FS in Hj.
    rewrite (gj_un_scalar E sc n k j Hk), (gj_scalar_rt E EL sc k x j Hk Hwt Hr Hj). reflexivity.
  - (* message *)
    intros cm HP k j n Hwt Hr Hj Hn.
    destruct k as [| | | | | | | | | | | | | | | tn0 | tn]; try (cbn [wt] in Hwt; discriminate Hwt).
    rewrite reflectable_FM in Hr. rewrite wt_FM in Hwt.
    destruct (str_eqb tn ts_name) eqn:Hts.
    + (* Timestamp: the struct {seconds, nanos} *)
      apply str_eqb_eq in Hts. subst tn.
      destruct (ts_ok_fields cm Hwt) as [Hsorted [Hwf Hrf]].
      assert (Hlk : lookup_message sc ts_name = Some ts_message) by (unfold lookup_message; rewrite str_eqb_refl; reflexivity).
      exact (reflect_msg_rt ts_name ts_message cm HP eq_refl Hlk (CodecCompose.ts_message_unowned sc) eq_refl
               Hsorted Hwf Hrf j n Hj Hn).
    + apply andb_prop in Hwt. destruct Hwt as [Hwk Hwt]. apply Bool.negb_true_iff in Hwk.
      destruct (find_message (all_messages sc) tn) as [md|] eqn:Hfm; [|discriminate Hr].
      apply andb_prop in Hr. destruct Hr as [Hown Hrf].
      assert (Hown' : owner_of sc md = OwnNone) by (destruct (owner_of sc md); try discriminate Hown; reflexivity).
      apply andb_prop in Hwt. destruct Hwt as [Hwt Hwf]. apply andb_prop in Hwt. destruct Hwt as [Hok Hsorted].
      assert (Hlk : lookup_message sc tn = Some md) by (unfold lookup_message; rewrite Hts; exact Hfm).
      exact (reflect_msg_rt tn md cm HP Hwk Hlk Hown' Hok Hsorted Hwf Hrf j n Hj Hn).
  - intros l HP. cbn [RR]. eapply Forall_impl; [|exact HP]. intros a. apply R_of_RR.
  - intros kv HP. cbn [RR]. eapply Forall_impl; [|exact HP]. intros a. apply R_of_RR.
Qed.

(* json.Unmarshal (json.Marshal v) = v for un-annotated values, with the fuel [decode] supplies *)
Corollary gj_reflect_roundtrip : forall v k j n,
  wt sc k v = true -> reflectable k v = true -> gj_fval E sc k v = ROk j -> (json_size j <= n)%nat ->
  gj_un E sc (S n) k j = ROk (Some v).
Proof. intros v. exact (R_of_RR v (reflect_roundtrip v)). Qed.

(* ---- one declared field ------------------------------------------------------------------------------------------ *)
Lemma value_unwrap_nonmap f : is_map f = false -> value_unwrap sc f = None.
Proof. unfold value_unwrap. intros H. rewrite H. reflexivity. Qed.

Lemma value_unwrap_inv f uf : value_unwrap sc f = Some uf ->
  is_map f = true /\
  exists vtn vmd, f_kind f = KMessage vtn /\ str_eqb vtn ts_name = false /\
                  find_message (all_messages sc) vtn = Some vmd /\ unwrap_field vmd = Some uf.
Proof.
  unfold value_unwrap. destruct (is_map f); [|discriminate].
  destruct (f_kind f) as [| | | | | | | | | | | | | | |etn|vtn]; try discriminate.
  unfold lookup_message. destruct (str_eqb vtn ts_name) eqn:Ets.
  - intros H. vm_compute in H. discriminate H.
  - destruct (find_message (all_messages sc) vtn) as [vmd|] eqn:Efm; [|discriminate].
    intros H. split; [reflexivity|]. exists vtn, vmd. repeat split; assumption.
Qed.

Lemma buildable_field md f : buildable sc FtUnwrapMap md = true -> In f (m_fields md) ->
  match f_card f, f_oneof f with
  | Optional, _ => false | _, Some _ => false
  | MapOf kk, _ => match value_unwrap sc f with Some _ => kind_eqb kk KString | None => true end
  | _, _ => true
  end = true.
Proof. unfold buildable. intros H Hin. rewrite forallb_forall in H. exact (H f Hin). Qed.

Lemma kind_eqb_string kk : kind_eqb kk KString = true -> kk = KString.
Proof. destruct kk; cbn; intros H; try discriminate H; reflexivity. Qed.

(* what UnmarshalJSON rebuilds for a field: the wrappers of an unwrap map keep their unwrap field only *)
Definition strip (f : field) (v : fval) : fval :=
  match value_unwrap sc f, v with
  | Some uf, FMap kv => FMap (map (EmptyFacts.sw_value uf) kv)
  | _, _ => v
  end.

(* the enum numbers the codec hands to encoding/json (siblings, and the scalar items of the wrappers) are written
   and read back *)
Definition entry_gj_ok (f : field) (v : fval) : bool :=
  match value_unwrap sc f with
  | Some uf => match v with FMap kv => wrappers_ok uf kv | _ => true end
  | None => gj_ok (f_kind f) v
  end.
(* a sibling map whose values are messages without an unwrap field is rendered by reflection over the Go struct *)
Definition reflected_map (f : field) : bool :=
  is_map f && is_msg_kind (f_kind f) && match value_unwrap sc f with None => true | Some _ => false end.

Lemma field_rt n md m ks f v p raw :
  buildable sc FtUnwrapMap md = true -> In f (m_fields md) ->
  mget m (f_name f) = Some v -> wt_entry sc f v = true ->
  (needs_gj sc FtUnwrapMap md f = true -> kid ks (f_name f) = gj_fval E sc (f_kind f) v) ->
  (f_card f = Singular -> go_zero (f_kind f) v = false) ->
  entry_gj_ok f v = true -> (reflected_map f = true -> reflectable (f_kind f) v = true) ->
  enc_field E sc m ks f = ROk p -> raw_get (jn f) raw = hd_error (map snd p) ->
  (forall j, raw_get (jn f) raw = Some j -> (json_size j <= n)%nat) ->
  dec_field E sc (S n) raw f = ROk (Some (f, strip f v)) /\ populated f (strip f v) = true.
Proof.
  intros Hb Hin Hget Hwe Hkid Hz Hgj Hrefl Henc Hraw Hfuel.
  pose proof (buildable_field md f Hb Hin) as Hbf.
  unfold enc_field in Henc. rewrite Hget in Henc. unfold wt_entry in Hwe.
  unfold dec_field. unfold strip, entry_gj_ok in *.
  assert (Hone : forall j0, ROk j0 >>= (fun j => ROk [(jn f, j)]) = ROk p -> raw_get (jn f) raw = Some j0).
  { intros j0 Hp. cbn [rbind] in Hp. inversion Hp; subst p. exact Hraw. }
  destruct (f_card f) as [| | |kk] eqn:Ec.
  - (* singular *)
    assert (Hm : is_map f = false) by (unfold is_map; rewrite Ec; reflexivity).
    assert (Hng : is_msg_kind (f_kind f) = false -> needs_gj sc FtUnwrapMap md f = true).
    { intros Hk. unfold needs_gj. rewrite (value_unwrap_nonmap f Hm), Hk, Bool.orb_true_r. reflexivity. }
    rewrite (value_unwrap_nonmap f Hm) in *.
    destruct (is_msg_kind (f_kind f)) eqn:Emk.
    + assert (Hwt : wt sc (f_kind f) v = true /\ populated f v = true).
      { destruct v as [sx|cm|l|kv]; try discriminate Hwe.
        - apply andb_prop in Hwe. exact Hwe.
        - split; [exact Hwe|reflexivity]. }
      destruct Hwt as [Hwt Hpop].
      destruct (pj_fval E sc (f_kind f) v) as [j|e|w] eqn:Ej; try discriminate Henc.
      rewrite (Hone j Henc). unfold pj_elem. rewrite (pj_rt_any v (f_kind f) j Hwt Ej).
      split; [reflexivity|exact Hpop].
    + rewrite (Hz eq_refl) in Henc. rewrite (Hkid (Hng eq_refl)) in Henc.
      destruct v as [sx|cm|l|kv]; try discriminate Hwe.
      * apply andb_prop in Hwe. destruct Hwe as [Hwt Hpop].
        cbn [wt] in Hwt. rewrite <- is_msg_kind_msgk, Emk in Hwt. cbn [negb andb] in Hwt.
        rewrite gj_fval_FS in Henc.
        destruct (gj_scalar E sc (f_kind f) sx) as [j|e|w] eqn:Ej; try discriminate Henc.
        rewrite (Hone j Henc).
        rewrite (gj_scalar_rt E EL sc (f_kind f) sx j Emk Hwt (gj_ok_FS _ _ Hgj) Ej).
        split; [reflexivity|exact Hpop].
      * exfalso. destruct (f_kind f); try discriminate Hwe. discriminate Emk.
  - (* optional: the emitted code does not compile *)
    discriminate Hbf.
  - (* repeated *)
    assert (Hm : is_map f = false) by (unfold is_map; rewrite Ec; reflexivity).
    rewrite (value_unwrap_nonmap f Hm) in *.
    destruct v as [sx|cm|[|e l]|kv]; try discriminate Hwe.
    change (all_wt (f_kind f) (e :: l) = true) in Hwe.
    destruct (is_msg_kind (f_kind f)) eqn:Emk.
    + cbn [pj_list] in Henc.
      destruct (rall (map (pj_fval E sc (f_kind f)) (e :: l))) as [js|e0|w] eqn:Ej; try discriminate Henc.
      cbn [rbind] in Henc. inversion Henc; subst p. cbn [map snd hd_error] in Hraw. rewrite Hraw.
      cbn [pj_elems]. rewrite (pj_list_rt (f_kind f) (e :: l) js Hwe Ej). split; reflexivity.
    + assert (Hng : needs_gj sc FtUnwrapMap md f = true).
      { unfold needs_gj. rewrite (value_unwrap_nonmap f Hm), Emk, Bool.orb_true_r. reflexivity. }
      rewrite (Hkid Hng), gj_fval_FL in Henc.
      destruct (g_list E sc (f_kind f) (e :: l)) as [js|e0|w] eqn:Ej; try discriminate Henc.
      cbn [rbind] in Henc. inversion Henc; subst p. cbn [map snd hd_error] in Hraw. rewrite Hraw.
      cbn [list_un]. rewrite (g_list_scalar_rt n (f_kind f) (e :: l) Emk js Hwe Hgj Ej). split; reflexivity.
  - (* map *)
    assert (Hm : is_map f = true) by (unfold is_map; rewrite Ec; reflexivity).
    destruct v as [sx|cm|l|[|e kv]]; try discriminate Hwe.
    apply andb_prop in Hwe. destruct Hwe as [Hsorted Hwe].
    change (all_wt_kv kk (f_kind f) (e :: kv) = true) in Hwe.
    destruct (value_unwrap sc f) as [uf|] eqn:Evu.
    + destruct (value_unwrap_inv f uf Evu) as [_ [vtn [vmd [Hk [Hts [Hfm Huf]]]]]].
      assert (Hkk : kk = KString) by (destruct (f_oneof f); [discriminate Hbf|exact (kind_eqb_string kk Hbf)]).
      subst kk. rewrite Hk in Hwe.
      destruct (is_repeated uf) eqn:Hrep; [|discriminate Henc].
      unfold unwrap_map_obj in Henc.
      destruct (rall (map (fun e0 => key_text (fst e0) >>= (fun k => unwrap_array E sc uf (snd e0) >>= (fun a => ROk (k, a)))) (e :: kv)))
        as [es|e0|w] eqn:Ees; try discriminate Henc.
      cbn [rbind] in Henc. inversion Henc; subst p. cbn [map snd hd_error] in Hraw. rewrite Hraw.
      cbn [unwrap_map_un].
      rewrite (unwrap_map_rt uf vtn vmd (e :: kv) Hfm Hts Huf Hrep es Hwe Hgj Ees). cbn [rbind option_map].
      rewrite sorted_key_sort by (rewrite sw_value_fst; exact Hsorted).
      split; reflexivity.
    + assert (Hng : needs_gj sc FtUnwrapMap md f = true).
      { unfold needs_gj. rewrite Evu, Hm. reflexivity. }
      rewrite (Hkid Hng), gj_fval_FMap in Henc.
      destruct (g_map E sc (f_kind f) (e :: kv)) as [es|e0|w] eqn:Ees; try discriminate Henc.
      cbn [rbind] in Henc. inversion Henc; subst p. cbn [map snd hd_error] in Hraw. rewrite Hraw.
      cbn [map_un]. rewrite (g_map_not_boolkey kk (f_kind f) e kv es Hwe Ees).
      destruct (is_msg_kind (f_kind f)) eqn:Hmk.
      * (* message values without an unwrap field: reflection over the struct *)
        assert (Hr : reflectable (f_kind f) (FMap (e :: kv)) = true).
        { apply Hrefl. unfold reflected_map. rewrite Hm, Hmk, Evu. reflexivity. }
        rewrite (refl_map_rt n kk (f_kind f) (e :: kv) (reflect_roundtrip (FMap (e :: kv))) es Hwe Hr Ees (Hfuel _ Hraw)).
        cbn [rbind option_map]. rewrite (sorted_key_sort _ Hsorted). split; reflexivity.
      * rewrite (g_map_scalar_rt n kk (f_kind f) (e :: kv) Hmk es Hwe Hgj Ees). cbn [rbind option_map].
        rewrite (sorted_key_sort _ Hsorted). split; reflexivity.
Qed.
End RT.

(* ================================================================================================================ *)
(* Part E: UnmarshalJSON sets the fields in declaration order; the value lists them in field-number order *)

Lemma lt_all_Z_iff a l : lt_all_Z a l = true <-> (forall b, In b l -> a < b).
Proof.
  induction l as [|y r IH]; cbn [lt_all_Z]; split.
  - intros _ b [].
  - reflexivity.
  - intros H b Hin. apply andb_prop in H. destruct H as [H1 H2]. destruct Hin as [Hin|Hin].
    + subst y. apply Z.ltb_lt. exact H1.
    + apply IH; assumption.
  - intros H. apply andb_true_intro. split.
    + apply Z.ltb_lt. apply H. left. reflexivity.
    + apply IH. intros b Hb. apply H. right. exact Hb.
Qed.

Lemma sorted_unique {A} (l1 : list (Z * A)) : forall l2,
  sorted_Z (map fst l1) = true -> sorted_Z (map fst l2) = true ->
  (forall x, In x l1 <-> In x l2) -> l1 = l2.
Proof.
  induction l1 as [|x r1 IH]; intros [|y r2] H1 H2 Hm.
  - reflexivity.
  - exfalso. apply (proj2 (Hm y)). left. reflexivity.
  - exfalso. apply (proj1 (Hm x)). left. reflexivity.
  - cbn [map sorted_Z] in H1, H2. apply andb_prop in H1. destruct H1 as [Hx Hr1].
    apply andb_prop in H2. destruct H2 as [Hy Hr2].
    pose proof (proj1 (lt_all_Z_iff _ _) Hx) as Hxl. pose proof (proj1 (lt_all_Z_iff _ _) Hy) as Hyl.
    assert (Hxy : x = y).
    { destruct (proj1 (Hm x) (or_introl eq_refl)) as [Hq|Hq]; [symmetry; exact Hq|].
      destruct (proj2 (Hm y) (or_introl eq_refl)) as [Hq'|Hq']; [exact Hq'|]. exfalso.
      assert (fst y < fst x) by (apply Hyl; apply in_map; exact Hq).
      assert (fst x < fst y) by (apply Hxl; apply in_map; exact Hq').
      lia. }
    subst y. f_equal. apply IH; [exact Hr1|exact Hr2|].
    intros z. split; intros Hz.
    + destruct (proj1 (Hm z) (or_intror Hz)) as [Hq|Hq]; [|exact Hq]. exfalso. subst z.
      assert (fst x < fst x) by (apply Hxl; apply in_map; exact Hz). lia.
    + destruct (proj2 (Hm z) (or_intror Hz)) as [Hq|Hq]; [|exact Hq]. exfalso. subst z.
      assert (fst x < fst x) by (apply Hyl; apply in_map; exact Hz). lia.
Qed.

Lemma insert_in n e l x : In x (insert_by_num n e l) <-> x = (n, e) \/ In x l.
Proof.
  induction l as [|[n' e'] r IH]; cbn [insert_by_num].
  - split; [intros [H|[]]; left; symmetry; exact H|intros [H|[]]; left; symmetry; exact H].
  - destruct (n <=? n').
    + split; [intros [H|H]; [left; symmetry; exact H|right; exact H]|intros [H|H]; [left; symmetry; exact H|right; exact H]].
    + split.
      * intros [H|H]; [right; left; exact H|]. apply IH in H. destruct H as [H|H]; [left; exact H|right; right; exact H].
      * intros [H|[H|H]]; [right; apply IH; left; exact H|left; exact H|right; apply IH; right; exact H].
Qed.

Lemma insert_sorted n e l :
  sorted_Z (map fst l) = true -> ~ In n (map fst l) -> sorted_Z (map fst (insert_by_num n e l)) = true.
Proof.
  induction l as [|[n' e'] r IH]; intros Hs Hn; cbn [insert_by_num]; [reflexivity|].
  cbn [map fst sorted_Z] in Hs. apply andb_prop in Hs. destruct Hs as [Hlt Hr].
  pose proof (proj1 (lt_all_Z_iff _ _) Hlt) as Hall.
  destruct (Z.leb_spec n n') as [Hle|Hgt].
  - assert (Hne : n <> n') by (intros Heq; apply Hn; left; symmetry; exact Heq).
    assert (H1 : (n <? n') = true) by (apply Z.ltb_lt; lia).
    assert (H2 : lt_all_Z n (map fst r) = true) by (apply lt_all_Z_iff; intros b Hb; specialize (Hall b Hb); lia).
    cbn [map fst sorted_Z lt_all_Z]. rewrite Hlt, Hr, H1, H2. reflexivity.
  - cbn [map fst sorted_Z]. apply andb_true_intro. split.
    + apply lt_all_Z_iff. intros b Hb. apply in_map_iff in Hb. destruct Hb as [x [Hx Hin]]. subst b.
      apply insert_in in Hin. destruct Hin as [Hin|Hin]; [subst x; cbn [fst]; lia|].
      apply Hall. apply in_map. exact Hin.
    + apply IH; [exact Hr|]. intros Hin. apply Hn. right. exact Hin.
Qed.

Definition tag (fv : field * fval) : Z * (str * fval) := (f_number (fst fv), (f_name (fst fv), snd fv)).

Lemma fold_step_spec fvs :
  NoDup (map (fun fv : field * fval => f_number (fst fv)) fvs) ->
  Forall (fun fv => populated (fst fv) (snd fv) = true) fvs ->
  sorted_Z (map fst (fold_right step [] fvs)) = true /\
  (forall x, In x (fold_right step [] fvs) <-> In x (map tag fvs)).
Proof.
  induction fvs as [|fv r IH]; intros Hnd Hp; cbn [fold_right map].
  - split; [reflexivity|intros x; split; intros []].
  - inversion Hnd as [|a l Hnot Hnd']; subst. inversion Hp as [|a l Hpa Hpr]; subst.
    destruct (IH Hnd' Hpr) as [Hs Hm].
    assert (Hst : step fv (fold_right step [] r)
                  = insert_by_num (f_number (fst fv)) (f_name (fst fv), snd fv) (fold_right step [] r)).
    { unfold step at 1. rewrite Hpa. reflexivity. }
    rewrite Hst. split.
    + apply insert_sorted; [exact Hs|]. intros Hin. apply Hnot.
      apply in_map_iff in Hin. destruct Hin as [x [Hx Hin]]. apply Hm in Hin.
      apply in_map_iff in Hin. destruct Hin as [fv' [Ht Hin]]. subst x. cbn [tag fst] in Hx.
      apply in_map_iff. exists fv'. split; [exact Hx|exact Hin].
    + intros x. rewrite insert_in. cbn [In]. rewrite Hm. unfold tag at 2. split; intros [H|H]; auto.
Qed.

Lemma nodup_Z_NoDup l : nodup_Z l = true -> NoDup l.
Proof.
  induction l as [|x r IH]; intros H; [constructor|]. cbn [nodup_Z] in H.
  apply andb_prop in H. destruct H as [Hx Hr]. constructor; [|exact (IH Hr)].
  intros Hin. apply Bool.negb_true_iff in Hx.
  assert (existsb (Z.eqb x) r = true) by (apply existsb_exists; exists x; split; [exact Hin|apply Z.eqb_refl]).
  congruence.
Qed.

Section Assemble.
Variable sc : schema.
Variable md : message.
Variable m : mval.

Definition fv_of (f : field) : option (field * fval) :=
  match mget m (f_name f) with Some v => Some (f, strip sc f v) | None => None end.

Lemma fvs_nums fs n :
  In n (map (fun fv : field * fval => f_number (fst fv)) (flat_map (fun f => opt_list (fv_of f)) fs)) -> In n (map f_number fs).
Proof.
  induction fs as [|f r IH]; cbn [flat_map map]; [intros []|].
  rewrite map_app, in_app_iff. intros [H|H].
  - left. unfold fv_of in H. destruct (mget m (f_name f)); [|destruct H]. destruct H as [H|[]]. exact H.
  - right. exact (IH H).
Qed.

Lemma fvs_nodup fs : NoDup (map f_number fs) ->
  NoDup (map (fun fv : field * fval => f_number (fst fv)) (flat_map (fun f => opt_list (fv_of f)) fs)).
Proof.
  induction fs as [|f r IH]; intros H; cbn [flat_map map]; [constructor|].
  inversion H as [|a l Hnot Hr]; subst. rewrite map_app.
  unfold fv_of at 1. destruct (mget m (f_name f)) as [v|]; cbn [opt_list map app]; [|exact (IH Hr)].
  constructor; [|exact (IH Hr)]. cbn [fst]. intros Hin. apply Hnot. exact (fvs_nums r _ Hin).
Qed.

Lemma sw_entry_strip name f v :
  find_field (m_fields md) name = Some f -> EmptyFacts.sw_entry sc md (name, v) = (name, strip sc f v).
Proof.
  intros Hf. unfold EmptyFacts.sw_entry, strip. cbn [fst snd]. rewrite Hf.
  destruct (value_unwrap sc f); [destruct v|]; reflexivity.
Qed.

Lemma assemble_strip :
  msg_ok md = true -> sorted_Z (map (fun e => num_of md (fst e)) m) = true -> wt_fields sc md m = true ->
  Forall (fun fv => populated (fst fv) (snd fv) = true) (flat_map (fun f => opt_list (fv_of f)) (m_fields md)) ->
  assemble (flat_map (fun f => opt_list (fv_of f)) (m_fields md)) = map (EmptyFacts.sw_entry sc md) m.
Proof.
  intros Hok Hsorted Hwf Hpop.
  pose proof (TimestampFacts.sorted_names_nodup md m Hsorted) as Hnames.
  assert (Hnum : NoDup (map f_number (m_fields md))).
  { apply nodup_Z_NoDup. unfold msg_ok in Hok. apply andb_prop in Hok. apply Hok. }
  set (fvs := flat_map (fun f => opt_list (fv_of f)) (m_fields md)) in *.
  destruct (fold_step_spec fvs (fvs_nodup _ Hnum) Hpop) as [Hs Hm].
  unfold assemble. change (fold_right _ [] fvs) with (fold_right step [] fvs).
  assert (Heq : fold_right step [] fvs = map (fun e => (num_of md (fst e), EmptyFacts.sw_entry sc md e)) m).
  { apply sorted_unique.
    - exact Hs.
    - rewrite map_map. cbn [fst]. exact Hsorted.
    - intros x. rewrite Hm. split; intros Hx.
      + apply in_map_iff in Hx. destruct Hx as [[f v'] [Ht Hin]]. subst x.
        apply in_flat_map in Hin. destruct Hin as [f0 [Hf0 Hin]].
        unfold fv_of in Hin. destruct (mget m (f_name f0)) as [v|] eqn:Eg; [|destruct Hin].
        destruct Hin as [Hin|[]]. inversion Hin; subst f v'. clear Hin.
        apply in_map_iff. exists (f_name f0, v). split; [|exact (Int64Facts.mget_pair m _ v Eg)].
        pose proof (find_field_complete md f0 Hok Hf0) as Hff.
        cbn [fst]. unfold num_of. rewrite Hff. unfold tag. cbn [fst snd].
        rewrite (sw_entry_strip _ f0 v Hff). reflexivity.
      + apply in_map_iff in Hx. destruct Hx as [[name v] [Ht Hin]]. subst x.
        destruct (Int64Facts.wt_fields_in sc md m name v Hwf Hin) as [f [Hf _]].
        destruct (find_field_spec _ _ _ Hf) as [Hinf Hname].
        apply in_map_iff. exists (f, strip sc f v). split.
        * unfold tag. cbn [fst snd]. unfold num_of. rewrite Hf, (sw_entry_strip name f v Hf), Hname. reflexivity.
        * apply in_flat_map. exists f. split; [exact Hinf|]. unfold fv_of.
          rewrite Hname, (EmptyFacts.mget_nodup m name v Hnames Hin). left. reflexivity. }
  rewrite Heq, map_map. reflexivity.
Qed.
End Assemble.

(* ================================================================================================================ *)
(* Part G: the codec as a whole *)

Lemma rall_map_pointwise {A B} (g : A -> res B) (h : A -> B) l :
  (forall x, In x l -> g x = ROk (h x)) -> rall (map g l) = ROk (map h l).
Proof.
  induction l as [|x r IH]; intros H; [reflexivity|]. cbn [map rall].
  rewrite (H x (or_introl eq_refl)), IH; [reflexivity|]. intros y Hy. apply H. right. exact Hy.
Qed.

Lemma flat_map_map {A B C} (g : A -> B) (h : B -> list C) l : flat_map h (map g l) = flat_map (fun x => h (g x)) l.
Proof. induction l as [|x r IH]; [reflexivity|]. cbn [map flat_map]. rewrite IH. reflexivity. Qed.

Section Main.
Variable E : ExtLib.
Hypothesis EL : ExtLaws E.
Variable sc : schema.

(* side condition 1: every enum number the codec hands to encoding/json — in a sibling field or among the scalar
   items of a wrapper — is written and read back by the emitted enum MarshalJSON / UnmarshalJSON *)
Definition gj_enums_rt (md : message) (m : mval) : bool :=
  forallb (fun e => match find_field (m_fields md) (fst e) with
                    | Some f => entry_gj_ok sc f (snd e)
                    | None => true
                    end) m.
(* side condition 2: a populated sibling map whose values are messages without an unwrap field is rendered by
   reflection over the Go struct; its values are un-annotated (Part F: no codec-owning message and no Timestamp
   below, no present-but-empty bytes field, enum numbers as in side condition 1) *)
Definition reflected_maps_plain (md : message) (m : mval) : bool :=
  forallb (fun e => match find_field (m_fields md) (fst e) with
                    | Some f => negb (reflected_map sc f) || reflectable sc (f_kind f) (snd e)
                    | None => true
                    end) m.

Lemma pieces_keys m ks fs ps :
  Forall2 (fun f p => enc_field E sc m ks f = ROk p) fs ps ->
  forall k, raw_has k (List.concat ps) = true -> In k (map jn fs).
Proof.
  induction 1 as [|f p r pr Hp _ IH]; cbn [List.concat]; intros k Hk; [discriminate Hk|].
  rewrite NullableFacts.raw_has_app in Hk. apply Bool.orb_true_iff in Hk. destruct Hk as [Hk|Hk].
  - left. destruct (enc_field_shape E sc m ks f p Hp) as [Hnil|[j Hj]]; subst p; [discriminate Hk|].
    unfold raw_has in Hk. cbn [existsb fst] in Hk. rewrite Bool.orb_false_r in Hk. apply str_eqb_eq. exact Hk.
  - right. exact (IH k Hk).
Qed.

Lemma raw_get_pieces m ks fs : forall ps pre,
  NullableFacts.nodup_str (map jn fs) = true ->
  Forall2 (fun f p => enc_field E sc m ks f = ROk p) fs ps ->
  (forall f, In f fs -> raw_has (jn f) pre = false) ->
  forall f, In f fs ->
  exists p, enc_field E sc m ks f = ROk p /\ raw_get (jn f) (pre ++ List.concat ps) = hd_error (map snd p).
Proof.
  induction fs as [|f0 r IH]; intros ps pre Hnd HF Hpre f Hin; [contradiction|].
  inversion HF as [|a p0 l pr Hp0 Hrest]; subst. cbn [List.concat].
  cbn [map] in Hnd. destruct (EmptyFacts.nodup_str_inv _ _ Hnd) as [Hnot Hndr].
  destruct Hin as [Hin|Hin].
  - subst f0. exists p0. split; [exact Hp0|].
    rewrite NullableFacts.raw_get_app_r by (apply Hpre; left; reflexivity).
    destruct (enc_field_shape E sc m ks f p0 Hp0) as [Hnil|[j Hj]]; subst p0.
    + cbn [app map hd_error]. apply Int64Facts.raw_get_not_has.
      destruct (raw_has (jn f) (List.concat pr)) eqn:Eh; [|reflexivity]. exfalso.
      apply Hnot. exact (pieces_keys m ks r pr Hrest _ Eh).
    + cbn [app map snd hd_error]. unfold raw_get. cbn [assoc_json]. rewrite str_eqb_refl. reflexivity.
  - rewrite app_assoc. apply IH; [exact Hndr|exact Hrest| |exact Hin].
    intros f' Hf'. rewrite NullableFacts.raw_has_app, (Hpre f' (or_intror Hf')). cbn [orb].
    destruct (enc_field_shape E sc m ks f0 p0 Hp0) as [Hnil|[j Hj]]; subst p0; [reflexivity|].
    unfold raw_has. cbn [existsb fst]. rewrite Bool.orb_false_r.
    destruct (str_eqb (jn f0) (jn f')) eqn:Eq; [|reflexivity]. exfalso.
    apply str_eqb_eq in Eq. apply Hnot. rewrite Eq. apply in_map. exact Hf'.
Qed.

Lemma defects_go_zero tn md m :
  lookup_message sc tn = Some md -> owner_of sc md = Own FtUnwrapMap -> defects_C04 sc tn m = [] ->
  forall name v f, In (name, v) m -> find_field (m_fields md) name = Some f -> f_card f = Singular ->
  go_zero (f_kind f) v = false.
Proof.
  intros Hlk Hown Hd name v f Hin Hf Hc.
  pose proof (CodecCompose.defects_nil_local sc tn md FtUnwrapMap m Hlk Hown Hd) as Hloc.
  unfold local_defects in Hloc. rewrite Hown in Hloc. unfold unwrap_sibling_defects in Hloc.
  apply app_eq_nil in Hloc. destruct Hloc as [_ Hz].
  destruct (existsb (fun e : str * fval => match find_field (m_fields md) (fst e) with
                        | Some f => match f_card f with Singular => go_zero (f_kind f) (snd e) | _ => false end
                        | None => false end) m) eqn:Hex; [discriminate Hz|].
  pose proof (TimestampFacts.existsb_false_in _ _ (name, v) Hex Hin) as Hx. cbn [fst snd] in Hx.
  rewrite Hf, Hc in Hx. exact Hx.
Qed.

Lemma populated_strip f v : wt_entry sc f v = true -> populated f (strip sc f v) = true.
Proof.
  unfold wt_entry, strip.
  destruct (f_card f); destruct v as [sx|cm|[|e l]|[|e kv]]; try discriminate; intros H;
    destruct (value_unwrap sc f); try reflexivity; apply andb_prop in H; apply H.
Qed.

(* C04 for the map-value unwrap codec, all schemas, all well-typed values *)
Theorem unwrap_map_roundtrip : forall tn md m j,
  find_message (all_messages sc) tn = Some md -> owner_of sc md = Own FtUnwrapMap ->
  wt sc (KMessage tn) (FM m) = true ->
  defects_C04 sc tn m = [] ->
  gj_enums_rt md m = true -> reflected_maps_plain md m = true ->
  encode E sc tn m = ROk j -> decode E sc tn j = ROk (norm sc tn m).
Proof.
  intros tn md m j Hfm Hown Hwt Hdef Hgj Hnr Henc.
  destruct (str_eqb tn ts_name) eqn:Hts.
  { (* a type named like Timestamp is never given a codec: protojson both ways *)
    apply str_eqb_eq in Hts. subst tn.
    exact (C04_roundtrip_plain E EL sc ts_name m j (CodecCompose.owns_ts_name sc) Hwt Henc). }
  destruct (CodecCompose.wt_top sc tn m Hts Hwt) as [Hwk [md' [Hfm' [Hlk [Hok [Hsorted Hwf]]]]]].
  assert (md' = md) by congruence. subst md'. clear Hfm'.
  assert (Howns : owns sc tn = true) by (unfold owns; rewrite Hlk, Hown; reflexivity).
  pose proof (CodecCompose.encode_ok_buildable E sc tn md FtUnwrapMap m j Hwk Hlk Hown Henc) as Hb.
  pose proof (Int64Facts.msg_ok_nodup_jn md Hok) as Hnd.
  pose proof (TimestampFacts.sorted_names_nodup md m Hsorted) as Hnames.
  assert (Hnorm : norm sc tn m = map (EmptyFacts.sw_entry sc md) m).
  { unfold norm. rewrite Hlk, Hown. apply EmptyFacts.strip_wrappers_map. }
  rewrite Hnorm.
  (* MarshalJSON *)
  unfold encode in Henc. rewrite Howns, (NullableFacts.gj_fval_owned E sc tn md FtUnwrapMap m Hwk Hlk Hown) in Henc.
  apply rbind_ok in Henc. destruct Henc as [ks [Hks Henc]].
  unfold codec_body in Henc. rewrite Hb in Henc. cbn [negb] in Henc. cbv iota in Henc.
  rewrite enc_unwrap_map_pieces in Henc. apply rbind_ok in Henc. destruct Henc as [ps [Hps Henc]].
  inversion Henc; subst j. clear Henc.
  apply rall_ok in Hps.
  (* UnmarshalJSON *)
  unfold decode. rewrite Howns. cbv beta iota.
  rewrite (gj_un_unwrap_map E sc _ tn md _ Hwk Hlk Hown Hb).
  assert (Hfield : forall f, In f (m_fields md) ->
            dec_field E sc (S (json_size (JObj (List.concat ps)))) (List.concat ps) f = ROk (fv_of sc m f)).
  { intros f Hin.
    destruct (raw_get_pieces m ks (m_fields md) ps [] Hnd Hps (fun _ _ => eq_refl) f Hin) as [p [Hp Hraw]].
    cbn [app] in Hraw. unfold fv_of.
    destruct (mget m (f_name f)) as [v|] eqn:Eg.
    - pose proof (Int64Facts.mget_pair m _ v Eg) as Hinm.
      destruct (Int64Facts.wt_fields_in sc md m _ v Hwf Hinm) as [f' [Hf' Hwe]].
      pose proof (find_field_complete md f Hok Hin) as Hff.
      rewrite Hff in Hf'. inversion Hf'; subst f'. clear Hf'.
      assert (Hgjf : entry_gj_ok sc f v = true).
      { unfold gj_enums_rt in Hgj. rewrite forallb_forall in Hgj. specialize (Hgj _ Hinm). cbn [fst snd] in Hgj.
        rewrite Hff in Hgj. exact Hgj. }
      assert (Hnrf : reflected_map sc f = true -> reflectable sc (f_kind f) v = true).
      { intros Hrm. unfold reflected_maps_plain in Hnr. rewrite forallb_forall in Hnr. specialize (Hnr _ Hinm).
        cbn [fst snd] in Hnr. rewrite Hff, Hrm in Hnr. exact Hnr. }
      exact (proj1 (field_rt E EL sc _ md m ks f v p (List.concat ps) Hb Hin Eg Hwe
                      (fun Hn => kid_of_kids E sc md m ks Hks _ v f Eg Hff Hn)
                      (fun Hc => defects_go_zero tn md m Hlk Hown Hdef _ v f Hinm Hff Hc)
                      Hgjf Hnrf Hp Hraw
                      (fun j0 Hj0 => Nat.lt_le_incl _ _ (json_size_obj_in _ j0 _ (NullableFacts.raw_get_in _ _ _ Hj0))))).
    - unfold enc_field in Hp. rewrite Eg in Hp. inversion Hp; subst p. cbn [map hd_error] in Hraw.
      unfold dec_field. rewrite Hraw. reflexivity. }
  rewrite (rall_map_pointwise _ (fv_of sc m) (m_fields md) Hfield). cbn [rbind].
  rewrite flat_map_map.
  rewrite (assemble_strip sc md m Hok Hsorted Hwf); [reflexivity|].
  apply Forall_forall. intros [f v'] Hin. cbn [fst snd].
  apply in_flat_map in Hin. destruct Hin as [f0 [Hf0 Hin]].
  unfold fv_of in Hin. destruct (mget m (f_name f0)) as [v|] eqn:Eg; [|destruct Hin].
  destruct Hin as [Hin|[]]. inversion Hin; subst f v'. clear Hin.
  pose proof (Int64Facts.mget_pair m _ v Eg) as Hinm.
  destruct (Int64Facts.wt_fields_in sc md m _ v Hwf Hinm) as [f' [Hf' Hwe]].
  rewrite (find_field_complete md f0 Hok Hf0) in Hf'. inversion Hf'; subst f'.
  exact (populated_strip f0 v Hwe).
Qed.
End Main.

(* ================================================================================================================ *)
(* Part H: witnesses *)

Definition color_enum : enum :=
  {| e_name := s "x.v1.Color";
     e_values := [ {| ev_name := s "COLOR_UNSPECIFIED"; ev_number := 0; ev_custom := None |};
                   {| ev_name := s "COLOR_RED"; ev_number := 1; ev_custom := Some (s "red") |};
                   {| ev_name := s "COLOR_BLUE"; ev_number := 2; ev_custom := None |} ] |}.
(* two values with the same custom enum_value text *)
Definition dup_enum : enum :=
  {| e_name := s "x.v1.Dup";
     e_values := [ {| ev_name := s "DUP_UNSPECIFIED"; ev_number := 0; ev_custom := None |};
                   {| ev_name := s "DUP_A"; ev_number := 1; ev_custom := Some (s "same") |};
                   {| ev_name := s "DUP_B"; ev_number := 2; ev_custom := Some (s "same") |} ] |}.
Definition Color : kind := KEnum (s "x.v1.Color").
Definition Dup : kind := KEnum (s "x.v1.Dup").

(* ScoreBoard: three unwrap maps (message items, string items, enum items) beside siblings of every shape the
   theorem covers; the fields are NOT declared in field-number order *)
Definition ums : schema :=
  [ {| fl_path := s "x/u.proto"; fl_package := s "x.v1"; fl_gopkg := s "x"; fl_generate := true;
       fl_messages :=
         [ msg "Leaf" [fld "a" 1 KString Singular; fld "n" 2 KInt64 Singular] [];
           msg "BarList" [set_unwrap (fld "bars" 1 (T "Leaf") Repeated); fld "note" 2 KString Singular] [];
           msg "Strs" [set_unwrap (fld "vals" 1 KString Repeated)] [];
           msg "Colors" [set_unwrap (fld "cs" 1 Color Repeated)] [];
           msg "Dups" [set_unwrap (fld "ds" 1 Dup Repeated)] [];
           msg "OptB" [fld "b" 1 KBytes Optional; fld "t" 2 KString Singular] [];
           msg "ScoreBoard" [fld "title" 7 KString Singular;
                             fld "by_sym" 1 (T "BarList") (MapOf KString);
                             fld "names" 2 (T "Strs") (MapOf KString);
                             fld "palette" 3 (T "Colors") (MapOf KString);
                             fld "total_count" 4 KInt64 Singular;
                             fld "ratio" 5 KDouble Singular;
                             fld "tags" 6 KString Repeated;
                             fld "by_id" 8 KString (MapOf KInt32);
                             fld "best" 9 (T "Leaf") Singular;
                             fld "all_leaves" 10 (T "Leaf") Repeated;
                             fld "fav" 11 Color Singular;
                             fld "raw" 12 KBytes Singular;
                             fld "ok" 13 KBool Singular;
                             fld "at" 14 TS Singular;
                             fld "weights" 15 KFloat Repeated;
                             fld "shades" 16 Color (MapOf KString)] [];
           msg "DupBoard" [fld "by_sym" 1 (T "Dups") (MapOf KString); fld "d" 2 Dup Singular] [];
           msg "Deep" [fld "leaf" 1 (T "Leaf") Singular; fld "big_nums" 2 KInt64 Repeated; fld "by_k" 3 KInt32 (MapOf KString);
                       fld "c" 4 Color Singular; fld "more" 5 (T "OptB") Repeated; fld "at" 6 TS Singular] [];
           msg "Nick" [set_nullable (fld "nick" 1 KString Optional); fld "id" 2 KString Singular] [];
           msg "DupLeaf" [fld "d" 1 Dup Singular] [];
           msg "RefBoard" [fld "by_sym" 1 (T "BarList") (MapOf KString); fld "opts" 2 (T "OptB") (MapOf KString);
                           fld "deep" 3 (T "Deep") (MapOf KInt32); fld "nicks" 4 (T "Nick") (MapOf KString);
                           fld "dups" 5 (T "DupLeaf") (MapOf KString)] [] ];
       fl_enums := [color_enum; dup_enum]; fl_services := [] |} ].

(* library instance: 1.5 as a double and as a float *)
Definition Eu : ExtLib :=
  E0 [(true, 4609434218613702656, jflt 4609434218613702656); (false, 1069547520, jflt 4609434218613702656)]
     [(jflt 4609434218613702656, (4609434218613702656, 1069547520))].

(* every hypothesis of unwrap_map_roundtrip holds for (sc, tn, m), the codec writes [j] and reads [back] = norm *)
Definition um_case_ok (E : ExtLib) (sc : schema) (tn : str) (m : mval) (j : json) (back : mval) : Prop :=
  exists md, find_message (all_messages sc) tn = Some md /\ owner_of sc md = Own FtUnwrapMap /\
    wt sc (KMessage tn) (FM m) = true /\ defects_C04 sc tn m = [] /\
    gj_enums_rt sc md m = true /\ reflected_maps_plain sc md m = true /\
    encode E sc tn m = ROk j /\ norm sc tn m = back /\ decode E sc tn j = ROk back.

Definition board_val : mval :=
  [ (s "by_sym", FMap [(VStr (s "A"), FM [(s "bars", FL [FM [(s "a", vstr "x"); (s "n", vint 7)]; FM []]); (s "note", vstr "lost")]);
                       (VStr (s "B"), FM [(s "note", vstr "lost too")])]);
    (s "names", FMap [(VStr (s "k"), FM [(s "vals", FL [vstr "p"; vstr ""])])]);
    (s "palette", FMap [(VStr (s "k"), FM [(s "cs", FL [FS (VEnum 1); FS (VEnum 2); FS (VEnum 0)])])]);
    (s "total_count", vint 9007199254740993);
    (s "ratio", FS (VFloat 4609434218613702656));
    (s "tags", FL [vstr "t1"; vstr "t2"]);
    (s "title", vstr "board");
    (s "by_id", FMap [(VInt (-3), vstr "m"); (VInt 12, vstr "p")]);
    (s "best", FM [(s "n", vint 5)]);
    (s "all_leaves", FL [FM []; FM [(s "a", vstr "z")]]);
    (s "fav", FS (VEnum 1));
    (s "raw", FS (VBytes [ch 251; ch 255]));
    (s "ok", FS (VBool true));
    (s "at", tsv 1700000000 500000000);
    (s "weights", FL [FS (VFloat 1069547520)]);
    (s "shades", FMap [(VStr (s "dark"), FS (VEnum 2)); (VStr (s "light"), FS (VEnum 1))]) ].

Definition board_json : json :=
  JObj [ (s "title", JStr (s "board"));
         (s "bySym", JObj [(s "A", JArr [JObj [(s "a", JStr (s "x")); (s "n", JStr (s "7"))]; JObj []]); (s "B", JArr [])]);
         (s "names", JObj [(s "k", JArr [JStr (s "p"); JStr []])]);
         (s "palette", JObj [(s "k", JArr [JStr (s "red"); JStr (s "COLOR_BLUE"); JStr (s "COLOR_UNSPECIFIED")])]);
         (s "totalCount", JNum 9007199254740993);
         (s "ratio", jflt 4609434218613702656);
         (s "tags", JArr [JStr (s "t1"); JStr (s "t2")]);
         (s "byId", JObj [(s "-3", JStr (s "m")); (s "12", JStr (s "p"))]);
         (s "best", JObj [(s "n", JStr (s "5"))]);
         (s "allLeaves", JArr [JObj []; JObj [(s "a", JStr (s "z"))]]);
         (s "fav", JStr (s "red"));
         (s "raw", JStr (s "+/8="));
         (s "ok", JBool true);
         (s "at", JStr (s "2023-11-14T22:13:20.500Z"));
         (s "weights", JArr [jflt 4609434218613702656]);
         (s "shades", JObj [(s "dark", JStr (s "COLOR_BLUE")); (s "light", JStr (s "red"))]) ].

(* the value read back: the wrappers have lost their "note" *)
Definition board_back : mval :=
  [ (s "by_sym", FMap [(VStr (s "A"), FM [(s "bars", FL [FM [(s "a", vstr "x"); (s "n", vint 7)]; FM []])]);
                       (VStr (s "B"), FM [])]) ] ++ tl board_val.

Ltac umok := eexists; split; [vm_compute; reflexivity|repeat split; vm_compute; reflexivity].

Example unwrap_map_roundtrip_nonvacuous :
  um_case_ok Eu ums (q "ScoreBoard") board_val board_json board_back /\
  um_case_ok Ex xs (q "Series")
    [(s "by_sym", FMap [(VStr (s "A"), FM [(s "bars", FL [FM [(s "a", vstr "x")]; FM []])])]);
     (s "total_count", vint 4); (s "ratio", FS (VFloat 4609434218613702656))]
    (JObj [(s "bySym", JObj [(s "A", JArr [JObj [(s "a", JStr (s "x"))]; JObj []])]);
           (s "totalCount", JNum 4); (s "ratio", jflt 4609434218613702656)])
    [(s "by_sym", FMap [(VStr (s "A"), FM [(s "bars", FL [FM [(s "a", vstr "x")]; FM []])])]);
     (s "total_count", vint 4); (s "ratio", FS (VFloat 4609434218613702656))].
Proof. split; umok. Qed.

(* sibling maps whose values are messages without an unwrap field (reflection over the Go struct: proto names as
   keys, int64 as numbers, nested structs, a present non-empty optional bytes field) *)
Example unwrap_map_roundtrip_nonvacuous_reflected :
  um_case_ok Eu ums (q "RefBoard")
    [(s "by_sym", FMap [(VStr (s "A"), FM [(s "bars", FL [FM [(s "n", vint 7)]])])]);
     (s "opts", FMap [(VStr (s "k"), FM [(s "b", FS (VBytes [ch 1])); (s "t", vstr "x")]); (VStr (s "l"), FM [])]);
     (s "deep", FMap [(VInt 4, FM [(s "leaf", FM [(s "a", vstr "x"); (s "n", vint 9007199254740993)]);
                                   (s "big_nums", FL [vint 1; vint (-2)]);
                                   (s "by_k", FMap [(VStr (s "p"), vint 3)]);
                                   (s "c", FS (VEnum 1));
                                   (s "more", FL [FM []; FM [(s "t", vstr "y")]]);
                                   (s "at", tsv 5 7)])])]
    (JObj [(s "bySym", JObj [(s "A", JArr [JObj [(s "n", JStr (s "7"))]])]);
           (s "opts", JObj [(s "k", JObj [(s "b", JStr (s "AQ==")); (s "t", JStr (s "x"))]); (s "l", JObj [])]);
           (s "deep", JObj [(s "4", JObj [(s "leaf", JObj [(s "a", JStr (s "x")); (s "n", JNum 9007199254740993)]);
                                          (s "big_nums", JArr [JNum 1; JNum (-2)]);
                                          (s "by_k", JObj [(s "p", JNum 3)]);
                                          (s "c", JStr (s "red"));
                                          (s "more", JArr [JObj []; JObj [(s "t", JStr (s "y"))]]);
                                          (s "at", JObj [(s "seconds", JNum 5); (s "nanos", JNum 7)])])])])
    [(s "by_sym", FMap [(VStr (s "A"), FM [(s "bars", FL [FM [(s "n", vint 7)]])])]);
     (s "opts", FMap [(VStr (s "k"), FM [(s "b", FS (VBytes [ch 1])); (s "t", vstr "x")]); (VStr (s "l"), FM [])]);
     (s "deep", FMap [(VInt 4, FM [(s "leaf", FM [(s "a", vstr "x"); (s "n", vint 9007199254740993)]);
                                   (s "big_nums", FL [vint 1; vint (-2)]);
                                   (s "by_k", FMap [(VStr (s "p"), vint 3)]);
                                   (s "c", FS (VEnum 1));
                                   (s "more", FL [FM []; FM [(s "t", vstr "y")]]);
                                   (s "at", tsv 5 7)])])].
Proof. umok. Qed.

(* ---- each side condition is needed ------------------------------------------------------------------------------ *)
(* all the other hypotheses of unwrap_map_roundtrip hold for (sc, tn, m), [j] is written, and [back] is what
   UnmarshalJSON answers *)
Definition um_case_but (E : ExtLib) (sc : schema) (tn : str) (m : mval) (gj nr : bool) (tags : list c04_defect)
                       (j : json) (back : res mval) : Prop :=
  exists md, find_message (all_messages sc) tn = Some md /\ owner_of sc md = Own FtUnwrapMap /\
    wt sc (KMessage tn) (FM m) = true /\ defects_C04 sc tn m = tags /\
    gj_enums_rt sc md m = gj /\ reflected_maps_plain sc md m = nr /\
    encode E sc tn m = ROk j /\ decode E sc tn j = back /\ back <> ROk (norm sc tn m).

Ltac umbut := eexists; split; [vm_compute; reflexivity|repeat split; try (vm_compute; reflexivity); vm_compute; discriminate].

(* gj_enums_rt, first half: an UNDEFINED enum number among the scalar items of a wrapper.  json.Marshal of the
   []Color slice calls the emitted Color.MarshalJSON, which writes x.String() = "99"; UnmarshalJSON refuses "99".
   defects_C04 says nothing: its class enum-codec-unknown-number looks at sibling fields only. *)
Example unwrap_map_roundtrip_needs_known_wrapper_enums :
  um_case_but Eu ums (q "ScoreBoard")
    [(s "palette", FMap [(VStr (s "k"), FM [(s "cs", FL [FS (VEnum 1); FS (VEnum 99)])])])]
    false true []
    (JObj [(s "palette", JObj [(s "k", JArr [JStr (s "red"); JStr (s "99")])])])
    (RErr (s "unknown enum value")).
Proof. umbut. Qed.

(* gj_enums_rt, second half: two enum values share one custom enum_value text.  DUP_B is written as "same" and read
   back as DUP_A — as a sibling and as a wrapper item alike; no defect class fires. *)
Example unwrap_map_roundtrip_needs_unambiguous_enum_json :
  um_case_but Eu ums (q "DupBoard")
    [(s "d", FS (VEnum 2))]
    false true []
    (JObj [(s "d", JStr (s "same"))])
    (ROk [(s "d", FS (VEnum 1))]) /\
  um_case_but Eu ums (q "DupBoard")
    [(s "by_sym", FMap [(VStr (s "k"), FM [(s "ds", FL [FS (VEnum 2)])])])]
    false true []
    (JObj [(s "bySym", JObj [(s "k", JArr [JStr (s "same")])])])
    (ROk [(s "by_sym", FMap [(VStr (s "k"), FM [(s "ds", FL [FS (VEnum 1)])])])]).
Proof. split; umbut. Qed.

(* reflected_maps_plain: a sibling map whose values are messages without an unwrap field goes through
   encoding/json's reflection.
   (1) `json:"b,omitempty"` drops a present-but-empty optional bytes field, so its presence is lost
       (since confirmed on the emitted code and tagged: defect class D4ReflectedEmptyOptBytes);
   (2) an enum field of such a value whose type has two values with one custom text: DUP_B is written "same" and read
       back as DUP_A; gj_enums_rt looks at the message's own fields and the wrapper items only, no defect class fires. *)
Example unwrap_map_roundtrip_needs_reflected_maps_plain :
  um_case_but Eu ums (q "RefBoard")
    [(s "opts", FMap [(VStr (s "k"), FM [(s "b", FS (VBytes [])); (s "t", vstr "x")])])]
    true false [D4ReflectedEmptyOptBytes]
    (JObj [(s "opts", JObj [(s "k", JObj [(s "t", JStr (s "x"))])])])
    (ROk [(s "opts", FMap [(VStr (s "k"), FM [(s "t", vstr "x")])])]) /\
  um_case_but Eu ums (q "RefBoard")
    [(s "dups", FMap [(VStr (s "k"), FM [(s "d", FS (VEnum 2))])])]
    true false []
    (JObj [(s "dups", JObj [(s "k", JObj [(s "d", JStr (s "same"))])])])
    (ROk [(s "dups", FMap [(VStr (s "k"), FM [(s "d", FS (VEnum 1))])])]).
Proof. split; umbut. Qed.

(* defects_C04 = []: -0.0 in a singular sibling is dropped by `x.F != 0` *)
Example unwrap_map_roundtrip_needs_no_defects :
  um_case_but Ex xs (q "Series")
    [(s "ratio", FS (VFloat 9223372036854775808))]
    true true [D4UnwrapSiblingNegZero]
    (JObj [])
    (ROk []).
Proof. umbut. Qed.

(* ---- what remains ----------------------------------------------------------------------------------------------- *)
(* [reflected_maps_plain] also refuses a reflected map whose value messages own a codec (encoding/json calls their
   MarshalJSON / UnmarshalJSON): not a failure of the round trip — on this instance every other hypothesis holds and
   so does the conclusion — but those values need the per-codec round trips at the level of gj_fval / gj_un. *)
Example unwrap_map_roundtrip_remainder_example :
  let m := [(s "nicks", FMap [(VStr (s "k"), FM [(s "id", vstr "x")])])] in
  exists md, find_message (all_messages ums) (q "RefBoard") = Some md /\ owner_of ums md = Own FtUnwrapMap /\
    wt ums (KMessage (q "RefBoard")) (FM m) = true /\ defects_C04 ums (q "RefBoard") m = [] /\
    gj_enums_rt ums md m = true /\ reflected_maps_plain ums md m = false /\
    encode Eu ums (q "RefBoard") m = ROk (JObj [(s "nicks", JObj [(s "k", JObj [(s "id", JStr (s "x")); (s "nick", JNull)])])]) /\
    decode Eu ums (q "RefBoard") (JObj [(s "nicks", JObj [(s "k", JObj [(s "id", JStr (s "x")); (s "nick", JNull)])])])
      = ROk (norm ums (q "RefBoard") m).
Proof. eexists. split; [vm_compute; reflexivity|repeat split; vm_compute; reflexivity]. Qed.

(* the full statement: the values of a reflected map may contain codec-owning messages; what has to be kept is
   only what Part F shows necessary (no present-but-empty bytes under a reflected struct, enum numbers that are
   written and read back); a codec-owning value answers for itself through defects_C04.  OPEN: needs, for each of
   the nine codecs, its round trip stated for gj_fval / gj_un under fuel instead of encode / decode. *)
Section Full.
Variable sc : schema.
Fixpoint reflect_keeps (k : kind) (v : fval) {struct v} : bool :=
  match v with
  | FS x => sval_gj_ok sc k x
  | FL l => (fix all (l : list fval) : bool := match l with [] => true | y :: t => reflect_keeps k y && all t end) l
  | FMap kv => (fix all (kv : list (sval * fval)) : bool :=
                  match kv with [] => true | (_, y) :: t => reflect_keeps k y && all t end) kv
  | FM cm =>
      match k with
      | KMessage tn =>
          match lookup_message sc tn with
          | Some md =>
              match owner_of sc md with
              | OwnNone =>
                  (fix go (cm : list (str * fval)) : bool :=
                     match cm with
                     | [] => true
                     | (name, x) :: r =>
                         match find_field (m_fields md) name with
                         | Some f => negb (match x with FS (VBytes []) => true | _ => false end) &&
                                     reflect_keeps (f_kind f) x && go r
                         | None => false
                         end
                     end) cm
              | _ => true
              end
          | None => false
          end
      | _ => false
      end
  end.
Definition reflected_maps_keep (md : message) (m : mval) : bool :=
  forallb (fun e => match find_field (m_fields md) (fst e) with
                    | Some f => negb (reflected_map sc f) || reflect_keeps (f_kind f) (snd e)
                    | None => true
                    end) m.
End Full.
Definition unwrap_map_roundtrip_full : Prop :=
  forall E, ExtLaws E -> forall sc tn md m j,
  find_message (all_messages sc) tn = Some md -> owner_of sc md = Own FtUnwrapMap ->
  wt sc (KMessage tn) (FM m) = true -> defects_C04 sc tn m = [] ->
  gj_enums_rt sc md m = true -> reflected_maps_keep sc md m = true ->
  encode E sc tn m = ROk j -> decode E sc tn j = ROk (norm sc tn m).

Print Assumptions gj_reflect_roundtrip.
Print Assumptions unwrap_map_roundtrip.
Close Scope Z_scope.
