(* BytesFacts.v — the bytes_encoding codec (internal/httpgen/bytes_encoding.go) in general:
   MarshalJSON   = protojson output with the text of every non-empty annotated bytes field replaced by
                   its HEX / BASE64_RAW / BASE64URL / BASE64URL_RAW text,
   UnmarshalJSON = the same entries re-written as padded standard base64, then protojson;
   hence the round trip (C04) for every message whose codec is the bytes one, for all well-typed
   values (singular and optional fields, empty and non-empty byte strings, all four encodings).
   The encoder never produces CR / LF, so the decoder's "Unmodelled" branch is never taken. *)
From Sebuf Require Import CodecCases.
From SebufProofs Require Import TextFacts CodecTextFacts ProtoJsonFacts NullableFacts.
From Coq Require Import Lia ZArith.

Open Scope Z_scope.

(* ---- text level: the annotated texts contain no CR / LF and decode to the bytes they encode ---------------- *)
Definition ncrlf (c : ascii) : bool := negb ((code c =? 10)%N || (code c =? 13)%N).

Lemma b64_char_ncrlf url x : ncrlf (b64_char url x) = true.
Proof. destruct x as [[[[[a b] c] d] e] f]. destruct url, a, b, c, d, e, f; reflexivity. Qed.
Lemma padc_ncrlf : ncrlf padc = true.
Proof. reflexivity. Qed.
Lemma hex_char_ncrlf x : ncrlf (hex_char x) = true.
Proof. destruct x as [[[a b] c] d]. destruct a, b, c, d; reflexivity. Qed.

Lemma b64_enc_ncrlf url pad x : forallb ncrlf (b64_enc url pad x) = true.
Proof.
  induction x as [|a|a b|a b c r IH] using list_ind3.
  - reflexivity.
  - destruct a as [a0 a1 a2 a3 a4 a5 a6 a7]. destruct pad; cbn [b64_enc enc1 app forallb];
      rewrite ?b64_char_ncrlf, ?padc_ncrlf; reflexivity.
  - destruct a as [a0 a1 a2 a3 a4 a5 a6 a7], b as [b0 b1 b2 b3 b4 b5 b6 b7].
    destruct pad; cbn [b64_enc enc2 app forallb]; rewrite ?b64_char_ncrlf, ?padc_ncrlf; reflexivity.
  - change (b64_enc url pad (a :: b :: c :: r)) with (enc3 url a b c ++ b64_enc url pad r).
    rewrite forallb_app, IH.
    destruct a as [a0 a1 a2 a3 a4 a5 a6 a7], b as [b0 b1 b2 b3 b4 b5 b6 b7], c as [c0 c1 c2 c3 c4 c5 c6 c7].
    cbn [enc3 forallb]. rewrite !b64_char_ncrlf. reflexivity.
Qed.

Lemma hex_enc_ncrlf x : forallb ncrlf (hex_enc x) = true.
Proof.
  induction x as [|[b0 b1 b2 b3 b4 b5 b6 b7] r IH]; [reflexivity|].
  cbn [hex_enc forallb]. rewrite !hex_char_ncrlf, IH. reflexivity.
Qed.

Lemma ncrlf_no_crlf x : forallb ncrlf x = true -> has_crlf x = false.
Proof.
  intros H. unfold has_crlf. eapply existsb_false_of_forallb; [|exact H].
  intros c Hc. unfold ncrlf in Hc. apply Bool.negb_true_iff in Hc. exact Hc.
Qed.

Lemma bytes_text_no_crlf e b : has_crlf (bytes_enc_text e b) = false.
Proof.
  apply ncrlf_no_crlf. destruct e; cbn [bytes_enc_text]; try apply b64_enc_ncrlf. apply hex_enc_ncrlf.
Qed.

Lemma bytes_text_rt e b : bytes_dec_text e (bytes_enc_text e b) = Some b.
Proof. destruct e; cbn [bytes_enc_text bytes_dec_text]; try apply b64_roundtrip. apply hex_roundtrip. Qed.

Lemma bytes_enc_text_nil e : bytes_enc_text e [] = [].
Proof. destruct e; reflexivity. Qed.

(* ---- small facts on strings, keys and raw maps -------------------------------------------------------------------- *)
Lemma str_eqb_sym a b : str_eqb a b = str_eqb b a.
Proof.
  destruct (str_eqb a b) eqn:E1.
  - apply str_eqb_eq in E1. subst. symmetry. apply str_eqb_refl.
  - destruct (str_eqb b a) eqn:E2; [|reflexivity]. apply str_eqb_eq in E2. subst. rewrite str_eqb_refl in E1. discriminate.
Qed.

Lemma field_by_json_spec fs k f : field_by_json fs k = Some f -> In f fs /\ jn f = k.
Proof.
  induction fs as [|g r IH]; cbn [field_by_json]; [discriminate|].
  destruct (str_eqb (json_name (f_name g)) k) eqn:Ek; intros H.
  - inversion H; subst g. split; [left; reflexivity|]. apply str_eqb_eq. exact Ek.
  - destruct (IH H) as [Hin Hk]. split; [right; exact Hin|exact Hk].
Qed.

Lemma field_by_json_none fs k : ~ In k (map jn fs) -> field_by_json fs k = None.
Proof.
  intros Hn. destruct (field_by_json fs k) as [f|] eqn:Ef; [|reflexivity]. exfalso.
  destruct (field_by_json_spec fs k f Ef) as [Hin Hk]. apply Hn. rewrite <- Hk. apply in_map. exact Hin.
Qed.

Lemma field_by_json_complete fs f :
  nodup_str (map jn fs) = true -> In f fs -> field_by_json fs (jn f) = Some f.
Proof.
  intros Hnd Hin. destruct (field_by_json fs (jn f)) as [g|] eqn:Eg.
  - destruct (field_by_json_spec fs (jn f) g Eg) as [Hg Hk]. f_equal. eapply nodup_jn_inj; eauto.
  - exfalso. clear Hnd. induction fs as [|g r IH]; [exact Hin|]. cbn [field_by_json] in Eg.
    destruct (str_eqb (json_name (f_name g)) (jn f)) eqn:Ek; [discriminate|].
    destruct Hin as [Hin|Hin]; [|exact (IH Hin Eg)]. subst g. unfold jn in Ek. rewrite str_eqb_refl in Ek. discriminate.
Qed.

Lemma raw_has_map_fst k (r : rawmap) : raw_has k r = existsb (fun x => str_eqb x k) (map fst r).
Proof. unfold raw_has. induction r as [|e r IH]; cbn [existsb map]; [reflexivity|]. rewrite IH. reflexivity. Qed.

Lemma raw_has_same_keys k (a b : rawmap) : map fst a = map fst b -> raw_has k a = raw_has k b.
Proof. intros H. rewrite !raw_has_map_fst, H. reflexivity. Qed.

Lemma raw_get_some_has k (r : rawmap) v : raw_get k r = Some v -> raw_has k r = true.
Proof. intros H. apply raw_has_keys. apply raw_get_in in H. apply (in_map fst) in H. exact H. Qed.

Lemma raw_get_none_key k (r : rawmap) e : raw_get k r = None -> In e r -> fst e <> k.
Proof.
  intros Hg Hin Hk. destruct (raw_has k r) eqn:Eh.
  - destruct (raw_has_get _ _ Eh) as [v Hv]. congruence.
  - assert (raw_has k r = true) by (apply raw_has_keys; rewrite <- Hk; apply in_map; exact Hin). congruence.
Qed.

Lemma raw_set_present k v (r : rawmap) :
  raw_has k r = true -> raw_set k v r = map (fun e => if str_eqb (fst e) k then (k, v) else e) r.
Proof. unfold raw_set. intros ->. reflexivity. Qed.

Lemma nodup_get_unique (r : rawmap) k v e :
  nodup_str (map fst r) = true -> raw_get k r = Some v -> In e r -> fst e = k -> snd e = v.
Proof.
  unfold raw_get. induction r as [|[k' v'] r IH]; intros Hnd Hg Hin Hk; [destruct Hin|].
  cbn [assoc_json] in Hg. cbn [map fst] in Hnd.
  pose proof (nodup_head_notin k' (map fst r) Hnd) as Hnot.
  assert (Hnd' : nodup_str (map fst r) = true) by (cbn [nodup_str] in Hnd; apply andb_prop in Hnd; apply Hnd).
  destruct (str_eqb k k') eqn:Ek.
  - apply str_eqb_eq in Ek. subst k'. inversion Hg; subst v'. destruct Hin as [Hin|Hin].
    + subst e. reflexivity.
    + exfalso. apply Hnot. rewrite <- Hk. apply in_map. exact Hin.
  - destruct Hin as [Hin|Hin].
    + subst e. cbn [fst] in Hk. subst k'. rewrite str_eqb_refl in Ek. discriminate.
    + apply IH; assumption.
Qed.

Lemma raw_set_same (r : rawmap) k v :
  nodup_str (map fst r) = true -> raw_get k r = Some v -> raw_set k v r = r.
Proof.
  intros Hnd Hg. rewrite (raw_set_present k v r (raw_get_some_has k r v Hg)).
  rewrite <- (map_id r) at 2. apply map_ext_in. intros e Hin.
  destruct (str_eqb (fst e) k) eqn:Ek; [|reflexivity]. apply str_eqb_eq in Ek.
  rewrite <- (nodup_get_unique r k v e Hnd Hg Hin Ek), <- Ek. destruct e; reflexivity.
Qed.

(* ---- a fold of key-local rewrites is one pass over the entries ------------------------------------------------------ *)
Section KeyLocal.
Variable G : field -> json -> json.

Definition one (f : field) (e : str * json) : str * json :=
  if str_eqb (fst e) (jn f) then (jn f, G f (snd e)) else e.
Definition entry (fs : list field) (e : str * json) : str * json :=
  match field_by_json fs (fst e) with Some f => (fst e, G f (snd e)) | None => e end.

Lemma one_fst f e : fst (one f e) = fst e.
Proof. unfold one. destruct (str_eqb (fst e) (jn f)) eqn:Ek; [|reflexivity]. apply str_eqb_eq in Ek. symmetry. exact Ek. Qed.
Lemma entry_fst fs e : fst (entry fs e) = fst e.
Proof. unfold entry. destruct (field_by_json fs (fst e)); reflexivity. Qed.
Lemma keys_map_one f (r : rawmap) : map fst (map (one f) r) = map fst r.
Proof. rewrite map_map. apply map_ext. intros e. apply one_fst. Qed.
Lemma keys_map_entry fs (r : rawmap) : map fst (map (entry fs) r) = map fst r.
Proof. rewrite map_map. apply map_ext. intros e. apply entry_fst. Qed.

Lemma entry_one f r e : ~ In (jn f) (map jn r) -> entry r (one f e) = entry (f :: r) e.
Proof.
  intros Hn. unfold one, entry. cbn [field_by_json]. change (json_name (f_name f)) with (jn f).
  rewrite (str_eqb_sym (jn f) (fst e)).
  destruct (str_eqb (fst e) (jn f)) eqn:Ek; [|reflexivity].
  apply str_eqb_eq in Ek. cbn [fst snd]. rewrite (field_by_json_none r (jn f) Hn), Ek. reflexivity.
Qed.

Lemma fold_one fs : forall raw : rawmap,
  nodup_str (map jn fs) = true ->
  fold_left (fun raw f => map (one f) raw) fs raw = map (entry fs) raw.
Proof.
  induction fs as [|f r IH]; intros raw Hnd.
  - cbn [fold_left]. rewrite <- (map_id raw) at 1. apply map_ext. intros e. reflexivity.
  - cbn [fold_left]. rewrite IH by (cbn [map nodup_str] in Hnd; apply andb_prop in Hnd; apply Hnd).
    rewrite map_map. apply map_ext. intros e. apply entry_one. exact (nodup_head_notin (jn f) (map jn r) Hnd).
Qed.

Lemma map_one_id f (r : rawmap) :
  (forall e, In e r -> fst e = jn f -> G f (snd e) = snd e) -> map (one f) r = r.
Proof.
  intros H. rewrite <- (map_id r) at 2. apply map_ext_in. intros e Hin. unfold one.
  destruct (str_eqb (fst e) (jn f)) eqn:Ek; [|reflexivity]. apply str_eqb_eq in Ek.
  rewrite (H e Hin Ek), <- Ek. destruct e; reflexivity.
Qed.

Lemma map_one_get f (r : rawmap) v :
  nodup_str (map fst r) = true -> raw_get (jn f) r = Some v -> map (one f) r = raw_set (jn f) (G f v) r.
Proof.
  intros Hnd Hg. rewrite (raw_set_present _ _ r (raw_get_some_has _ r v Hg)).
  apply map_ext_in. intros e Hin. unfold one.
  destruct (str_eqb (fst e) (jn f)) eqn:Ek; [|reflexivity]. apply str_eqb_eq in Ek.
  rewrite (nodup_get_unique r (jn f) v e Hnd Hg Hin Ek). reflexivity.
Qed.
End KeyLocal.

(* ---- MarshalJSON / UnmarshalJSON bodies as one pass over the protojson entries ----------------------------------- *)
(* what MarshalJSON writes under the key of field f (v: what protojson wrote there) *)
Definition Genc (m : mval) (f : field) (v : json) : json :=
  match bytesenc_of f, mget m (f_name f) with
  | Some e, Some (FS (VBytes (c :: b))) => JStr (bytes_enc_text e (c :: b))
  | _, _ => v
  end.
(* what UnmarshalJSON hands to protojson under the key of field f *)
Definition Gdec (f : field) (v : json) : json :=
  match bytesenc_of f, v with
  | Some e, JStr x => match bytes_dec_text e x with Some b => JStr (b64_enc false true b) | None => v end
  | _, _ => v
  end.

Definition benc_step (m : mval) (raw : rawmap) (f : field) : rawmap :=
  match bytesenc_of f, mget m (f_name f) with
  | Some e, Some (FS (VBytes (c :: b))) => raw_set (jn f) (JStr (bytes_enc_text e (c :: b))) raw
  | _, _ => raw
  end.
Definition bdec_step (raw : rawmap) (f : field) : res rawmap :=
  match bytesenc_of f, raw_get (jn f) raw with
  | Some e, Some (JStr x) =>
      if has_crlf x then RUnm (s "bytes text with CR/LF") else
      match bytes_dec_text e x with
      | Some b => ROk (raw_set (jn f) (JStr (b64_enc false true b)) raw)
      | None => ROk raw
      end
  | _, _ => ROk raw
  end.

Lemma enc_bytes_fold md m raw : enc_bytes md m raw = fold_left (benc_step m) (m_fields md) raw.
Proof. reflexivity. Qed.
Lemma dec_bytes_fold md raw :
  dec_bytes md raw = fold_left (fun acc f => acc >>= (fun raw => bdec_step raw f)) (m_fields md) (ROk raw).
Proof. reflexivity. Qed.

Lemma benc_step_cases m raw f :
  (exists e c b, bytesenc_of f = Some e /\ mget m (f_name f) = Some (FS (VBytes (c :: b))) /\
                 benc_step m raw f = raw_set (jn f) (JStr (bytes_enc_text e (c :: b))) raw /\
                 forall v, Genc m f v = JStr (bytes_enc_text e (c :: b))) \/
  (benc_step m raw f = raw /\ forall v, Genc m f v = v).
Proof.
  unfold benc_step, Genc. destruct (bytesenc_of f) as [e|]; [|right; split; reflexivity].
  destruct (mget m (f_name f)) as [[[z|b0|x|[|c b]|b0|n]|cm|l|kv]|]; try (right; split; reflexivity).
  left. exists e, c, b. repeat split; reflexivity.
Qed.

Lemma benc_step_one m raw f :
  (mget m (f_name f) <> None -> raw_has (jn f) raw = true) -> benc_step m raw f = map (one (Genc m) f) raw.
Proof.
  intros Hhas. destruct (benc_step_cases m raw f) as [[e [c [b [_ [Hm [Hs HG]]]]]]|[Hs HG]].
  - rewrite Hs, raw_set_present by (apply Hhas; rewrite Hm; discriminate).
    apply map_ext. intros x. unfold one. rewrite HG. reflexivity.
  - rewrite Hs. symmetry. apply map_one_id. intros x _ _. apply HG.
Qed.

Lemma benc_fold m fs : forall raw,
  nodup_str (map jn fs) = true ->
  (forall f, In f fs -> mget m (f_name f) <> None -> raw_has (jn f) raw = true) ->
  fold_left (benc_step m) fs raw = map (entry (Genc m) fs) raw.
Proof.
  intros raw Hnd Hhas. rewrite <- (fold_one (Genc m) fs raw Hnd). clear Hnd.
  revert raw Hhas. induction fs as [|f r IH]; intros raw Hhas; [reflexivity|].
  cbn [fold_left]. rewrite (benc_step_one m raw f (Hhas f (or_introl eq_refl))). apply IH.
  intros g Hg Hm. rewrite (raw_has_same_keys (jn g) _ raw (keys_map_one (Genc m) f raw)).
  apply Hhas; [right; exact Hg|exact Hm].
Qed.

Lemma bdec_step_one raw f :
  nodup_str (map fst raw) = true ->
  (forall e x, bytesenc_of f = Some e -> raw_get (jn f) raw = Some (JStr x) -> has_crlf x = false) ->
  bdec_step raw f = ROk (map (one Gdec f) raw).
Proof.
  intros Hnd Hcr. unfold bdec_step. destruct (bytesenc_of f) as [e|] eqn:Eb.
  2:{ rewrite map_one_id; [reflexivity|]. intros x _ _. unfold Gdec. rewrite Eb. reflexivity. }
  destruct (raw_get (jn f) raw) as [v|] eqn:Eg.
  2:{ rewrite map_one_id; [reflexivity|]. intros x Hin Hk. exfalso. exact (raw_get_none_key _ _ _ Eg Hin Hk). }
  rewrite (map_one_get Gdec f raw v Hnd Eg).
  assert (Hid : Gdec f v = v -> ROk raw = ROk (raw_set (jn f) (Gdec f v) raw)).
  { intros ->. rewrite (raw_set_same raw (jn f) v Hnd Eg). reflexivity. }
  destruct v as [|b0|z|x|l|kv]; try (apply Hid; unfold Gdec; rewrite Eb; reflexivity).
  rewrite (Hcr e x eq_refl eq_refl).
  destruct (bytes_dec_text e x) as [b|] eqn:Ed.
  - unfold Gdec. rewrite Eb, Ed. reflexivity.
  - apply Hid. unfold Gdec. rewrite Eb, Ed. reflexivity.
Qed.

Lemma bdec_fold fs : forall raw,
  nodup_str (map jn fs) = true -> nodup_str (map fst raw) = true ->
  (forall k x f e, In (k, JStr x) raw -> field_by_json fs k = Some f -> bytesenc_of f = Some e -> has_crlf x = false) ->
  fold_left (fun acc f => acc >>= (fun raw => bdec_step raw f)) fs (ROk raw) = ROk (map (entry Gdec fs) raw).
Proof.
  induction fs as [|f r IH]; intros raw Hnd Hkeys Hcr.
  - cbn [fold_left]. f_equal. rewrite <- (map_id raw) at 1. apply map_ext. intros e. reflexivity.
  - assert (Hnd' : nodup_str (map jn r) = true) by (cbn [map nodup_str] in Hnd; apply andb_prop in Hnd; apply Hnd).
    pose proof (nodup_head_notin (jn f) (map jn r) Hnd) as Hnot.
    cbn [fold_left]. rewrite rbind_ROk.
    rewrite (bdec_step_one raw f Hkeys).
    2:{ intros e x Eb Eg. apply raw_get_in in Eg. apply (Hcr (jn f) x f e Eg); [|exact Eb].
        cbn [field_by_json]. change (json_name (f_name f)) with (jn f). rewrite str_eqb_refl. reflexivity. }
    rewrite IH.
    + f_equal. rewrite map_map. apply map_ext. intros e. apply entry_one. exact Hnot.
    + exact Hnd'.
    + rewrite keys_map_one. exact Hkeys.
    + intros k x g e Hin Hg Eb. apply in_map_iff in Hin. destruct Hin as [e0 [He0 Hin0]].
      unfold one in He0. destruct (str_eqb (fst e0) (jn f)) eqn:Ek.
      * exfalso. inversion He0; subst k. destruct (field_by_json_spec r (jn f) g Hg) as [Hgin Hgk].
        apply Hnot. rewrite <- Hgk. apply in_map. exact Hgin.
      * subst e0. cbn [fst] in Ek. apply (Hcr k x g e Hin0); [|exact Eb].
        cbn [field_by_json]. change (json_name (f_name f)) with (jn f). rewrite (str_eqb_sym (jn f) k), Ek. exact Hg.
Qed.

(* ---- what well-typedness says about the entries ------------------------------------------------------------------- *)
Lemma nodup_jn_of_numbers fs :
  nodup_Z (map f_number fs) = true ->
  (forall a b, In a fs -> In b fs -> jn a = jn b -> f_number a = f_number b) ->
  nodup_str (map jn fs) = true.
Proof.
  induction fs as [|g r IH]; intros Hnd Hinj; [reflexivity|].
  cbn [map nodup_Z] in Hnd. apply andb_prop in Hnd. destruct Hnd as [Hg Hr].
  cbn [map nodup_str]. apply andb_true_intro. split.
  - apply Bool.negb_true_iff. destruct (existsb (str_eqb (jn g)) (map jn r)) eqn:Ex; [|reflexivity]. exfalso.
    apply existsb_exists in Ex. destruct Ex as [k [Hk Hgk]]. apply str_eqb_eq in Hgk. subst k.
    apply in_map_iff in Hk. destruct Hk as [c [Hck Hc]].
    apply Bool.negb_true_iff in Hg.
    assert (Hex : existsb (Z.eqb (f_number g)) (map f_number r) = true).
    { apply existsb_exists. exists (f_number c). split; [apply in_map; exact Hc|].
      apply Z.eqb_eq. apply Hinj; [left; reflexivity|right; exact Hc|symmetry; exact Hck]. }
    congruence.
  - apply IH; [exact Hr|]. intros a b Ha Hb. apply Hinj; right; assumption.
Qed.

(* distinct JSON names are part of well-typedness (msg_ok) *)
Lemma msg_ok_nodup_jn md : msg_ok md = true -> nodup_str (map jn (m_fields md)) = true.
Proof.
  intros Hok. unfold msg_ok in Hok. apply andb_prop in Hok. destruct Hok as [Hnd Hall].
  rewrite forallb_forall in Hall.
  apply nodup_jn_of_numbers; [exact Hnd|].
  intros a b Ha Hb Hab.
  pose proof (Hall a Ha) as Hka. pose proof (Hall b Hb) as Hkb.
  apply andb_prop in Hka. destruct Hka as [Hka _]. apply andb_prop in Hkb. destruct Hkb as [Hkb _].
  change (json_name (f_name a)) with (jn a) in Hka. change (json_name (f_name b)) with (jn b) in Hkb.
  rewrite <- Hab in Hkb.
  destruct (field_of_key md (jn a)) as [f'|]; [|discriminate].
  apply Z.eqb_eq in Hka. apply Z.eqb_eq in Hkb. congruence.
Qed.

Lemma lt_all_notin x l : lt_all_Z x l = true -> ~ In x l.
Proof.
  intros H Hin. pose proof (lt_all_no_dup x l H) as Hn.
  assert (existsb (Z.eqb x) l = true) by (apply existsb_exists; exists x; split; [exact Hin|apply Z.eqb_refl]).
  congruence.
Qed.

(* field-number order makes the names of a value distinct: mget finds every entry *)
Lemma sorted_mget md (m : mval) name x :
  sorted_Z (map (fun e => num_of md (fst e)) m) = true -> In (name, x) m -> mget m name = Some x.
Proof.
  induction m as [|[n0 x0] r IH]; intros Hs Hin; [destruct Hin|].
  cbn [map sorted_Z fst] in Hs. apply andb_prop in Hs. destruct Hs as [Hlt Hs].
  cbn [mget]. destruct Hin as [Hin|Hin].
  - inversion Hin; subst. rewrite str_eqb_refl. reflexivity.
  - destruct (str_eqb name n0) eqn:Ek; [|apply IH; assumption].
    exfalso. apply str_eqb_eq in Ek. subst n0. apply (lt_all_notin _ _ Hlt).
    apply (in_map (fun e : str * fval => num_of md (fst e))) in Hin. exact Hin.
Qed.

Definition declared (md : message) (m : mval) : bool :=
  forallb (fun e => match find_field (m_fields md) (fst e) with Some _ => true | None => false end) m.

Lemma sorted_keys_nodup md (m : mval) :
  nodup_str (map jn (m_fields md)) = true ->
  sorted_Z (map (fun e => num_of md (fst e)) m) = true -> declared md m = true ->
  nodup_str (map (fun e => json_name (fst e)) m) = true.
Proof.
  intros Hnd. induction m as [|[n0 x0] r IH]; intros Hs Hd; [reflexivity|].
  cbn [map sorted_Z fst] in Hs. apply andb_prop in Hs. destruct Hs as [Hlt Hs].
  unfold declared in Hd. cbn [forallb fst] in Hd. apply andb_prop in Hd. destruct Hd as [Hd0 Hd].
  cbn [map nodup_str fst]. apply andb_true_intro. split; [|apply IH; assumption].
  apply Bool.negb_true_iff.
  destruct (existsb (str_eqb (json_name n0)) (map (fun e : str * fval => json_name (fst e)) r)) eqn:Ex; [|reflexivity].
  exfalso. apply existsb_exists in Ex. destruct Ex as [k [Hk Hnk]]. apply str_eqb_eq in Hnk. subst k.
  apply in_map_iff in Hk. destruct Hk as [[n1 x1] [Hn1 Hin1]]. cbn [fst] in Hn1.
  destruct (find_field (m_fields md) n0) as [f0|] eqn:E0; [|discriminate].
  unfold declared in Hd. rewrite forallb_forall in Hd. pose proof (Hd _ Hin1) as Hd1. cbn [fst] in Hd1.
  destruct (find_field (m_fields md) n1) as [f1|] eqn:E1; [|discriminate].
  destruct (find_field_spec _ _ _ E0) as [Hin0 Hname0]. destruct (find_field_spec _ _ _ E1) as [Hinf1 Hname1].
  assert (Heq : f1 = f0).
  { eapply nodup_jn_inj; eauto. unfold jn. rewrite Hname0, Hname1. exact Hn1. }
  assert (Hnn : n1 = n0) by congruence.
  apply (lt_all_notin _ _ Hlt).
  apply (in_map (fun e : str * fval => num_of md (fst e))) in Hin1. cbn [fst] in Hin1. rewrite Hnn in Hin1. exact Hin1.
Qed.

Section Values.
Variable E : ExtLib.
Variable sc : schema.

Lemma m_msg_entry md m : forall es k v,
  m_msg E sc md m = ROk es -> In (k, v) es ->
  exists name x f, In (name, x) m /\ k = json_name name /\ find_field (m_fields md) name = Some f /\
                   pj_fval E sc (f_kind f) x = ROk v.
Proof.
  induction m as [|[name x] r IH]; intros es k v H Hin; cbn [m_msg] in H.
  - inversion H; subst es. destruct Hin.
  - destruct (find_field (m_fields md) name) as [f|] eqn:Ef; [|discriminate].
    apply rbind_ok in H. destruct H as [j [Hj H]]. apply rbind_ok in H. destruct H as [t [Ht H]].
    inversion H; subst es. destruct Hin as [Hin|Hin].
    + inversion Hin; subst k v. exists name, x, f. repeat split; [left; reflexivity|exact Ef|exact Hj].
    + destruct (IH t k v Ht Hin) as [n' [x' [f' [H1 [H2 [H3 H4]]]]]].
      exists n', x', f'. repeat split; [right; exact H1|exact H2|exact H3|exact H4].
Qed.

Lemma wt_fields_in md (m : mval) name x :
  wt_fields sc md m = true -> In (name, x) m ->
  exists f, find_field (m_fields md) name = Some f /\ wt_entry sc f x = true.
Proof.
  induction m as [|[n0 x0] r IH]; intros Hw Hin; [destruct Hin|].
  cbn [wt_fields] in Hw. destruct (find_field (m_fields md) n0) as [f|] eqn:Ef; [|discriminate].
  apply andb_prop in Hw. destruct Hw as [Hwe Hwr].
  destruct Hin as [Hin|Hin].
  - inversion Hin; subst. exists f. split; [exact Ef|exact Hwe].
  - apply IH; assumption.
Qed.

Lemma wt_fields_declared md (m : mval) : wt_fields sc md m = true -> declared md m = true.
Proof.
  induction m as [|[n0 x0] r IH]; intros Hw; [reflexivity|].
  cbn [wt_fields] in Hw. unfold declared. cbn [forallb fst].
  destruct (find_field (m_fields md) n0); [|discriminate].
  apply andb_prop in Hw. destruct Hw as [_ Hwr]. exact (IH Hwr).
Qed.

Lemma bytesenc_kind f e : bytesenc_of f = Some e -> f_kind f = KBytes.
Proof. unfold bytesenc_of. destruct (f_kind f); try discriminate. reflexivity. Qed.

Lemma buildable_bytes_card md f e :
  buildable sc FtBytes md = true -> In f (m_fields md) -> bytesenc_of f = Some e ->
  f_card f = Singular \/ f_card f = Optional.
Proof.
  intros Hb Hin He. cbn [buildable] in Hb. rewrite forallb_forall in Hb. specialize (Hb f Hin).
  rewrite He in Hb. destruct (f_card f); try discriminate; auto.
Qed.

Lemma bytes_entry_shape f x :
  f_kind f = KBytes -> (f_card f = Singular \/ f_card f = Optional) -> wt_entry sc f x = true ->
  exists b, x = FS (VBytes b).
Proof.
  intros Hk Hc Hw. unfold wt_entry in Hw. rewrite Hk in Hw.
  destruct x as [sx|cm|l|kv].
  - assert (Hs : wt sc KBytes (FS sx) = true).
    { destruct Hc as [Hc|Hc]; rewrite Hc in Hw; apply andb_prop in Hw; apply Hw. }
    destruct sx; cbn in Hs; try discriminate. eexists. reflexivity.
  - destruct Hc as [Hc|Hc]; rewrite Hc in Hw; cbn in Hw; discriminate.
  - destruct Hc as [Hc|Hc]; rewrite Hc in Hw; discriminate.
  - destruct Hc as [Hc|Hc]; rewrite Hc in Hw; discriminate.
Qed.
End Values.

(* ---- the codec of a bytes-owning message, unfolded ------------------------------------------------------------------ *)
Section Codec.
Variable E : ExtLib.
Hypothesis EL : ExtLaws E.
Variable sc : schema.

Lemma kids_bytes md m : declared md m = true -> kids_loop E sc FtBytes md m = ROk [].
Proof.
  unfold declared. induction m as [|[name x] r IH]; cbn [kids_loop forallb fst]; [reflexivity|].
  destruct (find_field (m_fields md) name); [|discriminate]. cbn [needs_gj andb]. exact IH.
Qed.

Lemma gj_un_bytes n tn md raw :
  is_wkt_other tn = false -> lookup_message sc tn = Some md -> owner_of sc md = Own FtBytes ->
  buildable sc FtBytes md = true ->
  gj_un E sc (S n) (KMessage tn) (JObj raw) =
  dec_bytes md raw >>= (fun raw' => pj_un E sc (KMessage tn) (JObj raw') >>= (fun v => ROk (Some v))).
Proof. intros H1 H2 H3 H4. simpl. rewrite H1, H2, H3, H4. reflexivity. Qed.

(* the encoder's output on a well-typed value: every annotated entry carries the annotated text *)
Lemma enc_entry_text md m es k v f e :
  nodup_str (map jn (m_fields md)) = true -> buildable sc FtBytes md = true ->
  sorted_Z (map (fun e => num_of md (fst e)) m) = true -> wt_fields sc md m = true ->
  m_msg E sc md m = ROk es -> In (k, v) es ->
  field_by_json (m_fields md) k = Some f -> bytesenc_of f = Some e ->
  exists b, v = JStr (b64_enc false true b) /\ Genc m f v = JStr (bytes_enc_text e b).
Proof.
  intros Hnd Hb Hsorted Hwf Hes Hin Hf He.
  destruct (m_msg_entry E sc md m es k v Hes Hin) as [name [x [f0 [Hinm [Hk [Hf0 Hpj]]]]]].
  destruct (find_field_spec _ _ _ Hf0) as [Hin0 Hname0].
  destruct (field_by_json_spec _ _ _ Hf) as [Hinf Hjk].
  assert (Heq : f0 = f). { eapply nodup_jn_inj; eauto. unfold jn at 1. rewrite Hname0, <- Hk. symmetry. exact Hjk. }
  subst f0.
  destruct (wt_fields_in sc md m name x Hwf Hinm) as [f' [Hf' Hwe]].
  assert (f' = f) by congruence. subst f'.
  pose proof (bytesenc_kind f e He) as Hkind.
  destruct (bytes_entry_shape sc f x Hkind (buildable_bytes_card sc md f e Hb Hinf He) Hwe) as [b Hx]. subst x.
  rewrite Hkind, pj_fval_FS in Hpj. cbn [pj_scalar] in Hpj. inversion Hpj; subst v.
  exists b. split; [reflexivity|].
  unfold Genc. rewrite He, Hname0, (sorted_mget md m name (FS (VBytes b)) Hsorted Hinm).
  destruct b as [|c b]; [|reflexivity]. rewrite bytes_enc_text_nil. reflexivity.
Qed.

(* UnmarshalJSON's pre-pass undoes MarshalJSON's post-pass, and never meets CR / LF *)
Lemma dec_enc_bytes md m es :
  nodup_str (map jn (m_fields md)) = true -> buildable sc FtBytes md = true ->
  sorted_Z (map (fun e => num_of md (fst e)) m) = true -> wt_fields sc md m = true ->
  m_msg E sc md m = ROk es ->
  dec_bytes md (enc_bytes md m es) = ROk es.
Proof.
  intros Hnd Hb Hsorted Hwf Hes.
  pose proof (m_msg_keys E sc md m es Hes) as Hkeys.
  pose proof (wt_fields_declared sc md m Hwf) as Hdecl.
  assert (Hesnd : nodup_str (map fst es) = true).
  { rewrite Hkeys. apply (sorted_keys_nodup md m Hnd Hsorted Hdecl). }
  (* encoder *)
  rewrite enc_bytes_fold, (benc_fold m (m_fields md) es Hnd).
  2:{ intros f Hin Hm. apply raw_has_keys. rewrite Hkeys.
      destruct (mget m (f_name f)) as [x|] eqn:Eg; [|exfalso; apply Hm; reflexivity].
      apply mget_some_in in Eg. apply in_map_iff in Eg. destruct Eg as [[n x'] [Hn Hinm]]. cbn [fst] in Hn. subst n.
      apply in_map_iff. exists (f_name f, x'). split; [reflexivity|exact Hinm]. }
  (* decoder *)
  rewrite dec_bytes_fold, (bdec_fold (m_fields md) _ Hnd).
  - f_equal. rewrite map_map. rewrite <- (map_id es) at 2. apply map_ext_in. intros [k v] Hin.
    unfold entry at 2. cbn [fst snd].
    destruct (field_by_json (m_fields md) k) as [f|] eqn:Ef.
    + unfold entry. cbn [fst snd]. rewrite Ef.
      destruct (bytesenc_of f) as [e|] eqn:Eb.
      * destruct (enc_entry_text md m es k v f e Hnd Hb Hsorted Hwf Hes Hin Ef Eb) as [b [Hv HG]].
        rewrite HG. unfold Gdec. rewrite Eb, bytes_text_rt, Hv. reflexivity.
      * unfold Genc, Gdec. rewrite Eb. reflexivity.
    + unfold entry. cbn [fst]. rewrite Ef. reflexivity.
  - rewrite keys_map_entry. exact Hesnd.
  - intros k x f e Hin Hf Eb. apply in_map_iff in Hin. destruct Hin as [[k0 v0] [He0 Hin0]].
    unfold entry in He0. cbn [fst snd] in He0.
    destruct (field_by_json (m_fields md) k0) as [f0|] eqn:Ef0.
    + inversion He0; subst k0. assert (f0 = f) by congruence. subst f0.
      destruct (enc_entry_text md m es k v0 f e Hnd Hb Hsorted Hwf Hes Hin0 Ef0 Eb) as [b [_ HG]].
      assert (Hx : x = bytes_enc_text e b) by congruence. rewrite Hx. apply bytes_text_no_crlf.
    + inversion He0; subst k0. congruence.
Qed.

(* C04 for the bytes_encoding codec, all schemas, all well-typed values.  Distinct JSON names and
   "the emitted codec compiles" are not hypotheses: the first is part of well-typedness, the second
   follows from encode returning a JSON value. *)
Theorem bytes_roundtrip_gen : forall tn md m j,
  str_eqb tn ts_name = false -> is_wkt_other tn = false ->
  find_message (all_messages sc) tn = Some md -> owner_of sc md = Own FtBytes ->
  wt sc (KMessage tn) (FM m) = true ->
  encode E sc tn m = ROk j -> decode E sc tn j = ROk (norm sc tn m).
Proof.
  intros tn md m j Hts Hwk Hfm Hown Hwt Henc.
  assert (Hlk : lookup_message sc tn = Some md) by (unfold lookup_message; rewrite Hts; exact Hfm).
  assert (Howns : owns sc tn = true) by (unfold owns; rewrite Hlk, Hown; reflexivity).
  assert (Hnorm : norm sc tn m = m) by (unfold norm; rewrite Hlk, Hown; reflexivity).
  rewrite Hnorm. unfold encode in Henc. rewrite Howns in Henc.
  rewrite (gj_fval_owned E sc tn md FtBytes m Hwk Hlk Hown) in Henc.
  apply rbind_ok in Henc. destruct Henc as [ks [Hks Henc]].
  unfold codec_body in Henc.
  destruct (buildable sc FtBytes md) eqn:Hb; [|discriminate Henc]. cbn [negb] in Henc. cbv iota in Henc.
  apply rbind_ok in Henc. destruct Henc as [raw [Hraw Henc]].
  apply rbind_ok in Hraw. destruct Hraw as [j0 [Hpj Hobj]].
  pose proof Hpj as Hpj'. unfold pj_marshal in Hpj'. rewrite pj_fval_FM, Hts, Hwk, Hfm in Hpj'.
  apply rbind_ok in Hpj'. destruct Hpj' as [es [Hes Hj0]]. inversion Hj0; subst j0.
  cbn [as_obj] in Hobj. inversion Hobj; subst raw. inversion Henc; subst j. clear Hobj Henc Hj0.
  (* well-typedness of the top-level value *)
  pose proof Hwt as Hwt'. rewrite wt_FM, Hts, Hwk, Hfm in Hwt'. cbn [negb andb] in Hwt'.
  apply andb_prop in Hwt'. destruct Hwt' as [Hwt' Hwf]. apply andb_prop in Hwt'. destruct Hwt' as [Hok Hsorted].
  pose proof (msg_ok_nodup_jn md Hok) as Hnd.
  (* decoding *)
  unfold decode. rewrite Howns. cbv beta iota.
  rewrite (gj_un_bytes _ tn md _ Hwk Hlk Hown Hb).
  rewrite (dec_enc_bytes md m es Hnd Hb Hsorted Hwf Hes). rewrite rbind_ROk.
  assert (Hrt : pj_un E sc (KMessage tn) (JObj es) = ROk (FM m)).
  { apply (Q_of_PP E sc _ (pj_roundtrip_fval E EL sc (FM m)) (KMessage tn) (JObj es) Hwt).
    rewrite pj_fval_FM, Hts, Hwk, Hfm, Hes. reflexivity. }
  rewrite Hrt. reflexivity.
Qed.

(* the statement in the shape of nullable_roundtrip (its two extra hypotheses are redundant) *)
Theorem bytes_roundtrip : forall tn md m j,
  str_eqb tn ts_name = false -> is_wkt_other tn = false ->
  find_message (all_messages sc) tn = Some md -> owner_of sc md = Own FtBytes ->
  buildable sc FtBytes md = true ->
  nodup_str (map jn (m_fields md)) = true ->
  wt sc (KMessage tn) (FM m) = true ->
  encode E sc tn m = ROk j -> decode E sc tn j = ROk (norm sc tn m).
Proof. intros tn md m j Hts Hwk Hfm Hown _ _. apply (bytes_roundtrip_gen tn md m j); assumption. Qed.

(* the encoder never produces a text with CR / LF under an annotated key *)
Theorem bytes_encode_no_crlf : forall tn md m es k x f e,
  str_eqb tn ts_name = false -> is_wkt_other tn = false ->
  find_message (all_messages sc) tn = Some md -> owner_of sc md = Own FtBytes ->
  wt sc (KMessage tn) (FM m) = true ->
  encode E sc tn m = ROk (JObj es) -> In (k, JStr x) es ->
  field_by_json (m_fields md) k = Some f -> bytesenc_of f = Some e -> has_crlf x = false.
Proof.
  intros tn md m es0 k x f e Hts Hwk Hfm Hown Hwt Henc Hin Hf Eb.
  assert (Hlk : lookup_message sc tn = Some md) by (unfold lookup_message; rewrite Hts; exact Hfm).
  assert (Howns : owns sc tn = true) by (unfold owns; rewrite Hlk, Hown; reflexivity).
  unfold encode in Henc. rewrite Howns in Henc.
  rewrite (gj_fval_owned E sc tn md FtBytes m Hwk Hlk Hown) in Henc.
  apply rbind_ok in Henc. destruct Henc as [ks [Hks Henc]].
  unfold codec_body in Henc.
  destruct (buildable sc FtBytes md) eqn:Hb; [|discriminate Henc]. cbn [negb] in Henc. cbv iota in Henc.
  apply rbind_ok in Henc. destruct Henc as [raw [Hraw Henc]].
  apply rbind_ok in Hraw. destruct Hraw as [j0 [Hpj Hobj]].
  unfold pj_marshal in Hpj. rewrite pj_fval_FM, Hts, Hwk, Hfm in Hpj.
  apply rbind_ok in Hpj. destruct Hpj as [es [Hes Hj0]]. inversion Hj0; subst j0.
  cbn [as_obj] in Hobj. inversion Hobj; subst raw. inversion Henc; subst es0. clear Hobj Henc Hj0.
  rewrite wt_FM, Hts, Hwk, Hfm in Hwt. cbn [negb andb] in Hwt.
  apply andb_prop in Hwt. destruct Hwt as [Hwt Hwf]. apply andb_prop in Hwt. destruct Hwt as [Hok Hsorted].
  pose proof (msg_ok_nodup_jn md Hok) as Hnd.
  pose proof (m_msg_keys E sc md m es Hes) as Hkeys.
  rewrite enc_bytes_fold, (benc_fold m (m_fields md) es Hnd) in Hin.
  2:{ intros g Hing Hm. apply raw_has_keys. rewrite Hkeys.
      destruct (mget m (f_name g)) as [y|] eqn:Eg; [|exfalso; apply Hm; reflexivity].
      apply mget_some_in in Eg. apply in_map_iff in Eg. destruct Eg as [[n y'] [Hn Hinm]]. cbn [fst] in Hn. subst n.
      apply in_map_iff. exists (f_name g, y'). split; [reflexivity|exact Hinm]. }
  apply in_map_iff in Hin. destruct Hin as [[k0 v0] [He0 Hin0]].
  unfold entry in He0. cbn [fst snd] in He0.
  destruct (field_by_json (m_fields md) k0) as [f0|] eqn:Ef0.
  - inversion He0; subst k0. assert (f0 = f) by congruence. subst f0.
    destruct (enc_entry_text md m es k v0 f e Hnd Hb Hsorted Hwf Hes Hin0 Ef0 Eb) as [b [_ HG]].
    assert (Hx : x = bytes_enc_text e b) by congruence. rewrite Hx. apply bytes_text_no_crlf.
  - inversion He0; subst k0. congruence.
Qed.
End Codec.
