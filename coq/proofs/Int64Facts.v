(* Int64Facts.v — the int64 NUMBER codec (internal/httpgen/encoding.go) in general:
   MarshalJSON  = protojson output with the value of every NUMBER-annotated 64-bit field (singular or
                  repeated, all five 64-bit kinds) rewritten in place from decimal string(s) to number(s),
   UnmarshalJSON rewrites exactly those numbers back to the decimal strings protojson reads;
   hence the round trip (C04) for every message whose codec is the int64 one, all well-typed values.
   Both passes are folds over the declared fields that touch pairwise distinct keys, so each is a
   [map] over the entries (fold_tr); the composition of the two maps is the identity entry by entry. *)
From Sebuf Require Import CodecCases.
From SebufProofs Require Import TextFacts CodecTextFacts ProtoJsonFacts NullableFacts.
From Coq Require Import Lia ZArith List.
Import ListNotations.

Open Scope Z_scope.

Local Arguments buildable : simpl never.

(* ---- raw-map facts ------------------------------------------------------------------------------------------ *)
Lemma str_eqb_sym a b : str_eqb a b = str_eqb b a.
Proof.
  destruct (str_eqb a b) eqn:E1.
  - apply str_eqb_eq in E1. subst b. symmetry. apply str_eqb_refl.
  - destruct (str_eqb b a) eqn:E2; [|reflexivity]. apply str_eqb_eq in E2. subst b.
    rewrite str_eqb_refl in E1. discriminate.
Qed.

Lemma map_id_in {A} (g : A -> A) (l : list A) : (forall a, In a l -> g a = a) -> map g l = l.
Proof.
  induction l as [|a r IH]; intros H; simpl; [reflexivity|].
  rewrite (H a (or_introl eq_refl)). f_equal. apply IH. intros b Hb. apply H. right. exact Hb.
Qed.

Lemma NoDup_map_in {A B} (g : A -> B) (l : list A) :
  NoDup l -> (forall a b, In a l -> In b l -> g a = g b -> a = b) -> NoDup (map g l).
Proof.
  induction l as [|a r IH]; intros Hnd Hinj; simpl; [constructor|].
  apply NoDup_cons_iff in Hnd. destruct Hnd as [Hnotin Hnd].
  constructor.
  - intros Hin. apply in_map_iff in Hin. destruct Hin as [b [Hb Hinb]].
    assert (Hba : b = a) by (apply Hinj; [right; exact Hinb|left; reflexivity|exact Hb]).
    subst b. contradiction.
  - apply IH; [exact Hnd|]. intros x y Hx Hy. apply Hinj; right; assumption.
Qed.

Lemma raw_get_has k raw v : raw_get k raw = Some v -> raw_has k raw = true.
Proof.
  intros H. apply raw_has_keys. apply raw_get_in in H. apply (in_map fst) in H. exact H.
Qed.
Lemma raw_get_not_has k raw : raw_has k raw = false -> raw_get k raw = None.
Proof.
  intros H. destruct (raw_get k raw) as [v|] eqn:Eg; [|reflexivity].
  rewrite (raw_get_has _ _ _ Eg) in H. discriminate.
Qed.
Lemma raw_get_none_keys k raw : raw_get k raw = None -> forall e, In e raw -> str_eqb (fst e) k = false.
Proof.
  unfold raw_get. induction raw as [|[k' v'] r IH]; simpl; intros H e Hin; [contradiction|].
  destruct (str_eqb k k') eqn:Ek; [discriminate|]. destruct Hin as [Hin|Hin].
  - subst e. simpl. rewrite str_eqb_sym. exact Ek.
  - apply IH; assumption.
Qed.
Lemma raw_get_unique k raw v :
  NoDup (map fst raw) -> raw_get k raw = Some v ->
  forall e, In e raw -> str_eqb (fst e) k = true -> snd e = v.
Proof.
  unfold raw_get. induction raw as [|[k' v'] r IH]; simpl; intros Hnd Hg e Hin He; [contradiction|].
  apply NoDup_cons_iff in Hnd. destruct Hnd as [Hnotin Hnd].
  destruct (str_eqb k k') eqn:Ek.
  - inversion Hg; subst v'. apply str_eqb_eq in Ek. subst k'. destruct Hin as [Hin|Hin].
    + subst e. reflexivity.
    + exfalso. apply Hnotin. apply str_eqb_eq in He. rewrite <- He. apply in_map. exact Hin.
  - destruct Hin as [Hin|Hin].
    + subst e. simpl in He. rewrite str_eqb_sym in He. congruence.
    + apply IH; assumption.
Qed.
Lemma raw_set_present k v raw :
  raw_has k raw = true -> raw_set k v raw = map (fun e => if str_eqb (fst e) k then (k, v) else e) raw.
Proof. unfold raw_set. intros H. rewrite H. reflexivity. Qed.

Lemma find_jn_none (r : list field) k : ~ In k (map jn r) -> find (fun g => str_eqb (jn g) k) r = None.
Proof.
  induction r as [|g r IH]; simpl; intros H; [reflexivity|].
  destruct (str_eqb (jn g) k) eqn:Eg.
  - exfalso. apply H. left. apply str_eqb_eq. exact Eg.
  - apply IH. intros Hin. apply H. right. exact Hin.
Qed.
Lemma find_jn (fs : list field) f :
  nodup_str (map jn fs) = true -> In f fs -> find (fun g => str_eqb (jn g) (jn f)) fs = Some f.
Proof.
  induction fs as [|g r IH]; intros Hnd Hin; [contradiction|]. simpl.
  destruct (str_eqb (jn g) (jn f)) eqn:Eg.
  - apply str_eqb_eq in Eg. f_equal. apply (nodup_jn_inj (g :: r) g f Hnd (or_introl eq_refl) Hin Eg).
  - destruct Hin as [Hin|Hin]; [subst g; rewrite str_eqb_refl in Eg; discriminate|].
    apply IH; [|exact Hin]. simpl in Hnd. apply andb_prop in Hnd. apply Hnd.
Qed.

(* ---- a fold of in-place value rewrites over fields with distinct keys is a map over the entries ---------- *)
Section Generic.
Variable upd : field -> json -> option json.

Definition gstep (raw : rawmap) (f : field) : rawmap :=
  match raw_get (jn f) raw with
  | Some v => match upd f v with Some v' => raw_set (jn f) v' raw | None => raw end
  | None => raw
  end.
Definition tr1 (f : field) (e : str * json) : str * json :=
  if str_eqb (fst e) (jn f) then match upd f (snd e) with Some v' => (jn f, v') | None => e end else e.
Definition tr (fs : list field) (e : str * json) : str * json :=
  match find (fun f => str_eqb (jn f) (fst e)) fs with
  | Some f => match upd f (snd e) with Some v' => (fst e, v') | None => e end
  | None => e
  end.

Lemma tr1_fst f e : fst (tr1 f e) = fst e.
Proof.
  unfold tr1. destruct (str_eqb (fst e) (jn f)) eqn:Ee; [|reflexivity].
  destruct (upd f (snd e)); [|reflexivity]. simpl. apply str_eqb_eq in Ee. symmetry. exact Ee.
Qed.
Lemma tr_fst fs e : fst (tr fs e) = fst e.
Proof.
  unfold tr. destruct (find (fun f => str_eqb (jn f) (fst e)) fs) as [f|]; [|reflexivity].
  destruct (upd f (snd e)); reflexivity.
Qed.
Lemma tr_cons f r e :
  tr (f :: r) e = if str_eqb (jn f) (fst e)
                  then match upd f (snd e) with Some v' => (fst e, v') | None => e end
                  else tr r e.
Proof. unfold tr. simpl. destruct (str_eqb (jn f) (fst e)); reflexivity. Qed.
Lemma tr_at fs f v :
  nodup_str (map jn fs) = true -> In f fs ->
  tr fs (jn f, v) = match upd f v with Some v' => (jn f, v') | None => (jn f, v) end.
Proof. intros Hnd Hin. unfold tr. simpl fst. simpl snd. rewrite (find_jn fs f Hnd Hin). reflexivity. Qed.

Lemma gstep_map raw f : NoDup (map fst raw) -> gstep raw f = map (tr1 f) raw.
Proof.
  intros Hnd. unfold gstep. destruct (raw_get (jn f) raw) as [v|] eqn:Eg.
  - destruct (upd f v) as [v'|] eqn:Eu.
    + rewrite (raw_set_present _ _ _ (raw_get_has _ _ _ Eg)). apply map_ext_in. intros e Hin.
      unfold tr1. destruct (str_eqb (fst e) (jn f)) eqn:Ee; [|reflexivity].
      rewrite (raw_get_unique _ _ _ Hnd Eg e Hin Ee), Eu. reflexivity.
    + symmetry. apply map_id_in. intros e Hin. unfold tr1.
      destruct (str_eqb (fst e) (jn f)) eqn:Ee; [|reflexivity].
      rewrite (raw_get_unique _ _ _ Hnd Eg e Hin Ee), Eu. reflexivity.
  - symmetry. apply map_id_in. intros e Hin. unfold tr1.
    rewrite (raw_get_none_keys _ _ Eg e Hin). reflexivity.
Qed.

Lemma fold_tr (step : rawmap -> field -> rawmap) (K : list str) (fs0 : list field) :
  (forall raw f, In f fs0 -> map fst raw = K -> step raw f = map (tr1 f) raw) ->
  forall fs, incl fs fs0 -> nodup_str (map jn fs) = true ->
  forall raw, map fst raw = K -> fold_left step fs raw = map (tr fs) raw.
Proof.
  intros Hstep. induction fs as [|f r IH]; intros Hincl Hnd raw Hkeys.
  - simpl. symmetry. apply map_id_in. intros e _. reflexivity.
  - simpl fold_left. rewrite (Hstep raw f (Hincl f (or_introl eq_refl)) Hkeys).
    assert (Hnd' : nodup_str (map jn r) = true) by (simpl in Hnd; apply andb_prop in Hnd; apply Hnd).
    assert (Hnone : find (fun g => str_eqb (jn g) (jn f)) r = None).
    { apply find_jn_none. apply (nodup_head_notin (jn f) (map jn r) Hnd). }
    rewrite IH.
    + rewrite map_map. apply map_ext. intros e. rewrite tr_cons, (str_eqb_sym (jn f) (fst e)).
      unfold tr1. destruct (str_eqb (fst e) (jn f)) eqn:Ee; [|reflexivity].
      apply str_eqb_eq in Ee. destruct (upd f (snd e)) as [v'|].
      * unfold tr. simpl fst. rewrite Hnone. rewrite Ee. reflexivity.
      * unfold tr. rewrite Ee, Hnone. reflexivity.
    + intros x Hx. apply Hincl. right. exact Hx.
    + exact Hnd'.
    + rewrite map_map. rewrite <- Hkeys. apply map_ext. intros e. apply tr1_fst.
Qed.
End Generic.

(* ---- values of 64-bit kinds ----------------------------------------------------------------------------------- *)
Definition vint64 (z : Z) : fval := FS (VInt z).
Definition num_elem (v : fval) : json := match v with FS (VInt z) => JNum z | _ => JNull end.
Definition str_elem (v : fval) : json := match v with FS (VInt z) => JStr (show_Z z) | _ => JNull end.
(* the NUMBER form and the protojson form of the value of a 64-bit field *)
Definition num_json (x : fval) : json :=
  match x with FS (VInt z) => JNum z | FL l => JArr (map num_elem l) | _ => JNull end.
Definition str_json (x : fval) : json :=
  match x with FS (VInt z) => JStr (show_Z z) | FL l => JArr (map str_elem l) | _ => JNull end.

(* what a well-typed value of a buildable NUMBER field looks like *)
Definition shape (f : field) (x : fval) : Prop :=
  (f_card f = Singular /\ exists z, x = FS (VInt z) /\ z <> 0 /\ in_int_range (f_kind f) z = true) \/
  (f_card f = Repeated /\ exists zs, x = FL (map vint64 zs) /\ zs <> [] /\ forallb (in_int_range (f_kind f)) zs = true).

Lemma number_i64_facts f : is_number_i64 f = true ->
  is_int64_kind (f_kind f) = true /\ is_map f = false /\ f_int64 f = Some I64Number.
Proof.
  unfold is_number_i64. intros H. apply andb_prop in H. destruct H as [H H3]. apply andb_prop in H. destruct H as [H1 H2].
  apply Bool.negb_true_iff in H2. repeat split; auto.
  destruct (f_int64 f) as [[| |]|]; try discriminate. reflexivity.
Qed.

Lemma go_ints_nums k zs : forallb (in_int_range k) zs = true -> go_ints k (map JNum zs) = Some zs.
Proof.
  induction zs as [|z r IH]; simpl; intros H; [reflexivity|].
  apply andb_prop in H. destruct H as [Hz Hr]. rewrite Hz, (IH Hr). reflexivity.
Qed.
Lemma map_num_elem zs : map num_elem (map vint64 zs) = map JNum zs.
Proof. rewrite map_map. apply map_ext. intros z. reflexivity. Qed.
Lemma map_str_elem zs : map str_elem (map vint64 zs) = map (fun z => JStr (show_Z z)) zs.
Proof. rewrite map_map. apply map_ext. intros z. reflexivity. Qed.

Section Int64.
Variable E : ExtLib.
Variable sc : schema.
Variable md : message.
Variable m : mval.

Lemma pj_scalar_i64 k z : is_int64_kind k = true -> pj_scalar E sc k (VInt z) = ROk (JStr (show_Z z)).
Proof. intros Hk. destruct k; try discriminate Hk; reflexivity. Qed.

Lemma wt_int64_scalar k sx : is_int64_kind k = true -> wt sc k (FS sx) = true ->
  exists z, sx = VInt z /\ in_int_range k z = true.
Proof.
  intros Hk Hw. destruct k; try discriminate Hk; destruct sx as [z|b|x|x|b|n]; try discriminate Hw;
    exists z; (split; [reflexivity|]); simpl in Hw; exact Hw.
Qed.

Lemma all_wt_ints k l : is_int64_kind k = true ->
  (fix all (l : list fval) : bool := match l with [] => true | y :: t => wt sc k y && all t end) l = true ->
  exists zs, l = map vint64 zs /\ forallb (in_int_range k) zs = true.
Proof.
  intros Hk. induction l as [|y t IH]; intros H.
  - exists []. split; reflexivity.
  - apply andb_prop in H. destruct H as [Hy Ht]. destruct (IH Ht) as [zs [Hl Hzs]]. subst t.
    destruct y as [sx|cm|l'|kv].
    + destruct (wt_int64_scalar k sx Hk Hy) as [z [Hsx Hz]]. subst sx.
      exists (z :: zs). split; [reflexivity|]. simpl. rewrite Hz, Hzs. reflexivity.
    + destruct k; try discriminate Hk; discriminate Hy.
    + discriminate Hy.
    + discriminate Hy.
Qed.

Lemma m_list_ints k zs : is_int64_kind k = true ->
  m_list E sc k (map vint64 zs) = ROk (map (fun z => JStr (show_Z z)) zs).
Proof.
  intros Hk. induction zs as [|z r IH]; [reflexivity|].
  change (m_list E sc k (map vint64 (z :: r)))
    with (pj_fval E sc k (FS (VInt z)) >>= (fun j => m_list E sc k (map vint64 r) >>= (fun t => ROk (j :: t)))).
  rewrite pj_fval_FS, (pj_scalar_i64 k z Hk), IH. reflexivity.
Qed.

(* shape of a well-typed value of a NUMBER field the emitted code compiles for *)
Lemma shape_of_wt f x :
  buildable sc FtInt64 md = true -> In f (m_fields md) -> is_number_i64 f = true ->
  wt_entry sc f x = true -> shape f x.
Proof.
  intros Hb Hin Hn Hw. destruct (number_i64_facts f Hn) as [Hk [Hmap _]].
  unfold buildable in Hb. rewrite forallb_forall in Hb. specialize (Hb f Hin). rewrite Hn in Hb. simpl in Hb.
  unfold wt_entry in Hw. unfold shape.
  destruct (f_card f) as [| | |kk] eqn:Ec.
  - (* Singular *)
    left. split; [reflexivity|].
    assert (Hone : f_oneof f = None).
    { unfold plain_singular, is_repeated in Hb. rewrite Ec in Hb. destruct (f_oneof f); [discriminate Hb|reflexivity]. }
    destruct x as [sx|cm|l|kv]; try discriminate Hw.
    + apply andb_prop in Hw. destruct Hw as [Hwt Hpop].
      destruct (wt_int64_scalar (f_kind f) sx Hk Hwt) as [z [Hsx Hz]]. subst sx.
      exists z. split; [reflexivity|]. split; [|exact Hz].
      intros Hz0. subst z. unfold populated, implicit_scalar in Hpop. rewrite Ec, Hone in Hpop.
      destruct (f_kind f); try discriminate Hk; discriminate Hpop.
    + destruct (f_kind f); try discriminate Hk; discriminate Hw.
  - (* Optional: the emitted code does not compile *)
    unfold plain_singular, is_repeated in Hb. rewrite Ec in Hb. discriminate Hb.
  - (* Repeated *)
    right. split; [reflexivity|].
    destruct x as [sx|cm|l|kv]; try discriminate Hw.
    destruct l as [|e l]; [discriminate Hw|].
    destruct (all_wt_ints (f_kind f) (e :: l) Hk Hw) as [zs [Hl Hzs]].
    exists zs. split; [rewrite Hl; reflexivity|]. split; [|exact Hzs].
    intros Hnil. subst zs. discriminate Hl.
  - unfold is_map in Hmap. rewrite Ec in Hmap. discriminate Hmap.
Qed.

Lemma pj_num f x : is_int64_kind (f_kind f) = true -> shape f x ->
  pj_fval E sc (f_kind f) x = ROk (str_json x).
Proof.
  intros Hk [[_ [z [Hx _]]]|[_ [zs [Hx _]]]]; subst x.
  - rewrite pj_fval_FS. apply pj_scalar_i64. exact Hk.
  - rewrite pj_fval_FL, (m_list_ints (f_kind f) zs Hk). simpl. rewrite map_str_elem. reflexivity.
Qed.

(* ---- MarshalJSON ------------------------------------------------------------------------------------------- *)
Definition enc_step (raw : rawmap) (f : field) : rawmap :=
  if is_number_i64 f then
    match f_card f with
    | Repeated => match mget m (f_name f) with
                  | Some (FL (x :: l)) =>
                      raw_set (jn f) (JArr (map (fun v => match v with FS (VInt z) => JNum z | _ => JNull end) (x :: l))) raw
                  | _ => raw
                  end
    | _ => match mget m (f_name f) with
           | Some (FS (VInt z)) => if z =? 0 then raw_del (jn f) raw else raw_set (jn f) (JNum z) raw
           | _ => raw_del (jn f) raw
           end
    end
  else raw.
Lemma enc_int64_fold raw : enc_int64 md m raw = fold_left enc_step (m_fields md) raw.
Proof. reflexivity. Qed.

Definition upd_enc (f : field) (v : json) : option json :=
  if is_number_i64 f then
    match f_card f with
    | Repeated => match mget m (f_name f) with
                  | Some (FL (x :: l)) => Some (JArr (map num_elem (x :: l)))
                  | _ => None
                  end
    | _ => match mget m (f_name f) with
           | Some (FS (VInt z)) => if z =? 0 then None else Some (JNum z)
           | _ => None
           end
    end
  else None.

Lemma upd_enc_val f x v : is_number_i64 f = true -> mget m (f_name f) = Some x -> shape f x ->
  upd_enc f v = Some (num_json x).
Proof.
  intros Hn Hm [[Ec [z [Hx [Hz _]]]]|[Ec [zs [Hx [Hne _]]]]]; subst x; unfold upd_enc; rewrite Hn, Ec, Hm.
  - rewrite (proj2 (Z.eqb_neq z 0) Hz). reflexivity.
  - destruct zs as [|z0 zs]; [contradiction|]. reflexivity.
Qed.
Lemma upd_enc_plain f v : is_number_i64 f = false -> upd_enc f v = None.
Proof. intros Hn. unfold upd_enc. rewrite Hn. reflexivity. Qed.

Definition val_ok (f : field) : Prop :=
  is_number_i64 f = true -> match mget m (f_name f) with Some x => shape f x | None => True end.

Lemma enc_step_tr1 raw f :
  val_ok f -> (raw_has (jn f) raw = true <-> mget m (f_name f) <> None) -> NoDup (map fst raw) ->
  enc_step raw f = map (tr1 upd_enc f) raw.
Proof.
  intros Hv Hk Hnd. rewrite <- (gstep_map upd_enc raw f Hnd). unfold enc_step, gstep, upd_enc, val_ok in *.
  destruct (is_number_i64 f) eqn:En.
  - specialize (Hv eq_refl). destruct (mget m (f_name f)) as [x|] eqn:Em.
    + assert (Hhas : raw_has (jn f) raw = true) by (apply Hk; discriminate).
      destruct (raw_has_get _ _ Hhas) as [v Hg]. rewrite Hg.
      destruct Hv as [[Ec [z [Hx [Hz _]]]]|[Ec [zs [Hx [Hne _]]]]]; subst x; rewrite Ec.
      * rewrite (proj2 (Z.eqb_neq z 0) Hz). reflexivity.
      * destruct zs as [|z0 zs]; [contradiction|]. reflexivity.
    + assert (Hhas : raw_has (jn f) raw = false).
      { destruct (raw_has (jn f) raw) eqn:Eh; [|reflexivity]. exfalso. apply (proj1 Hk eq_refl). reflexivity. }
      rewrite (raw_get_not_has _ _ Hhas), (raw_del_notin _ _ Hhas). destruct (f_card f); reflexivity.
  - destruct (raw_get (jn f) raw); reflexivity.
Qed.

(* ---- UnmarshalJSON ----------------------------------------------------------------------------------------- *)
Definition dec_step (raw : rawmap) (f : field) : rawmap :=
  if is_number_i64 f then
    match raw_get (jn f) raw with
    | Some v =>
        match f_card f with
        | Repeated =>
            match v with
            | JArr l => match go_ints (f_kind f) l with
                        | Some zs => raw_set (jn f) (JArr (map (fun z => JStr (show_Z z)) zs)) raw
                        | None => raw
                        end
            | JNull => raw_set (jn f) (JArr []) raw
            | _ => raw
            end
        | _ => match go_int (f_kind f) v with
               | Some z => raw_set (jn f) (JStr (show_Z z)) raw
               | None => raw
               end
        end
    | None => raw
    end
  else raw.
Lemma dec_int64_fold raw : dec_int64 md raw = fold_left dec_step (m_fields md) raw.
Proof. reflexivity. Qed.

Definition upd_dec (f : field) (v : json) : option json :=
  if is_number_i64 f then
    match f_card f with
    | Repeated =>
        match v with
        | JArr l => match go_ints (f_kind f) l with
                    | Some zs => Some (JArr (map (fun z => JStr (show_Z z)) zs))
                    | None => None
                    end
        | JNull => Some (JArr [])
        | _ => None
        end
    | _ => match go_int (f_kind f) v with Some z => Some (JStr (show_Z z)) | None => None end
    end
  else None.

Lemma dec_step_g raw f : dec_step raw f = gstep upd_dec raw f.
Proof.
  unfold dec_step, gstep, upd_dec. destruct (is_number_i64 f); destruct (raw_get (jn f) raw) as [v|]; try reflexivity.
  destruct (f_card f).
  - destruct (go_int (f_kind f) v); reflexivity.
  - destruct (go_int (f_kind f) v); reflexivity.
  - destruct v as [|b|z|x|l|kv]; try reflexivity. destruct (go_ints (f_kind f) l); reflexivity.
  - destruct (go_int (f_kind f) v); reflexivity.
Qed.

Lemma dec_num f x : is_number_i64 f = true -> shape f x -> upd_dec f (num_json x) = Some (str_json x).
Proof.
  intros Hn [[Ec [z [Hx [_ Hr]]]]|[Ec [zs [Hx [_ Hr]]]]]; subst x; unfold upd_dec; rewrite Hn, Ec.
  - cbn [num_json go_int]. rewrite Hr. reflexivity.
  - simpl num_json. rewrite map_num_elem, (go_ints_nums _ _ Hr). simpl str_json. rewrite map_str_elem. reflexivity.
Qed.
Lemma upd_dec_plain f v : is_number_i64 f = false -> upd_dec f v = None.
Proof. intros Hn. unfold upd_dec. rewrite Hn. reflexivity. Qed.

(* ---- the protojson entries of a well-typed message value ------------------------------------------------------ *)
Lemma m_msg_entries r es : m_msg E sc md r = ROk es -> forall kv, In kv es ->
  exists name x f, In (name, x) r /\ find_field (m_fields md) name = Some f /\
                   fst kv = json_name name /\ pj_fval E sc (f_kind f) x = ROk (snd kv).
Proof.
  revert es. induction r as [|[name x] r IH]; intros es H kv Hin; simpl in H.
  - inversion H; subst es. contradiction.
  - destruct (find_field (m_fields md) name) as [f|] eqn:Ef; [|discriminate].
    apply rbind_ok in H. destruct H as [j [Hj H]]. apply rbind_ok in H. destruct H as [t [Ht H]].
    inversion H; subst es. destruct Hin as [Hin|Hin].
    + subst kv. exists name, x, f. split; [left; reflexivity|]. split; [exact Ef|]. split; [reflexivity|exact Hj].
    + destruct (IH t Ht kv Hin) as [n' [x' [f' [H1 H2]]]]. exists n', x', f'. split; [right; exact H1|exact H2].
Qed.

Lemma wt_fields_in r name x : wt_fields sc md r = true -> In (name, x) r ->
  exists f, find_field (m_fields md) name = Some f /\ wt_entry sc f x = true.
Proof.
  induction r as [|[n0 x0] r IH]; simpl; intros Hw Hin; [contradiction|].
  destruct (find_field (m_fields md) n0) as [f|] eqn:Ef; [|discriminate].
  apply andb_prop in Hw. destruct Hw as [Hwe Hwr]. destruct Hin as [Hin|Hin].
  - inversion Hin; subst n0 x0. exists f. split; assumption.
  - apply IH; assumption.
Qed.

Lemma lt_all_notin x l : lt_all_Z x l = true -> ~ In x l.
Proof.
  induction l as [|y r IH]; simpl; intros H Hin; [contradiction|].
  apply andb_prop in H. destruct H as [H1 H2]. destruct Hin as [Hin|Hin].
  - subst y. apply Z.ltb_lt in H1. lia.
  - exact (IH H2 Hin).
Qed.
Lemma mget_pair (r : mval) k x : mget r k = Some x -> In (k, x) r.
Proof.
  induction r as [|[k' v'] r IH]; simpl; [discriminate|].
  destruct (str_eqb k k') eqn:Ek; intros H.
  - inversion H; subst v'. apply str_eqb_eq in Ek. subst k'. left. reflexivity.
  - right. apply IH. exact H.
Qed.
Lemma mget_of_in (r : mval) name x :
  sorted_Z (map (fun e => num_of md (fst e)) r) = true -> In (name, x) r -> mget r name = Some x.
Proof.
  induction r as [|[n0 x0] r IH]; simpl; intros Hs Hin; [contradiction|].
  apply andb_prop in Hs. destruct Hs as [Hlt Hs]. destruct Hin as [Hin|Hin].
  - inversion Hin; subst n0 x0. rewrite str_eqb_refl. reflexivity.
  - destruct (str_eqb name n0) eqn:En.
    + exfalso. apply str_eqb_eq in En. subst n0. apply (lt_all_notin _ _ Hlt).
      apply (in_map (fun e => num_of md (fst e))) in Hin. exact Hin.
    + apply IH; assumption.
Qed.
Lemma sorted_names_nodup (r : mval) :
  sorted_Z (map (fun e => num_of md (fst e)) r) = true -> NoDup (map fst r).
Proof.
  induction r as [|[n0 x0] r IH]; simpl; intros Hs; [constructor|].
  apply andb_prop in Hs. destruct Hs as [Hlt Hs]. constructor; [|apply IH; exact Hs].
  intros Hin. apply (lt_all_notin _ _ Hlt). apply in_map_iff in Hin. destruct Hin as [[n1 x1] [Hn Hin]].
  simpl in Hn. subst n1. apply (in_map (fun e => num_of md (fst e))) in Hin. exact Hin.
Qed.

Section WellTyped.
Hypothesis Hbuild : buildable sc FtInt64 md = true.
Hypothesis Hnd : nodup_str (map jn (m_fields md)) = true.
Hypothesis Hsorted : sorted_Z (map (fun e => num_of md (fst e)) m) = true.
Hypothesis Hwf : wt_fields sc md m = true.
Variable es : list (str * json).
Hypothesis Hes : m_msg E sc md m = ROk es.

Lemma field_of_name name x : In (name, x) m ->
  exists f, find_field (m_fields md) name = Some f /\ In f (m_fields md) /\ f_name f = name /\
            jn f = json_name name /\ wt_entry sc f x = true /\ mget m (f_name f) = Some x.
Proof.
  intros Hin. destruct (wt_fields_in m name x Hwf Hin) as [f [Hf Hw]].
  destruct (find_field_spec _ _ _ Hf) as [Hinf Hname]. exists f.
  split; [exact Hf|]. split; [exact Hinf|]. split; [exact Hname|].
  split; [unfold jn; rewrite Hname; reflexivity|]. split; [exact Hw|].
  rewrite Hname. apply mget_of_in; assumption.
Qed.

Lemma val_ok_all f : In f (m_fields md) -> val_ok f.
Proof.
  intros Hin Hn. destruct (mget m (f_name f)) as [x|] eqn:Em; [|exact I].
  apply mget_pair in Em. destruct (field_of_name _ _ Em) as [g [_ [Hing [Hname [_ [Hw _]]]]]].
  assert (Hg : g = f).
  { apply (nodup_jn_inj (m_fields md) g f Hnd Hing Hin). unfold jn. rewrite Hname. reflexivity. }
  subst g. exact (shape_of_wt f x Hbuild Hin Hn Hw).
Qed.

Lemma es_keys_nodup : NoDup (map fst es).
Proof.
  rewrite (m_msg_keys E sc md m es Hes). rewrite <- (map_map fst json_name).
  apply NoDup_map_in; [apply sorted_names_nodup; exact Hsorted|].
  intros a b Ha Hb Hab.
  apply in_map_iff in Ha. destruct Ha as [[na xa] [Hna Ha]]. simpl in Hna. subst na.
  apply in_map_iff in Hb. destruct Hb as [[nb xb] [Hnb Hb]]. simpl in Hnb. subst nb.
  destruct (field_of_name _ _ Ha) as [fa [_ [Hina [Hnamea [Hja _]]]]].
  destruct (field_of_name _ _ Hb) as [fb [_ [Hinb [Hnameb [Hjb _]]]]].
  assert (Hfab : fa = fb).
  { apply (nodup_jn_inj (m_fields md) fa fb Hnd Hina Hinb). rewrite Hja, Hjb. exact Hab. }
  subst fb. rewrite <- Hnamea, <- Hnameb. reflexivity.
Qed.

Lemma es_key_iff raw f : map fst raw = map fst es -> In f (m_fields md) ->
  (raw_has (jn f) raw = true <-> mget m (f_name f) <> None).
Proof.
  intros Hk Hin. rewrite raw_has_keys, Hk, (m_msg_keys E sc md m es Hes). split.
  - intros Hkey. apply in_map_iff in Hkey. destruct Hkey as [[name x] [Hn Hinm]]. simpl in Hn.
    destruct (field_of_name _ _ Hinm) as [g [_ [Hing [_ [Hj [_ Hm]]]]]].
    assert (Hg : g = f).
    { apply (nodup_jn_inj (m_fields md) g f Hnd Hing Hin). rewrite Hj. exact Hn. }
    subst g. rewrite Hm. discriminate.
  - intros Hm. destruct (mget m (f_name f)) as [x|] eqn:Em; [|contradiction Hm; reflexivity].
    apply mget_pair in Em. apply in_map_iff. exists (f_name f, x). split; [reflexivity|exact Em].
Qed.

(* MarshalJSON rewrites the entries of the NUMBER fields in place *)
Lemma enc_int64_tr : enc_int64 md m es = map (tr upd_enc (m_fields md)) es.
Proof.
  rewrite enc_int64_fold.
  apply (fold_tr upd_enc enc_step (map fst es) (m_fields md)).
  - intros raw f Hin Hk. apply enc_step_tr1.
    + apply val_ok_all. exact Hin.
    + apply es_key_iff; assumption.
    + rewrite Hk. exact es_keys_nodup.
  - apply incl_refl.
  - exact Hnd.
  - reflexivity.
Qed.

(* UnmarshalJSON, on any object with the same keys *)
Lemma dec_int64_tr raw : map fst raw = map fst es -> dec_int64 md raw = map (tr upd_dec (m_fields md)) raw.
Proof.
  intros Hk. rewrite dec_int64_fold.
  apply (fold_tr upd_dec dec_step (map fst es) (m_fields md)).
  - intros raw' f _ Hk'. rewrite dec_step_g. apply gstep_map. rewrite Hk'. exact es_keys_nodup.
  - apply incl_refl.
  - exact Hnd.
  - exact Hk.
Qed.

(* one protojson entry: its field, and its NUMBER form when the field is annotated *)
Lemma entry_cases kv : In kv es ->
  exists f x, In f (m_fields md) /\ fst kv = jn f /\ mget m (f_name f) = Some x /\
              pj_fval E sc (f_kind f) x = ROk (snd kv) /\
              (is_number_i64 f = false \/ (is_number_i64 f = true /\ shape f x /\ snd kv = str_json x)).
Proof.
  intros Hin. destruct (m_msg_entries m es Hes kv Hin) as [name [x [f [Hinm [Hf [Hk Hpj]]]]]].
  destruct (field_of_name _ _ Hinm) as [g [Hg [Hing [_ [Hj [Hw Hm]]]]]].
  rewrite Hf in Hg. inversion Hg; subst g. exists f, x.
  split; [exact Hing|]. split; [rewrite Hj; exact Hk|]. split; [exact Hm|]. split; [exact Hpj|].
  destruct (is_number_i64 f) eqn:En; [right|left; reflexivity].
  pose proof (shape_of_wt f x Hbuild Hing En Hw) as Hsh. split; [reflexivity|]. split; [exact Hsh|].
  destruct (number_i64_facts f En) as [Hkind _]. rewrite (pj_num f x Hkind Hsh) in Hpj. inversion Hpj. reflexivity.
Qed.

Lemma entry_fixed kv : In kv es -> tr upd_dec (m_fields md) (tr upd_enc (m_fields md) kv) = kv.
Proof.
  intros Hin. destruct (entry_cases kv Hin) as [f [x [Hinf [Hk [Hm [_ Hc]]]]]].
  destruct kv as [k v]. simpl in Hk, Hc. subst k.
  rewrite (tr_at upd_enc (m_fields md) f v Hnd Hinf).
  destruct Hc as [En|[En [Hsh Hv]]].
  - rewrite (upd_enc_plain f v En), (tr_at upd_dec (m_fields md) f v Hnd Hinf), (upd_dec_plain f v En). reflexivity.
  - rewrite (upd_enc_val f x v En Hm Hsh), (tr_at upd_dec (m_fields md) f _ Hnd Hinf), (dec_num f x En Hsh), Hv.
    reflexivity.
Qed.

(* UnmarshalJSON undoes MarshalJSON *)
Lemma dec_enc_int64 : dec_int64 md (enc_int64 md m es) = es.
Proof.
  rewrite enc_int64_tr, dec_int64_tr.
  - rewrite map_map. apply map_id_in. exact entry_fixed.
  - rewrite map_map. apply map_ext. intros e. apply tr_fst.
Qed.
End WellTyped.
End Int64.

(* ---- the codec of an int64-owning message, unfolded --------------------------------------------------------- *)
Section Codec.
Variable E : ExtLib.
Hypothesis EL : ExtLaws E.
Variable sc : schema.

Lemma kids_int64 md m :
  forallb (fun e => match find_field (m_fields md) (fst e) with Some _ => true | None => false end) m = true ->
  kids_loop E sc FtInt64 md m = ROk [].
Proof.
  induction m as [|[name x] r IH]; simpl; [reflexivity|].
  destruct (find_field (m_fields md) name); [|discriminate]. simpl. exact IH.
Qed.

Lemma gj_un_int64 n tn md raw :
  is_wkt_other tn = false -> lookup_message sc tn = Some md -> owner_of sc md = Own FtInt64 ->
  buildable sc FtInt64 md = true ->
  gj_un E sc (S n) (KMessage tn) (JObj raw) =
  pj_un E sc (KMessage tn) (JObj (dec_int64 md raw)) >>= (fun v => ROk (Some v)).
Proof. intros H1 H2 H3 H4. simpl. rewrite H1, H2, H3, H4. reflexivity. Qed.

(* what MarshalJSON of an int64-owning message returns *)
Lemma encode_int64 tn md m :
  str_eqb tn ts_name = false -> is_wkt_other tn = false ->
  find_message (all_messages sc) tn = Some md -> owner_of sc md = Own FtInt64 ->
  buildable sc FtInt64 md = true ->
  forallb (fun e => match find_field (m_fields md) (fst e) with Some _ => true | None => false end) m = true ->
  encode E sc tn m = m_msg E sc md m >>= (fun es => ROk (JObj (enc_int64 md m es))).
Proof.
  intros Hts Hwk Hfm Hown Hb Hdecl.
  assert (Hlk : lookup_message sc tn = Some md) by (unfold lookup_message; rewrite Hts; exact Hfm).
  assert (Howns : owns sc tn = true) by (unfold owns; rewrite Hlk, Hown; reflexivity).
  unfold encode. rewrite Howns, (gj_fval_owned E sc tn md FtInt64 m Hwk Hlk Hown).
  rewrite (kids_int64 md m Hdecl). simpl rbind.
  unfold codec_body. rewrite Hb. simpl negb. cbv iota.
  unfold pj_marshal. rewrite pj_fval_FM, Hts, Hwk, Hfm.
  destruct (m_msg E sc md m) as [es|e|w]; reflexivity.
Qed.

Lemma wt_fields_declared md m : wt_fields sc md m = true ->
  forallb (fun e => match find_field (m_fields md) (fst e) with Some _ => true | None => false end) m = true.
Proof.
  induction m as [|[name x] r IH]; simpl; intros H; [reflexivity|].
  destruct (find_field (m_fields md) name); [|discriminate]. apply andb_prop in H. simpl. apply IH. apply H.
Qed.

(* C04 for the int64 NUMBER codec, all values *)
Theorem int64_roundtrip : forall tn md m j,
  str_eqb tn ts_name = false -> is_wkt_other tn = false ->
  find_message (all_messages sc) tn = Some md -> owner_of sc md = Own FtInt64 ->
  buildable sc FtInt64 md = true ->
  nodup_str (map jn (m_fields md)) = true ->
  wt sc (KMessage tn) (FM m) = true ->
  encode E sc tn m = ROk j -> decode E sc tn j = ROk (norm sc tn m).
Proof.
  intros tn md m j Hts Hwk Hfm Hown Hb Hnd Hwt Henc.
  assert (Hlk : lookup_message sc tn = Some md) by (unfold lookup_message; rewrite Hts; exact Hfm).
  assert (Howns : owns sc tn = true) by (unfold owns; rewrite Hlk, Hown; reflexivity).
  assert (Hnorm : norm sc tn m = m) by (unfold norm; rewrite Hlk, Hown; reflexivity).
  rewrite Hnorm.
  pose proof Hwt as Hwt'. rewrite wt_FM, Hts, Hwk, Hfm in Hwt'. simpl negb in Hwt'. rewrite Bool.andb_true_l in Hwt'.
  apply andb_prop in Hwt'. destruct Hwt' as [Hwt' Hwf]. apply andb_prop in Hwt'. destruct Hwt' as [Hok Hsorted].
  rewrite (encode_int64 tn md m Hts Hwk Hfm Hown Hb (wt_fields_declared md m Hwf)) in Henc.
  apply rbind_ok in Henc. destruct Henc as [es [Hes Hj]]. inversion Hj; subst j. clear Hj.
  unfold decode. rewrite Howns. cbv beta iota.
  rewrite (gj_un_int64 _ tn md _ Hwk Hlk Hown Hb).
  rewrite (dec_enc_int64 E sc md m Hb Hnd Hsorted Hwf es Hes).
  assert (Hrt : pj_un E sc (KMessage tn) (JObj es) = ROk (FM m)).
  { apply (Q_of_PP E sc _ (pj_roundtrip_fval E EL sc (FM m)) (KMessage tn) (JObj es) Hwt).
    rewrite pj_fval_FM, Hts, Hwk, Hfm, Hes. reflexivity. }
  rewrite Hrt. reflexivity.
Qed.

(* the two schema hypotheses follow from the others: a well-typed value exists only for a message with
   distinct json names (msg_ok), and MarshalJSON answers only when the emitted code compiles *)
Lemma msg_ok_nodup_jn md : msg_ok md = true -> nodup_str (map jn (m_fields md)) = true.
Proof.
  intros Hok. pose proof Hok as Hok'. unfold msg_ok in Hok'. apply andb_prop in Hok'. destruct Hok' as [Hnum _].
  assert (Hinj : forall a b, In a (m_fields md) -> In b (m_fields md) -> jn a = jn b -> f_number a = f_number b).
  { intros a b Ha Hb Hab.
    assert (Hfa : find_field (m_fields md) (f_name a) <> None).
    { clear -Ha. induction (m_fields md) as [|g r IH]; [contradiction|]. simpl.
      destruct (str_eqb (f_name g) (f_name a)) eqn:Eg; [discriminate|].
      destruct Ha as [Ha|Ha]; [subst g; rewrite str_eqb_refl in Eg; discriminate|]. apply IH. exact Ha. }
    assert (Hfb : find_field (m_fields md) (f_name b) <> None).
    { clear -Hb. induction (m_fields md) as [|g r IH]; [contradiction|]. simpl.
      destruct (str_eqb (f_name g) (f_name b)) eqn:Eg; [discriminate|].
      destruct Hb as [Hb|Hb]; [subst g; rewrite str_eqb_refl in Eg; discriminate|]. apply IH. exact Hb. }
    destruct (find_field (m_fields md) (f_name a)) as [a'|] eqn:Ea; [|contradiction Hfa; reflexivity].
    destruct (find_field (m_fields md) (f_name b)) as [b'|] eqn:Eb; [|contradiction Hfb; reflexivity].
    destruct (msg_ok_key md _ a' Hok Ea) as [Hka _]. destruct (msg_ok_key md _ b' Hok Eb) as [Hkb _].
    unfold jn in Hab. rewrite Hab in Hka. rewrite Hka in Hkb. inversion Hkb; subst b'.
    destruct (find_field_spec _ _ _ Ea) as [Hina Hna]. destruct (find_field_spec _ _ _ Eb) as [Hinb Hnb].
    (* a' carries both names, hence a, a' and b have the same json name; numbers: via field_of_key again *)
    unfold msg_ok in Hok. apply andb_prop in Hok. destruct Hok as [_ Hall]. rewrite forallb_forall in Hall.
    pose proof (Hall a Ha) as Hca. pose proof (Hall b Hb) as Hcb.
    apply andb_prop in Hca. destruct Hca as [Hca _]. apply andb_prop in Hcb. destruct Hcb as [Hcb _].
    rewrite Hab in Hca. rewrite Hka in Hca, Hcb.
    apply Z.eqb_eq in Hca. apply Z.eqb_eq in Hcb. congruence. }
  clear Hok. induction (m_fields md) as [|g r IH]; [reflexivity|].
  simpl in Hnum |- *. apply andb_prop in Hnum. destruct Hnum as [Hg Hr].
  apply andb_true_intro. split.
  - apply Bool.negb_true_iff. apply Bool.negb_true_iff in Hg.
    destruct (existsb (str_eqb (jn g)) (map jn r)) eqn:Ee; [|reflexivity]. exfalso.
    apply existsb_exists in Ee. destruct Ee as [k [Hk Heq]]. apply str_eqb_eq in Heq. subst k.
    apply in_map_iff in Hk. destruct Hk as [c [Hc Hinc]].
    assert (Hn : f_number g = f_number c).
    { apply Hinj; [left; reflexivity|right; exact Hinc|symmetry; exact Hc]. }
    assert (Hex : existsb (Z.eqb (f_number g)) (map f_number r) = true).
    { apply existsb_exists. exists (f_number c). split; [apply in_map; exact Hinc|apply Z.eqb_eq; exact Hn]. }
    congruence.
  - apply IH; [exact Hr|]. intros a b Ha Hb. apply Hinj; right; assumption.
Qed.

Lemma encode_ok_buildable tn md m j :
  str_eqb tn ts_name = false -> is_wkt_other tn = false ->
  find_message (all_messages sc) tn = Some md -> owner_of sc md = Own FtInt64 ->
  encode E sc tn m = ROk j -> buildable sc FtInt64 md = true.
Proof.
  intros Hts Hwk Hfm Hown Henc.
  assert (Hlk : lookup_message sc tn = Some md) by (unfold lookup_message; rewrite Hts; exact Hfm).
  assert (Howns : owns sc tn = true) by (unfold owns; rewrite Hlk, Hown; reflexivity).
  unfold encode in Henc. rewrite Howns, (gj_fval_owned E sc tn md FtInt64 m Hwk Hlk Hown) in Henc.
  apply rbind_ok in Henc. destruct Henc as [ks [_ Henc]]. unfold codec_body in Henc.
  destruct (buildable sc FtInt64 md); [reflexivity|discriminate Henc].
Qed.

Theorem int64_roundtrip_min : forall tn md m j,
  str_eqb tn ts_name = false -> is_wkt_other tn = false ->
  find_message (all_messages sc) tn = Some md -> owner_of sc md = Own FtInt64 ->
  wt sc (KMessage tn) (FM m) = true ->
  encode E sc tn m = ROk j -> decode E sc tn j = ROk (norm sc tn m).
Proof.
  intros tn md m j Hts Hwk Hfm Hown Hwt Henc.
  pose proof Hwt as Hwt'. rewrite wt_FM, Hts, Hwk, Hfm in Hwt'. simpl negb in Hwt'. rewrite Bool.andb_true_l in Hwt'.
  apply andb_prop in Hwt'. destruct Hwt' as [Hwt' _]. apply andb_prop in Hwt'. destruct Hwt' as [Hok _].
  apply (int64_roundtrip tn md m j Hts Hwk Hfm Hown
           (encode_ok_buildable tn md m j Hts Hwk Hfm Hown Henc) (msg_ok_nodup_jn md Hok) Hwt Henc).
Qed.
End Codec.
Close Scope Z_scope.

(* ---- non-vacuity: every 64-bit kind, singular and repeated, 0 / negative / > 2^53 / extreme values ------------ *)
From SebufProofs Require Import CodecExamples.
Open Scope Z_scope.
Definition i64s : schema :=
  [ {| fl_path := s "i/a.proto"; fl_package := s "x.v1"; fl_gopkg := s "x"; fl_generate := true;
       fl_messages :=
         [ msg "Wide" [set_i64 (fld "a_i" 1 KInt64 Singular); set_i64 (fld "b_u" 2 KUint64 Singular);
                       set_i64 (fld "c_s" 3 KSint64 Singular); set_i64 (fld "d_f" 4 KFixed64 Singular);
                       set_i64 (fld "e_sf" 5 KSfixed64 Singular); set_i64 (fld "rep_i" 6 KInt64 Repeated);
                       set_i64 (fld "rep_u" 7 KUint64 Repeated); set_i64 (fld "unset_n" 8 KInt64 Singular);
                       fld "plain_big" 9 KInt64 Singular; fld "name" 10 KString Singular;
                       fld "leaf" 11 (T "Leaf") Singular; fld "plain_rep" 12 KSint64 Repeated] [];
           msg "Leaf" [fld "a" 1 KString Singular; fld "n" 2 KInt64 Singular] [];
           msg "Opt" [set_i64 (fld "o" 1 KInt64 Optional); fld "name" 2 KString Singular] [] ];
       fl_enums := []; fl_services := [] |} ].
Definition wide_val : mval :=
  [(s "a_i", vint (-9223372036854775808)); (s "b_u", vint 18446744073709551615); (s "c_s", vint (-1));
   (s "d_f", vint 9007199254740993); (s "e_sf", vint 9223372036854775807);
   (s "rep_i", FL [vint 0; vint (-5); vint 9007199254740993]); (s "rep_u", FL [vint 18446744073709551615; vint 0]);
   (s "plain_big", vint 7); (s "name", vstr "n"); (s "leaf", FM [(s "a", vstr "x"); (s "n", vint 3)]);
   (s "plain_rep", FL [vint (-2)])].
Definition wide_json : json :=
  JObj [(s "aI", JNum (-9223372036854775808)); (s "bU", JNum 18446744073709551615); (s "cS", JNum (-1));
        (s "dF", JNum 9007199254740993); (s "eSf", JNum 9223372036854775807);
        (s "repI", JArr [JNum 0; JNum (-5); JNum 9007199254740993]); (s "repU", JArr [JNum 18446744073709551615; JNum 0]);
        (s "plainBig", JStr (s "7")); (s "name", JStr (s "n"));
        (s "leaf", JObj [(s "a", JStr (s "x")); (s "n", JStr (s "3"))]); (s "plainRep", JArr [JStr (s "-2")])].

Example int64_nonvacuous :
  exists md,
    str_eqb (q "Wide") ts_name = false /\ is_wkt_other (q "Wide") = false /\
    find_message (all_messages i64s) (q "Wide") = Some md /\ owner_of i64s md = Own FtInt64 /\
    buildable i64s FtInt64 md = true /\ nodup_str (map jn (m_fields md)) = true /\
    wt i64s (KMessage (q "Wide")) (FM wide_val) = true /\
    encode Ex i64s (q "Wide") wide_val = ROk wide_json /\
    decode Ex i64s (q "Wide") wide_json = ROk wide_val.
Proof. eexists. vm_compute. repeat split; reflexivity. Qed.
Close Scope Z_scope.
