(* TsTypesCodecs.v — C07 for ANNOTATED top-level messages: the JSON the Go server sends (Codec.encode) for a
   message whose MarshalJSON is one of the field codecs (nullable, int64_encoding NUMBER, bytes_encoding,
   timestamp_format, empty_behavior) inhabits the TypeScript interface the generators declare for it, for all
   well-typed values outside defects_C07.
     part 1: the protojson rendering (ProtoJson.pj_fval, what a parent's encoder writes for a child) of a
             well-typed, fully populated value of the plain fragment inhabits the TS type of its position;
     part 2: one object lemma (required properties present, every wire key declared once with a type its
             value has), then one theorem per codec. *)
From Coq Require Import Lia ZArith List.
From Sebuf Require Import CodecCases.
From SebufProofs Require Import TextFacts CodecTextFacts ProtoJsonFacts.
From SebufProofs Require NullableFacts Int64Facts BytesFacts TimestampFacts EmptyFacts CodecCompose.
From Sebuf Require Import TsTypes.
From SebufProofs Require Import TsTypesFacts.
Import ListNotations.

(* [TsTypesFacts.wt] (fuelled: well-typed, plain, fully populated: the hypothesis of C07_value_inhabits) is
   used for the CHILDREN of the top-level message; [ProtoJsonFacts.wt] (well-typed in the sense of the codec
   theorems C04/C05) for the top-level value. *)
Notation cwt := TsTypesFacts.wt.
Notation pwt := ProtoJsonFacts.wt.

(* ---- the declaration environment ---------------------------------------------------------------------------- *)
(* every message whose interface is the standard one (no discriminated oneof, no flatten field) and every enum
   is declared, under its short name, as the generators declare it.  Weaker than TsTypesFacts.env_ok (which
   asks the same of ALL messages). *)
Definition std_shape (M : message) : Prop :=
  disc_oneofs M = [] /\ forall f, In f (m_fields M) -> is_flatten f = false.
Definition env_okp (sc : schema) (e : env) : Prop :=
  (forall tn M, find_message (all_messages sc) tn = Some M -> std_shape M ->
     lookup e (last_seg tn) = Some (YObject (map (field_prop sc []) (m_fields M)))) /\
  (forall tn En, find_enum (all_enums sc) tn = Some En -> lookup e (last_seg tn) = Some (enum_ty En)).

Lemma env_ok_okp sc e : env_ok sc e -> env_okp sc e.
Proof. intros [Hm He]. split; [intros tn M H _; exact (Hm tn M H)|exact He]. Qed.

Lemma ts_names_same : timestamp_name = ts_name.
Proof. reflexivity. Qed.

(* ---- part 1: children ------------------------------------------------------------------------------------------ *)
Lemma ev_by_number_find vs n : ev_by_number vs n = find (fun v => Z.eqb (ev_number v) n) vs.
Proof. induction vs as [|v r IH]; [reflexivity|]. cbn [ev_by_number find]. rewrite IH. reflexivity. Qed.

Lemma scalar_inhabits_pj E sc e k x j fu :
  env_okp sc e -> sval_ok sc k x = true -> ProtoJson.pj_scalar E sc k x = ROk j ->
  inhabits (S (S (S fu))) e (ety k) j = true.
Proof.
  intros [_ Henum] Hok Hpj.
  destruct x as [z|b|y|y|bits|n]; destruct k; cbn in Hok; try discriminate;
    cbn in Hpj; inversion Hpj; subst; try reflexivity.
  apply andb_true_iff in Hok as [Hnamed Hplain].
  unfold enum_named in Hnamed. unfold enum_plain in Hplain. unfold ProtoJson.enum_json in Hpj.
  destruct (find_enum (all_enums sc) tn) as [En|] eqn:HE; [|discriminate].
  rewrite ev_by_number_find in Hpj.
  destruct (find (fun v => Z.eqb (ev_number v) n) (e_values En)) as [v|] eqn:Hv.
  2: { exfalso. apply existsb_exists in Hnamed as [w [Hw1 Hw2]].
       pose proof (find_none _ _ Hv w Hw1) as F. cbv beta in F. congruence. }
  inversion Hpj; subst j. clear Hpj.
  specialize (Henum tn En HE).
  pose proof (enum_lit_inhabits (e_values En) n fu e Hplain v Hv) as Hall.
  cbn [ety].
  change (inhabits (S (S (S fu))) e (YRef (last_seg tn)) (JStr (ev_name v)))
    with (match shapes (S (S (S fu))) e (YRef (last_seg tn)) with
          | Some shs => false
          | None => match lookup e (last_seg tn) with
                    | Some d => inhabits (S (S fu)) e d (JStr (ev_name v)) | None => false end
          end).
  rewrite shapes_ref, Henum. unfold enum_ty in *.
  destruct (e_values En) as [|v0 vs] eqn:EV; [discriminate|].
  unfold union_ty. destruct vs as [|v1 vs].
  - cbn [map] in *. cbn [existsb] in Hall. rewrite orb_false_r in Hall.
    rewrite shapes_lit. cbn [inhabits] in Hall |- *. exact Hall.
  - cbn [map]. rewrite shapes_union_lit_none. rewrite inhabits_union_lits. exact Hall.
Qed.

Lemma plain_message_std sc M : plain_message sc M = true -> std_shape M.
Proof.
  unfold plain_message. intros H.
  apply andb_true_iff in H as [H _]. apply andb_true_iff in H as [H _]. apply andb_true_iff in H as [H _].
  apply andb_true_iff in H as [H Hd]. apply andb_true_iff in H as [Ha _].
  split; [destruct (disc_oneofs M); [reflexivity|discriminate]|].
  intros f Hf. rewrite forallb_forall in Ha. specialize (Ha f Hf). unfold no_annot in Ha.
  repeat (apply andb_true_iff in Ha as [Ha ?]).
  unfold is_flatten. destruct (f_flatten f) as [[]|]; try reflexivity; discriminate.
Qed.

(* the protojson form of a well-typed, fully populated value of the plain fragment inhabits the TS type of its
   position; [d] is fuel to spare *)
Theorem pj_fval_inhabits E sc e : env_okp sc e -> forall f d k v j,
  cwt f sc k v = true -> pj_fval E sc k v = ROk j -> inhabits (S (S (f + d))) e (vty k v) j = true.
Proof.
  intros Henv. induction f as [|f IH]; intros d k v j Hwt Hpj; [discriminate|].
  cbn [Nat.add].
  destruct v as [x|m|l|kvs].
  - (* scalar *) cbn [TsTypesFacts.wt] in Hwt. cbn [vty]. rewrite pj_fval_FS in Hpj.
    now apply (scalar_inhabits_pj E sc e k x j (f + d)).
  - (* message *)
    cbn [TsTypesFacts.wt] in Hwt. destruct k; try discriminate.
    apply andb_true_iff in Hwt as [Hts Hwt]. apply negb_true_iff in Hts. rewrite ts_names_same in Hts.
    rewrite pj_fval_FM, Hts in Hpj.
    destruct (is_wkt_other tn); [discriminate|].
    destruct (find_message (all_messages sc) tn) as [M|] eqn:HM; [|discriminate].
    apply andb_true_iff in Hwt as [Hwt Hent]. apply andb_true_iff in Hwt as [Hwt Hkeys].
    apply andb_true_iff in Hwt as [Hplain Hpop].
    apply rbind_ok in Hpj. destruct Hpj as [kv [Hall Hj]]. inversion Hj; subst j. clear Hj.
    destruct Henv as [Hmsg Henum].
    cbn [vty ety]. rewrite (inhabits_ref_obj (S (f + d)) e (last_seg tn) _ kv (Hmsg tn M HM (plain_message_std sc M Hplain))).
    unfold plain_message in Hplain.
    apply andb_true_iff in Hplain as [Hplain Hunwrap]. apply andb_true_iff in Hplain as [Hplain Hfn].
    apply andb_true_iff in Hplain as [Hplain Hjn]. apply andb_true_iff in Hplain as [Hplain Hdisc].
    apply andb_true_iff in Hplain as [Hannot Hnots].
    rewrite forallb_forall in Hannot, Hnots, Hunwrap, Hpop, Hent.
    unfold shape_okF. apply andb_true_iff. split.
    + (* every required property is on the wire *)
      apply forallb_forall. intros p Hp. apply in_map_iff in Hp as [fd [<- Hfd]].
      rewrite (field_prop_plain sc fd (Hannot fd Hfd)). unfold p_opt, p_name. cbn [fst snd].
      specialize (Hpop fd Hfd). apply orb_true_iff in Hpop as [Hopt|Hpopd]; [now rewrite Hopt|].
      apply orb_true_iff. right. unfold TsTypes.populated in Hpopd.
      destruct (mget m (f_name fd)) as [v|] eqn:Hg; [|discriminate].
      apply NullableFacts.mget_some_in in Hg.
      unfold has_key. apply existsb_exists.
      pose proof (NullableFacts.m_msg_keys E sc M m kv Hall) as Hk.
      assert (Hin : In (json_name (f_name fd)) (map fst kv)).
      { rewrite Hk. apply in_map_iff in Hg. destruct Hg as [e0 [He0 Hin0]].
        apply in_map_iff. exists e0. split; [rewrite He0; reflexivity|exact Hin0]. }
      apply in_map_iff in Hin. destruct Hin as [e1 [He1 Hin1]]. exists e1. split; [exact Hin1|].
      rewrite He1. apply str_eqb_refl.
    + (* every property on the wire is declared, once, with a type the value has *)
      apply forallb_forall. intros [jn0 jv] Hin.
      destruct (Int64Facts.m_msg_entries E sc M m kv Hall (jn0, jv) Hin) as [k0 [v0 [fd [Hin0 [Hff [Hjn0 Hpj0]]]]]].
      cbn [fst snd] in Hjn0, Hpj0. subst jn0.
      specialize (Hent (k0, v0) Hin0). cbn [fst snd] in Hent. rewrite Hff in Hent.
      apply andb_true_iff in Hent as [Hcard Hwt0].
      destruct (find_field_name _ _ _ Hff) as [Hname Hfd]. rewrite <- Hname.
      cbn [fst snd].
      assert (Hfilter : filter (fun p => str_eqb (p_name p) (json_name (f_name fd))) (map (field_prop sc []) (m_fields M))
                        = [field_prop sc [] fd]).
      { assert (Hext : forall l, (forall x, In x l -> no_annot x = true) ->
                  filter (fun p => str_eqb (p_name p) (json_name (f_name fd))) (map (field_prop sc []) l)
                  = map (field_prop sc []) (filter (fun x => str_eqb (json_name (f_name x)) (json_name (f_name fd))) l)).
        { induction l as [|x l IHl]; intros Hl; [reflexivity|]. cbn [map filter].
          rewrite (field_prop_plain sc x (Hl x (or_introl eq_refl))). unfold p_name at 1. cbn [fst].
          rewrite <- (field_prop_plain sc x (Hl x (or_introl eq_refl))).
          destruct (str_eqb (json_name (f_name x)) (json_name (f_name fd))).
          - cbn [map]. f_equal. apply IHl. intros y Hy. apply Hl. now right.
          - apply IHl. intros y Hy. apply Hl. now right. }
        rewrite (Hext (m_fields M) Hannot).
        now rewrite (nodup_str_filter (fun x => json_name (f_name x)) (m_fields M) fd Hjn Hfd). }
      rewrite Hfilter. cbn [forallb]. rewrite andb_true_r.
      rewrite (field_prop_plain sc fd (Hannot fd Hfd)). unfold p_ty. cbn [snd].
      rewrite (field_ty_plain sc fd v0 (Hannot fd Hfd)).
      * now apply IH.
      * specialize (Hnots fd Hfd). now apply negb_true_iff in Hnots.
      * exact Hcard.
      * specialize (Hunwrap fd Hfd). destruct (f_kind fd); try exact I.
        destruct (find_unwrap_list sc tn0); [discriminate|reflexivity].
  - (* repeated *)
    cbn [TsTypesFacts.wt] in Hwt. rewrite pj_fval_FL in Hpj.
    apply rbind_ok in Hpj. destruct Hpj as [js [Hall Hj]]. inversion Hj; subst j. clear Hj.
    cbn [vty]. rewrite inhabits_array.
    revert js Hall. induction l as [|a l IHl]; intros js Hall.
    + cbn in Hall. inversion Hall. reflexivity.
    + cbn [m_list] in Hall. apply rbind_ok in Hall. destruct Hall as [j0 [Hj0 Hall]].
      apply rbind_ok in Hall. destruct Hall as [t [Ht Hall]]. inversion Hall; subst js.
      cbn [forallb] in Hwt |- *. apply andb_true_iff in Hwt as [Ha Hl]. apply andb_true_iff in Ha as [He Hw].
      apply andb_true_iff. split; [|exact (IHl Hl t Ht)].
      rewrite <- (vty_elem k a He). now apply IH.
  - (* map *)
    cbn [TsTypesFacts.wt] in Hwt. apply andb_true_iff in Hwt as [Hwt _]. rewrite pj_fval_FMap in Hpj.
    apply rbind_ok in Hpj. destruct Hpj as [o [Hall Hj]]. inversion Hj; subst j. clear Hj.
    cbn [vty]. rewrite inhabits_record.
    revert o Hall. induction kvs as [|[key a] kvs IHl]; intros o Hall.
    + cbn in Hall. inversion Hall. reflexivity.
    + cbn [m_map] in Hall. apply rbind_ok in Hall. destruct Hall as [kt [_ Hall]].
      apply rbind_ok in Hall. destruct Hall as [j0 [Hj0 Hall]].
      apply rbind_ok in Hall. destruct Hall as [t [Ht Hall]]. inversion Hall; subst o.
      cbn [forallb snd] in Hwt |- *. apply andb_true_iff in Hwt as [Ha Hl]. apply andb_true_iff in Ha as [He Hw].
      apply andb_true_iff. split; [|exact (IHl Hl t Ht)].
      rewrite <- (vty_elem k a He). now apply IH.
Qed.

(* ---- part 2: the top-level message ------------------------------------------------------------------------------- *)
(* ---- 2a. every field codec is one pass of set / delete over the protojson entries -------------------------------- *)
(* what MarshalJSON does under the key of field f: nothing, set a value, delete the key *)
Definition action := option (option json).
Definition astep (act : field -> action) (raw : rawmap) (f : field) : rawmap :=
  match act f with
  | None => raw
  | Some (Some v) => raw_set (jn f) v raw
  | Some None => raw_del (jn f) raw
  end.

Lemma fold_left_ext {A B} (g h : A -> B -> A) (l : list B) : (forall a b, g a b = h a b) -> forall a, fold_left g l a = fold_left h l a.
Proof. intros H. induction l as [|b l IH]; intros a; [reflexivity|]. cbn [fold_left]. rewrite H. apply IH. Qed.

Lemma in_raw_set k v k0 v0 raw : In (k, v) (raw_set k0 v0 raw) -> (k = k0 /\ v = v0) \/ (In (k, v) raw /\ k <> k0).
Proof.
  unfold raw_set. destruct (raw_has k0 raw) eqn:Eh.
  - intros H. apply in_map_iff in H. destruct H as [[k1 v1] [He Hin]]. cbn [fst] in He.
    destruct (str_eqb k1 k0) eqn:E.
    + inversion He; subst. left. split; reflexivity.
    + inversion He; subst. right. split; [exact Hin|]. intros ->. rewrite str_eqb_refl in E. discriminate.
  - intros H. apply in_app_or in H. destruct H as [H|H].
    + destruct (str_eqb k k0) eqn:E.
      * apply str_eqb_eq in E. subst k0. exfalso.
        assert (T : raw_has k raw = true) by (apply NullableFacts.raw_has_keys; apply (in_map fst) in H; exact H).
        congruence.
      * right. split; [exact H|]. intros ->. rewrite str_eqb_refl in E. discriminate.
    + destruct H as [H|[]]. inversion H; subst. left. split; reflexivity.
Qed.

Lemma in_raw_del k v k0 raw : In (k, v) (raw_del k0 raw) -> In (k, v) raw /\ k <> k0.
Proof.
  unfold raw_del. intros H. apply filter_In in H. destruct H as [H E]. cbn [fst] in E. split; [exact H|].
  intros ->. rewrite str_eqb_refl in E. discriminate.
Qed.

(* where an entry of the result comes from *)
Lemma fold_in act fs : forall raw k v,
  In (k, v) (fold_left (astep act) fs raw) ->
  (In (k, v) raw /\ forall f, In f fs -> jn f = k -> act f = None) \/
  (exists f, In f fs /\ k = jn f /\ act f = Some (Some v)).
Proof.
  induction fs as [|f r IH]; intros raw k v H; cbn [fold_left] in H.
  - left. split; [exact H|]. intros f [].
  - destruct (IH _ k v H) as [[Hin Hnone]|[g [Hg [Hk Ha]]]].
    2: { right. exists g. split; [right; exact Hg|]. split; assumption. }
    unfold astep in Hin. destruct (act f) as [[v'|]|] eqn:Ea.
    + apply in_raw_set in Hin. destruct Hin as [[-> ->]|[Hin Hne]].
      * right. exists f. split; [left; reflexivity|]. split; [reflexivity|exact Ea].
      * left. split; [exact Hin|]. intros g [<-|Hg] Hj; [congruence|exact (Hnone g Hg Hj)].
    + apply in_raw_del in Hin. destruct Hin as [Hin Hne].
      left. split; [exact Hin|]. intros g [<-|Hg] Hj; [congruence|exact (Hnone g Hg Hj)].
    + left. split; [exact Hin|]. intros g [<-|Hg] Hj; [exact Ea|exact (Hnone g Hg Hj)].
Qed.

Lemma raw_has_set k k0 v0 raw : raw_has k (raw_set k0 v0 raw) = raw_has k raw || str_eqb k0 k.
Proof.
  unfold raw_set. destruct (raw_has k0 raw) eqn:E.
  - assert (Hk : map fst (map (fun e : str * json => if str_eqb (fst e) k0 then (k0, v0) else e) raw) = map fst raw).
    { rewrite map_map. apply map_ext. intros [k1 v1]. cbn [fst]. destruct (str_eqb k1 k0) eqn:E1; [|reflexivity].
      apply str_eqb_eq in E1. subst. reflexivity. }
    rewrite (BytesFacts.raw_has_same_keys k _ raw Hk).
    destruct (str_eqb k0 k) eqn:E2; [|rewrite orb_false_r; reflexivity].
    apply str_eqb_eq in E2. subst. rewrite E. reflexivity.
  - rewrite NullableFacts.raw_has_app. f_equal. unfold raw_has. cbn [existsb fst]. apply orb_false_r.
Qed.

Lemma raw_has_del k k0 raw : k <> k0 -> raw_has k (raw_del k0 raw) = raw_has k raw.
Proof.
  intros Hne. unfold raw_has, raw_del. induction raw as [|[k1 v1] r IH]; [reflexivity|].
  cbn [filter existsb fst]. destruct (str_eqb k1 k0) eqn:E; cbn [negb].
  - rewrite IH. apply str_eqb_eq in E. subst k1.
    destruct (str_eqb k0 k) eqn:E2; [|reflexivity]. apply str_eqb_eq in E2. congruence.
  - cbn [existsb fst]. rewrite IH. reflexivity.
Qed.

(* which keys the result has *)
Lemma fold_has act fs k : forall raw,
  (forall g, In g fs -> jn g = k -> act g <> Some None) ->
  raw_has k raw = true \/ (exists f v, In f fs /\ jn f = k /\ act f = Some (Some v)) ->
  raw_has k (fold_left (astep act) fs raw) = true.
Proof.
  induction fs as [|f r IH]; intros raw Hnd H; cbn [fold_left].
  - destruct H as [H|[f [v [[] _]]]]. exact H.
  - apply IH; [intros g Hg; apply Hnd; right; exact Hg|].
    destruct H as [H|[f0 [v [[Heq|Hf0] [Hj Ha]]]]]; [|subst f0|].
    + left. unfold astep. destruct (act f) as [[v'|]|] eqn:Ea; [| |exact H].
      * rewrite raw_has_set, H. reflexivity.
      * rewrite raw_has_del; [exact H|]. intros Hk. exact (Hnd f (or_introl eq_refl) (eq_sym Hk) Ea).
    + left. unfold astep. rewrite Ha, raw_has_set. rewrite Hj, str_eqb_refl. apply orb_true_r.
    + right. exists f0, v. split; [exact Hf0|]. split; assumption.
Qed.

(* the five encoders in that form *)
Definition act_nullable (m : mval) (f : field) : action :=
  if is_nullable f then match mget m (f_name f) with None => Some (Some JNull) | Some _ => None end else None.
Definition act_int64 (m : mval) (f : field) : action :=
  if is_number_i64 f then
    match f_card f with
    | Repeated => match mget m (f_name f) with
                  | Some (FL (x :: l)) => Some (Some (JArr (map (fun v => match v with FS (VInt z) => JNum z | _ => JNull end) (x :: l))))
                  | _ => None
                  end
    | _ => match mget m (f_name f) with
           | Some (FS (VInt z)) => if (z =? 0)%Z then Some None else Some (Some (JNum z))
           | _ => Some None
           end
    end
  else None.
Definition act_empty (m : mval) (f : field) : action :=
  match empty_of f, mget m (f_name f) with
  | Some EBNull, Some (FM []) => Some (Some JNull)
  | Some EBOmit, Some (FM []) => Some None
  | _, _ => None
  end.
Definition act_ts (E : ExtLib) (m : mval) (f : field) : action :=
  match tsfmt_of f, mget m (f_name f) with
  | Some fmt, Some (FM tm) =>
      let sec := mget_int tm (s "seconds") in
      let nanos := mget_int tm (s "nanos") in
      match fmt with
      | TFUnixSeconds => Some (Some (JNum sec))
      | TFUnixMillis => Some (Some (JNum (sec * 1000 + nanos / 1000000)%Z))
      | TFDate => Some (Some (JStr (x_date_text E sec)))
      | _ => None
      end
  | _, _ => None
  end.
Definition act_bytes (m : mval) (f : field) : action :=
  match bytesenc_of f, mget m (f_name f) with
  | Some e, Some (FS (VBytes (c :: b))) => Some (Some (JStr (bytes_enc_text e (c :: b))))
  | _, _ => None
  end.

Lemma enc_nullable_act md m raw : enc_nullable md m raw = fold_left (astep (act_nullable m)) (m_fields md) raw.
Proof.
  unfold enc_nullable. apply fold_left_ext. intros a f. unfold astep, act_nullable.
  destruct (is_nullable f); [|reflexivity]. destruct (mget m (f_name f)); reflexivity.
Qed.
Lemma enc_int64_act md m raw : enc_int64 md m raw = fold_left (astep (act_int64 m)) (m_fields md) raw.
Proof.
  unfold enc_int64. apply fold_left_ext. intros a f. unfold astep, act_int64.
  destruct (is_number_i64 f); [|reflexivity].
  destruct (f_card f); destruct (mget m (f_name f)) as [[[z| | | | |]|?|[|? ?]|?]|]; try reflexivity;
    destruct (z =? 0)%Z; reflexivity.
Qed.
Lemma enc_empty_act md m raw : enc_empty md m raw = fold_left (astep (act_empty m)) (m_fields md) raw.
Proof.
  unfold enc_empty. apply fold_left_ext. intros a f. unfold astep, act_empty.
  destruct (empty_of f) as [[| | |]|]; try reflexivity;
    destruct (mget m (f_name f)) as [[?|[|? ?]|?|?]|]; reflexivity.
Qed.
Lemma enc_ts_act E md m raw : enc_ts E md m raw = fold_left (astep (act_ts E m)) (m_fields md) raw.
Proof.
  unfold enc_ts. apply fold_left_ext. intros a f. unfold astep, act_ts.
  destruct (tsfmt_of f) as [fmt|]; [|reflexivity].
  destruct (mget m (f_name f)) as [[?|tm|?|?]|]; try reflexivity. destruct fmt; reflexivity.
Qed.
Lemma enc_bytes_act md m raw : enc_bytes md m raw = fold_left (astep (act_bytes m)) (m_fields md) raw.
Proof.
  unfold enc_bytes. apply fold_left_ext. intros a f. unfold astep, act_bytes.
  destruct (bytesenc_of f) as [e|]; [|reflexivity].
  destruct (mget m (f_name f)) as [[[?|?|?|[|? ?]|?|?]|?|?|?]|]; reflexivity.
Qed.

Definition act_of (E : ExtLib) (ft : feature) (m : mval) : field -> action :=
  match ft with
  | FtNullable => act_nullable m
  | FtInt64 => act_int64 m
  | FtEmpty => act_empty m
  | FtTs => act_ts E m
  | FtBytes => act_bytes m
  | _ => fun _ => None
  end.

(* what MarshalJSON of a message owned by a field codec returns *)
Lemma encode_field_codec E sc tn md ft m j :
  str_eqb tn ts_name = false -> is_wkt_other tn = false ->
  find_message (all_messages sc) tn = Some md -> owner_of sc md = Own ft ->
  CodecCompose.field_codec_ft ft = true ->
  encode E sc tn m = ROk j ->
  exists es, m_msg E sc md m = ROk es /\ buildable sc ft md = true /\
             j = JObj (fold_left (astep (act_of E ft m)) (m_fields md) es).
Proof.
  intros Hts Hwk Hfm Hown Hft Henc.
  assert (Hlk : lookup_message sc tn = Some md) by (unfold lookup_message; rewrite Hts; exact Hfm).
  assert (Howns : owns sc tn = true) by (unfold owns; rewrite Hlk, Hown; reflexivity).
  unfold encode in Henc. rewrite Howns, (NullableFacts.gj_fval_owned E sc tn md ft m Hwk Hlk Hown) in Henc.
  apply rbind_ok in Henc. destruct Henc as [ks [_ Henc]]. unfold codec_body in Henc.
  destruct (buildable sc ft md) eqn:Hb; [|discriminate Henc]. cbn [negb] in Henc.
  destruct ft; try discriminate Hft; cbv iota in Henc;
    apply rbind_ok in Henc; destruct Henc as [raw [Hraw Henc]];
    apply rbind_ok in Hraw; destruct Hraw as [j0 [Hpj Hobj]];
    unfold pj_marshal in Hpj; rewrite pj_fval_FM, Hts, Hwk, Hfm in Hpj;
    apply rbind_ok in Hpj; destruct Hpj as [es [Hes Hj0]]; inversion Hj0; subst j0;
    cbn [as_obj] in Hobj; inversion Hobj; subst raw; inversion Henc; subst j;
    exists es; (split; [exact Hes|]); (split; [reflexivity|]); cbn [act_of].
  - rewrite enc_int64_act. reflexivity.
  - rewrite enc_nullable_act. reflexivity.
  - rewrite enc_empty_act. reflexivity.
  - rewrite enc_ts_act. reflexivity.
  - rewrite enc_bytes_act. reflexivity.
Qed.

(* ---- 2b. declared field types --------------------------------------------------------------------------------------- *)
Lemma elem_ty_top f :
  is_timestamp (f_kind f) = false ->
  (is_int64_kind (f_kind f) = true -> f_int64 f <> Some I64Number) ->
  f_enumenc f <> Some EENumber -> elem_ty f = ety (f_kind f).
Proof.
  intros Hts Hi He. unfold elem_ty, scalar_ty, ety. destruct (f_kind f) eqn:K; try reflexivity;
    try (destruct (f_int64 f) as [[| |]|]; try reflexivity; exfalso; apply Hi; reflexivity).
  - destruct (f_enumenc f) as [[| |]|]; try reflexivity. exfalso. apply He. reflexivity.
  - rewrite Hts. reflexivity.
Qed.

Lemma field_ty_top sc f v :
  is_number_i64 f = false -> f_enumenc f <> Some EENumber -> is_timestamp (f_kind f) = false ->
  card_fits (f_card f) v = true ->
  match f_card f, f_kind f with MapOf _, KMessage tn => find_unwrap_list sc tn = None | _, _ => True end ->
  field_ty sc f = vty (f_kind f) v.
Proof.
  intros Hn He Hts Hc Hu. unfold field_ty, vty.
  assert (Hel : is_map f = false -> elem_ty f = ety (f_kind f)).
  { intros Hm. apply elem_ty_top; [exact Hts| |exact He]. intros Hk Hi.
    unfold is_number_i64 in Hn. rewrite Hk, Hm, Hi in Hn. discriminate Hn. }
  unfold is_map in Hel.
  destruct (f_card f) eqn:C; destruct v; try discriminate Hc; try (apply Hel; reflexivity).
  - rewrite Hel; reflexivity.
  - unfold map_value_ty. f_equal.
    assert (Hv : elem_ty (value_field f) = ety (f_kind f)).
    { change (ety (f_kind f)) with (ety (f_kind (value_field f))). apply elem_ty_plain; [reflexivity|exact Hts]. }
    destruct (f_kind f) eqn:K; try exact Hv.
    rewrite Hts, Hu. exact Hv.
Qed.

Lemma field_ty_ts sc f :
  is_timestamp (f_kind f) = true -> (f_card f = Singular \/ f_card f = Optional) -> field_ty sc f = timestamp_ty f.
Proof.
  intros Hts Hc. unfold field_ty. destruct Hc as [Hc|Hc]; rewrite Hc; unfold elem_ty;
    destruct (f_kind f) eqn:K; try discriminate Hts; rewrite Hts; reflexivity.
Qed.
Lemma timestamp_ty_none f :
  is_timestamp (f_kind f) = true -> is_map f = false -> tsfmt_of f = None -> timestamp_ty f = YString.
Proof.
  unfold tsfmt_of, timestamp_ty. intros Hts Hm. rewrite Hts, Hm. cbn [negb andb].
  destruct (f_tsfmt f) as [[| | | |]|]; try reflexivity; discriminate.
Qed.

(* the value of one top-level field: a singular Timestamp, or a value of the plain fragment (C07_value_inhabits) *)
(* an empty message under empty_behavior = NULL / OMIT: rewritten by the codec whatever its type *)
Definition is_empty_hit (f : field) (x : fval) : bool :=
  match empty_of f, x with Some EBNull, FM [] | Some EBOmit, FM [] => true | _, _ => false end.
Definition top_entry_ok (c : nat) (sc : schema) (f : field) (x : fval) : bool :=
  if is_empty_hit f x then true else
  if is_timestamp (f_kind f) then
    match f_card f, x with Singular, FM _ | Optional, FM _ => true | _, _ => false end
  else
    card_fits (f_card f) x && cwt c sc (f_kind f) x &&
    match f_card f, f_kind f with
    | MapOf _, KMessage tn => match find_unwrap_list sc tn with Some _ => false | None => true end
    | _, _ => true
    end.

Lemma keep_typed E sc e c f x j :
  env_okp sc e -> is_number_i64 f = false -> tsfmt_of f = None -> f_enumenc f <> Some EENumber ->
  is_empty_hit f x = false ->
  top_entry_ok c sc f x = true -> pj_fval E sc (f_kind f) x = ROk j ->
  forall d, inhabits (S (S (c + d))) e (field_ty sc f) j = true.
Proof.
  intros Henv Hn Htf He Hhit Hok Hpj d. unfold top_entry_ok in Hok. rewrite Hhit in Hok.
  destruct (is_timestamp (f_kind f)) eqn:Hts.
  - assert (Hc : f_card f = Singular \/ f_card f = Optional).
    { destruct (f_card f); try discriminate Hok; auto. }
    assert (Hm : is_map f = false) by (unfold is_map; destruct Hc as [Hc|Hc]; rewrite Hc; reflexivity).
    rewrite (field_ty_ts sc f Hts Hc), (timestamp_ty_none f Hts Hm Htf).
    destruct x as [?|tm|?|?]; try (destruct Hc as [Hc|Hc]; rewrite Hc in Hok; discriminate Hok).
    destruct (f_kind f) as [| | | | | | | | | | | | | | | |tn]; try discriminate Hts.
    cbn [is_timestamp] in Hts. rewrite pj_fval_FM in Hpj.
    change (str_eqb tn ts_name) with (str_eqb tn (s "google.protobuf.Timestamp")) in Hpj. rewrite Hts in Hpj.
    unfold pj_timestamp in Hpj. destruct (ts_in_range _ _); inversion Hpj. reflexivity.
  - apply andb_true_iff in Hok as [Hok Hu]. apply andb_true_iff in Hok as [Hc Hw].
    rewrite (field_ty_top sc f x Hn He Hts Hc).
    + now apply (pj_fval_inhabits E sc e Henv c d).
    + destruct (f_card f); try exact I. destruct (f_kind f); try exact I.
      destruct (find_unwrap_list sc tn); [discriminate Hu|reflexivity].
Qed.

(* ---- 2c. properties ----------------------------------------------------------------------------------------------------- *)
Lemma shapes_null fu e : shapes fu e YNull = None.
Proof. destruct fu; reflexivity. Qed.

Lemma inhabits_union_null fu e t j :
  inhabits (S fu) e (YUnion [t; YNull]) j = inhabits fu e t j || (inhabits fu e YNull j || false).
Proof.
  change (inhabits (S fu) e (YUnion [t; YNull]) j)
    with (match shapes (S fu) e (YUnion [t; YNull]) with
          | Some shs => match j with JObj kv => existsb (fun ps => shape_okF fu e ps kv) shs | _ => false end
          | None => existsb (fun m => inhabits fu e m j) [t; YNull]
          end).
  assert (Hs : shapes (S fu) e (YUnion [t; YNull]) = None).
  { cbn [shapes fold_right]. rewrite shapes_null. destruct (shapes fu e t); reflexivity. }
  rewrite Hs. reflexivity.
Qed.

Lemma p_name_prop sc f : p_name (field_prop sc [] f) = jn f.
Proof. unfold field_prop. destruct (f_nullable f) as [[|]|]; reflexivity. Qed.
Lemma p_opt_prop sc f : p_opt (field_prop sc [] f) = if is_nullable f then false else is_optional f.
Proof. unfold field_prop, is_nullable. destruct (f_nullable f) as [[|]|]; reflexivity. Qed.

Lemma p_ty_inh sc e f L v :
  inhabits L e (field_ty sc f) v = true -> inhabits (S L) e (field_ty sc f) v = true ->
  inhabits (S L) e (p_ty (field_prop sc [] f)) v = true.
Proof.
  intros H1 H2. unfold field_prop. destruct (f_nullable f) as [[|]|]; unfold p_ty; cbn [snd]; try exact H2.
  rewrite inhabits_union_null, H1. reflexivity.
Qed.
Lemma p_ty_plain sc f : is_nullable f = false -> p_ty (field_prop sc [] f) = field_ty sc f.
Proof. unfold is_nullable, field_prop. destruct (f_nullable f) as [[|]|]; try discriminate; reflexivity. Qed.
Lemma p_ty_null sc e f L : is_nullable f = true -> inhabits (S (S L)) e (p_ty (field_prop sc [] f)) JNull = true.
Proof.
  unfold is_nullable, field_prop. destruct (f_nullable f) as [[|]|]; try discriminate. intros _.
  unfold p_ty. cbn [snd]. rewrite inhabits_union_null. apply orb_true_iff. right. reflexivity.
Qed.

Lemma filter_map_comm {A B} (g : A -> B) (P : B -> bool) (l : list A) :
  filter P (map g l) = map g (filter (fun a => P (g a)) l).
Proof. induction l as [|a l IH]; [reflexivity|]. cbn [map filter]. destruct (P (g a)); [cbn [map]; f_equal|]; exact IH. Qed.

Lemma filter_prop sc fs f :
  NullableFacts.nodup_str (map jn fs) = true -> In f fs ->
  filter (fun p => str_eqb (p_name p) (jn f)) (map (field_prop sc []) fs) = [field_prop sc [] f].
Proof.
  intros Hnd Hin. rewrite filter_map_comm.
  rewrite (filter_ext _ (fun x => str_eqb (jn x) (jn f))) by (intros x; rewrite p_name_prop; reflexivity).
  rewrite (nodup_str_filter jn fs f Hnd Hin). reflexivity.
Qed.

(* ---- 2d. the object lemma: required properties present, every wire key declared once with a type its value has ------- *)
Section Obj.
Variable E : ExtLib.
Variable sc : schema.
Variable e : env.
Variable md : message.
Variable m : mval.
Variable act : field -> action.
Variable L : nat.
Variable n : str.
Variable es : list (str * json).
Hypothesis Hlook : lookup e n = Some (YObject (map (field_prop sc []) (m_fields md))).
Hypothesis Hnd : NullableFacts.nodup_str (map jn (m_fields md)) = true.
Hypothesis Hes : m_msg E sc md m = ROk es.
Hypothesis Hnames : forall name x, In (name, x) m -> mget m name = Some x.
Hypothesis Hkeep : forall name x f j,
  In (name, x) m -> find_field (m_fields md) name = Some f -> mget m (f_name f) = Some x -> act f = None ->
  pj_fval E sc (f_kind f) x = ROk j -> inhabits (S L) e (p_ty (field_prop sc [] f)) j = true.
Hypothesis Hset : forall f v, In f (m_fields md) -> act f = Some (Some v) ->
  inhabits (S L) e (p_ty (field_prop sc [] f)) v = true.
Hypothesis Hreq : forall f, In f (m_fields md) -> p_opt (field_prop sc [] f) = false ->
  act f <> Some None /\ (mget m (f_name f) <> None \/ exists v, act f = Some (Some v)).

Theorem obj_inhabits :
  inhabits (S (S L)) e (YRef n) (JObj (fold_left (astep act) (m_fields md) es)) = true.
Proof.
  rewrite (inhabits_ref_obj L e n _ _ Hlook). unfold shape_okF. apply andb_true_iff. split.
  - apply forallb_forall. intros p Hp. apply in_map_iff in Hp. destruct Hp as [f [Hpf Hf]]. subst p.
    destruct (p_opt (field_prop sc [] f)) eqn:Ho; [reflexivity|]. cbn [orb]. rewrite p_name_prop.
    destruct (Hreq f Hf Ho) as [Hnd' Hpres].
    change (raw_has (jn f) (fold_left (astep act) (m_fields md) es) = true).
    apply fold_has.
    + intros g Hg Hj. assert (Hgf : g = f) by (apply (NullableFacts.nodup_jn_inj (m_fields md) g f Hnd Hg Hf Hj)).
      subst g. exact Hnd'.
    + destruct Hpres as [Hm|[v Hv]].
      * left. apply NullableFacts.raw_has_keys. rewrite (NullableFacts.m_msg_keys E sc md m es Hes).
        destruct (mget m (f_name f)) as [x|] eqn:Em; [|contradiction Hm; reflexivity].
        apply NullableFacts.mget_some_in in Em. apply in_map_iff in Em. destruct Em as [[n0 x0] [Hn0 Hin0]].
        cbn [fst] in Hn0. subst n0. apply in_map_iff. exists (f_name f, x0). split; [reflexivity|exact Hin0].
      * right. exists f, v. repeat split; assumption.
  - apply forallb_forall. intros [k v] Hin. cbn [fst snd].
    destruct (fold_in act _ _ k v Hin) as [[Hin0 Hnone]|[f [Hf [Hk Ha]]]].
    + destruct (Int64Facts.m_msg_entries E sc md m es Hes (k, v) Hin0) as [name [x [f [Hinm [Hff [Hk Hpj]]]]]].
      cbn [fst snd] in Hk, Hpj. destruct (find_field_spec _ _ _ Hff) as [Hf Hname].
      subst k. assert (Hjn : json_name name = jn f) by (unfold jn; rewrite Hname; reflexivity).
      rewrite Hjn in Hnone |- *.
      rewrite (filter_prop sc (m_fields md) f Hnd Hf). cbn [forallb]. rewrite andb_true_r.
      apply (Hkeep name x f v Hinm Hff); [rewrite Hname; apply Hnames; exact Hinm|apply Hnone; [exact Hf|reflexivity]|exact Hpj].
    + subst k. rewrite (filter_prop sc (m_fields md) f Hnd Hf). cbn [forallb]. rewrite andb_true_r.
      apply Hset; assumption.
Qed.
End Obj.

(* ---- 2e. what the owner of a message and defects_C07 = [] say ------------------------------------------------------- *)
Lemma feature_dec (a b : feature) : {a = b} + {a <> b}.
Proof. decide equality. Defined.

Lemma owner_features sc md ft : owner_of sc md = Own ft -> features sc md = [ft].
Proof. unfold owner_of. destruct (features sc md) as [|a [|b l]]; intros H; try discriminate H. inversion H. reflexivity. Qed.

Lemma own_excl sc md ft (p : field -> bool) g :
  owner_of sc md = Own ft -> g <> ft -> (existsb p (m_fields md) = true -> In g (features sc md)) ->
  forall f, In f (m_fields md) -> p f = false.
Proof.
  intros Hown Hne Hin f Hf. destruct (p f) eqn:Ep; [|reflexivity]. exfalso. apply Hne.
  assert (Hex : existsb p (m_fields md) = true) by (apply existsb_exists; exists f; split; assumption).
  specialize (Hin Hex). rewrite (owner_features sc md ft Hown) in Hin. destruct Hin as [Hin|[]]. symmetry. exact Hin.
Qed.

Lemma feat_i64 sc md : existsb is_number_i64 (m_fields md) = true -> In FtInt64 (features sc md).
Proof. intros H. unfold features. rewrite H. apply in_or_app. right. apply in_or_app. left. left. reflexivity. Qed.
Lemma feat_nullable sc md : existsb is_nullable (m_fields md) = true -> In FtNullable (features sc md).
Proof. intros H. unfold features. rewrite H. do 2 (apply in_or_app; right). apply in_or_app. left. left. reflexivity. Qed.
Lemma feat_ts sc md :
  existsb (fun f => match tsfmt_of f with Some _ => true | None => false end) (m_fields md) = true -> In FtTs (features sc md).
Proof. intros H. unfold features. rewrite H. do 4 (apply in_or_app; right). apply in_or_app. left. left. reflexivity. Qed.
Lemma feat_empty sc md :
  existsb (fun f => match empty_of f with Some _ => true | None => false end) (m_fields md) = true -> In FtEmpty (features sc md).
Proof. intros H. unfold features. rewrite H. do 3 (apply in_or_app; right). apply in_or_app. left. left. reflexivity. Qed.
Lemma feat_flatten sc md : existsb is_flatten (m_fields md) = true -> In FtFlatten (features sc md).
Proof. intros H. unfold features. rewrite H. do 6 (apply in_or_app; right). apply in_or_app. left. left. reflexivity. Qed.
Lemma feat_oneof sc md : existsb oneof_cfg (m_oneofs md) = true -> In FtOneof (features sc md).
Proof. intros H. unfold features. rewrite H. do 7 (apply in_or_app; right). left. reflexivity. Qed.

Lemma own_std_shape sc md ft :
  owner_of sc md = Own ft -> CodecCompose.field_codec_ft ft = true -> std_shape md.
Proof.
  intros Hown Hft. split.
  - unfold disc_oneofs.
    assert (Hno : forall o, In o (m_oneofs md) -> oneof_cfg o = false).
    { intros o Ho. destruct (oneof_cfg o) eqn:Eo; [|reflexivity]. exfalso.
      assert (Hex : existsb oneof_cfg (m_oneofs md) = true) by (apply existsb_exists; exists o; split; assumption).
      apply (feat_oneof sc) in Hex. rewrite (owner_features sc md ft Hown) in Hex. destruct Hex as [Hex|[]]. subst ft. discriminate Hft. }
    induction (m_oneofs md) as [|o r IH]; [reflexivity|]. cbn [filter].
    assert (Ho : o_has_cfg o && negb (str_eqb (o_discriminator o) []) = false).
    { specialize (Hno o (or_introl eq_refl)). unfold oneof_cfg in Hno. destruct (o_discriminator o); exact Hno. }
    rewrite Ho. apply IH. intros o' Ho'. apply Hno. right. exact Ho'.
  - apply (own_excl sc md ft is_flatten FtFlatten Hown); [intros Heq; subst ft; discriminate Hft|apply feat_flatten].
Qed.

Lemma dedup_nil l : dedup_defects l [] = [] -> l = [].
Proof. destruct l as [|d r]; [reflexivity|]. cbn [dedup_defects existsb]. discriminate. Qed.

(* (the fuel is kept abstract: the kernel must not unfold val_defects 32) *)
Lemma defects_top sc fl tn md m fu :
  fu = 32 ->
  find_message (all_messages sc) tn = Some md -> root_unwrap_field md = None ->
  defects_C07 sc fl (s "inh-response") tn [] m = [] -> val_defects fu sc 0 tn m = [].
Proof.
  intros Hfu Hfm Hru H. unfold defects_C07 in H. cbv zeta in H. rewrite <- Hfu in H.
  rewrite Hfm, Hru in H. apply dedup_nil in H.
  rewrite str_eqb_refl in H. cbn [negb andb] in H.
  do 4 (apply app_eq_nil in H; destruct H as [_ H]). exact H.
Qed.

Lemma val_defects_top fu sc tn M m :
  find_message (all_messages sc) tn = Some M -> val_defects (S fu) sc 0 tn m = [] ->
  existsb (fun f => implicit_required f && negb (TsTypes.populated m f)) (m_fields M) = false /\
  existsb (fun f => match f_empty f, mget m (f_name f) with Some EBNull, Some (FM []) => true | _, _ => false end) (m_fields M) = false.
Proof.
  intros Hfm H. cbn [val_defects] in H. rewrite Hfm in H.
  apply app_eq_nil in H. destruct H as [H1 H]. split.
  - destruct (existsb (fun f => implicit_required f && negb (TsTypes.populated m f)) (m_fields M)); [discriminate H1|reflexivity].
  - do 11 (apply app_eq_nil in H; destruct H as [_ H]). apply app_eq_nil in H. destruct H as [H2 _].
    destruct (existsb (fun f => match f_empty f, mget m (f_name f) with Some EBNull, Some (FM []) => true | _, _ => false end) (m_fields M));
      [discriminate H2|reflexivity].
Qed.

Lemma msg_ok_no_oneof md : msg_ok md = true -> forall f, In f (m_fields md) -> f_oneof f = None.
Proof.
  unfold msg_ok. intros H f Hf. apply andb_prop in H. destruct H as [_ H]. rewrite forallb_forall in H.
  specialize (H f Hf). apply andb_prop in H. destruct H as [_ H]. destruct (f_oneof f); [discriminate H|reflexivity].
Qed.

Lemma required_implicit f : f_oneof f = None -> is_optional f = false -> implicit_required f = true.
Proof.
  unfold is_optional, implicit_required. intros -> H. destruct (f_card f); try reflexivity; try discriminate H.
  rewrite H. reflexivity.
Qed.

(* a schema-level condition on the fields of the top-level message: not an unwrap field, no enum_encoding = NUMBER
   (its own defect class, enum-number-encoding-not-applied) *)
Definition top_field_ok (f : field) : bool :=
  negb (f_unwrap f) && match f_enumenc f with Some EENumber => false | _ => true end.

Lemma top_no_root_unwrap md : forallb top_field_ok (m_fields md) = true -> root_unwrap_field md = None.
Proof.
  unfold root_unwrap_field. intros H. destruct (m_fields md) as [|f [|g r]]; try reflexivity.
  cbn [forallb] in H. rewrite andb_true_r in H. unfold top_field_ok in H. apply andb_true_iff in H as [H _].
  apply negb_true_iff in H. rewrite H. reflexivity.
Qed.

(* ---- 2f. the theorem, for every field codec --------------------------------------------------------------------------- *)
Section Top.
Variable E : ExtLib.
Variable sc : schema.
Variable e : env.
Variable tn : str.
Variable md : message.
Variable ft : feature.
Variable m : mval.
Variables c d : nat.
Hypothesis Henv : env_okp sc e.
Hypothesis Hfm : find_message (all_messages sc) tn = Some md.
Hypothesis Hown : owner_of sc md = Own ft.
Hypothesis Hft : CodecCompose.field_codec_ft ft = true.
Hypothesis Hb : buildable sc ft md = true.
Hypothesis Htop : forallb top_field_ok (m_fields md) = true.
Hypothesis Hok : msg_ok md = true.
Hypothesis Hsorted : sorted_Z (map (fun en => num_of md (fst en)) m) = true.
Hypothesis Hwf : wt_fields sc md m = true.
Hypothesis Hch : forallb (fun en => match find_field (m_fields md) (fst en) with
                                    | Some f => top_entry_ok c sc f (snd en)
                                    | None => false end) m = true.
Hypothesis Himp : existsb (fun f => implicit_required f && negb (TsTypes.populated m f)) (m_fields md) = false.
Hypothesis Hempnull :
  existsb (fun f => match f_empty f, mget m (f_name f) with Some EBNull, Some (FM []) => true | _, _ => false end) (m_fields md) = false.

Let Hnd : NullableFacts.nodup_str (map jn (m_fields md)) = true := Int64Facts.msg_ok_nodup_jn md Hok.

Lemma ft_cases : ft = FtInt64 \/ ft = FtNullable \/ ft = FtEmpty \/ ft = FtTs \/ ft = FtBytes.
Proof. clear - Hft. destruct ft; try discriminate Hft; auto 6. Qed.

Lemma entry_wt f x : In f (m_fields md) -> mget m (f_name f) = Some x -> wt_entry sc f x = true.
Proof.
  intros Hf Hm. apply Int64Facts.mget_pair in Hm.
  destruct (Int64Facts.wt_fields_in sc md m (f_name f) x Hwf Hm) as [f' [Hff Hw]].
  destruct (find_field_spec _ _ _ Hff) as [Hf' Hname].
  assert (Heq : f' = f).
  { apply (NullableFacts.nodup_jn_inj (m_fields md) f' f Hnd Hf' Hf). unfold jn. rewrite Hname. reflexivity. }
  subst f'. exact Hw.
Qed.

Lemma not_number f : ft <> FtInt64 -> In f (m_fields md) -> is_number_i64 f = false.
Proof. intros Hne. apply (own_excl sc md ft is_number_i64 FtInt64 Hown); [congruence|apply feat_i64]. Qed.
Lemma not_nullable f : ft <> FtNullable -> In f (m_fields md) -> is_nullable f = false.
Proof. intros Hne. apply (own_excl sc md ft is_nullable FtNullable Hown); [congruence|apply feat_nullable]. Qed.
Lemma not_tsfmt f : ft <> FtTs -> In f (m_fields md) -> tsfmt_of f = None.
Proof.
  intros Hne Hf.
  pose proof (own_excl sc md ft (fun f => match tsfmt_of f with Some _ => true | None => false end) FtTs Hown
                (fun H => Hne (eq_sym H)) (feat_ts sc md) f Hf) as H.
  cbv beta in H. destruct (tsfmt_of f); [discriminate H|reflexivity].
Qed.

Lemma enumenc_ok f : In f (m_fields md) -> f_enumenc f <> Some EENumber.
Proof.
  intros Hf. rewrite forallb_forall in Htop. specialize (Htop f Hf). unfold top_field_ok in Htop.
  apply andb_true_iff in Htop as [_ H]. intros He. rewrite He in H. discriminate H.
Qed.

(* a NUMBER field that holds a value is rewritten *)
Lemma number_act f x : ft = FtInt64 -> In f (m_fields md) -> is_number_i64 f = true -> mget m (f_name f) = Some x ->
  (exists z, act_int64 m f = Some (Some (JNum z)) /\ f_card f = Singular) \/
  (exists zs, act_int64 m f = Some (Some (JArr (map JNum zs))) /\ f_card f = Repeated).
Proof.
  intros Hi Hf Hn Hm. pose proof Hb as Hb'. rewrite Hi in Hb'.
  pose proof (Int64Facts.shape_of_wt sc md f x Hb' Hf Hn (entry_wt f x Hf Hm)) as Hsh.
  unfold act_int64. rewrite Hn, Hm.
  destruct Hsh as [[Hc [z [Hx [Hz _]]]]|[Hc [zs [Hx [Hne _]]]]]; subst x; rewrite Hc.
  - left. exists z. rewrite (proj2 (Z.eqb_neq z 0) Hz). split; reflexivity.
  - right. exists zs. destruct zs as [|z0 zs]; [contradiction Hne; reflexivity|]. split; [|reflexivity].
    cbn [map Int64Facts.vint64]. do 4 f_equal. rewrite map_map. apply map_ext. intros z. reflexivity.
Qed.

(* a timestamp_format field that holds a value is rewritten *)
Lemma ts_act f x : ft = FtTs -> In f (m_fields md) -> forall fmt, tsfmt_of f = Some fmt -> mget m (f_name f) = Some x ->
  f_card f = Singular /\ is_timestamp (f_kind f) = true /\ f_tsfmt f = Some fmt /\
  ((fmt = TFUnixSeconds /\ exists z, act_ts E m f = Some (Some (JNum z))) \/
   (fmt = TFUnixMillis /\ exists z, act_ts E m f = Some (Some (JNum z))) \/
   (fmt = TFDate /\ exists t, act_ts E m f = Some (Some (JStr t)))).
Proof.
  intros Hi Hf fmt Hfmt Hm. pose proof Hb as Hb'. rewrite Hi in Hb'.
  destruct (TimestampFacts.tsfmt_of_inv f fmt Hfmt) as [Hk [_ [Htf Hcases]]].
  assert (Hps : plain_singular f = true).
  { unfold buildable in Hb'. rewrite forallb_forall in Hb'. specialize (Hb' f Hf). rewrite Hfmt in Hb'. exact Hb'. }
  assert (Hc : f_card f = Singular) by (unfold plain_singular in Hps; destruct (f_card f); try discriminate Hps; reflexivity).
  pose proof (entry_wt f x Hf Hm) as Hw. unfold wt_entry in Hw. rewrite Hc, Hk in Hw.
  destruct x as [sx|tm|l|kv]; try discriminate Hw.
  split; [exact Hc|]. split; [rewrite Hk; reflexivity|]. split; [exact Htf|].
  unfold act_ts. rewrite Hfmt, Hm.
  destruct Hcases as [->|[->| ->]]; [left|right; left|right; right]; (split; [reflexivity|]); eexists; reflexivity.
Qed.

Lemma Hkeep_ok name x f j :
  In (name, x) m -> find_field (m_fields md) name = Some f -> mget m (f_name f) = Some x -> act_of E ft m f = None ->
  pj_fval E sc (f_kind f) x = ROk j ->
  inhabits (S (S (S (c + d)))) e (p_ty (field_prop sc [] f)) j = true.
Proof.
  intros Hin Hff Hm Hact Hpj. destruct (find_field_spec _ _ _ Hff) as [Hf Hname].
  assert (Hte : top_entry_ok c sc f x = true).
  { rewrite forallb_forall in Hch. specialize (Hch (name, x) Hin). cbn [fst snd] in Hch. rewrite Hff in Hch. exact Hch. }
  assert (Hnum : is_number_i64 f = false).
  { destruct (is_number_i64 f) eqn:Hn; [|reflexivity]. exfalso.
    assert (Hi : ft = FtInt64).
    { destruct (feature_dec ft FtInt64) as [Hi|Hne]; [exact Hi|]. rewrite (not_number f Hne Hf) in Hn. discriminate Hn. }
    pose proof Hact as Hact'. rewrite Hi in Hact'. cbn [act_of] in Hact'.
    destruct (number_act f x Hi Hf Hn Hm) as [[z [Ha _]]|[zs [Ha _]]]; congruence. }
  assert (Htf : tsfmt_of f = None).
  { destruct (tsfmt_of f) as [fmt|] eqn:Hfmt; [|reflexivity]. exfalso.
    assert (Hi : ft = FtTs).
    { destruct (feature_dec ft FtTs) as [Hi|Hne]; [exact Hi|]. rewrite (not_tsfmt f Hne Hf) in Hfmt. discriminate Hfmt. }
    pose proof Hact as Hact'. rewrite Hi in Hact'. cbn [act_of] in Hact'.
    destruct (ts_act f x Hi Hf fmt Hfmt Hm) as [_ [_ [_ [[_ [z Ha]]|[[_ [z Ha]]|[_ [t Ha]]]]]]]; congruence. }
  assert (Hhit : is_empty_hit f x = false).
  { destruct (is_empty_hit f x) eqn:Eh; [|reflexivity]. exfalso. unfold is_empty_hit in Eh.
    destruct (feature_dec ft FtEmpty) as [Hi|Hne].
    - rewrite Hi in Hact. cbn [act_of] in Hact. unfold act_empty in Hact. rewrite Hm in Hact.
      destruct (empty_of f) as [[| | |]|]; try discriminate Eh; destruct x as [?|[|? ?]|?|?]; discriminate.
    - pose proof (own_excl sc md ft (fun f => match empty_of f with Some _ => true | None => false end) FtEmpty Hown
                    (fun H => Hne (eq_sym H)) (feat_empty sc md) f Hf) as Hx. cbv beta in Hx.
      destruct (empty_of f); [discriminate Hx|discriminate Eh]. }
  apply p_ty_inh.
  - exact (keep_typed E sc e c f x j Henv Hnum Htf (enumenc_ok f Hf) Hhit Hte Hpj d).
  - pose proof (keep_typed E sc e c f x j Henv Hnum Htf (enumenc_ok f Hf) Hhit Hte Hpj (S d)) as H.
    rewrite Nat.add_succ_r in H. exact H.
Qed.

Lemma elem_ty_number f : is_number_i64 f = true -> elem_ty f = YNumber.
Proof.
  intros Hn. destruct (Int64Facts.number_i64_facts f Hn) as [Hk [_ Hi]].
  unfold elem_ty, scalar_ty. rewrite Hi. destruct (f_kind f); try discriminate Hk; reflexivity.
Qed.

Lemma Hset_ok f v :
  In f (m_fields md) -> act_of E ft m f = Some (Some v) ->
  inhabits (S (S (S (c + d)))) e (p_ty (field_prop sc [] f)) v = true.
Proof.
  intros Hf Hact. destruct ft_cases as [Hi|[Hi|[Hi|[Hi|Hi]]]]; rewrite Hi in Hact; cbn [act_of] in Hact.
  - (* int64 NUMBER *)
    rewrite p_ty_plain by (apply not_nullable; [rewrite Hi; discriminate|exact Hf]).
    assert (Hn : is_number_i64 f = true) by (unfold act_int64 in Hact; destruct (is_number_i64 f); [reflexivity|discriminate Hact]).
    assert (Hm : exists x, mget m (f_name f) = Some x).
    { unfold act_int64 in Hact. rewrite Hn in Hact. destruct (mget m (f_name f)) as [x|]; [exists x; reflexivity|].
      destruct (f_card f); discriminate Hact. }
    destruct Hm as [x Hm].
    destruct (number_act f x Hi Hf Hn Hm) as [[z [Ha Hc]]|[zs [Ha Hc]]]; rewrite Ha in Hact; inversion Hact; subst v;
      unfold field_ty; rewrite Hc, (elem_ty_number f Hn).
    + reflexivity.
    + rewrite inhabits_array. apply forallb_forall. intros jx Hjx. apply in_map_iff in Hjx. destruct Hjx as [z [<- _]]. reflexivity.
  - (* nullable *)
    unfold act_nullable in Hact. destruct (is_nullable f) eqn:Hn; [|discriminate Hact].
    destruct (mget m (f_name f)); [discriminate Hact|]. inversion Hact; subst v. apply p_ty_null. exact Hn.
  - (* empty_behavior = NULL on an empty message: excluded by defects_C07 (empty-behavior-null) *)
    exfalso. unfold act_empty in Hact.
    pose proof (TimestampFacts.existsb_false_in _ _ f Hempnull Hf) as Hx. cbv beta in Hx.
    unfold empty_of in Hact.
    destruct (f_empty f) as [[| | |]|]; try discriminate Hact;
      destruct (mget m (f_name f)) as [[?|[|? ?]|?|?]|]; try discriminate Hact. discriminate Hx.
  - (* timestamp_format *)
    rewrite p_ty_plain by (apply not_nullable; [rewrite Hi; discriminate|exact Hf]).
    assert (Hfmt : exists fmt, tsfmt_of f = Some fmt) by (unfold act_ts in Hact; destruct (tsfmt_of f) as [fmt|]; [exists fmt; reflexivity|discriminate Hact]).
    destruct Hfmt as [fmt Hfmt].
    assert (Hm : exists x, mget m (f_name f) = Some x).
    { unfold act_ts in Hact. rewrite Hfmt in Hact. destruct (mget m (f_name f)) as [x|]; [exists x; reflexivity|discriminate Hact]. }
    destruct Hm as [x Hm].
    destruct (ts_act f x Hi Hf fmt Hfmt Hm) as [Hc [Hts [Htf Hcases]]].
    rewrite (field_ty_ts sc f Hts (or_introl Hc)). unfold timestamp_ty. rewrite Htf.
    destruct Hcases as [[-> [z Ha]]|[[-> [z Ha]]|[-> [t Ha]]]]; rewrite Ha in Hact; inversion Hact; reflexivity.
  - (* bytes_encoding *)
    rewrite p_ty_plain by (apply not_nullable; [rewrite Hi; discriminate|exact Hf]).
    pose proof Hb as Hb'. rewrite Hi in Hb'.
    unfold act_bytes in Hact. destruct (bytesenc_of f) as [be|] eqn:Hbe; [|discriminate Hact].
    destruct (mget m (f_name f)) as [[[?|?|?|[|? ?]|?|?]|?|?|?]|]; try discriminate Hact. inversion Hact; subst v.
    pose proof (BytesFacts.bytesenc_kind f be Hbe) as Hk.
    destruct (BytesFacts.buildable_bytes_card sc md f be Hb' Hf Hbe) as [Hc|Hc];
      unfold field_ty, elem_ty, scalar_ty; rewrite Hc, Hk; reflexivity.
Qed.

Lemma Hreq_ok f :
  In f (m_fields md) -> p_opt (field_prop sc [] f) = false ->
  act_of E ft m f <> Some None /\ (mget m (f_name f) <> None \/ exists v, act_of E ft m f = Some (Some v)).
Proof.
  intros Hf Ho. rewrite p_opt_prop in Ho.
  assert (Hpop : is_nullable f = false -> mget m (f_name f) <> None).
  { intros Hn. rewrite Hn in Ho.
    pose proof (required_implicit f (msg_ok_no_oneof md Hok f Hf) Ho) as Hi.
    pose proof (TimestampFacts.existsb_false_in _ _ f Himp Hf) as Hx. cbv beta in Hx. rewrite Hi in Hx. cbn [andb] in Hx.
    apply negb_false_iff in Hx. unfold TsTypes.populated in Hx. destruct (mget m (f_name f)); [discriminate|discriminate Hx]. }
  assert (Hnn : ft <> FtNullable -> is_nullable f = false) by (intros Hne; exact (not_nullable f Hne Hf)).
  destruct ft_cases as [Hi|[Hi|[Hi|[Hi|Hi]]]]; rewrite Hi in Hnn |- *; cbn [act_of].
  - (* int64 *)
    pose proof (Hpop (Hnn ltac:(discriminate))) as Hm. split; [|left; exact Hm].
    destruct (is_number_i64 f) eqn:Hn; [|unfold act_int64; rewrite Hn; discriminate].
    destruct (mget m (f_name f)) as [x|] eqn:Em; [|contradiction Hm; reflexivity].
    destruct (number_act f x Hi Hf Hn Em) as [[z [Ha _]]|[zs [Ha _]]]; rewrite Ha; discriminate.
  - (* nullable *)
    split.
    + unfold act_nullable. destruct (is_nullable f); [|discriminate]. destruct (mget m (f_name f)); discriminate.
    + unfold act_nullable. destruct (is_nullable f) eqn:Hn; [|left; apply Hpop; reflexivity].
      destruct (mget m (f_name f)); [left; discriminate|right; eexists; reflexivity].
  - (* empty *)
    pose proof (Hnn ltac:(discriminate)) as Hn. pose proof (Hpop Hn) as Hm. split; [|left; exact Hm].
    rewrite Hn in Ho. intros Hact. unfold act_empty in Hact.
    destruct (empty_of f) as [[| | |]|]; try discriminate Hact;
      destruct (mget m (f_name f)) as [[?|[|? ?]|?|?]|] eqn:Em; try discriminate Hact.
    pose proof (entry_wt f (FM []) Hf Em) as Hw. unfold wt_entry in Hw. unfold is_optional in Ho.
    destruct (f_card f); try discriminate Hw; try discriminate Ho.
    destruct (f_kind f); cbn in Hw; try discriminate Hw. discriminate Ho.
  - (* timestamp_format *)
    pose proof (Hpop (Hnn ltac:(discriminate))) as Hm. split; [|left; exact Hm].
    unfold act_ts. destruct (tsfmt_of f) as [fmt|]; [|discriminate].
    destruct (mget m (f_name f)) as [[?|?|?|?]|]; try discriminate. destruct fmt; discriminate.
  - (* bytes_encoding *)
    pose proof (Hpop (Hnn ltac:(discriminate))) as Hm. split; [|left; exact Hm].
    unfold act_bytes. destruct (bytesenc_of f); [|discriminate].
    destruct (mget m (f_name f)) as [[[?|?|?|[|? ?]|?|?]|?|?|?]|]; discriminate.
Qed.

Theorem top_inhabits es :
  m_msg E sc md m = ROk es ->
  inhabits (S (S (S (S (c + d))))) e (YRef (last_seg tn))
           (JObj (fold_left (astep (act_of E ft m)) (m_fields md) es)) = true.
Proof.
  intros Hes.
  apply (obj_inhabits E sc e md m (act_of E ft m) (S (S (c + d))) (last_seg tn) es).
  - destruct Henv as [Hmsg _]. apply (Hmsg tn md Hfm). exact (own_std_shape sc md ft Hown Hft).
  - exact Hnd.
  - exact Hes.
  - intros name x Hin. exact (Int64Facts.mget_of_in md m name x Hsorted Hin).
  - exact Hkeep_ok.
  - exact Hset_ok.
  - exact Hreq_ok.
Qed.
End Top.

(* ---- 2g. C07 for responses of messages owned by a field codec ------------------------------------------------------------ *)
Definition resp : str := s "inh-response".

(* the children of the top-level value, field by field *)
Notation top_children c sc md m :=
  (forallb (fun en : str * fval => match find_field (m_fields md) (fst en) with
                                   | Some f => top_entry_ok c sc f (snd en)
                                   | None => false end) m).

Theorem field_codec_response_inhabits E sc fl e tn md ft m j c d :
  env_okp sc e ->
  lookup_message sc tn = Some md -> owner_of sc md = Own ft -> CodecCompose.field_codec_ft ft = true ->
  forallb top_field_ok (m_fields md) = true ->
  pwt sc (KMessage tn) (FM m) = true ->
  top_children c sc md m = true ->
  defects_C07 sc fl resp tn [] m = [] ->
  encode E sc tn m = ROk j ->
  inhabits (S (S (S (S (c + d))))) e (YRef (last_seg tn)) j = true.
Proof.
  intros Henv Hlk Hown Hft Htop Hwt Hch Hdef Henc.
  destruct (str_eqb tn ts_name) eqn:Hts.
  { exfalso. unfold lookup_message in Hlk. rewrite Hts in Hlk. inversion Hlk; subst md.
    rewrite CodecCompose.ts_message_unowned in Hown. discriminate Hown. }
  destruct (CodecCompose.wt_top sc tn m Hts Hwt) as [Hwk [md' [Hfm [Hlk' [Hok [Hsorted Hwf]]]]]].
  assert (Hmd : md' = md) by congruence. subst md'.
  destruct (encode_field_codec E sc tn md ft m j Hts Hwk Hfm Hown Hft Henc) as [es [Hes [Hb Hj]]]. subst j.
  pose proof (defects_top sc fl tn md m 32 eq_refl Hfm (top_no_root_unwrap md Htop) Hdef) as Hvd.
  destruct (val_defects_top 31 sc tn md m Hfm Hvd) as [Himp Hempnull].
  eapply top_inhabits; eassumption.
Qed.

Section PerCodec.
Variable E : ExtLib.
Variable sc : schema.
Variable fl : file.
Variable e : env.

Theorem response_inhabits_nullable tn md m j c d :
  env_okp sc e -> lookup_message sc tn = Some md -> owner_of sc md = Own FtNullable ->
  forallb top_field_ok (m_fields md) = true -> pwt sc (KMessage tn) (FM m) = true -> top_children c sc md m = true ->
  defects_C07 sc fl resp tn [] m = [] -> encode E sc tn m = ROk j ->
  inhabits (S (S (S (S (c + d))))) e (YRef (last_seg tn)) j = true.
Proof. intros H1 H2 H3. exact (field_codec_response_inhabits E sc fl e tn md FtNullable m j c d H1 H2 H3 eq_refl). Qed.

Theorem response_inhabits_int64 tn md m j c d :
  env_okp sc e -> lookup_message sc tn = Some md -> owner_of sc md = Own FtInt64 ->
  forallb top_field_ok (m_fields md) = true -> pwt sc (KMessage tn) (FM m) = true -> top_children c sc md m = true ->
  defects_C07 sc fl resp tn [] m = [] -> encode E sc tn m = ROk j ->
  inhabits (S (S (S (S (c + d))))) e (YRef (last_seg tn)) j = true.
Proof. intros H1 H2 H3. exact (field_codec_response_inhabits E sc fl e tn md FtInt64 m j c d H1 H2 H3 eq_refl). Qed.

Theorem response_inhabits_bytes tn md m j c d :
  env_okp sc e -> lookup_message sc tn = Some md -> owner_of sc md = Own FtBytes ->
  forallb top_field_ok (m_fields md) = true -> pwt sc (KMessage tn) (FM m) = true -> top_children c sc md m = true ->
  defects_C07 sc fl resp tn [] m = [] -> encode E sc tn m = ROk j ->
  inhabits (S (S (S (S (c + d))))) e (YRef (last_seg tn)) j = true.
Proof. intros H1 H2 H3. exact (field_codec_response_inhabits E sc fl e tn md FtBytes m j c d H1 H2 H3 eq_refl). Qed.

Theorem response_inhabits_timestamp tn md m j c d :
  env_okp sc e -> lookup_message sc tn = Some md -> owner_of sc md = Own FtTs ->
  forallb top_field_ok (m_fields md) = true -> pwt sc (KMessage tn) (FM m) = true -> top_children c sc md m = true ->
  defects_C07 sc fl resp tn [] m = [] -> encode E sc tn m = ROk j ->
  inhabits (S (S (S (S (c + d))))) e (YRef (last_seg tn)) j = true.
Proof. intros H1 H2 H3. exact (field_codec_response_inhabits E sc fl e tn md FtTs m j c d H1 H2 H3 eq_refl). Qed.

Theorem response_inhabits_empty tn md m j c d :
  env_okp sc e -> lookup_message sc tn = Some md -> owner_of sc md = Own FtEmpty ->
  forallb top_field_ok (m_fields md) = true -> pwt sc (KMessage tn) (FM m) = true -> top_children c sc md m = true ->
  defects_C07 sc fl resp tn [] m = [] -> encode E sc tn m = ROk j ->
  inhabits (S (S (S (S (c + d))))) e (YRef (last_seg tn)) j = true.
Proof. intros H1 H2 H3. exact (field_codec_response_inhabits E sc fl e tn md FtEmpty m j c d H1 H2 H3 eq_refl). Qed.

(* the same for the documented mapping (Spec), where C05_conforms_field_codecs makes Impl = Spec *)
Theorem spec_response_inhabits tn md ft m j c d :
  env_okp sc e -> lookup_message sc tn = Some md -> owner_of sc md = Own ft -> CodecCompose.field_codec_ft ft = true ->
  CodecCompose.field_codec_plain sc md = true ->
  forallb (fun en => match find_field (m_fields md) (fst en) with
                     | Some f => MappingFacts.plain_in sc (f_kind f) (snd en)
                     | None => false end) m = true ->
  forallb top_field_ok (m_fields md) = true -> pwt sc (KMessage tn) (FM m) = true -> top_children c sc md m = true ->
  defects_C07 sc fl resp tn [] m = [] -> to_json E sc tn m = ROk j ->
  inhabits (S (S (S (S (c + d))))) e (YRef (last_seg tn)) j = true.
Proof.
  intros H1 H2 H3 H4 Hp Hpc H5 H6 H7 H8 Hj.
  rewrite <- (CodecCompose.C05_conforms_field_codecs E sc tn md m H2 Hp H6 Hpc) in Hj.
  exact (field_codec_response_inhabits E sc fl e tn md ft m j c d H1 H2 H3 H4 H5 H6 H7 H8 Hj).
Qed.
End PerCodec.

(* ---- 3. witnesses ---------------------------------------------------------------------------------------------------------- *)
From SebufProofs Require Import CodecExamples.
Open Scope Z_scope.

Definition tsx_msgs : list message :=
  [ msg "Nul" [set_nullable (fld "nick" 1 KString Optional); fld "id" 2 KString Singular; fld "leaf" 3 (T "Leaf") Singular;
               fld "when" 4 TS Singular] [];
    msg "Leaf" [fld "a" 1 KString Singular; fld "n" 2 KInt64 Singular] [];
    msg "Nums" [set_i64 (fld "big" 1 KInt64 Singular); fld "name" 2 KString Singular; set_i64 (fld "bigs" 3 KUint64 Repeated);
                fld "kids" 4 (T "Leaf") Repeated] [];
    msg "Blob" [set_bytes BEHex (fld "h" 1 KBytes Singular); fld "id" 2 KString Singular; set_bytes BEBase64Url (fld "u" 3 KBytes Optional)] [];
    msg "Times" [set_ts TFUnixSeconds (fld "secs" 1 TS Singular); set_ts TFDate (fld "day" 2 TS Singular); fld "id" 3 KString Singular;
                 set_ts TFUnixMillis (fld "ms" 4 TS Singular); fld "plain_at" 5 TS Singular] [];
    msg "Emp" [set_empty EBNull (fld "nul_it" 1 (T "Leaf") Singular); set_empty EBOmit (fld "omit" 2 (T "Opt") Singular);
               fld "id" 3 KString Singular] [];
    msg "Opt" [fld "o" 1 KString Optional] [] ].
Definition tsx_md (n : string) : method :=
  {| md_name := s n; md_in := q n; md_out := q n; md_has_cfg := true; md_path := s "/" ++ s n; md_verb := Some 2%nat; md_headers := [] |}.
Definition tsx_fl : file :=
  {| fl_path := s "x/t.proto"; fl_package := s "x.v1"; fl_gopkg := s "x"; fl_generate := true;
     fl_messages := tsx_msgs; fl_enums := [];
     fl_services := [ {| sv_name := s "Svc"; sv_base := s "/api"; sv_headers := [];
                         sv_methods := [tsx_md "Nul"; tsx_md "Nums"; tsx_md "Blob"; tsx_md "Times"; tsx_md "Emp"] |} ] |}.
Definition tsx : schema := [tsx_fl].
Definition tsx_env : env := declared_env tsx.

(* the environment of the theorems IS the one the modelled generators produce for this file *)
Example tsx_env_real :
  (exists ds, ts_decls tsx tsx_fl = Ok ds /\ env_of ds = tsx_env) /\ env_okp tsx tsx_env.
Proof.
  split; [eexists; split; vm_compute; reflexivity|].
  apply env_ok_okp. apply declared_env_ok. vm_compute. reflexivity.
Qed.

(* every hypothesis of field_codec_response_inhabits holds for (tn, m), the server's JSON is j, and j inhabits the
   declared interface at the fuel the correspondence check uses *)
Definition codec_case_ok (tn : str) (ft : feature) (m : mval) (j : json) : Prop :=
  exists md, lookup_message tsx tn = Some md /\ owner_of tsx md = Own ft /\ CodecCompose.field_codec_ft ft = true /\
    forallb top_field_ok (m_fields md) = true /\ pwt tsx (KMessage tn) (FM m) = true /\
    top_children 4%nat tsx md m = true /\ defects_C07 tsx tsx_fl resp tn [] m = [] /\
    encode Ex tsx tn m = ROk j /\ inhabits inhabit_fuel tsx_env (YRef (last_seg tn)) j = true.
Ltac caseok := eexists; split; [vm_compute; reflexivity|repeat split; vm_compute; reflexivity].

Definition leafv : fval := FM [(s "a", vstr "l"); (s "n", vint 7)].

Example response_inhabits_nullable_nonvacuous :
  codec_case_ok (q "Nul") FtNullable
    [(s "id", vstr "x"); (s "leaf", leafv); (s "when", tsv 5 0)]
    (JObj [(s "id", JStr (s "x")); (s "leaf", JObj [(s "a", JStr (s "l")); (s "n", JStr (s "7"))]);
           (s "when", JStr (x_ts_text Ex 5 0)); (s "nick", JNull)]) /\
  codec_case_ok (q "Nul") FtNullable
    [(s "nick", vstr "k"); (s "id", vstr "x")]
    (JObj [(s "nick", JStr (s "k")); (s "id", JStr (s "x"))]).
Proof. split; caseok. Qed.

Example response_inhabits_int64_nonvacuous :
  codec_case_ok (q "Nums") FtInt64
    [(s "big", vint 9007199254740993); (s "name", vstr "n"); (s "bigs", FL [vint 1; vint 18446744073709551615]); (s "kids", FL [leafv])]
    (JObj [(s "big", JNum 9007199254740993); (s "name", JStr (s "n")); (s "bigs", JArr [JNum 1; JNum 18446744073709551615]);
           (s "kids", JArr [JObj [(s "a", JStr (s "l")); (s "n", JStr (s "7"))]])]).
Proof. caseok. Qed.

Example response_inhabits_bytes_nonvacuous :
  codec_case_ok (q "Blob") FtBytes
    [(s "h", FS (VBytes [ch 105; ch 183])); (s "id", vstr "x"); (s "u", FS (VBytes [ch 251; ch 255]))]
    (JObj [(s "h", JStr (s "69b7")); (s "id", JStr (s "x")); (s "u", JStr (s "-_8="))]).
Proof. caseok. Qed.

Example response_inhabits_timestamp_nonvacuous :
  codec_case_ok (q "Times") FtTs
    [(s "secs", tsv 5 123456789); (s "day", tsv 90000 1); (s "id", vstr "x"); (s "ms", tsv 7 5000000); (s "plain_at", tsv 5 0)]
    (JObj [(s "secs", JNum 5); (s "day", JStr (s "1970-01-02")); (s "id", JStr (s "x")); (s "ms", JNum 7005);
           (s "plainAt", JStr (x_ts_text Ex 5 0))]).
Proof. caseok. Qed.

Example response_inhabits_empty_nonvacuous :
  codec_case_ok (q "Emp") FtEmpty
    [(s "nul_it", leafv); (s "omit", FM []); (s "id", vstr "x")]
    (JObj [(s "nulIt", JObj [(s "a", JStr (s "l")); (s "n", JStr (s "7"))]); (s "id", JStr (s "x"))]).
Proof. caseok. Qed.

(* ---- the hypotheses that remain are needed ------------------------------------------------------------------------------------ *)
(* defects_C07 = [] (1): an implicit-presence field at its default is omitted, the property is required *)
Example response_inhabits_needs_no_defects_implicit :
  let m := [(s "big", vint 5)] in
  defects_C07 tsx tsx_fl resp (q "Nums") [] m = [C07ImplicitPresenceOmitted] /\
  pwt tsx (KMessage (q "Nums")) (FM m) = true /\
  encode Ex tsx (q "Nums") m = ROk (JObj [(s "big", JNum 5)]) /\
  inhabits inhabit_fuel tsx_env (YRef (s "Nums")) (JObj [(s "big", JNum 5)]) = false.
Proof. vm_compute. repeat split; reflexivity. Qed.

(* defects_C07 = [] (2): empty_behavior = NULL writes null into `nulIt?: Leaf` *)
Example response_inhabits_needs_no_defects_empty_null :
  let m := [(s "nul_it", FM []); (s "id", vstr "x")] in
  defects_C07 tsx tsx_fl resp (q "Emp") [] m = [C07EmptyBehaviorNull; C07ImplicitPresenceOmitted] /\
  pwt tsx (KMessage (q "Emp")) (FM m) = true /\
  encode Ex tsx (q "Emp") m = ROk (JObj [(s "nulIt", JNull); (s "id", JStr (s "x"))]) /\
  inhabits inhabit_fuel tsx_env (YRef (s "Emp")) (JObj [(s "nulIt", JNull); (s "id", JStr (s "x"))]) = false /\
  (* null alone is the reason: with the property absent the value inhabits *)
  inhabits inhabit_fuel tsx_env (YRef (s "Emp")) (JObj [(s "id", JStr (s "x"))]) = true.
Proof. vm_compute. repeat split; reflexivity. Qed.

(* top_children: a child that is not fully populated (the parent's protojson omits its default) *)
Example response_inhabits_needs_top_children :
  let m := [(s "id", vstr "x"); (s "leaf", FM [(s "a", vstr "l")])] in
  exists md, lookup_message tsx (q "Nul") = Some md /\
    top_children 4%nat tsx md m = false /\ pwt tsx (KMessage (q "Nul")) (FM m) = true /\
    In C07ImplicitPresenceOmitted (defects_C07 tsx tsx_fl resp (q "Nul") [] m) /\
    encode Ex tsx (q "Nul") m = ROk (JObj [(s "id", JStr (s "x")); (s "leaf", JObj [(s "a", JStr (s "l"))]); (s "nick", JNull)]) /\
    inhabits inhabit_fuel tsx_env (YRef (s "Nul"))
      (JObj [(s "id", JStr (s "x")); (s "leaf", JObj [(s "a", JStr (s "l"))]); (s "nick", JNull)]) = false.
Proof. eexists. split; [vm_compute; reflexivity|]. vm_compute. repeat split; try reflexivity. left. reflexivity. Qed.

(* top_field_ok: enum_encoding = NUMBER on a field of a codec-owning message: TS says number, the Go server writes the name *)
Definition tsy_fl : file :=
  {| fl_path := s "x/u.proto"; fl_package := s "x.v1"; fl_gopkg := s "x"; fl_generate := true;
     fl_messages := [ msg "EnNul" [set_nullable (fld "nick" 1 KString Optional); set_enumnum (fld "st" 2 (KEnum (s "x.v1.St")) Singular)] [] ];
     fl_enums := [ {| e_name := s "x.v1.St"; e_values := [ {| ev_name := s "ST_UNSPECIFIED"; ev_number := 0; ev_custom := None |};
                                                            {| ev_name := s "ST_ON"; ev_number := 1; ev_custom := None |} ] |} ];
     fl_services := [ {| sv_name := s "Svc"; sv_base := s "/api"; sv_headers := []; sv_methods := [tsx_md "EnNul"] |} ] |}.
Example response_inhabits_needs_top_field_ok :
  let m := [(s "st", FS (VEnum 1))] in
  (exists md, lookup_message [tsy_fl] (q "EnNul") = Some md /\ owner_of [tsy_fl] md = Own FtNullable /\
              forallb top_field_ok (m_fields md) = false) /\
  defects_C07 [tsy_fl] tsy_fl resp (q "EnNul") [] m = [C07EnumNumberNotApplied] /\
  encode Ex [tsy_fl] (q "EnNul") m = ROk (JObj [(s "st", JStr (s "ST_ON")); (s "nick", JNull)]) /\
  match ts_decls [tsy_fl] tsy_fl with
  | Ok ds => inhabits inhabit_fuel (env_of ds) (YRef (s "EnNul")) (JObj [(s "st", JStr (s "ST_ON")); (s "nick", JNull)])
  | Unmodelled _ => true
  end = false.
Proof. split; [eexists; split; [vm_compute; reflexivity|split; vm_compute; reflexivity]|]. vm_compute. repeat split; reflexivity. Qed.
Close Scope Z_scope.
