(* UrlFacts.v — net/url escaping round trips, split/join, Values.Encode / ParseQuery. *)
From Sebuf Require Import Text Url.
From SebufProofs Require Import TextFacts.

Local Open Scope N_scope.

Ltac sweep c := destruct c as [[] [] [] [] [] [] [] []]; vm_compute; reflexivity.

(* ---- generic list helpers ------------------------------------------------------------------ *)

Lemma in_chars_In c l : in_chars c l = true <-> In c l.
Proof.
  unfold in_chars. rewrite existsb_exists. split.
  - intros [d [Hin E]]. apply Ascii.eqb_eq in E. now subst.
  - intros Hin. exists c. split; [exact Hin|apply Ascii.eqb_refl].
Qed.

Lemma in_chars_false c l : in_chars c l = false <-> ~ In c l.
Proof.
  split.
  - intros H Hin. apply in_chars_In in Hin. congruence.
  - intros H. destruct (in_chars c l) eqn:E; [|reflexivity]. apply in_chars_In in E. contradiction.
Qed.

Lemma ascii_eqb_neq a b : Ascii.eqb a b = false <-> a <> b.
Proof.
  split.
  - intros H E. apply Ascii.eqb_eq in E. congruence.
  - intros H. destruct (Ascii.eqb a b) eqn:E; [|reflexivity]. apply Ascii.eqb_eq in E. contradiction.
Qed.

(* ---- per-byte facts (256-way sweeps) -------------------------------------------------------- *)

Definition pe1 (c : ascii) : str := if path_seg_safe c then [c] else pct c.
Definition qe1 (c : ascii) : str :=
  if Ascii.eqb c " "%char then ["+"%char] else if query_safe c then [c] else pct c.

Lemma path_escape_cons c x : path_escape (c :: x) = pe1 c ++ path_escape x.
Proof. reflexivity. Qed.
Lemma query_escape_cons c x : query_escape (c :: x) = qe1 c ++ query_escape x.
Proof. reflexivity. Qed.

Lemma hex_hi c : unhex (upper_hex (code c / 16)) = Some (code c / 16).
Proof. sweep c. Qed.
Lemma hex_lo c : unhex (upper_hex (code c mod 16)) = Some (code c mod 16).
Proof. sweep c. Qed.
Lemma ch_code c : ch (code c / 16 * 16 + code c mod 16) = c.
Proof. sweep c. Qed.

Lemma path_safe_not_pct c : implb (path_seg_safe c) (negb (Ascii.eqb c "%"%char)) = true.
Proof. sweep c. Qed.
Lemma query_safe_not_pct_plus c :
  implb (query_safe c) (negb (Ascii.eqb c "%"%char) && negb (Ascii.eqb c "+"%char)) = true.
Proof. sweep c. Qed.

Lemma pe1_no_slash c : in_chars slash (pe1 c) = false.
Proof. sweep c. Qed.
Lemma qe1_clean c :
  in_chars amp (qe1 c) || in_chars eqc (qe1 c) || in_chars ";"%char (qe1 c) = false.
Proof. sweep c. Qed.

Lemma pe1_nonempty c : pe1 c <> [].
Proof. unfold pe1, pct. destruct (path_seg_safe c); discriminate. Qed.

(* ---- unescape after escape ------------------------------------------------------------------ *)

Lemma unescape_pct b c t :
  unescape b (pct c ++ t) = match unescape b t with Some u => Some (c :: u) | None => None end.
Proof.
  unfold pct. cbn [app unescape]. rewrite Ascii.eqb_refl, hex_hi, hex_lo.
  destruct (unescape b t); [|reflexivity]. now rewrite ch_code.
Qed.

Lemma unescape_plain b c t : Ascii.eqb c "%"%char = false ->
  unescape b (c :: t) =
  match unescape b t with
  | Some u => Some ((if b && Ascii.eqb c "+"%char then " "%char else c) :: u)
  | None => None
  end.
Proof. intros H. cbn [unescape]. now rewrite H. Qed.

Lemma unescape_pe1 c t u : unescape false t = Some u -> unescape false (pe1 c ++ t) = Some (c :: u).
Proof.
  intros H. unfold pe1. pose proof (path_safe_not_pct c) as S.
  destruct (path_seg_safe c).
  - cbn [implb] in S. apply negb_true_iff in S.
    cbn [app]. rewrite (unescape_plain false c t S), H. reflexivity.
  - now rewrite unescape_pct, H.
Qed.

Lemma unescape_qe1 c t u : unescape true t = Some u -> unescape true (qe1 c ++ t) = Some (c :: u).
Proof.
  intros H. unfold qe1. destruct (Ascii.eqb c " "%char) eqn:Esp.
  - apply Ascii.eqb_eq in Esp. subst c. cbn [app].
    rewrite unescape_plain by reflexivity. rewrite H. reflexivity.
  - pose proof (query_safe_not_pct_plus c) as S.
    destruct (query_safe c).
    + cbn [implb] in S. apply andb_true_iff in S as [S1 S2].
      apply negb_true_iff in S1. apply negb_true_iff in S2.
      cbn [app]. rewrite (unescape_plain true c t S1), H, S2. reflexivity.
    + now rewrite unescape_pct, H.
Qed.

(* B1 *)
Lemma path_unescape_escape : forall x, path_unescape (path_escape x) = Some x.
Proof.
  unfold path_unescape. induction x as [|c x IH]; [reflexivity|].
  rewrite path_escape_cons. now apply unescape_pe1.
Qed.

(* B2 *)
Lemma query_unescape_escape : forall x, query_unescape (query_escape x) = Some x.
Proof.
  unfold query_unescape. induction x as [|c x IH]; [reflexivity|].
  rewrite query_escape_cons. now apply unescape_qe1.
Qed.

Lemma path_escape_inj x y : path_escape x = path_escape y -> x = y.
Proof.
  intros E. pose proof (path_unescape_escape x) as Hx. rewrite E, path_unescape_escape in Hx.
  now inversion Hx.
Qed.

(* B3 *)
Lemma path_escape_no_slash : forall x, In slash (path_escape x) -> False.
Proof.
  intros x H. unfold path_escape in H. apply in_flat_map in H as [c [_ H]].
  change (In slash (pe1 c)) in H. apply in_chars_In in H. rewrite pe1_no_slash in H. discriminate.
Qed.

Lemma path_escape_nil_iff : forall x, path_escape x = [] <-> x = [].
Proof.
  intros x. split; [|intros ->; reflexivity].
  destruct x as [|c x]; [reflexivity|]. rewrite path_escape_cons. intros H.
  apply app_eq_nil in H as [H _]. now apply pe1_nonempty in H.
Qed.

(* ---- split / join --------------------------------------------------------------------------- *)

Lemma split_on_aux_app c x : forall acc rest, ~ In c x ->
  split_on_aux c acc (x ++ rest) = split_on_aux c (rev x ++ acc) rest.
Proof.
  induction x as [|d x IH]; intros acc rest Hni; [reflexivity|].
  cbn [app split_on_aux].
  assert (E : Ascii.eqb d c = false).
  { apply ascii_eqb_neq. intros ->. apply Hni. now left. }
  rewrite E, IH by (intros Hin; apply Hni; now right).
  cbn [rev]. now rewrite <- app_assoc.
Qed.

Lemma split_on_aux_sep c acc rest :
  split_on_aux c acc (c :: rest) = rev acc :: split_on_aux c [] rest.
Proof. cbn [split_on_aux]. now rewrite Ascii.eqb_refl. Qed.

Lemma split_on_aux_join c : forall l acc x,
  (forall y, In y (x :: l) -> ~ In c y) ->
  split_on_aux c acc (join_with [c] (x :: l)) = (rev acc ++ x) :: l.
Proof.
  induction l as [|y l IH]; intros acc x Hni.
  - cbn [join_with]. rewrite <- (app_nil_r x) at 1.
    rewrite split_on_aux_app by (apply Hni; now left).
    cbn [split_on_aux]. now rewrite rev_app_distr, rev_involutive.
  - change (join_with [c] (x :: y :: l)) with (x ++ [c] ++ join_with [c] (y :: l)).
    rewrite split_on_aux_app by (apply Hni; now left).
    cbn [app]. rewrite split_on_aux_sep, rev_app_distr, rev_involutive.
    rewrite IH by (intros z Hz; apply Hni; now right). reflexivity.
Qed.

(* B4 *)
Lemma split_on_join : forall c l, l <> [] -> (forall x, In x l -> ~ In c x) ->
  split_on c (join_with [c] l) = l.
Proof.
  intros c [|x l] Hne Hni; [congruence|]. unfold split_on. now rewrite split_on_aux_join.
Qed.

Lemma split_on_nonempty c x : split_on c x <> [].
Proof.
  unfold split_on. generalize (@nil ascii) as acc.
  induction x as [|d x IH]; intros acc; cbn [split_on_aux]; [discriminate|].
  destruct (Ascii.eqb d c); [discriminate|apply IH].
Qed.

Lemma split_on_no_sep c x : forall y, In y (split_on c x) -> ~ In c y.
Proof.
  unfold split_on.
  assert (G : forall acc, ~ In c acc -> forall y, In y (split_on_aux c acc x) -> ~ In c y).
  { induction x as [|d x IH]; intros acc Hacc y Hy; cbn [split_on_aux] in Hy.
    - destruct Hy as [<-|[]]. now rewrite <- in_rev.
    - destruct (Ascii.eqb d c) eqn:E.
      + destruct Hy as [<-|Hy]; [now rewrite <- in_rev|].
        apply (IH [] (fun f => f) y Hy).
      + apply (IH (d :: acc)); [|exact Hy].
        intros [->|Hin]; [now rewrite Ascii.eqb_refl in E|contradiction]. }
  apply G. intros [].
Qed.

(* ---- query strings -------------------------------------------------------------------------- *)

(* B5 *)
Lemma query_escape_clean : forall x c, In c (query_escape x) ->
  c <> amp /\ c <> eqc /\ c <> ";"%char.
Proof.
  intros x c H. unfold query_escape in H. apply in_flat_map in H as [d [_ H]].
  change (In c (qe1 d)) in H. pose proof (qe1_clean d) as Q.
  apply orb_false_iff in Q as [Q Q3]. apply orb_false_iff in Q as [Q1 Q2].
  rewrite in_chars_false in Q1, Q2, Q3.
  repeat split; intros ->; contradiction.
Qed.

Lemma cut_at_app sep x y : ~ In sep x -> cut_at sep (x ++ sep :: y) = (x, Some y).
Proof.
  induction x as [|d x IH]; intros Hni; cbn [app cut_at].
  - now rewrite Ascii.eqb_refl.
  - assert (E : Ascii.eqb d sep = false).
    { apply ascii_eqb_neq. intros ->. apply Hni. now left. }
    rewrite E, IH by (intros Hin; apply Hni; now right). reflexivity.
Qed.

Definition enc_pair (p : str * str) : str := query_escape (fst p) ++ [eqc] ++ query_escape (snd p).

Lemma enc_pair_no_amp p : ~ In amp (enc_pair p).
Proof.
  unfold enc_pair. intros H. apply in_app_or in H as [H|H].
  - apply query_escape_clean in H as [H _]. congruence.
  - cbn [app] in H. destruct H as [H|H]; [discriminate|].
    apply query_escape_clean in H as [H _]. congruence.
Qed.

Lemma enc_pair_no_semi p : in_chars ";"%char (enc_pair p) = false.
Proof.
  apply in_chars_false. unfold enc_pair. intros H. apply in_app_or in H as [H|H].
  - apply query_escape_clean in H as [_ [_ H]]. congruence.
  - cbn [app] in H. destruct H as [H|H]; [discriminate|].
    apply query_escape_clean in H as [_ [_ H]]. congruence.
Qed.

Lemma parse_pair_enc p : parse_pair (enc_pair p) = Some p.
Proof.
  unfold parse_pair. rewrite enc_pair_no_semi. unfold enc_pair. cbn [app].
  rewrite cut_at_app.
  - rewrite !query_unescape_escape. now destruct p.
  - intros H. apply query_escape_clean in H as [_ [H _]]. congruence.
Qed.

Lemma enc_pair_nonempty p : enc_pair p <> [].
Proof. unfold enc_pair. intros H. apply app_eq_nil in H as [_ H]. discriminate. Qed.

Lemma parse_query_join l : parse_query (join_with [amp] (map enc_pair l)) = l.
Proof.
  unfold parse_query. destruct l as [|p l]; [reflexivity|].
  rewrite split_on_join.
  - generalize (p :: l) as l0. induction l0 as [|q l0 IH]; [reflexivity|].
    cbn [map flat_map]. rewrite IH, parse_pair_enc.
    destruct (enc_pair q) eqn:E; [now apply enc_pair_nonempty in E|reflexivity].
  - discriminate.
  - intros x Hin. apply in_map_iff in Hin as [q [<- _]]. apply enc_pair_no_amp.
Qed.

(* No side condition is needed: a pair always contains '=', so it is never the empty string. *)
Lemma parse_query_encode_all : forall kv, parse_query (encode_query kv) = sort_kv kv.
Proof. intros kv. unfold encode_query. apply (parse_query_join (sort_kv kv)). Qed.

Lemma parse_query_encode : forall kv, (forall p, In p kv -> fst p <> []) ->
  parse_query (encode_query kv) = sort_kv kv.
Proof. intros kv _. apply parse_query_encode_all. Qed.

(* ---- sort_kv and lookups -------------------------------------------------------------------- *)

Lemma in_insert_kv x y l : In y (insert_kv x l) -> y = x \/ In y l.
Proof.
  induction l as [|h t IH]; cbn [insert_kv]; intros H.
  - destruct H as [<-|[]]. now left.
  - destruct (str_leb (fst x) (fst h)).
    + destruct H as [<-|H]; [now left|now right].
    + destruct H as [<-|H]; [right; now left|].
      apply IH in H as [->|H]; [now left|right; now right].
Qed.

Lemma in_sort_kv y l : In y (sort_kv l) -> In y l.
Proof.
  induction l as [|x l IH]; cbn [sort_kv fold_right]; intros H; [contradiction|].
  apply in_insert_kv in H as [->|H]; [now left|right; now apply IH].
Qed.

Lemma filter_insert_other (P : str * str -> bool) x l : P x = false ->
  filter P (insert_kv x l) = filter P l.
Proof.
  intros Hx. induction l as [|h t IH]; cbn [insert_kv filter]; [now rewrite Hx|].
  destruct (str_leb (fst x) (fst h)); cbn [filter]; [now rewrite Hx|]. now rewrite IH.
Qed.

Lemma filter_insert_none (P : str * str -> bool) x l : filter P l = [] ->
  filter P (insert_kv x l) = filter P [x].
Proof.
  induction l as [|h t IH]; cbn [insert_kv filter]; intros H; [reflexivity|].
  destruct (P h) eqn:Eh; [discriminate|].
  destruct (str_leb (fst x) (fst h)); cbn [filter]; rewrite Eh.
  - rewrite H. reflexivity.
  - now apply IH.
Qed.

Lemma filter_none {A} (P : A -> bool) l : (forall y, In y l -> P y = false) -> filter P l = [].
Proof.
  induction l as [|h t IH]; intros H; cbn [filter]; [reflexivity|].
  rewrite (H h) by now left. apply IH. intros y Hy. apply H. now right.
Qed.

(* with pairwise distinct keys, a lookup in the sorted list sees what the unsorted list holds *)
Lemma query_values_sort_kv l k : NoDup (map fst l) ->
  query_values (sort_kv l) k = query_values l k.
Proof.
  unfold query_values. intros Hnd. f_equal.
  induction l as [|x l IH]; [reflexivity|].
  cbn [map] in Hnd. inversion Hnd as [|? ? Hni Hnd']; subst.
  cbn [sort_kv fold_right filter]. fold (sort_kv l).
  destruct (str_eqb (fst x) k) eqn:E.
  - apply str_eqb_eq in E.
    assert (Hnone : forall y, In y l -> str_eqb (fst y) k = false).
    { intros y Hy. apply str_eqb_neq. intros Ey. apply Hni. rewrite E, <- Ey. now apply in_map. }
    rewrite filter_insert_none.
    + cbn [filter]. apply str_eqb_eq in E. rewrite E.
      rewrite (filter_none _ l Hnone). reflexivity.
    + apply filter_none. intros y Hy. apply Hnone. now apply in_sort_kv.
  - rewrite filter_insert_other by exact E. now apply IH.
Qed.
