(* EmptyFacts.v — the empty_behavior codec (internal/httpgen/empty_behavior.go) in general:
   MarshalJSON   = protojson output with the entry of an EMPTY child rewritten per field
                   (NULL: value replaced by null, OMIT: entry deleted, PRESERVE: untouched),
   UnmarshalJSON = every null under a NULL field turned back into {} and the rest read by protojson;
   hence the round trip (C04) up to [norm] (= the presence of an empty OMIT child is lost) for every
   message whose codec is the empty_behavior one, for all schemas and all well-typed values.
   One side condition is needed and shown necessary (EmptyConforms.v, empty_roundtrip_needs_epoch_null_free):
   no NULL field of type Timestamp holds the epoch (proto.Size = 0, so it is written as null, read back
   as {} and rejected by protojson, whose Timestamp form is a string).
   Also: [norm] is idempotent (all message types) and is the identity without lossy annotations. *)
From Coq Require Import Lia ZArith.
From Sebuf Require Import CodecCases.
From SebufProofs Require Import TextFacts CodecTextFacts ProtoJsonFacts NullableFacts.

Open Scope Z_scope.

(* ---- generic list / string facts ---------------------------------------------------------------------------- *)
Lemma str_eqb_sym a b : str_eqb a b = str_eqb b a.
Proof.
  destruct (str_eqb a b) eqn:E1; destruct (str_eqb b a) eqn:E2; try reflexivity.
  - apply str_eqb_eq in E1. subst. rewrite str_eqb_refl in E2. discriminate.
  - apply str_eqb_eq in E2. subst. rewrite str_eqb_refl in E1. discriminate.
Qed.

Lemma flat_map_single {A} (l : list A) : flat_map (fun e => [e]) l = l.
Proof. induction l as [|a r IH]; simpl; [reflexivity|]. rewrite IH. reflexivity. Qed.

Lemma flat_map_flat_map {A B C} (f : A -> list B) (g : B -> list C) l :
  flat_map g (flat_map f l) = flat_map (fun x => flat_map g (f x)) l.
Proof. induction l as [|a r IH]; simpl; [reflexivity|]. rewrite flat_map_app, IH. reflexivity. Qed.

Lemma filter_idem {A} (p : A -> bool) l : filter p (filter p l) = filter p l.
Proof.
  induction l as [|a r IH]; simpl; [reflexivity|].
  destruct (p a) eqn:Ep; simpl; [rewrite Ep, IH; reflexivity|exact IH].
Qed.

Lemma existsb_str_in x l : existsb (str_eqb x) l = true <-> In x l.
Proof.
  rewrite existsb_exists. split.
  - intros [y [Hy He]]. apply str_eqb_eq in He. subst. exact Hy.
  - intros H. exists x. split; [exact H|apply str_eqb_refl].
Qed.
Lemma existsb_str_notin x l : existsb (str_eqb x) l = false <-> ~ In x l.
Proof.
  rewrite <- existsb_str_in. destruct (existsb (str_eqb x) l); split; intros H.
  - discriminate H.
  - exfalso. apply H. reflexivity.
  - intros H'. discriminate H'.
  - reflexivity.
Qed.

Lemma nodup_str_inv x l : nodup_str (x :: l) = true -> ~ In x l /\ nodup_str l = true.
Proof.
  simpl. intros H. apply andb_prop in H. destruct H as [H1 H2]. apply Bool.negb_true_iff in H1.
  split; [apply existsb_str_notin; exact H1|exact H2].
Qed.

Lemma mget_nodup (m : mval) name x : nodup_str (map fst m) = true -> In (name, x) m -> mget m name = Some x.
Proof.
  induction m as [|[k v] r IH]; [intros _ []|].
  intros Hn Hin. apply nodup_str_inv in Hn. destruct Hn as [Hk Hr]. simpl in Hk.
  cbn [mget]. destruct Hin as [Hin|Hin].
  - inversion Hin; subst. rewrite str_eqb_refl. reflexivity.
  - destruct (str_eqb name k) eqn:Enk.
    + exfalso. apply str_eqb_eq in Enk. subst k. apply Hk. apply (in_map fst) in Hin. exact Hin.
    + apply IH; assumption.
Qed.

Lemma lt_all_notin (g : str -> Z) x l : lt_all_Z (g x) (map g l) = true -> existsb (str_eqb x) l = false.
Proof.
  induction l as [|y r IH]; simpl; [reflexivity|]. intros H. apply andb_prop in H. destruct H as [H1 H2].
  rewrite (IH H2). destruct (str_eqb x y) eqn:Exy; [|reflexivity].
  apply str_eqb_eq in Exy. subst. apply Z.ltb_lt in H1. lia.
Qed.
Lemma sorted_nodup_names (g : str -> Z) l : sorted_Z (map g l) = true -> nodup_str l = true.
Proof.
  induction l as [|x r IH]; simpl; [reflexivity|]. intros H. apply andb_prop in H. destruct H as [H1 H2].
  rewrite (lt_all_notin g x r H1), (IH H2). reflexivity.
Qed.

Lemma lt_all_filter {A} (g : A -> Z) (p : A -> bool) x l :
  lt_all_Z x (map g l) = true -> lt_all_Z x (map g (filter p l)) = true.
Proof.
  induction l as [|a r IH]; simpl; [reflexivity|]. intros H. apply andb_prop in H. destruct H as [H1 H2].
  destruct (p a); simpl; [rewrite H1, (IH H2); reflexivity|exact (IH H2)].
Qed.
Lemma sorted_filter {A} (g : A -> Z) (p : A -> bool) l :
  sorted_Z (map g l) = true -> sorted_Z (map g (filter p l)) = true.
Proof.
  induction l as [|a r IH]; simpl; [reflexivity|]. intros H. apply andb_prop in H. destruct H as [H1 H2].
  destruct (p a); simpl; [rewrite (lt_all_filter g p _ r H1), (IH H2); reflexivity|exact (IH H2)].
Qed.

(* ---- field lookup by JSON name ------------------------------------------------------------------------------- *)
Lemma fbj_notin fs k : ~ In k (map jn fs) -> field_by_json fs k = None.
Proof.
  induction fs as [|f r IH]; simpl; [reflexivity|]. intros H.
  destruct (str_eqb (json_name (f_name f)) k) eqn:Efk.
  - exfalso. apply H. left. apply str_eqb_eq in Efk. exact Efk.
  - apply IH. intros Hin. apply H. right. exact Hin.
Qed.

Lemma fbj_find fs name f :
  nodup_str (map jn fs) = true -> find_field fs name = Some f -> field_by_json fs (json_name name) = Some f.
Proof.
  intros Hnd Hf. destruct (find_field_spec _ _ _ Hf) as [Hin Hn]. subst name.
  assert (Hex : forall l, In f l -> exists g, field_by_json l (json_name (f_name f)) = Some g /\ In g l /\ jn g = jn f).
  { induction l as [|h r IH]; simpl; [intros []|]. intros Hl.
    destruct (str_eqb (json_name (f_name h)) (json_name (f_name f))) eqn:Eh.
    - exists h. split; [reflexivity|]. split; [left; reflexivity|]. apply str_eqb_eq in Eh. exact Eh.
    - destruct Hl as [Hl|Hl]; [subst h; rewrite str_eqb_refl in Eh; discriminate|].
      destruct (IH Hl) as [g [H1 [H2 H3]]]. exists g. auto. }
  destruct (Hex _ Hin) as [g [H1 [H2 H3]]]. rewrite H1. f_equal. eapply nodup_jn_inj; eauto.
Qed.

(* ---- raw-map facts --------------------------------------------------------------------------------------------- *)
Lemma raw_get_nodup (raw : rawmap) e :
  nodup_str (map fst raw) = true -> In e raw -> raw_get (fst e) raw = Some (snd e).
Proof.
  unfold raw_get. induction raw as [|[k v] r IH]; [intros _ []|].
  intros Hn Hin. apply nodup_str_inv in Hn. destruct Hn as [Hk Hr]. simpl in Hk.
  cbn [assoc_json]. destruct Hin as [Hin|Hin].
  - subst e. simpl. rewrite str_eqb_refl. reflexivity.
  - destruct (str_eqb (fst e) k) eqn:Eek.
    + exfalso. apply str_eqb_eq in Eek. subst k. apply Hk. apply (in_map fst) in Hin. exact Hin.
    + apply IH; assumption.
Qed.

(* ================================================================================================================ *)
(* what MarshalJSON does to the entry of one field *)
Inductive eact := AKeep | ANull | ADrop.

Definition hit (f : field) (x : fval) : eact :=
  match empty_of f, x with
  | Some EBNull, FM [] => ANull
  | Some EBOmit, FM [] => ADrop
  | _, _ => AKeep
  end.
Definition is_nullf (f : field) : bool := match empty_of f with Some EBNull => true | _ => false end.

Lemma hit_null f x : hit f x = ANull -> empty_of f = Some EBNull /\ x = FM [].
Proof. unfold hit. destruct (empty_of f) as [[| | |]|]; destruct x as [sx|[|e0 r0]|l|kv]; intros H; try discriminate H; auto. Qed.
Lemma hit_drop f x : hit f x = ADrop -> empty_of f = Some EBOmit /\ x = FM [].
Proof. unfold hit. destruct (empty_of f) as [[| | |]|]; destruct x as [sx|[|e0 r0]|l|kv]; intros H; try discriminate H; auto. Qed.

Section Empty.
Variable md : message.
Variable m : mval.

Definition act (f : field) : eact :=
  match mget m (f_name f) with Some x => hit f x | None => AKeep end.

Definition enc_step (raw : rawmap) (f : field) : rawmap :=
  match empty_of f, mget m (f_name f) with
  | Some EBNull, Some (FM []) => raw_set (jn f) JNull raw
  | Some EBOmit, Some (FM []) => raw_del (jn f) raw
  | _, _ => raw
  end.
Definition dec_step (raw : rawmap) (f : field) : rawmap :=
  match empty_of f, raw_get (jn f) raw with
  | Some EBNull, Some JNull => raw_set (jn f) (JObj []) raw
  | _, _ => raw
  end.

Lemma enc_empty_fold raw : enc_empty md m raw = fold_left enc_step (m_fields md) raw.
Proof. reflexivity. Qed.
Lemma dec_empty_fold raw : dec_empty md raw = fold_left dec_step (m_fields md) raw.
Proof. reflexivity. Qed.

Lemma enc_step_act raw f :
  enc_step raw f = match act f with ANull => raw_set (jn f) JNull raw | ADrop => raw_del (jn f) raw | AKeep => raw end.
Proof.
  unfold enc_step, act, hit.
  destruct (empty_of f) as [[| | |]|]; destruct (mget m (f_name f)) as [[sx|[|e0 r0]|l|kv]|]; reflexivity.
Qed.

(* closed form of the encoder's post-pass: entry by entry, keyed by the JSON name *)
Definition act_of (fs : list field) (k : str) : eact :=
  match field_by_json fs k with Some f => act f | None => AKeep end.
Definition tr_act (a : eact) (e : str * json) : list (str * json) :=
  match a with AKeep => [e] | ANull => [(fst e, JNull)] | ADrop => [] end.
Definition enc_tr (fs : list field) (e : str * json) : list (str * json) := tr_act (act_of fs (fst e)) e.

Lemma act_of_one f k : act_of [f] k = if str_eqb (jn f) k then act f else AKeep.
Proof. unfold act_of, jn. simpl. destruct (str_eqb (json_name (f_name f)) k); reflexivity. Qed.

Lemma enc_step_tr raw f :
  (act f = ANull -> raw_has (jn f) raw = true) ->
  enc_step raw f = flat_map (enc_tr [f]) raw.
Proof.
  intros Hhas. rewrite enc_step_act. unfold enc_tr.
  destruct (act f) eqn:Ea.
  - (* keep *)
    rewrite (flat_map_ext _ (fun e => [e])); [rewrite flat_map_single; reflexivity|].
    intros e. rewrite act_of_one, Ea. destruct (str_eqb (jn f) (fst e)); reflexivity.
  - (* null *)
    unfold raw_set. rewrite (Hhas eq_refl). clear Hhas.
    induction raw as [|e r IH]; [reflexivity|]. cbn [map flat_map]. rewrite <- IH.
    rewrite act_of_one, Ea, (str_eqb_sym (jn f) (fst e)).
    destruct (str_eqb (fst e) (jn f)) eqn:Ek; [|reflexivity].
    apply str_eqb_eq in Ek. unfold tr_act. rewrite Ek. reflexivity.
  - (* drop *)
    unfold raw_del. clear Hhas.
    induction raw as [|e r IH]; [reflexivity|]. cbn [filter flat_map]. rewrite <- IH.
    rewrite act_of_one, Ea, (str_eqb_sym (jn f) (fst e)).
    destruct (str_eqb (fst e) (jn f)); reflexivity.
Qed.

Lemma raw_has_tr_other f k raw : k <> jn f -> raw_has k (flat_map (enc_tr [f]) raw) = raw_has k raw.
Proof.
  intros Hk. induction raw as [|e r IH]; [reflexivity|]. cbn [flat_map]. rewrite raw_has_app, IH.
  change (raw_has k (e :: r)) with (str_eqb (fst e) k || raw_has k r).
  f_equal. unfold enc_tr. rewrite act_of_one.
  destruct (str_eqb (jn f) (fst e)) eqn:Efe.
  2:{ unfold raw_has, tr_act. cbn [existsb]. apply Bool.orb_false_r. }
  apply str_eqb_eq in Efe.
  assert (Hne : str_eqb (fst e) k = false).
  { apply str_eqb_neq. intros Heq. apply Hk. rewrite <- Heq. symmetry. exact Efe. }
  rewrite Hne. destruct (act f); unfold raw_has, tr_act; cbn [existsb fst]; rewrite ?Hne; reflexivity.
Qed.

Lemma enc_tr_cons f r e :
  ~ In (jn f) (map jn r) ->
  flat_map (enc_tr r) (enc_tr [f] e) = enc_tr (f :: r) e.
Proof.
  intros Hnot. destruct e as [k v]. unfold enc_tr at 2 3. rewrite act_of_one.
  unfold act_of. cbn [field_by_json fst]. change (json_name (f_name f)) with (jn f).
  destruct (str_eqb (jn f) k) eqn:Efe.
  - apply str_eqb_eq in Efe. subst k.
    assert (Hk : forall w, enc_tr r (jn f, w) = [(jn f, w)]).
    { intros w. unfold enc_tr, act_of. cbn [fst]. rewrite (fbj_notin r (jn f) Hnot). reflexivity. }
    destruct (act f); cbn [tr_act flat_map fst]; rewrite ?Hk; reflexivity.
  - cbn [tr_act flat_map]. rewrite app_nil_r. reflexivity.
Qed.

Lemma enc_closed fs : forall raw,
  nodup_str (map jn fs) = true ->
  (forall f, In f fs -> act f = ANull -> raw_has (jn f) raw = true) ->
  fold_left enc_step fs raw = flat_map (enc_tr fs) raw.
Proof.
  induction fs as [|f r IH]; intros raw Hnd Hhas.
  - simpl. rewrite (flat_map_ext _ (fun e => [e])); [rewrite flat_map_single; reflexivity|]. intros e. reflexivity.
  - cbn [fold_left map] in *. apply nodup_str_inv in Hnd. destruct Hnd as [Hnot Hnd].
    rewrite (enc_step_tr raw f (Hhas f (or_introl eq_refl))).
    rewrite IH; [|exact Hnd|].
    + rewrite flat_map_flat_map. apply flat_map_ext. intros e. apply enc_tr_cons. exact Hnot.
    + intros f' Hin Ha. rewrite raw_has_tr_other; [apply Hhas; [right; exact Hin|exact Ha]|].
      intros Heq. apply Hnot. rewrite <- Heq. apply in_map. exact Hin.
Qed.

(* closed form of the decoder's pre-pass *)
Definition dec_tr (fs : list field) (e : str * json) : str * json :=
  match field_by_json fs (fst e), snd e with
  | Some f, JNull => if is_nullf f then (fst e, JObj []) else e
  | _, _ => e
  end.

Lemma dec_tr_fst fs e : fst (dec_tr fs e) = fst e.
Proof.
  unfold dec_tr. destruct (field_by_json fs (fst e)) as [f|]; [|reflexivity].
  destruct (snd e); try reflexivity. destruct (is_nullf f); reflexivity.
Qed.
Lemma dec_tr_keys fs raw : map fst (map (dec_tr fs) raw) = map fst raw.
Proof. rewrite map_map. apply map_ext. intros e. apply dec_tr_fst. Qed.
Lemma dec_tr_nonnull fs e : snd e <> JNull -> dec_tr fs e = e.
Proof.
  intros H. unfold dec_tr. destruct (field_by_json fs (fst e)); [|reflexivity].
  destruct (snd e); try reflexivity. exfalso. apply H. reflexivity.
Qed.

Lemma dec_step_tr raw f :
  nodup_str (map fst raw) = true -> dec_step raw f = map (dec_tr [f]) raw.
Proof.
  intros Hnd.
  assert (Hget : forall e, In e raw -> str_eqb (json_name (f_name f)) (fst e) = true -> raw_get (jn f) raw = Some (snd e)).
  { intros e Hin He. apply str_eqb_eq in He. unfold jn. rewrite He. apply raw_get_nodup; assumption. }
  assert (Hid : forall p, (forall e, In e raw -> p e = e) -> raw = map p raw).
  { intros p Hp. rewrite <- (map_id raw) at 1. apply map_ext_in. intros e Hin. symmetry. apply Hp. exact Hin. }
  unfold dec_step.
  destruct (is_nullf f) eqn:En.
  - assert (Hemp : empty_of f = Some EBNull).
    { unfold is_nullf in En. destruct (empty_of f) as [[| | |]|]; try discriminate En; reflexivity. }
    rewrite Hemp.
    destruct (raw_get (jn f) raw) as [v|] eqn:Eg.
    + assert (Hcase : v = JNull \/ v <> JNull) by (destruct v; auto; right; discriminate).
      destruct Hcase as [Hv|Hv].
      * subst v. unfold raw_set.
        assert (Hh : raw_has (jn f) raw = true).
        { apply raw_has_keys. apply raw_get_in in Eg. apply (in_map fst) in Eg. exact Eg. }
        rewrite Hh. apply map_ext_in. intros e Hin. unfold dec_tr. cbn [field_by_json].
        rewrite (str_eqb_sym (fst e) (jn f)). change (jn f) with (json_name (f_name f)).
        destruct (str_eqb (json_name (f_name f)) (fst e)) eqn:Efe; [|reflexivity].
        pose proof (Hget e Hin Efe) as Hg. injection Hg as Hs. rewrite <- Hs, En.
        apply str_eqb_eq in Efe. rewrite Efe. reflexivity.
      * assert (Hres : raw = map (dec_tr [f]) raw).
        { apply Hid. intros e Hin. unfold dec_tr. cbn [field_by_json].
          destruct (str_eqb (json_name (f_name f)) (fst e)) eqn:Efe; [|reflexivity].
          pose proof (Hget e Hin Efe) as Hg. injection Hg as Hs.
          destruct (snd e); try reflexivity. exfalso. apply Hv. exact Hs. }
        destruct v; try exact Hres. exfalso. apply Hv. reflexivity.
    + apply Hid. intros e Hin. unfold dec_tr. cbn [field_by_json].
      destruct (str_eqb (json_name (f_name f)) (fst e)) eqn:Efe; [|reflexivity].
      pose proof (Hget e Hin Efe) as Hg. discriminate Hg.
  - assert (Hres : raw = map (dec_tr [f]) raw).
    { apply Hid. intros e _. unfold dec_tr. cbn [field_by_json].
      destruct (str_eqb (json_name (f_name f)) (fst e)); [|reflexivity].
      rewrite En. destruct (snd e); reflexivity. }
    unfold is_nullf in En.
    destruct (empty_of f) as [[| | |]|]; try exact Hres; try discriminate En.
Qed.

Lemma dec_tr_cons f r e :
  ~ In (jn f) (map jn r) -> dec_tr r (dec_tr [f] e) = dec_tr (f :: r) e.
Proof.
  intros Hnot. unfold dec_tr at 2 3. cbn [field_by_json].
  destruct (str_eqb (json_name (f_name f)) (fst e)) eqn:Efe.
  - apply str_eqb_eq in Efe.
    assert (Hk : forall v, dec_tr r (fst e, v) = (fst e, v)).
    { intros v. unfold dec_tr. cbn [fst]. rewrite <- Efe. change (json_name (f_name f)) with (jn f).
      rewrite (fbj_notin r (jn f) Hnot). reflexivity. }
    destruct e as [k v]. cbn [fst snd] in *.
    destruct v; try apply Hk. destruct (is_nullf f); apply Hk.
  - reflexivity.
Qed.

Lemma dec_closed fs : forall raw,
  nodup_str (map jn fs) = true -> nodup_str (map fst raw) = true ->
  fold_left dec_step fs raw = map (dec_tr fs) raw.
Proof.
  induction fs as [|f r IH]; intros raw Hnd Hk.
  - simpl. rewrite <- (map_id raw) at 1. apply map_ext. intros e. unfold dec_tr. simpl. reflexivity.
  - cbn [fold_left map] in *. apply nodup_str_inv in Hnd. destruct Hnd as [Hnot Hnd].
    rewrite (dec_step_tr raw f Hk). rewrite IH; [|exact Hnd|rewrite dec_tr_keys; exact Hk].
    rewrite map_map. apply map_ext. intros e. apply dec_tr_cons. exact Hnot.
Qed.

(* the keys after the encoder's pass are a sub-sequence of the keys before *)
Lemma enc_tr_keys_in fs k raw : In k (map fst (flat_map (enc_tr fs) raw)) -> In k (map fst raw).
Proof.
  induction raw as [|e r IH]; [intros []|]. cbn [flat_map]. rewrite map_app, in_app_iff.
  intros [H|H].
  - left. unfold enc_tr in H. destruct (act_of fs (fst e)); simpl in H;
      [destruct H as [H|[]]; exact H | destruct H as [H|[]]; exact H | destruct H].
  - right. apply IH. exact H.
Qed.
Lemma enc_tr_nodup fs raw : nodup_str (map fst raw) = true -> nodup_str (map fst (flat_map (enc_tr fs) raw)) = true.
Proof.
  induction raw as [|e r IH]; [reflexivity|]. intros Hn. cbn [map] in Hn. apply nodup_str_inv in Hn. destruct Hn as [Hk Hr].
  cbn [flat_map]. specialize (IH Hr).
  assert (Hk' : ~ In (fst e) (map fst (flat_map (enc_tr fs) r))) by (intros Hin; apply Hk; eapply enc_tr_keys_in; eauto).
  unfold enc_tr at 1. destruct (act_of fs (fst e)); cbn [tr_act app map fst nodup_str]; try exact IH;
    rewrite IH; apply existsb_str_notin in Hk'; rewrite Hk'; reflexivity.
Qed.
End Empty.

(* ---- norm_fields without timestamp_format fields is a filter ---------------------------------------------------- *)
Definition dropb (md : message) (e : str * fval) : bool :=
  match find_field (m_fields md) (fst e) with
  | Some f => match hit f (snd e) with ADrop => true | _ => false end
  | None => false
  end.

Lemma norm_fields_filter md m :
  (forall f, In f (m_fields md) -> tsfmt_of f = None) ->
  norm_fields md m = filter (fun e => negb (dropb md e)) m.
Proof.
  intros Hts. unfold norm_fields. induction m as [|[name x] r IH]; [reflexivity|].
  cbn [flat_map filter]. rewrite IH. clear IH.
  assert (Hd : dropb md (name, x) = match find_field (m_fields md) name with
                                    | Some f => match hit f x with ADrop => true | _ => false end
                                    | None => false end) by reflexivity.
  rewrite Hd. clear Hd. cbn [fst snd].
  destruct (find_field (m_fields md) name) as [f|] eqn:Ef; [|reflexivity].
  rewrite (Hts f (proj1 (find_field_spec _ _ _ Ef))). unfold hit.
  destruct (empty_of f) as [[| | |]|]; destruct x as [sx|[|e0 r0]|l|kv]; reflexivity.
Qed.

Lemma owner_single sc md ft : owner_of sc md = Own ft -> features sc md = [ft].
Proof. unfold owner_of. destruct (features sc md) as [|a [|b l]]; intros H; inversion H; reflexivity. Qed.

Lemma owner_empty_no_ts sc md :
  owner_of sc md = Own FtEmpty -> forall f, In f (m_fields md) -> tsfmt_of f = None.
Proof.
  intros Hown f Hin. destruct (tsfmt_of f) as [t|] eqn:Et; [|reflexivity]. exfalso.
  assert (Hex : existsb (fun f => match tsfmt_of f with Some _ => true | None => false end) (m_fields md) = true).
  { apply existsb_exists. exists f. split; [exact Hin|]. rewrite Et. reflexivity. }
  assert (Hft : In FtTs (features sc md)).
  { unfold features. rewrite Hex. do 4 (apply in_or_app; right). apply in_or_app. left. left. reflexivity. }
  rewrite (owner_single sc md FtEmpty Hown) in Hft. destruct Hft as [Hft|[]]. discriminate Hft.
Qed.

(* side condition of the round trip (see empty_roundtrip_needs_epoch_null_free): no NULL field of type
   Timestamp holds the epoch.  [null_not_ts] is the schema-level sufficient condition: a NULL field is never
   a Timestamp. *)
Definition epoch_null_free (md : message) (m : mval) : bool :=
  forallb (fun e => match find_field (m_fields md) (fst e), snd e with
                    | Some f, FM [] => negb (is_nullf f && is_timestamp (f_kind f))
                    | _, _ => true
                    end) m.
Definition null_not_ts (md : message) : bool :=
  forallb (fun f => negb (is_nullf f && is_timestamp (f_kind f))) (m_fields md).

Lemma null_not_ts_epoch_free md m : null_not_ts md = true -> epoch_null_free md m = true.
Proof.
  unfold null_not_ts, epoch_null_free. rewrite !forallb_forall. intros H [name x] _. cbn [fst snd].
  destruct (find_field (m_fields md) name) as [f|] eqn:Ef; [|reflexivity].
  destruct x as [sx|[|e0 r0]|l|kv]; try reflexivity.
  apply H. apply (find_field_spec _ _ _ Ef).
Qed.

(* ---- the codec of an empty_behavior-owning message ------------------------------------------------------------- *)
Section Codec.
Variable E : ExtLib.
Hypothesis EL : ExtLaws E.
Variable sc : schema.

Lemma kids_empty md m :
  forallb (fun e => match find_field (m_fields md) (fst e) with Some _ => true | None => false end) m = true ->
  kids_loop E sc FtEmpty md m = ROk [].
Proof.
  induction m as [|[name x] r IH]; simpl; [reflexivity|].
  destruct (find_field (m_fields md) name); [|discriminate]. simpl. exact IH.
Qed.

Lemma gj_un_empty n tn md raw :
  is_wkt_other tn = false -> lookup_message sc tn = Some md -> owner_of sc md = Own FtEmpty ->
  buildable sc FtEmpty md = true ->
  gj_un E sc (S n) (KMessage tn) (JObj raw) =
  pj_un E sc (KMessage tn) (JObj (dec_empty md raw)) >>= (fun v => ROk (Some v)).
Proof.
  intros H1 H2 H3 H4. cbn [gj_un]. rewrite H1, H2, H3. cbv beta iota. rewrite H4. reflexivity.
Qed.

Lemma wt_fields_declared md m : wt_fields sc md m = true ->
  forallb (fun e => match find_field (m_fields md) (fst e) with Some _ => true | None => false end) m = true.
Proof.
  induction m as [|[name x] r IH]; [reflexivity|]. cbn [wt_fields forallb fst].
  destruct (find_field (m_fields md) name); [|discriminate]. intros H. apply andb_prop in H. apply IH. apply H.
Qed.

Lemma wt_fields_filter md p m : wt_fields sc md m = true -> wt_fields sc md (filter p m) = true.
Proof.
  induction m as [|[name x] r IH]; [reflexivity|]. cbn [wt_fields filter].
  destruct (find_field (m_fields md) name) as [f|] eqn:Ef; [|discriminate]. intros H. apply andb_prop in H. destruct H as [H1 H2].
  destruct (p (name, x)); [|exact (IH H2)]. cbn [wt_fields]. rewrite Ef, H1, (IH H2). reflexivity.
Qed.

(* an empty child that is well typed and not a Timestamp is rendered {} *)
Lemma pj_empty_child f j :
  wt_entry sc f (FM []) = true -> is_timestamp (f_kind f) = false ->
  pj_fval E sc (f_kind f) (FM []) = ROk j -> j = JObj [].
Proof.
  intros Hw Hnts Hj.
  assert (Hwt : wt sc (f_kind f) (FM []) = true).
  { unfold wt_entry in Hw. destruct (f_card f); try discriminate Hw; exact Hw. }
  destruct (f_kind f) as [| | | | | | | | | | | | | | | tn0 | ctn]; try (simpl in Hwt; discriminate Hwt).
  unfold is_timestamp in Hnts. change (s "google.protobuf.Timestamp") with ts_name in Hnts.
  rewrite wt_FM, Hnts in Hwt. rewrite pj_fval_FM, Hnts in Hj.
  apply andb_prop in Hwt. destruct Hwt as [Hwk Hwt]. apply Bool.negb_true_iff in Hwk. rewrite Hwk in Hj.
  destruct (find_message (all_messages sc) ctn); [|discriminate Hwt].
  simpl in Hj. inversion Hj. reflexivity.
Qed.

(* lock step: protojson of the normalised value = decoder's pass after encoder's pass on protojson of the value *)
Lemma norm_lockstep md m0 :
  nodup_str (map jn (m_fields md)) = true ->
  forall r es,
  (forall name x, In (name, x) r -> mget m0 name = Some x) ->
  epoch_null_free md r = true ->
  wt_fields sc md r = true ->
  m_msg E sc md r = ROk es ->
  m_msg E sc md (filter (fun e => negb (dropb md e)) r)
  = ROk (map (dec_tr (m_fields md)) (flat_map (enc_tr m0 (m_fields md)) es)).
Proof.
  intros Hnd. induction r as [|[name x] r IH]; intros es Hget Hnt Hw Hes.
  - simpl in Hes. inversion Hes. reflexivity.
  - cbn [wt_fields] in Hw. cbn [m_msg] in Hes. unfold epoch_null_free in Hnt. cbn [forallb fst snd] in Hnt.
    destruct (find_field (m_fields md) name) as [f|] eqn:Ef; [|discriminate Hw].
    apply andb_prop in Hw. destruct Hw as [Hwe Hwr]. apply andb_prop in Hnt. destruct Hnt as [Hnt Hntr].
    apply rbind_ok in Hes. destruct Hes as [j [Hj Hes]]. apply rbind_ok in Hes. destruct Hes as [t [Ht Hes]].
    inversion Hes; subst es. clear Hes.
    assert (Hget' : forall n y, In (n, y) r -> mget m0 n = Some y) by (intros n y Hin; apply Hget; right; exact Hin).
    specialize (IH t Hget' Hntr Hwr Ht).
    destruct (find_field_spec _ _ _ Ef) as [Hin Hname].
    assert (Hact : act m0 f = hit f x).
    { unfold act. rewrite Hname, (Hget name x (or_introl eq_refl)). reflexivity. }
    assert (Hhead : enc_tr m0 (m_fields md) (json_name name, j) = tr_act (hit f x) (json_name name, j)).
    { unfold enc_tr, act_of. cbn [fst]. rewrite (fbj_find _ _ _ Hnd Ef), Hact. reflexivity. }
    cbn [flat_map filter]. rewrite Hhead. unfold dropb at 1. cbn [fst snd]. rewrite Ef.
    destruct (hit f x) eqn:Eh; cbn [negb tr_act app map].
    + (* kept as it is *)
      cbn [m_msg]. rewrite Ef, Hj. cbn [rbind]. rewrite IH. cbn [rbind].
      rewrite (dec_tr_nonnull _ (json_name name, j)); [reflexivity|]. cbn [snd]. eapply pj_not_null; eauto.
    + (* NULL: null, then {} again *)
      destruct (hit_null f x Eh) as [Hemp Hx]. subst x.
      assert (Hn : is_nullf f = true) by (unfold is_nullf; rewrite Hemp; reflexivity).
      assert (Hnts : is_timestamp (f_kind f) = false).
      { rewrite Hn in Hnt. destruct (is_timestamp (f_kind f)); [discriminate Hnt|reflexivity]. }
      pose proof (pj_empty_child f j Hwe Hnts Hj) as Hjj. subst j.
      cbn [m_msg]. rewrite Ef, Hj. cbn [rbind]. rewrite IH. cbn [rbind].
      assert (Hd : dec_tr (m_fields md) (json_name name, JNull) = (json_name name, JObj [])).
      { unfold dec_tr. cbn [fst snd]. rewrite (fbj_find _ _ _ Hnd Ef), Hn. reflexivity. }
      cbn [fst]. rewrite Hd. reflexivity.
    + (* OMIT: gone on both sides *)
      exact IH.
Qed.

(* C04 for the empty_behavior codec, all values *)
Theorem empty_roundtrip : forall tn md m j,
  str_eqb tn ts_name = false -> is_wkt_other tn = false ->
  find_message (all_messages sc) tn = Some md -> owner_of sc md = Own FtEmpty ->
  nodup_str (map jn (m_fields md)) = true ->
  epoch_null_free md m = true ->
  wt sc (KMessage tn) (FM m) = true ->
  encode E sc tn m = ROk j -> decode E sc tn j = ROk (norm sc tn m).
Proof.
  intros tn md m j Hts Hwk Hfm Hown Hnd Hnt Hwt Henc.
  assert (Hlk : lookup_message sc tn = Some md) by (unfold lookup_message; rewrite Hts; exact Hfm).
  assert (Howns : owns sc tn = true) by (unfold owns; rewrite Hlk, Hown; reflexivity).
  assert (Hnorm : norm sc tn m = filter (fun e => negb (dropb md e)) m).
  { unfold norm. rewrite Hlk, Hown. apply norm_fields_filter. exact (owner_empty_no_ts sc md Hown). }
  rewrite Hnorm. unfold encode in Henc. rewrite Howns in Henc.
  rewrite (gj_fval_owned E sc tn md FtEmpty m Hwk Hlk Hown) in Henc.
  apply rbind_ok in Henc. destruct Henc as [ks [Hks Henc]].
  unfold codec_body in Henc.
  destruct (buildable sc FtEmpty md) eqn:Hb; [|discriminate Henc]. cbn [negb] in Henc. cbv iota in Henc.
  apply rbind_ok in Henc. destruct Henc as [raw [Hraw Henc]].
  apply rbind_ok in Hraw. destruct Hraw as [j0 [Hpj Hobj]].
  unfold pj_marshal in Hpj. rewrite pj_fval_FM, Hts, Hwk, Hfm in Hpj.
  apply rbind_ok in Hpj. destruct Hpj as [es [Hes Hj0]]. inversion Hj0; subst j0.
  simpl in Hobj. inversion Hobj; subst raw. inversion Henc; subst j. clear Hobj Henc Hj0.
  (* the value *)
  rewrite wt_FM, Hts, Hwk, Hfm in Hwt. cbn [negb andb] in Hwt.
  apply andb_prop in Hwt. destruct Hwt as [Hwt Hwf]. apply andb_prop in Hwt. destruct Hwt as [Hok Hsorted].
  assert (Hnames : nodup_str (map fst m) = true).
  { apply (sorted_nodup_names (num_of md)). rewrite map_map. exact Hsorted. }
  assert (Hget : forall name x, In (name, x) m -> mget m name = Some x) by (intros name x; apply mget_nodup; exact Hnames).
  pose proof (wt_fields_declared md m Hwf) as Hdecl.
  pose proof (m_msg_keys E sc md m es Hes) as Hkeys.
  assert (Hndk : nodup_str (map fst es) = true).
  { rewrite Hkeys. clear -Hnames Hdecl Hnd. induction m as [|[name x] r IH]; [reflexivity|].
    cbn [map fst] in *. apply nodup_str_inv in Hnames. destruct Hnames as [Hn Hr].
    cbn [forallb fst] in Hdecl. destruct (find_field (m_fields md) name) as [f|] eqn:Ef; [|discriminate Hdecl].
    cbn [andb] in Hdecl. cbn [nodup_str]. rewrite (IH Hr Hdecl), Bool.andb_true_r. apply Bool.negb_true_iff. apply existsb_str_notin.
    intros Hin. apply in_map_iff in Hin. destruct Hin as [[n' y] [Heq Hin']]. cbn [fst] in Heq.
    rewrite forallb_forall in Hdecl. pose proof (Hdecl _ Hin') as Hd. cbn [fst] in Hd.
    destruct (find_field (m_fields md) n') as [g|] eqn:Eg; [|discriminate Hd].
    destruct (find_field_spec _ _ _ Ef) as [Hinf Hnf]. destruct (find_field_spec _ _ _ Eg) as [Hing Hng].
    assert (g = f) by (eapply nodup_jn_inj; eauto; unfold jn; rewrite Hnf, Hng; exact Heq).
    subst g. apply Hn. rewrite <- Hnf, Hng. apply (in_map fst) in Hin'. exact Hin'. }
  assert (Hhas : forall f, In f (m_fields md) -> act m f = ANull -> raw_has (jn f) es = true).
  { intros f _ Ha. unfold act in Ha. destruct (mget m (f_name f)) as [x|] eqn:Em; [|discriminate Ha].
    apply raw_has_keys. rewrite Hkeys. apply mget_some_in in Em. apply in_map_iff in Em.
    destruct Em as [[n y] [Hn Hin]]. cbn [fst] in Hn. apply in_map_iff. exists (n, y). split; [|exact Hin].
    cbn [fst]. rewrite Hn. reflexivity. }
  rewrite enc_empty_fold, (enc_closed m (m_fields md) es Hnd Hhas).
  (* decoding *)
  unfold decode. rewrite Howns. cbv beta iota.
  rewrite (gj_un_empty _ tn md _ Hwk Hlk Hown Hb).
  rewrite dec_empty_fold, (dec_closed (m_fields md) _ Hnd (enc_tr_nodup m (m_fields md) es Hndk)).
  pose proof (norm_lockstep md m Hnd m es Hget Hnt Hwf Hes) as Hlock.
  assert (Hwt' : wt sc (KMessage tn) (FM (filter (fun e => negb (dropb md e)) m)) = true).
  { rewrite wt_FM, Hts, Hwk, Hfm, Hok. cbn [negb andb].
    rewrite (sorted_filter (fun e : str * fval => num_of md (fst e)) _ m Hsorted).
    rewrite (wt_fields_filter md _ m Hwf). reflexivity. }
  assert (Hrt : pj_un E sc (KMessage tn) (JObj (map (dec_tr (m_fields md)) (flat_map (enc_tr m (m_fields md)) es)))
                = ROk (FM (filter (fun e => negb (dropb md e)) m))).
  { apply (Q_of_PP E sc _ (pj_roundtrip_fval E EL sc (FM (filter (fun e => negb (dropb md e)) m))) (KMessage tn) _ Hwt').
    rewrite pj_fval_FM, Hts, Hwk, Hfm, Hlock. reflexivity. }
  rewrite Hrt. reflexivity.
Qed.

(* schema-level form: no NULL field is a Timestamp *)
Corollary empty_roundtrip_schema : forall tn md m j,
  str_eqb tn ts_name = false -> is_wkt_other tn = false ->
  find_message (all_messages sc) tn = Some md -> owner_of sc md = Own FtEmpty ->
  nodup_str (map jn (m_fields md)) = true ->
  null_not_ts md = true ->
  wt sc (KMessage tn) (FM m) = true ->
  encode E sc tn m = ROk j -> decode E sc tn j = ROk (norm sc tn m).
Proof.
  intros tn md m j Hts Hwk Hfm Hown Hnd Hnt.
  exact (empty_roundtrip tn md m j Hts Hwk Hfm Hown Hnd (null_not_ts_epoch_free md m Hnt)).
Qed.
End Codec.

(* ================================================================================================================ *)
(* norm: idempotent, and the identity without lossy annotations *)

Definition ts_list (a b : Z) : list (str * fval) :=
  (if a =? 0 then [] else [(s "seconds", FS (VInt a))]) ++ (if b =? 0 then [] else [(s "nanos", FS (VInt b))]).
Lemma ts_value_list a b : ts_value a b = FM (ts_list a b).
Proof. reflexivity. Qed.
Lemma mget_int_ts_list a b : mget_int (ts_list a b) (s "seconds") = a /\ mget_int (ts_list a b) (s "nanos") = b.
Proof.
  unfold ts_list. destruct (Z.eqb_spec a 0) as [Ha|Ha]; destruct (Z.eqb_spec b 0) as [Hb|Hb]; subst;
    split; vm_compute; reflexivity.
Qed.

Lemma day_floor_idem sec : day_floor (day_floor sec) = day_floor sec.
Proof.
  unfold day_floor. pose proof (Z.div_mod sec 86400 ltac:(lia)) as Hdm.
  assert (Heq : sec - sec mod 86400 = (sec / 86400) * 86400) by lia.
  rewrite Heq. rewrite Z.mod_mul by lia. lia.
Qed.

Lemma trunc_ts_FM fmt tm :
  trunc_ts fmt (FM tm) =
  match fmt with
  | TFUnixSeconds => ts_value (mget_int tm (s "seconds")) 0
  | TFUnixMillis => ts_value (mget_int tm (s "seconds")) ((mget_int tm (s "nanos") / 1000000) * 1000000)
  | TFDate => ts_value (day_floor (mget_int tm (s "seconds"))) 0
  | _ => FM tm
  end.
Proof. reflexivity. Qed.

Lemma trunc_ts_idem fmt v : trunc_ts fmt (trunc_ts fmt v) = trunc_ts fmt v.
Proof.
  destruct v as [x|tm|l|kv]; try reflexivity.
  rewrite (trunc_ts_FM fmt tm).
  destruct fmt; try reflexivity; rewrite ts_value_list, trunc_ts_FM.
  - destruct (mget_int_ts_list (mget_int tm (s "seconds")) 0) as [H1 H2]. rewrite H1. reflexivity.
  - destruct (mget_int_ts_list (mget_int tm (s "seconds")) (mget_int tm (s "nanos") / 1000000 * 1000000)) as [H1 H2].
    rewrite H1, H2. rewrite Z.div_mul by lia. reflexivity.
  - destruct (mget_int_ts_list (day_floor (mget_int tm (s "seconds"))) 0) as [H1 H2]. rewrite H1, day_floor_idem. reflexivity.
Qed.

Lemma norm_fields_app md a b : norm_fields md (a ++ b) = norm_fields md a ++ norm_fields md b.
Proof. unfold norm_fields. apply flat_map_app. Qed.

Lemma norm_fields_idem md m : norm_fields md (norm_fields md m) = norm_fields md m.
Proof.
  induction m as [|[name x] r IH]; [reflexivity|].
  change ((name, x) :: r) with ([(name, x)] ++ r).
  rewrite (norm_fields_app md [(name, x)] r), norm_fields_app, IH. f_equal.
  unfold norm_fields. cbn [flat_map fst snd]. rewrite !app_nil_r.
  destruct (find_field (m_fields md) name) as [f|] eqn:Ef.
  - destruct (tsfmt_of f) as [fmt|] eqn:Et.
    + cbn [flat_map fst snd]. rewrite Ef, Et, trunc_ts_idem. reflexivity.
    + destruct (empty_of f) as [[| | |]|] eqn:Ee; destruct x as [sx|[|e0 r0]|l|kv];
        cbn [flat_map fst snd]; rewrite ?Ef, ?Et, ?Ee; reflexivity.
  - cbn [flat_map fst]. rewrite Ef. reflexivity.
Qed.

Section NormSc.
Variable sc : schema.

Definition sw_value (uf : field) (kvp : sval * fval) : sval * fval :=
  match snd kvp with
  | FM wm => (fst kvp, FM (filter (fun we => str_eqb (fst we) (f_name uf)) wm))
  | w => (fst kvp, w)
  end.
Definition sw_entry (md : message) (e : str * fval) : str * fval :=
  match find_field (m_fields md) (fst e) with
  | Some f =>
      match value_unwrap sc f, snd e with
      | Some uf, FMap kv => (fst e, FMap (map (sw_value uf) kv))
      | _, _ => e
      end
  | None => e
  end.
Lemma strip_wrappers_map md m : strip_wrappers sc md m = map (sw_entry md) m.
Proof. reflexivity. Qed.

Lemma sw_value_idem uf p : sw_value uf (sw_value uf p) = sw_value uf p.
Proof.
  destruct p as [k w]. unfold sw_value. cbn [fst snd].
  destruct w as [x|wm|l|kv]; cbn [fst snd]; try reflexivity. rewrite filter_idem. reflexivity.
Qed.

Lemma sw_entry_idem md e : sw_entry md (sw_entry md e) = sw_entry md e.
Proof.
  destruct e as [name x]. unfold sw_entry at 2. cbn [fst snd].
  destruct (find_field (m_fields md) name) as [f|] eqn:Ef.
  - destruct (value_unwrap sc f) as [uf|] eqn:Eu.
    + destruct x as [sx|cm|l|kv]; unfold sw_entry; cbn [fst snd]; rewrite Ef, Eu; try reflexivity.
      rewrite map_map. do 2 f_equal. apply map_ext. intros p. apply sw_value_idem.
    + unfold sw_entry. cbn [fst snd]. rewrite Ef, Eu. reflexivity.
  - unfold sw_entry. cbn [fst]. rewrite Ef. reflexivity.
Qed.

Lemma strip_wrappers_idem md m : strip_wrappers sc md (strip_wrappers sc md m) = strip_wrappers sc md m.
Proof. rewrite !strip_wrappers_map, map_map. apply map_ext. intros e. apply sw_entry_idem. Qed.

(* for EVERY message type (whatever codec it owns) and every value *)
Theorem norm_idempotent : forall tn m, norm sc tn (norm sc tn m) = norm sc tn m.
Proof.
  intros tn m. unfold norm. destruct (lookup_message sc tn) as [md|]; [|reflexivity].
  destruct (owner_of sc md) as [|[]|]; try reflexivity;
    try apply norm_fields_idem; apply strip_wrappers_idem.
Qed.

(* the instance asked for: types owned by the empty_behavior, timestamp_format, nullable, int64 or bytes codec, or by none *)
Theorem norm_idempotent_simple : forall tn md m,
  lookup_message sc tn = Some md ->
  (owner_of sc md = OwnNone \/ owner_of sc md = Own FtEmpty \/ owner_of sc md = Own FtTs \/
   owner_of sc md = Own FtNullable \/ owner_of sc md = Own FtInt64 \/ owner_of sc md = Own FtBytes) ->
  norm sc tn (norm sc tn m) = norm sc tn m.
Proof. intros tn md m _ _. apply norm_idempotent. Qed.

(* no lossy timestamp_format (UNIX_SECONDS / UNIX_MILLIS / DATE) field, no empty_behavior = OMIT field, no map
   whose values are unwrap wrappers.  (PRESERVE and NULL lose nothing.) *)
Definition is_omitf (f : field) : bool := match empty_of f with Some EBOmit => true | _ => false end.
Definition lossy_free (md : message) : bool :=
  forallb (fun f => match tsfmt_of f, value_unwrap sc f with None, None => negb (is_omitf f) | _, _ => false end)
          (m_fields md).

Lemma lossy_free_field md f : lossy_free md = true -> In f (m_fields md) ->
  tsfmt_of f = None /\ is_omitf f = false /\ value_unwrap sc f = None.
Proof.
  unfold lossy_free. rewrite forallb_forall. intros H Hin. specialize (H f Hin).
  destruct (tsfmt_of f); [discriminate H|].
  destruct (value_unwrap sc f); [discriminate H|]. apply Bool.negb_true_iff in H. auto.
Qed.

Theorem norm_id_without_lossy : forall tn m,
  (forall md, lookup_message sc tn = Some md -> lossy_free md = true) ->
  norm sc tn m = m.
Proof.
  intros tn m H. unfold norm. destruct (lookup_message sc tn) as [md|]; [|reflexivity].
  specialize (H md eq_refl).
  assert (Hnf : norm_fields md m = m).
  { unfold norm_fields. induction m as [|[name x] r IH]; [reflexivity|]. cbn [flat_map fst snd]. rewrite IH.
    destruct (find_field (m_fields md) name) as [f|] eqn:Ef; [|reflexivity].
    destruct (lossy_free_field md f H (proj1 (find_field_spec _ _ _ Ef))) as [Ht [He _]]. rewrite Ht.
    unfold is_omitf in He. destruct (empty_of f) as [[| | |]|]; try discriminate He; reflexivity. }
  assert (Hsw : strip_wrappers sc md m = m).
  { rewrite strip_wrappers_map. rewrite <- (map_id m) at 2. apply map_ext. intros [name x]. unfold sw_entry. cbn [fst snd].
    destruct (find_field (m_fields md) name) as [f|] eqn:Ef; [|reflexivity].
    destruct (lossy_free_field md f H (proj1 (find_field_spec _ _ _ Ef))) as [_ [_ Hu]]. rewrite Hu. reflexivity. }
  destruct (owner_of sc md) as [|[]|]; try reflexivity; assumption.
Qed.
End NormSc.
Close Scope Z_scope.
