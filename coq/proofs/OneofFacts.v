(* OneofFacts.v — the discriminated-oneof codec (internal/httpgen/oneof_discriminator.go), C04 round trip.
   MarshalJSON   = protojson output, plus one discriminator per configured oneof with a populated member, and — for a
                   flattened oneof whose member is a message — the member's encoding/json fields inlined and its own key
                   removed;
   UnmarshalJSON = per configured oneof: read the discriminator, (flattened) collect the child's keys, json.Unmarshal
                   them, re-marshal the variant under its own key / (non-flattened) json.Unmarshal the variant as a
                   check; then drop the discriminators and protojson.Unmarshal what is left. *)
From Coq Require Import Lia ZArith List Permutation.
From Sebuf Require Import CodecCases.
From SebufProofs Require Import TextFacts CodecTextFacts ProtoJsonFacts.
From SebufProofs Require NullableFacts Int64Facts BytesFacts TimestampFacts EmptyFacts CodecCompose.
From SebufProofs Require Import OneofPj OneofReflect.
Import ListNotations.

Open Scope Z_scope.

(* ---- raw maps ------------------------------------------------------------------------------------------------------ *)
Definition keys (r : rawmap) : list str := map fst r.
Definition rdel (d : option str) (r : rawmap) : rawmap := match d with Some k => raw_del k r | None => r end.

Lemma keys_app a b : keys (a ++ b) = keys a ++ keys b.
Proof. apply map_app. Qed.
Lemma raw_has_in k r : raw_has k r = true <-> In k (keys r).
Proof. apply NullableFacts.raw_has_keys. Qed.
Lemma raw_has_notin k r : ~ In k (keys r) -> raw_has k r = false.
Proof. intros H. destruct (raw_has k r) eqn:Eh; [|reflexivity]. exfalso. apply H, raw_has_in. exact Eh. Qed.
Lemma raw_get_notin k r : ~ In k (keys r) -> raw_get k r = None.
Proof. intros H. apply Int64Facts.raw_get_not_has. apply raw_has_notin. exact H. Qed.
Lemma raw_set_fresh k v r : ~ In k (keys r) -> raw_set k v r = r ++ [(k, v)].
Proof. intros H. unfold raw_set. rewrite (raw_has_notin k r H). reflexivity. Qed.
Lemma raw_del_fresh k r : ~ In k (keys r) -> raw_del k r = r.
Proof. intros H. apply NullableFacts.raw_del_notin. apply raw_has_notin. exact H. Qed.
Lemma raw_get_here k v a b : ~ In k (keys a) -> raw_get k (a ++ (k, v) :: b) = Some v.
Proof.
  intros H. rewrite (NullableFacts.raw_get_app_r k a _ (raw_has_notin k a H)).
  unfold raw_get. cbn [assoc_json]. rewrite str_eqb_refl. reflexivity.
Qed.
Lemma raw_get_nodup_in k v r : NoDup (keys r) -> In (k, v) r -> raw_get k r = Some v.
Proof.
  induction r as [|[k' v'] t IH]; intros Hnd Hin; [destruct Hin|]. cbn [keys map fst] in Hnd. inversion Hnd as [|x l Hx Hl]; subst.
  unfold raw_get. cbn [assoc_json]. destruct Hin as [Hin|Hin].
  - inversion Hin; subst. rewrite str_eqb_refl. reflexivity.
  - destruct (str_eqb k k') eqn:Ek; [|apply IH; assumption]. apply str_eqb_eq in Ek. subst k'.
    exfalso. apply Hx. apply (in_map fst) in Hin. exact Hin.
Qed.

(* setting fresh distinct keys one after the other appends them *)
Lemma fold_raw_set_fresh (ckv r : rawmap) :
  NoDup (keys ckv) -> (forall k, In k (keys ckv) -> ~ In k (keys r)) ->
  fold_left (fun r0 e => raw_set (fst e) (snd e) r0) ckv r = r ++ ckv.
Proof.
  revert r. induction ckv as [|[k v] t IH]; intros r Hnd Hf; [rewrite app_nil_r; reflexivity|].
  cbn [keys map fst] in Hnd. inversion Hnd as [|x l Hx Hl]; subst.
  cbn [fold_left fst snd]. rewrite (raw_set_fresh k v r (Hf k (or_introl eq_refl))). rewrite IH.
  - rewrite <- app_assoc. reflexivity.
  - exact Hl.
  - intros k' Hk' Hin. rewrite keys_app in Hin. apply in_app_or in Hin. destruct Hin as [Hin|Hin].
    + exact (Hf k' (or_intror Hk') Hin).
    + cbn in Hin. destruct Hin as [Hin|[]]. subst k'. exact (Hx Hk').
Qed.

(* deleting a list of keys *)
Definition del_all (ks : list str) (r : rawmap) : rawmap := filter (fun e => negb (existsb (str_eqb (fst e)) ks)) r.
Lemma fold_raw_del (ks : list str) : forall r, fold_left (fun r0 k => raw_del k r0) ks r = del_all ks r.
Proof.
  induction ks as [|k t IH]; intros r.
  - unfold del_all. cbn [existsb negb fold_left]. symmetry. induction r as [|e r' IHr]; [reflexivity|]. cbn [filter]. rewrite IHr. reflexivity.
  - cbn [fold_left]. rewrite IH. unfold del_all, raw_del. induction r as [|e r' IHr]; [reflexivity|].
    cbn [filter existsb]. destruct (str_eqb (fst e) k); cbn [negb filter orb]; [exact IHr|].
    destruct (existsb (str_eqb (fst e)) t); cbn [negb]; rewrite IHr; reflexivity.
Qed.
Lemma del_all_nil r : del_all [] r = r.
Proof. unfold del_all. cbn [existsb negb]. induction r as [|e t IH]; [reflexivity|]. cbn [filter]. rewrite IH. reflexivity. Qed.
Lemma del_all_cons k ks r : del_all ks (raw_del k r) = del_all (k :: ks) r.
Proof.
  unfold del_all, raw_del. induction r as [|e t IH]; [reflexivity|]. cbn [filter existsb].
  destruct (str_eqb (fst e) k); cbn [negb orb]; [exact IH|]. cbn [filter].
  destruct (existsb (str_eqb (fst e)) ks); cbn [negb]; rewrite IH; reflexivity.
Qed.
Lemma del_all_app ks a b : del_all ks (a ++ b) = del_all ks a ++ del_all ks b.
Proof. apply filter_app. Qed.
Lemma del_all_disj ks r : (forall k, In k (keys r) -> ~ In k ks) -> del_all ks r = r.
Proof.
  induction r as [|e t IH]; intros H; [reflexivity|]. cbn [del_all filter].
  assert (He : existsb (str_eqb (fst e)) ks = false).
  { destruct (existsb (str_eqb (fst e)) ks) eqn:Ex; [|reflexivity]. exfalso. apply existsb_exists in Ex. destruct Ex as [k [Hk Hek]].
    apply str_eqb_eq in Hek. subst k. apply (H (fst e)); [left; reflexivity|exact Hk]. }
  rewrite He. cbn [negb]. f_equal. apply IH. intros k Hk. apply H. right. exact Hk.
Qed.
Lemma del_all_sub ks r : (forall k, In k (keys r) -> In k ks) -> del_all ks r = [].
Proof.
  induction r as [|e t IH]; intros H; [reflexivity|]. cbn [del_all filter].
  assert (He : existsb (str_eqb (fst e)) ks = true).
  { apply existsb_exists. exists (fst e). split; [apply H; left; reflexivity|apply str_eqb_refl]. }
  rewrite He. cbn [negb]. apply IH. intros k Hk. apply H. right. exact Hk.
Qed.

Definition disj (a b : list str) : Prop := forall k, In k a -> In k b -> False.

Lemma NoDup_app_inv {A} (a b : list A) : NoDup (a ++ b) -> NoDup a /\ NoDup b /\ (forall x, In x a -> In x b -> False).
Proof.
  induction a as [|x r IH]; intros H; [split; [constructor|split; [exact H|intros x []]]|].
  cbn [app] in H. inversion H as [|y l Hx Hl]; subst. destruct (IH Hl) as [H1 [H2 H3]]. split; [|split].
  - constructor; [|exact H1]. intros Hin. apply Hx. apply in_or_app. left. exact Hin.
  - exact H2.
  - intros z [Hz|Hz] Hb; [subst z; apply Hx; apply in_or_app; right; exact Hb|exact (H3 z Hz Hb)].
Qed.
Lemma NoDup_app_intro {A} (a b : list A) : NoDup a -> NoDup b -> (forall x, In x a -> In x b -> False) -> NoDup (a ++ b).
Proof.
  induction a as [|x r IH]; intros Ha Hb Hd; [exact Hb|]. inversion Ha as [|y l Hx Hl]; subst. cbn [app]. constructor.
  - intros Hin. apply in_app_or in Hin. destruct Hin as [Hin|Hin]; [exact (Hx Hin)|exact (Hd x (or_introl eq_refl) Hin)].
  - apply IH; [exact Hl|exact Hb|]. intros z Hz. apply Hd. right. exact Hz.
Qed.


(* ---- generic list facts -------------------------------------------------------------------------------------------------- *)
Lemma nodup_map_inj {A} (h : A -> str) (l : list A) a b :
  NullableFacts.nodup_str (map h l) = true -> In a l -> In b l -> h a = h b -> a = b.
Proof.
  induction l as [|g r IH]; cbn [map NullableFacts.nodup_str]; [intros _ []|].
  intros Hn Ha Hb Heq. apply andb_prop in Hn. destruct Hn as [Hg Hr].
  assert (Hnot : forall c, In c r -> h g <> h c).
  { intros c Hc Ec. apply Bool.negb_true_iff in Hg.
    assert (existsb (str_eqb (h g)) (map h r) = true).
    { apply existsb_exists. exists (h c). split; [apply in_map; exact Hc|]. rewrite Ec. apply str_eqb_refl. }
    congruence. }
  destruct Ha as [Ha|Ha], Hb as [Hb|Hb]; subst.
  - reflexivity.
  - exfalso. eapply Hnot; eauto.
  - exfalso. eapply Hnot; eauto.
  - apply IH; auto.
Qed.

Lemma NoDup_flat_map_in {A B} (g : A -> list B) l a : NoDup (flat_map g l) -> In a l -> NoDup (g a).
Proof.
  induction l as [|b r IH]; intros Hn Ha; [destruct Ha|]. cbn [flat_map] in Hn. apply NoDup_app_inv in Hn. destruct Hn as [Hb [Hr _]].
  destruct Ha as [Ha|Ha]; [subst b; exact Hb|exact (IH Hr Ha)].
Qed.

Lemma find_unique {A} (p : A -> bool) (l : list A) f :
  In f l -> p f = true -> (forall g, In g l -> p g = true -> g = f) -> find p l = Some f.
Proof.
  induction l as [|a r IH]; intros Hin Hp Hu; [destruct Hin|]. cbn [find].
  destruct (p a) eqn:Ea.
  - f_equal. apply Hu; [left; reflexivity|exact Ea].
  - destruct Hin as [Hin|Hin]; [subst a; congruence|]. apply IH; [exact Hin|exact Hp|]. intros g Hg. apply Hu. right. exact Hg.
Qed.

Lemma Forall2_flat_map {A B C} (R : B -> C -> Prop) (f : A -> list B) (g : A -> list C) l :
  (forall a, In a l -> Forall2 R (f a) (g a)) -> Forall2 R (flat_map f l) (flat_map g l).
Proof.
  induction l as [|a r IH]; intros H; [constructor|]. cbn [flat_map]. apply Forall2_app.
  - apply H. left. reflexivity.
  - apply IH. intros b Hb. apply H. right. exact Hb.
Qed.

Lemma fold_raw_del_map {A} (h : A -> str) (l : list A) : forall r,
  fold_left (fun r0 a => raw_del (h a) r0) l r = del_all (map h l) r.
Proof.
  intros r. rewrite <- fold_raw_del. revert r. induction l as [|a t IH]; intros r; [reflexivity|]. cbn [fold_left map]. apply IH.
Qed.

Lemma raw_get_mid k P d v c S :
  ~ In k (keys P) -> k <> d -> ~ In k (keys S) -> raw_get k (P ++ (d, v) :: c ++ S) = raw_get k c.
Proof.
  intros HP Hd HS. rewrite (NullableFacts.raw_get_app_r k P _ (raw_has_notin k P HP)).
  unfold raw_get at 1. cbn [assoc_json]. assert (Hkd : str_eqb k d = false) by (apply str_eqb_neq; exact Hd). rewrite Hkd.
  change (assoc_json k (c ++ S)) with (raw_get k (c ++ S)).
  destruct (raw_get k c) as [w|] eqn:Ec.
  - exact (NullableFacts.raw_get_app_l k c S w Ec).
  - assert (Hc : raw_has k c = false).
    { destruct (raw_has k c) eqn:Eh; [|reflexivity]. destruct (NullableFacts.raw_has_get k c Eh) as [w Hw]. congruence. }
    rewrite (NullableFacts.raw_get_app_r k c S Hc). apply raw_get_notin. exact HS.
Qed.

(* a value listed in field order instead of its own order *)
Definition by_fields (md : message) (m : mval) : list (field * fval) :=
  flat_map (fun f => match mget m (f_name f) with Some x => [(f, x)] | None => [] end) (m_fields md).

Lemma by_fields_perm md m :
  NullableFacts.nodup_str (map jn (m_fields md)) = true -> nodup_Z (map f_number (m_fields md)) = true ->
  sorted_Z (map (fun e => num_of md (fst e)) m) = true -> BytesFacts.declared md m = true ->
  Permutation (by_fields md m) (tags md m).
Proof.
  intros Hjn Hnum Hs Hd. apply NoDup_Permutation.
  - apply (NoDup_map_inv fst).
    assert (Hm : map fst (by_fields md m) = filter (fun f => match mget m (f_name f) with Some _ => true | None => false end) (m_fields md)).
    { unfold by_fields. clear. induction (m_fields md) as [|f r IH]; [reflexivity|]. cbn [flat_map filter].
      destruct (mget m (f_name f)); cbn [app map fst]; rewrite IH; reflexivity. }
    rewrite Hm. apply NoDup_filter. apply (NoDup_map_inv f_number). apply nodup_Z_NoDup. exact Hnum.
  - apply (NoDup_map_inv (fun fv : field * fval => f_number (fst fv))). rewrite (tags_nums md m Hd). apply sorted_Z_NoDup. exact Hs.
  - intros [f x]. rewrite tags_in. unfold by_fields. rewrite in_flat_map. split.
    + intros [g [Hg Hin]]. destruct (mget m (f_name g)) as [y|] eqn:Eg; [|destruct Hin]. destruct Hin as [Hin|[]]. inversion Hin; subst g y.
      exists (f_name f). split; [exact (Int64Facts.mget_pair m _ _ Eg)|exact (find_self _ f Hjn Hg)].
    + intros [name [Hin Hf]]. destruct (find_field_spec _ _ _ Hf) as [Hinf Hn]. exists f. split; [exact Hinf|].
      rewrite Hn, (BytesFacts.sorted_mget md m name x Hs Hin). left. reflexivity.
Qed.

(* ---- the two folds of Codec.v, one oneof at a time ------------------------------------------------------------------ *)
Section Steps.
Variable E : ExtLib.
Variable sc : schema.

Definition enc1 (md : message) (m : mval) (ks : kids_t) (o : oneof) (raw : rawmap) : res rawmap :=
  if oneof_cfg o then
    match find_oneof_member md m o with
    | Some f =>
        let raw1 := raw_set (o_discriminator o) (JStr (disc_value f)) raw in
        if o_flatten o && is_msg_kind (f_kind f) then
          match kid ks (f_name f) with
          | ROk (JObj ckv) => ROk (raw_del (jn f) (fold_left (fun r e => raw_set (fst e) (snd e) r) ckv raw1))
          | RUnm w => RUnm w
          | _ => ROk (raw_del (jn f) raw1)
          end
        else ROk raw1
    | None => ROk raw
    end
  else ROk raw.
Lemma enc_oneof_fold md m ks raw :
  enc_oneof md m ks raw = fold_left (fun acc o => acc >>= enc1 md m ks o) (m_oneofs md) (ROk raw).
Proof. reflexivity. Qed.

Definition dec1 (n : nat) (md : message) (o : oneof) (raw : rawmap) : res rawmap :=
  if oneof_cfg o then
    match raw_get (o_discriminator o) raw with
    | None => ROk raw
    | Some dj =>
        (match dj with
         | JStr d => ROk d
         | JNull => ROk []
         | _ => RErr (s "invalid discriminator")
         end) >>= (fun d =>
        match find (fun f => match f_oneof f with
                             | Some on => str_eqb on (o_name o) && str_eqb (disc_value f) d
                             | None => false end) (m_fields md) with
        | None => ROk raw
        | Some f =>
            if negb (is_msg_kind (f_kind f)) then ROk raw
            else if o_flatten o then
              match lookup_message sc (msg_name (f_kind f)) with
              | None => RUnm (s "unknown message type")
              | Some cmd =>
                  let vmap := flat_map (fun cf => match raw_get (jn cf) raw with
                                                  | Some v => [(jn cf, v)] | None => [] end) (m_fields cmd) in
                  let raw' := fold_left (fun r cf => raw_del (jn cf) r) (m_fields cmd) raw in
                  gj_un E sc n (f_kind f) (JObj (raw_sort vmap)) >>= (fun ov =>
                  let variant := match ov with Some v => v | None => FM [] end in
                  match gj_fval E sc (f_kind f) variant with
                  | ROk vj => ROk (raw_set (jn f) vj raw')
                  | RErr _ => ROk (raw_set (jn f) JNull raw')
                  | RUnm w => RUnm w
                  end)
              end
            else
              match raw_get (jn f) raw with
              | Some vj => gj_un E sc n (f_kind f) vj >>= (fun _ => ROk raw)
              | None => ROk raw
              end
        end)
    end
  else ROk raw.
Definition strip_discs (md : message) (raw : rawmap) : rawmap :=
  fold_left (fun r o => if oneof_cfg o then raw_del (o_discriminator o) r else r) (m_oneofs md) raw.

Lemma gj_un_oneof n tn md raw :
  is_wkt_other tn = false -> lookup_message sc tn = Some md -> owner_of sc md = Own FtOneof ->
  gj_un E sc (S n) (KMessage tn) (JObj raw) =
  fold_left (fun acc o => acc >>= dec1 n md o) (m_oneofs md) (ROk raw) >>= (fun raw1 =>
  pj_un E sc (KMessage tn) (JObj (strip_discs md raw1)) >>= (fun v => ROk (Some v))).
Proof. intros H1 H2 H3. simpl. rewrite H1, H2, H3. reflexivity. Qed.
End Steps.
Close Scope Z_scope.

(* ---- the side conditions, computable ---------------------------------------------------------------------------------- *)
Open Scope Z_scope.

(* the populated member of a configured flattened oneof, when it is a message *)
Definition flat_member (md : message) (m : mval) (o : oneof) : option field :=
  if oneof_cfg o then
    match find_oneof_member md m o with
    | Some f => if o_flatten o && is_msg_kind (f_kind f) then Some f else None
    | None => None
    end
  else None.
Definition child_jns (sc : schema) (f : field) : list str :=
  match lookup_message sc (msg_name (f_kind f)) with Some cmd => map jn (m_fields cmd) | None => [] end.
(* keys the codec of this oneof writes / looks up beside the fields' own keys: the discriminator and, flattened, the
   JSON names of the member's type *)
Definition probe_keys (sc : schema) (md : message) (m : mval) (o : oneof) : list str :=
  if oneof_cfg o then
    o_discriminator o :: match flat_member md m o with Some f => child_jns sc f | None => [] end
  else [].
Definition set_fields (md : message) (m : mval) : list field :=
  filter (fun f => match mget m (f_name f) with Some _ => true | None => false end) (m_fields md).
(* the keys of the rendered object and the keys the decoder looks up are pairwise distinct *)
Definition oneof_keys_ok (sc : schema) (md : message) (m : mval) : bool :=
  NullableFacts.nodup_str (map jn (set_fields md m) ++ flat_map (probe_keys sc md m) (m_oneofs md)).
(* the discriminator values of a configured oneof are pairwise distinct (else the emitted switch does not compile) *)
Definition variants_of (md : message) (o : oneof) : list field :=
  filter (fun f => match f_oneof f with Some n => str_eqb n (o_name o) | None => false end) (m_fields md).
Definition disc_values_ok (md : message) : bool :=
  forallb (fun o => negb (oneof_cfg o) || NullableFacts.nodup_str (map disc_value (variants_of md o))) (m_oneofs md).

(* the discriminators are dropped at the end *)
Definition discs (os : list oneof) : list str := flat_map (fun o => if oneof_cfg o then [o_discriminator o] else []) os.
Lemma strip_discs_gen os : forall raw,
  fold_left (fun r o => if oneof_cfg o then raw_del (o_discriminator o) r else r) os raw = del_all (discs os) raw.
Proof.
  unfold discs. induction os as [|o r IH]; intros raw.
  - cbn [fold_left flat_map]. rewrite del_all_nil. reflexivity.
  - cbn [fold_left flat_map]. rewrite IH. destruct (oneof_cfg o); [|reflexivity]. cbn [app]. apply del_all_cons.
Qed.
Lemma strip_discs_del md raw : strip_discs md raw = del_all (discs (m_oneofs md)) raw.
Proof. apply strip_discs_gen. Qed.

Section Main.
Variable E : ExtLib.
Hypothesis EL : ExtLaws E.
Variable sc : schema.
Variable tn : str.
Variable md : message.
Variable m : mval.
Hypothesis Hts : str_eqb tn ts_name = false.
Hypothesis Hwk : is_wkt_other tn = false.
Hypothesis Hfm : find_message (all_messages sc) tn = Some md.
Hypothesis Hown : owner_of sc md = Own FtOneof.
Hypothesis Hok1 : msg_ok1 md = true.
Hypothesis Hsorted : sorted_Z (map (fun e => num_of md (fst e)) m) = true.
Hypothesis Hwf : wt_fields sc md m = true.
Hypothesis Hex : NullableFacts.nodup_str (set_oneofs md m) = true.
Hypothesis Hon : NullableFacts.nodup_str (map o_name (m_oneofs md)) = true.
Hypothesis Hkeys : oneof_keys_ok sc md m = true.
Hypothesis Hdv : disc_values_ok md = true.

(* the populated message member of a configured oneof: a type without codec (not Timestamp), value as the classifier
   and the gap conditions demand *)
Definition variant_ok (o : oneof) : Prop :=
  forall f, oneof_cfg o = true -> find_oneof_member md m o = Some f -> is_msg_kind (f_kind f) = true ->
  exists ctn cmd cm, f_kind f = KMessage ctn /\ mget m (f_name f) = Some (FM cm) /\ str_eqb ctn ts_name = false /\
     find_message (all_messages sc) ctn = Some cmd /\ owner_of sc cmd = OwnNone /\
     (if o_flatten o then flat_child_ok sc cmd cm = true else nonflat_child_ok cmd cm = true).
Hypothesis Hvar : forall o, In o (m_oneofs md) -> variant_ok o.

Lemma Hlk : lookup_message sc tn = Some md.
Proof. unfold lookup_message. rewrite Hts. exact Hfm. Qed.
Lemma Hnd : NullableFacts.nodup_str (map jn (m_fields md)) = true.
Proof. exact (msg_ok1_nodup_jn md Hok1). Qed.
Lemma Hdecl : BytesFacts.declared md m = true.
Proof. exact (BytesFacts.wt_fields_declared sc md m Hwf). Qed.

(* ---- what a populated member is ------------------------------------------------------------------------------------------ *)
Lemma member_facts o f : find_oneof_member md m o = Some f ->
  In f (m_fields md) /\ f_oneof f = Some (o_name o) /\ f_card f = Singular /\ find_field (m_fields md) (f_name f) = Some f /\
  exists x, mget m (f_name f) = Some x /\ In (f_name f, x) m /\ wt_entry sc f x = true.
Proof.
  intros Hf. unfold find_oneof_member in Hf. apply find_some in Hf. destruct Hf as [Hin Hp].
  destruct (f_oneof f) as [n|] eqn:Eo; [|discriminate Hp]. apply andb_prop in Hp. destruct Hp as [Hn Hg].
  apply str_eqb_eq in Hn. subst n.
  destruct (mget m (f_name f)) as [x|] eqn:Eg; [|discriminate Hg].
  pose proof (find_self (m_fields md) f Hnd Hin) as Hself.
  split; [exact Hin|]. split; [reflexivity|]. split; [exact (msg_ok1_member_singular md f _ Hok1 Hin Eo)|]. split; [exact Hself|].
  exists x. split; [reflexivity|]. pose proof (Int64Facts.mget_pair m _ _ Eg) as Hinm. split; [exact Hinm|].
  destruct (BytesFacts.wt_fields_in sc md m _ x Hwf Hinm) as [g [Hg' Hw]]. assert (g = f) by congruence. subst g. exact Hw.
Qed.

(* a populated message member, with everything the child lemmas ask for *)
Lemma msg_member o f : In o (m_oneofs md) -> oneof_cfg o = true -> find_oneof_member md m o = Some f ->
  is_msg_kind (f_kind f) = true ->
  exists ctn cmd cm, f_kind f = KMessage ctn /\ mget m (f_name f) = Some (FM cm) /\ In (f_name f, FM cm) m /\
     str_eqb ctn ts_name = false /\ is_wkt_other ctn = false /\
     find_message (all_messages sc) ctn = Some cmd /\ lookup_message sc ctn = Some cmd /\ owner_of sc cmd = OwnNone /\
     msg_ok cmd = true /\ sorted_Z (map (fun e => num_of cmd (fst e)) cm) = true /\ wt_fields sc cmd cm = true /\
     (if o_flatten o then flat_child_ok sc cmd cm = true else nonflat_child_ok cmd cm = true).
Proof.
  intros Ho Hcfg Hf Hmsg. destruct (Hvar o Ho f Hcfg Hf Hmsg) as [ctn [cmd [cm [Hk [Hg [Hcts [Hcfm [Hcown Hc]]]]]]]].
  destruct (member_facts o f Hf) as [_ [_ [Hcard [_ [x [Hgx [Hinm Hw]]]]]]].
  assert (x = FM cm) by congruence. subst x.
  unfold wt_entry in Hw. rewrite Hcard, Hk in Hw. rewrite wt_FM, Hcts in Hw.
  apply andb_prop in Hw. destruct Hw as [Hcwk Hw]. apply Bool.negb_true_iff in Hcwk. rewrite Hcfm in Hw.
  apply andb_prop in Hw. destruct Hw as [Hw Hcwf]. apply andb_prop in Hw. destruct Hw as [Hcok Hcs].
  exists ctn, cmd, cm. repeat split; try assumption. unfold lookup_message. rewrite Hcts. exact Hcfm.
Qed.

(* ---- the children the body hands to json.Marshal --------------------------------------------------------------------------- *)
Lemma kid_of_loop : forall m0 ks, NullableFacts.kids_loop E sc FtOneof md m0 = ROk ks ->
  NoDup (map fst m0) -> forall name x f, In (name, x) m0 -> find_field (m_fields md) name = Some f ->
  needs_gj sc FtOneof md f = true ->
  kid ks name = gj_fval E sc (f_kind f) x /\ forall w, gj_fval E sc (f_kind f) x <> RUnm w.
Proof.
  induction m0 as [|[n0 x0] r IH]; intros ks Hks Hnd0 name x f Hin Hf Hng; [destruct Hin|].
  cbn [map fst] in Hnd0. inversion Hnd0 as [|a l Ha Hl]; subst.
  cbn [NullableFacts.kids_loop] in Hks. destruct (find_field (m_fields md) n0) as [f0|] eqn:Ef0; [|discriminate Hks].
  destruct Hin as [Hin|Hin].
  - inversion Hin; subst n0 x0. assert (f0 = f) by congruence. subst f0. rewrite Hng in Hks.
    destruct (gj_fval E sc (f_kind f) x) as [j|e|w] eqn:Eg.
    + apply rbind_ok in Hks. destruct Hks as [t [_ Hks]]. inversion Hks; subst ks. cbn [kid]. rewrite str_eqb_refl.
      split; [reflexivity|intros w; discriminate].
    + apply rbind_ok in Hks. destruct Hks as [t [_ Hks]]. inversion Hks; subst ks. cbn [kid]. rewrite str_eqb_refl.
      split; [reflexivity|intros w; discriminate].
    + discriminate Hks.
  - assert (Hne : str_eqb name n0 = false).
    { apply str_eqb_neq. intros Heq. subst n0. apply Ha. apply (in_map fst) in Hin. exact Hin. }
    destruct (needs_gj sc FtOneof md f0).
    + destruct (gj_fval E sc (f_kind f0) x0) as [j|e|w] eqn:Eg; [| |discriminate Hks];
        apply rbind_ok in Hks; destruct Hks as [t [Ht Hks]]; inversion Hks; subst ks; cbn [kid]; rewrite Hne;
        exact (IH t Ht Hl name x f Hin Hf Hng).
    + exact (IH ks Hks Hl name x f Hin Hf Hng).
Qed.

Lemma flat_member_inv o f : flat_member md m o = Some f ->
  oneof_cfg o = true /\ find_oneof_member md m o = Some f /\ o_flatten o = true /\ is_msg_kind (f_kind f) = true.
Proof.
  unfold flat_member. destruct (oneof_cfg o); [|discriminate]. destruct (find_oneof_member md m o) as [g|]; [|discriminate].
  destruct (o_flatten o && is_msg_kind (f_kind g)) eqn:Eb; [|discriminate]. intros H. inversion H; subst g.
  apply andb_prop in Eb. destruct Eb. auto.
Qed.

Lemma needs_gj_flat o f : In o (m_oneofs md) -> flat_member md m o = Some f -> needs_gj sc FtOneof md f = true.
Proof.
  intros Ho Hf. destruct (flat_member_inv o f Hf) as [Hcfg [Hmem [Hfl Hmsg]]].
  destruct (member_facts o f Hmem) as [_ [Hoo _]]. cbn [needs_gj]. rewrite Hmsg, Hoo. cbn [andb].
  apply existsb_exists. exists o. split; [exact Ho|]. rewrite str_eqb_refl, Hcfg, Hfl. reflexivity.
Qed.

Definition mem_val (f : field) : mval := match mget m (f_name f) with Some (FM cm) => cm | _ => [] end.
Definition ckv_of (o : oneof) : rawmap :=
  match flat_member md m o with
  | Some f => match gj_fval E sc (f_kind f) (FM (mem_val f)) with ROk (JObj ckv) => ckv | _ => [] end
  | None => []
  end.
Definition kept (o : oneof) : rawmap :=
  if oneof_cfg o then
    match find_oneof_member md m o with Some f => [(o_discriminator o, JStr (disc_value f))] | None => [] end
  else [].
Definition adds (o : oneof) : rawmap := kept o ++ ckv_of o.
Definition del (o : oneof) : option str := option_map jn (flat_member md m o).
Definition backs (o : oneof) : rawmap :=
  match flat_member md m o with Some f => [(jn f, JObj (ckv_of o))] | None => [] end.

(* the flattened member, rendered *)
Lemma flat_render o f ks : In o (m_oneofs md) -> flat_member md m o = Some f ->
  NullableFacts.kids_loop E sc FtOneof md m = ROk ks ->
  exists ctn cmd cm, f_kind f = KMessage ctn /\ mem_val f = cm /\ lookup_message sc ctn = Some cmd /\
    kid ks (f_name f) = ROk (JObj (ckv_of o)) /\ gj_fval E sc (f_kind f) (FM cm) = ROk (JObj (ckv_of o)) /\
    Forall2 (gj_ent E sc cmd) cm (ckv_of o).
Proof.
  intros Ho Hf Hks. destruct (flat_member_inv o f Hf) as [Hcfg [Hmem [Hfl Hmsg]]].
  destruct (msg_member o f Ho Hcfg Hmem Hmsg) as [ctn [cmd [cm [Hk [Hg [Hinm [Hcts [Hcwk [Hcfm [Hclk [Hcown [Hcok [Hcs [Hcwf Hc]]]]]]]]]]]]]].
  rewrite Hfl in Hc.
  destruct (member_facts o f Hmem) as [_ [_ [_ [Hself _]]]].
  pose proof (Int64Facts.sorted_names_nodup md m Hsorted) as Hnames.
  destruct (kid_of_loop m ks Hks Hnames (f_name f) (FM cm) f Hinm Hself (needs_gj_flat o f Ho Hf)) as [Hkid Hnu].
  assert (Hmv : mem_val f = cm) by (unfold mem_val; rewrite Hg; reflexivity).
  exists ctn, cmd, cm. split; [exact Hk|]. split; [exact Hmv|]. split; [exact Hclk|].
  rewrite Hk in Hkid, Hnu.
  destruct (gj_fval E sc (KMessage ctn) (FM cm)) as [j|e|w] eqn:Eg.
  - destruct (flat_gj_ok E sc ctn cmd cm Hcts Hcwk Hcfm Hcown Hcok Hcwf Hc j Eg) as [ckv [Hj HF]]. subst j.
    assert (Hckv : ckv_of o = ckv). { unfold ckv_of. rewrite Hf, Hmv, Hk, Eg. reflexivity. }
    rewrite Hckv, Hk, Eg. repeat split; [exact Hkid|exact HF].
  - exfalso. exact (flat_gj_noerr E sc ctn cmd cm Hcts Hcwk Hcfm Hcown Hcok Hcwf e Hc Eg).
  - exfalso. exact (Hnu w eq_refl).
Qed.

Lemma gj_ent_keys cmd cm ckv : Forall2 (gj_ent E sc cmd) cm ckv -> keys ckv = map fst cm.
Proof. induction 1 as [|a b r r' [f [_ [Hk _]]] _ IH]; [reflexivity|]. unfold keys in *. cbn [map]. rewrite Hk, IH. reflexivity. Qed.

(* ---- MarshalJSON: one oneof --------------------------------------------------------------------------------------------- *)
Lemma enc1_spec o ks raw : In o (m_oneofs md) ->
  NullableFacts.kids_loop E sc FtOneof md m = ROk ks ->
  NoDup (keys (adds o)) -> disj (keys (adds o)) (keys raw) -> disj (opt_list (del o)) (keys (adds o)) ->
  enc1 md m ks o raw = ROk (rdel (del o) raw ++ adds o).
Proof.
  intros Ho Hks Hnd0 Hfresh Hdel. unfold enc1, adds, kept, del in *.
  destruct (oneof_cfg o) eqn:Hcfg.
  2:{ unfold ckv_of, flat_member. rewrite Hcfg. cbn [option_map rdel app]. rewrite app_nil_r. reflexivity. }
  destruct (find_oneof_member md m o) as [f|] eqn:Hmem.
  2:{ unfold ckv_of, flat_member. rewrite Hcfg, Hmem. cbn [option_map rdel app]. rewrite app_nil_r. reflexivity. }
  cbv zeta.
  assert (Hd : ~ In (o_discriminator o) (keys raw)).
  { intros Hin. apply (Hfresh (o_discriminator o)); [left; reflexivity|exact Hin]. }
  rewrite (raw_set_fresh _ _ raw Hd).
  destruct (o_flatten o && is_msg_kind (f_kind f)) eqn:Efl.
  2:{ assert (Hfm0 : flat_member md m o = None) by (unfold flat_member; rewrite Hcfg, Hmem, Efl; reflexivity).
      unfold ckv_of. rewrite Hfm0. cbn [option_map rdel]. rewrite app_nil_r. reflexivity. }
  assert (Hfm1 : flat_member md m o = Some f) by (unfold flat_member; rewrite Hcfg, Hmem, Efl; reflexivity).
  destruct (flat_render o f ks Ho Hfm1 Hks) as [ctn [cmd [cm [_ [_ [_ [Hkid _]]]]]]].
  rewrite Hkid, Hfm1. cbn [option_map rdel].
  cbn [app keys map fst] in Hnd0. inversion Hnd0 as [|a l Ha Hl]; subst.
  rewrite fold_raw_set_fresh.
  - rewrite !NullableFacts.raw_del_app, <- app_assoc.
    rewrite (raw_del_fresh (jn f) [(o_discriminator o, JStr (disc_value f))]), (raw_del_fresh (jn f) (ckv_of o)); [reflexivity| |].
    + intros Hin. apply (Hdel (jn f)); [rewrite Hfm1; left; reflexivity|].
      rewrite keys_app. apply in_or_app. right. exact Hin.
    + intros Hin. apply (Hdel (jn f)); [rewrite Hfm1; left; reflexivity|].
      rewrite keys_app. apply in_or_app. left. exact Hin.
  - exact Hl.
  - intros k Hk Hin. rewrite keys_app in Hin. apply in_app_or in Hin. destruct Hin as [Hin|Hin].
    + apply (Hfresh k); [right; exact Hk|exact Hin].
    + cbn in Hin. destruct Hin as [Hin|[]]. subst k. exact (Ha Hk).
Qed.

(* MarshalJSON: all oneofs *)
Lemma enc_fold ks : NullableFacts.kids_loop E sc FtOneof md m = ROk ks ->
  forall os raw, (forall o, In o os -> In o (m_oneofs md)) ->
  NoDup (flat_map (fun o => keys (adds o)) os) -> disj (flat_map (fun o => keys (adds o)) os) (keys raw) ->
  disj (flat_map (fun o => opt_list (del o)) os) (flat_map (fun o => keys (adds o)) os) ->
  fold_left (fun acc o => acc >>= enc1 md m ks o) os (ROk raw) =
  ROk (del_all (flat_map (fun o => opt_list (del o)) os) raw ++ flat_map adds os).
Proof.
  intros Hks. induction os as [|o r IH]; intros raw Hsub Hnd0 Hfresh Hdel.
  - cbn [fold_left flat_map]. rewrite app_nil_r. unfold del_all. cbn [existsb negb].
    f_equal. symmetry. clear. induction raw as [|e t IHt]; [reflexivity|]. cbn [filter]. rewrite IHt. reflexivity.
  - cbn [fold_left flat_map rbind] in *. destruct (NoDup_app_inv _ _ Hnd0) as [Hnd_o [Hnd_r Hnd_d]].
    rewrite (enc1_spec o ks raw (Hsub o (or_introl eq_refl)) Hks Hnd_o).
    + rewrite IH.
      * f_equal. rewrite del_all_app. rewrite <- app_assoc. f_equal.
        -- destruct (del o) as [k|] eqn:Edel; cbn [rdel opt_list app].
           ++ unfold del_all, raw_del. clear. induction raw as [|e t IHt]; [reflexivity|]. cbn [filter existsb].
              destruct (str_eqb (fst e) k); cbn [negb filter orb]; [exact IHt|].
              destruct (existsb (str_eqb (fst e)) _); cbn [negb]; rewrite IHt; reflexivity.
           ++ reflexivity.
        -- f_equal. apply del_all_disj. intros k Hk Hin. apply (Hdel k); [apply in_or_app; right; exact Hin|apply in_or_app; left; exact Hk].
      * intros o' Ho'. apply Hsub. right. exact Ho'.
      * exact Hnd_r.
      * intros k Hk Hin. rewrite keys_app in Hin. apply in_app_or in Hin. destruct Hin as [Hin|Hin].
        -- apply (Hfresh k); [apply in_or_app; right; exact Hk|].
           destruct (del o); cbn [rdel] in Hin; [|exact Hin]. unfold keys, raw_del in Hin. apply in_map_iff in Hin.
           destruct Hin as [e [He Hin]]. apply filter_In in Hin. subst k. apply in_map. apply Hin.
        -- exact (Hnd_d k Hin Hk).
      * intros k Hk Hin. apply (Hdel k); apply in_or_app; right; assumption.
    + intros k Hk Hin. apply (Hfresh k); [apply in_or_app; left; exact Hk|exact Hin].
    + intros k Hk Hin. apply (Hdel k); apply in_or_app; left; assumption.
Qed.
(* ---- UnmarshalJSON: one oneof ---------------------------------------------------------------------------------------------- *)
Definition probe (o : oneof) : list str := probe_keys sc md m o.
Definition bk (o : oneof) : list str := opt_list (del o).

(* the non-flattened message member is still where protojson put it, and encoding/json accepts it *)
Definition pre (n : nat) (o : oneof) (P : rawmap) : Prop :=
  forall f, oneof_cfg o = true -> find_oneof_member md m o = Some f -> is_msg_kind (f_kind f) = true ->
  o_flatten o = false -> exists vj r, raw_get (jn f) P = Some vj /\ gj_un E sc n (f_kind f) vj = ROk r.

Lemma find_variant o f : In o (m_oneofs md) -> oneof_cfg o = true -> find_oneof_member md m o = Some f ->
  find (fun g => match f_oneof g with
                 | Some on => str_eqb on (o_name o) && str_eqb (disc_value g) (disc_value f)
                 | None => false end) (m_fields md) = Some f.
Proof.
  intros Ho Hcfg Hmem. destruct (member_facts o f Hmem) as [Hin [Hoo _]].
  unfold disc_values_ok in Hdv. rewrite forallb_forall in Hdv. specialize (Hdv o Ho). rewrite Hcfg in Hdv. cbn [negb orb] in Hdv.
  assert (Hv : forall g, In g (m_fields md) -> f_oneof g = Some (o_name o) -> In g (variants_of md o)).
  { intros g Hg Hgo. unfold variants_of. apply filter_In. split; [exact Hg|]. rewrite Hgo. apply str_eqb_refl. }
  apply find_unique.
  - exact Hin.
  - rewrite Hoo, !str_eqb_refl. reflexivity.
  - intros g Hg Hp. destruct (f_oneof g) as [on|] eqn:Ego; [|discriminate Hp]. apply andb_prop in Hp. destruct Hp as [H1 H2].
    apply str_eqb_eq in H1. apply str_eqb_eq in H2. subst on.
    exact (nodup_map_inj disc_value (variants_of md o) g f Hdv (Hv g Hg Ego) (Hv f Hin Hoo) H2).
Qed.

Lemma dec1_spec n o ks P Q : In o (m_oneofs md) ->
  NullableFacts.kids_loop E sc FtOneof md m = ROk ks ->
  NoDup (probe o) -> disj (probe o) (keys P) -> disj (probe o) (keys Q) ->
  disj (bk o) (keys P) -> disj (bk o) (keys Q) -> disj (bk o) (probe o) ->
  pre (S (S n)) o P ->
  dec1 E sc (S (S n)) md o (P ++ adds o ++ Q) = ROk (P ++ kept o ++ Q ++ backs o).
Proof.
  intros Ho Hks Hnp HpP HpQ HbP HbQ Hbp Hpre. unfold dec1, adds, kept, backs, probe, probe_keys, bk, del in *.
  destruct (oneof_cfg o) eqn:Hcfg.
  2:{ unfold ckv_of, flat_member. rewrite Hcfg. cbn [app]. rewrite app_nil_r. reflexivity. }
  destruct (find_oneof_member md m o) as [f|] eqn:Hmem.
  2:{ assert (Hfm0 : flat_member md m o = None) by (unfold flat_member; rewrite Hcfg, Hmem; reflexivity).
      unfold ckv_of. rewrite Hfm0 in *. cbn [app]. rewrite app_nil_r.
      rewrite raw_get_notin; [reflexivity|]. rewrite keys_app. intros Hin. apply in_app_or in Hin.
      destruct Hin as [Hin|Hin]; [exact (HpP _ (or_introl eq_refl) Hin)|exact (HpQ _ (or_introl eq_refl) Hin)]. }
  assert (HdP : ~ In (o_discriminator o) (keys P)) by (intros Hin; exact (HpP _ (or_introl eq_refl) Hin)).
  cbn [app]. rewrite (raw_get_here (o_discriminator o) _ P _ HdP). cbn [rbind].
  rewrite (find_variant o f Ho Hcfg Hmem).
  destruct (is_msg_kind (f_kind f)) eqn:Hmsg; cbn [negb].
  2:{ assert (Hfm0 : flat_member md m o = None) by (unfold flat_member; rewrite Hcfg, Hmem, Hmsg, Bool.andb_false_r; reflexivity).
      unfold ckv_of. rewrite Hfm0. cbn [app]. rewrite app_nil_r. reflexivity. }
  destruct (o_flatten o) eqn:Hfl.
  2:{ assert (Hfm0 : flat_member md m o = None) by (unfold flat_member; rewrite Hcfg, Hmem, Hfl; reflexivity).
      unfold ckv_of. rewrite Hfm0. cbn [app]. rewrite app_nil_r.
      destruct (Hpre f Hcfg Hmem Hmsg Hfl) as [vj [r [Hg Hun]]].
      rewrite (NullableFacts.raw_get_app_l _ P _ vj Hg), Hun. reflexivity. }
  (* flattened message member *)
  assert (Hfm1 : flat_member md m o = Some f) by (unfold flat_member; rewrite Hcfg, Hmem, Hfl, Hmsg; reflexivity).
  rewrite Hfm1 in *. cbn [option_map opt_list] in HbP, HbQ, Hbp.
  destruct (flat_render o f ks Ho Hfm1 Hks) as [ctn [cmd [cm [Hk [Hmv [Hclk [_ [Hgj HF]]]]]]]].
  destruct (msg_member o f Ho Hcfg Hmem Hmsg) as [ctn' [cmd' [cm' [Hk' [Hg [Hinm [Hcts [Hcwk [Hcfm [Hclk' [Hcown [Hcok [Hcs [Hcwf Hc]]]]]]]]]]]]]].
  assert (ctn' = ctn) by congruence. subst ctn'. assert (cmd' = cmd) by congruence. subst cmd'.
  assert (cm' = cm) by (unfold mem_val in Hmv; rewrite Hg in Hmv; congruence). subst cm'. clear Hk' Hclk'.
  rewrite Hfl in Hc.
  assert (Hmn : msg_name (f_kind f) = ctn) by (rewrite Hk; reflexivity).
  unfold child_jns in *. rewrite Hmn, Hclk in *.
  set (ckv := ckv_of o) in *. set (dv := JStr (disc_value f)) in *. set (d := o_discriminator o) in *.
  inversion Hnp as [|a l Hdck Hck]; subst a l.
  pose proof (BytesFacts.msg_ok_nodup_jn cmd Hcok) as Hcjn.
  pose proof (gj_ent_keys cmd cm ckv HF) as Hkeys_ckv.
  assert (Hnames : NoDup (map fst cm)) by (apply TimestampFacts.nodup_str_NoDup, (TimestampFacts.sorted_names_nodup cmd cm Hcs)).
  (* every key of the inlined child is one of the child's JSON names *)
  assert (Hsub : forall k, In k (keys ckv) -> In k (map jn (m_fields cmd))).
  { intros k Hin. rewrite Hkeys_ckv in Hin. apply in_map_iff in Hin. destruct Hin as [[name x] [Hn Hin]]. cbn [fst] in Hn. subst k.
    destruct (flat_child_in sc cmd cm Hcwf name x Hc Hin) as [g [_ [Hing [Hgn [Hjn _]]]]].
    apply in_map_iff. exists g. split; [unfold jn; rewrite Hgn; exact Hjn|exact Hing]. }
  (* the probes find exactly the inlined entries *)
  assert (Hget : forall cf, In cf (m_fields cmd) -> raw_get (jn cf) (P ++ (d, dv) :: ckv ++ Q) = raw_get (jn cf) ckv).
  { intros cf Hcf. assert (Hjin : In (jn cf) (map jn (m_fields cmd))) by (apply in_map; exact Hcf). apply raw_get_mid.
    - intros Hin. exact (HpP _ (or_intror Hjin) Hin).
    - intros Heq. apply Hdck. rewrite <- Heq. exact Hjin.
    - intros Hin. exact (HpQ _ (or_intror Hjin) Hin). }
  assert (Hvmap : flat_map (fun cf => match raw_get (jn cf) (P ++ (d, dv) :: ckv ++ Q) with Some v => [(jn cf, v)] | None => [] end) (m_fields cmd)
                  = flat_map (fun cf => match raw_get (jn cf) ckv with Some v => [(jn cf, v)] | None => [] end) (m_fields cmd)).
  { clear -Hget. induction (m_fields cmd) as [|cf r IH]; [reflexivity|]. cbn [flat_map].
    rewrite (Hget cf (or_introl eq_refl)), IH; [reflexivity|]. intros c Hc0. apply Hget. right. exact Hc0. }
  rewrite Hvmap.
  assert (HF2 : Forall2 (fv_ent E sc cmd) (by_fields cmd cm)
                  (flat_map (fun cf => match raw_get (jn cf) ckv with Some v => [(jn cf, v)] | None => [] end) (m_fields cmd))).
  { unfold by_fields. apply Forall2_flat_map. intros cf Hcf.
    destruct (mget cm (f_name cf)) as [x|] eqn:Egx.
    - pose proof (Int64Facts.mget_pair cm _ _ Egx) as Hinx.
      destruct (flat_child_in sc cmd cm Hcwf _ x Hc Hinx) as [g [Hgf [Hing [Hgn [Hjn [Hgo [_ Hw]]]]]]].
      assert (g = cf) by (rewrite (find_self _ cf Hcjn Hcf) in Hgf; congruence). subst g.
      assert (Hjcf : jn cf = f_name cf) by (unfold jn; exact Hjn).
      (* the entry of ckv *)
      assert (Hex1 : exists j, In (f_name cf, j) ckv /\ gj_fval E sc (f_kind cf) x = ROk j).
      { clear -HF Hinx Hgf. induction HF as [|a b r r' Hab _ IH]; [destruct Hinx|]. destruct Hinx as [Hx|Hx].
        - subst a. destruct Hab as [g [Hg [Hk Hj]]]. cbn [fst snd] in *. assert (g = cf) by congruence. subst g.
          exists (snd b). split; [left; destruct b; cbn [fst snd] in *; subst; reflexivity|exact Hj].
        - destruct (IH Hx) as [j [Hj1 Hj2]]. exists j. split; [right; exact Hj1|exact Hj2]. }
      destruct Hex1 as [j [Hinj Hj]].
      rewrite Hjcf, (raw_get_nodup_in _ j ckv); [|rewrite Hkeys_ckv; exact Hnames|exact Hinj].
      constructor; [|constructor]. unfold fv_ent. cbn [fst snd]. repeat split; assumption.
    - assert (Hno : ~ In (jn cf) (keys ckv)).
      { rewrite Hkeys_ckv. intros Hin. apply in_map_iff in Hin. destruct Hin as [[name x] [Hn Hin]]. cbn [fst] in Hn.
        destruct (flat_child_in sc cmd cm Hcwf name x Hc Hin) as [g [_ [Hing [Hgn [Hjn _]]]]].
        assert (g = cf). { apply (NullableFacts.nodup_jn_inj (m_fields cmd) g cf Hcjn Hing Hcf). unfold jn at 1. rewrite Hgn, Hjn. exact Hn. }
        subst g. rewrite Hgn, (BytesFacts.sorted_mget cmd cm name x Hcs Hin) in Egx. discriminate Egx. }
      rewrite (raw_get_notin _ _ Hno). constructor. }
  pose proof (by_fields_perm cmd cm Hcjn (proj1 (andb_prop _ _ Hcok)) Hcs (BytesFacts.wt_fields_declared sc cmd cm Hcwf)) as HP.
  (* json.Marshal(variantMap) writes the keys in byte order: the same entries, permuted *)
  destruct (ClashFacts.Forall2_perm_r (fv_ent E sc cmd) _ _ (Permutation_sym (ClashFacts.raw_sort_perm _)) _ HF2) as [fvs' [HPf HF3]].
  rewrite Hk. rewrite (flat_gj_un E EL sc ctn cmd cm Hcts Hcwk Hcfm Hcown Hcok Hcs Hcwf n _ _ HF3
                         (Permutation_trans (Permutation_sym HPf) HP)). cbn [rbind].
  rewrite <- Hk, Hgj.
  rewrite fold_raw_del_map.
  assert (Hdel : del_all (map jn (m_fields cmd)) (P ++ (d, dv) :: ckv ++ Q) = P ++ [(d, dv)] ++ Q).
  { change ((d, dv) :: ckv ++ Q) with ([(d, dv)] ++ ckv ++ Q). rewrite !del_all_app.
    rewrite (del_all_disj _ P), (del_all_disj _ [(d, dv)]), (del_all_sub _ ckv Hsub), (del_all_disj _ Q); [reflexivity| | |].
    - intros k Hk0 Hin. exact (HpQ k (or_intror Hin) Hk0).
    - intros k Hk0 Hin. cbn in Hk0. destruct Hk0 as [Hk0|[]]. subst k. exact (Hdck Hin).
    - intros k Hk0 Hin. exact (HpP k (or_intror Hin) Hk0). }
  rewrite Hdel. rewrite raw_set_fresh.
  - f_equal. rewrite <- !app_assoc. reflexivity.
  - rewrite !keys_app. intros Hin. apply in_app_or in Hin. destruct Hin as [Hin|Hin]; [exact (HbP _ (or_introl eq_refl) Hin)|].
    apply in_app_or in Hin. destruct Hin as [Hin|Hin]; [|exact (HbQ _ (or_introl eq_refl) Hin)].
    cbn in Hin. destruct Hin as [Hin|[]]. apply (Hbp (jn f)); [left; reflexivity|left; exact Hin].
Qed.
(* ---- UnmarshalJSON: all oneofs ------------------------------------------------------------------------------------------------ *)
Lemma probes_nodup : NoDup (flat_map probe (m_oneofs md)).
Proof.
  unfold oneof_keys_ok in Hkeys. apply TimestampFacts.nodup_str_NoDup in Hkeys. apply NoDup_app_inv in Hkeys. apply Hkeys.
Qed.
Lemma probes_fields : disj (flat_map probe (m_oneofs md)) (map jn (set_fields md m)).
Proof.
  unfold oneof_keys_ok in Hkeys. apply TimestampFacts.nodup_str_NoDup in Hkeys. apply NoDup_app_inv in Hkeys.
  destruct Hkeys as [_ [_ Hd]]. intros k H1 H2. exact (Hd k H2 H1).
Qed.

Lemma kept_keys o : incl (keys (kept o)) (probe o).
Proof.
  unfold kept, probe, probe_keys. destruct (oneof_cfg o); [|intros k []].
  destruct (find_oneof_member md m o); [|intros k []]. intros k [Hk|[]]. left. exact Hk.
Qed.
Lemma ckv_keys o ks : In o (m_oneofs md) -> NullableFacts.kids_loop E sc FtOneof md m = ROk ks ->
  incl (keys (ckv_of o)) (probe o) /\ NoDup (keys (ckv_of o)) /\ ~ In (o_discriminator o) (keys (ckv_of o)) \/ ckv_of o = [].
Proof.
  intros Ho Hks. destruct (flat_member md m o) as [f|] eqn:Hfm1; [left|right; unfold ckv_of; rewrite Hfm1; reflexivity].
  destruct (flat_member_inv o f Hfm1) as [Hcfg [Hmem [Hfl Hmsg]]].
  destruct (flat_render o f ks Ho Hfm1 Hks) as [ctn [cmd [cm [Hk [Hmv [Hclk [_ [Hgj HF]]]]]]]].
  destruct (msg_member o f Ho Hcfg Hmem Hmsg) as [ctn' [cmd' [cm' [Hk' [Hg [Hinm [Hcts [Hcwk [Hcfm [Hclk' [Hcown [Hcok [Hcs [Hcwf Hc]]]]]]]]]]]]]].
  assert (ctn' = ctn) by congruence. subst ctn'. assert (cmd' = cmd) by congruence. subst cmd'.
  assert (cm' = cm) by (unfold mem_val in Hmv; rewrite Hg in Hmv; congruence). subst cm'. rewrite Hfl in Hc.
  pose proof (gj_ent_keys cmd cm _ HF) as Hkeys_ckv.
  assert (Hsub : incl (keys (ckv_of o)) (map jn (m_fields cmd))).
  { intros k Hin. rewrite Hkeys_ckv in Hin. apply in_map_iff in Hin. destruct Hin as [[name x] [Hn Hin]]. cbn [fst] in Hn. subst k.
    destruct (flat_child_in sc cmd cm Hcwf name x Hc Hin) as [g [_ [Hing [Hgn [Hjn _]]]]].
    apply in_map_iff. exists g. split; [unfold jn; rewrite Hgn; exact Hjn|exact Hing]. }
  assert (Hprobe : probe o = o_discriminator o :: map jn (m_fields cmd)).
  { unfold probe, probe_keys, child_jns. rewrite Hcfg, Hfm1, Hk. cbn [msg_name]. rewrite Hclk. reflexivity. }
  split; [|split].
  - rewrite Hprobe. intros k Hk0. right. apply Hsub. exact Hk0.
  - rewrite Hkeys_ckv. apply TimestampFacts.nodup_str_NoDup, (TimestampFacts.sorted_names_nodup cmd cm Hcs).
  - intros Hin. apply Hsub in Hin.
    pose proof (NoDup_flat_map_in probe (m_oneofs md) o probes_nodup Ho) as Hnp.
    rewrite Hprobe in Hnp. inversion Hnp; subst. contradiction.
Qed.

Lemma adds_keys o ks : In o (m_oneofs md) -> NullableFacts.kids_loop E sc FtOneof md m = ROk ks -> incl (keys (adds o)) (probe o).
Proof.
  intros Ho Hks. unfold adds. rewrite keys_app. apply incl_app; [apply kept_keys|].
  destruct (ckv_keys o ks Ho Hks) as [[H _]|H]; [exact H|rewrite H; intros k []].
Qed.
Lemma backs_keys o : keys (backs o) = bk o.
Proof. unfold backs, bk, del. destruct (flat_member md m o); reflexivity. Qed.

Lemma incl_flat_map {A} (g h : A -> list str) os : (forall o, In o os -> incl (g o) (h o)) -> incl (flat_map g os) (flat_map h os).
Proof.
  intros H k Hk. apply in_flat_map in Hk. destruct Hk as [o [Ho Hk]]. apply in_flat_map. exists o. split; [exact Ho|exact (H o Ho k Hk)].
Qed.
Lemma keys_flat_map {A} (g : A -> rawmap) os : keys (flat_map g os) = flat_map (fun o => keys (g o)) os.
Proof. induction os as [|o r IH]; [reflexivity|]. cbn [flat_map]. rewrite keys_app, IH. reflexivity. Qed.

Lemma pre_mono n o P X : pre n o P -> pre n o (P ++ X).
Proof.
  intros H f H1 H2 H3 H4. destruct (H f H1 H2 H3 H4) as [vj [r [Hg Hu]]]. exists vj, r. split; [|exact Hu].
  exact (NullableFacts.raw_get_app_l _ P X vj Hg).
Qed.

Lemma dec_fold n ks : NullableFacts.kids_loop E sc FtOneof md m = ROk ks ->
  forall os P Q, (forall o, In o os -> In o (m_oneofs md)) ->
  NoDup (flat_map probe os) -> NoDup (flat_map bk os) -> disj (flat_map bk os) (flat_map probe os) ->
  disj (flat_map probe os) (keys P) -> disj (flat_map probe os) (keys Q) ->
  disj (flat_map bk os) (keys P) -> disj (flat_map bk os) (keys Q) ->
  (forall o, In o os -> pre (S (S n)) o P) ->
  fold_left (fun acc o => acc >>= dec1 E sc (S (S n)) md o) os (ROk (P ++ flat_map adds os ++ Q)) =
  ROk (P ++ flat_map kept os ++ Q ++ flat_map backs os).
Proof.
  intros Hks. induction os as [|o r IH]; intros P Q Hsub Hnp Hnb Hbp HpP HpQ HbP HbQ Hpre.
  - cbn [fold_left flat_map app]. rewrite app_nil_r. reflexivity.
  - cbn [flat_map] in *. destruct (NoDup_app_inv _ _ Hnp) as [Hnp_o [Hnp_r Hnp_d]]. destruct (NoDup_app_inv _ _ Hnb) as [Hnb_o [Hnb_r Hnb_d]].
    pose proof (Hsub o (or_introl eq_refl)) as Ho.
    assert (Hsub_r : forall o', In o' r -> In o' (m_oneofs md)) by (intros o' Ho'; apply Hsub; right; exact Ho').
    assert (Hadds_r : incl (keys (flat_map adds r)) (flat_map probe r)).
    { rewrite keys_flat_map. apply incl_flat_map. intros o' Ho'. apply (adds_keys o' ks (Hsub_r o' Ho') Hks). }
    cbn [fold_left rbind]. rewrite <- !app_assoc.
    rewrite (dec1_spec n o ks P (flat_map adds r ++ Q) Ho Hks Hnp_o).
    + replace (P ++ kept o ++ (flat_map adds r ++ Q) ++ backs o) with ((P ++ kept o) ++ flat_map adds r ++ (Q ++ backs o))
        by (rewrite <- !app_assoc; reflexivity).
      rewrite (IH (P ++ kept o) (Q ++ backs o) Hsub_r Hnp_r Hnb_r).
      * rewrite <- !app_assoc. reflexivity.
      * intros k Hk1 Hk2. apply (Hbp k); apply in_or_app; right; assumption.
      * intros k Hk Hin. rewrite keys_app in Hin. apply in_app_or in Hin. destruct Hin as [Hin|Hin].
        -- apply (HpP k); [apply in_or_app; right; exact Hk|exact Hin].
        -- apply kept_keys in Hin. exact (Hnp_d k Hin Hk).
      * intros k Hk Hin. rewrite keys_app in Hin. apply in_app_or in Hin. destruct Hin as [Hin|Hin].
        -- apply (HpQ k); [apply in_or_app; right; exact Hk|exact Hin].
        -- rewrite backs_keys in Hin. apply (Hbp k); apply in_or_app; [left; exact Hin|right; exact Hk].
      * intros k Hk Hin. rewrite keys_app in Hin. apply in_app_or in Hin. destruct Hin as [Hin|Hin].
        -- apply (HbP k); [apply in_or_app; right; exact Hk|exact Hin].
        -- apply kept_keys in Hin. apply (Hbp k); apply in_or_app; [right; exact Hk|left; exact Hin].
      * intros k Hk Hin. rewrite keys_app in Hin. apply in_app_or in Hin. destruct Hin as [Hin|Hin].
        -- apply (HbQ k); [apply in_or_app; right; exact Hk|exact Hin].
        -- rewrite backs_keys in Hin. exact (Hnb_d k Hin Hk).
      * intros o' Ho'. apply pre_mono. apply Hpre. right. exact Ho'.
    + intros k Hk Hin. apply (HpP k); [apply in_or_app; left; exact Hk|exact Hin].
    + intros k Hk Hin. rewrite keys_app in Hin. apply in_app_or in Hin. destruct Hin as [Hin|Hin].
      * apply Hadds_r in Hin. exact (Hnp_d k Hk Hin).
      * apply (HpQ k); [apply in_or_app; left; exact Hk|exact Hin].
    + intros k Hk Hin. apply (HbP k); [apply in_or_app; left; exact Hk|exact Hin].
    + intros k Hk Hin. rewrite keys_app in Hin. apply in_app_or in Hin. destruct Hin as [Hin|Hin].
      * apply Hadds_r in Hin. apply (Hbp k); apply in_or_app; [left; exact Hk|right; exact Hin].
      * apply (HbQ k); [apply in_or_app; left; exact Hk|exact Hin].
    + intros k Hk Hin. apply (Hbp k); apply in_or_app; left; assumption.
    + apply Hpre. left. reflexivity.
Qed.

Lemma discs_probe os : incl (discs os) (flat_map probe os).
Proof.
  unfold discs. apply incl_flat_map. intros o _. unfold probe, probe_keys. destruct (oneof_cfg o); [|intros k []].
  intros k [Hk|[]]. left. exact Hk.
Qed.
Lemma kept_keys_discs os : (forall o, In o os -> True) -> incl (keys (flat_map kept os)) (discs os).
Proof.
  intros _. rewrite keys_flat_map. unfold discs. apply incl_flat_map. intros o _. unfold kept.
  destruct (oneof_cfg o); [|intros k []]. destruct (find_oneof_member md m o); [|intros k []]. intros k Hk. exact Hk.
Qed.
(* ---- the keys that are moved: the flattened members' own keys ---------------------------------------------------------------- *)
Definition D : list str := flat_map bk (m_oneofs md).

Lemma oneofs_nodup : NoDup (m_oneofs md).
Proof. apply (NoDup_map_inv o_name). apply TimestampFacts.nodup_str_NoDup. exact Hon. Qed.

Lemma flat_member_unique o o' f f' : In o (m_oneofs md) -> In o' (m_oneofs md) ->
  flat_member md m o = Some f -> flat_member md m o' = Some f' -> jn f = jn f' -> o = o' /\ f = f'.
Proof.
  intros Ho Ho' Hf Hf' Hj. destruct (flat_member_inv o f Hf) as [_ [Hmem _]]. destruct (flat_member_inv o' f' Hf') as [_ [Hmem' _]].
  destruct (member_facts o f Hmem) as [Hin [Hoo _]]. destruct (member_facts o' f' Hmem') as [Hin' [Hoo' _]].
  assert (f = f') by exact (NullableFacts.nodup_jn_inj (m_fields md) f f' Hnd Hin Hin' Hj). subst f'. split; [|reflexivity].
  assert (Hn : o_name o = o_name o') by congruence.
  exact (nodup_map_inj o_name (m_oneofs md) o o' Hon Ho Ho' Hn).
Qed.

Lemma D_nodup : NoDup D.
Proof.
  unfold D. pose proof oneofs_nodup as Hno.
  assert (Hinj : forall o o' k, In o (m_oneofs md) -> In o' (m_oneofs md) -> In k (bk o) -> In k (bk o') -> o = o').
  { intros o o' k Ho Ho' Hk Hk'. unfold bk, del in Hk, Hk'.
    destruct (flat_member md m o) as [f|] eqn:Hf; [|destruct Hk]. destruct (flat_member md m o') as [f'|] eqn:Hf'; [|destruct Hk'].
    cbn in Hk, Hk'. destruct Hk as [Hk|[]]. destruct Hk' as [Hk'|[]]. subst k.
    exact (proj1 (flat_member_unique o o' f f' Ho Ho' Hf Hf' (eq_sym Hk'))). }
  revert Hno Hinj. generalize (m_oneofs md). intros os. induction os as [|o r IH]; intros Hno Hinj; [constructor|].
  inversion Hno as [|a l Ha Hl]; subst. cbn [flat_map]. apply NoDup_app_intro.
  - unfold bk. destruct (del o); cbn [opt_list]; [constructor; [intros []|constructor]|constructor].
  - apply IH; [exact Hl|]. intros o1 o2 k H1 H2. apply Hinj; right; assumption.
  - intros k Hk Hin. apply in_flat_map in Hin. destruct Hin as [o' [Ho' Hk']].
    assert (o = o') by (apply (Hinj o o' k); [left; reflexivity|right; exact Ho'|exact Hk|exact Hk']). subst o'. exact (Ha Ho').
Qed.

Lemma D_in k : In k D <-> exists o f, In o (m_oneofs md) /\ flat_member md m o = Some f /\ k = jn f.
Proof.
  unfold D. rewrite in_flat_map. split.
  - intros [o [Ho Hk]]. unfold bk, del in Hk. destruct (flat_member md m o) as [f|] eqn:Hf; [|destruct Hk].
    cbn in Hk. destruct Hk as [Hk|[]]. exists o, f. auto.
  - intros [o [f [Ho [Hf Hk]]]]. exists o. split; [exact Ho|]. unfold bk, del. rewrite Hf. left. symmetry. exact Hk.
Qed.

Lemma set_field_jn f : In f (m_fields md) -> (exists x, mget m (f_name f) = Some x) -> In (jn f) (map jn (set_fields md m)).
Proof.
  intros Hin [x Hx]. apply in_map. unfold set_fields. apply filter_In. split; [exact Hin|]. rewrite Hx. reflexivity.
Qed.

Lemma D_probe : disj D (flat_map probe (m_oneofs md)).
Proof.
  intros k Hk Hp. apply D_in in Hk. destruct Hk as [o [f [Ho [Hf Hk]]]]. subst k.
  destruct (flat_member_inv o f Hf) as [_ [Hmem _]]. destruct (member_facts o f Hmem) as [Hin [_ [_ [_ [x [Hx _]]]]]].
  apply (probes_fields (jn f) Hp). apply set_field_jn; [exact Hin|exists x; exact Hx].
Qed.

(* ---- what protojson wrote -------------------------------------------------------------------------------------------------------- *)
Section Rendered.
Variable es : list (str * json).
Hypothesis Hes : m_msg E sc md m = ROk es.
Variable ks : kids_t.
Hypothesis Hks : NullableFacts.kids_loop E sc FtOneof md m = ROk ks.

Definition F : rawmap := del_all D es.

Lemma names_nodup : NoDup (map fst m).
Proof. exact (Int64Facts.sorted_names_nodup md m Hsorted). Qed.

Lemma es_keys_nodup : NoDup (keys es).
Proof.
  unfold keys. rewrite (NullableFacts.m_msg_keys E sc md m es Hes).
  apply (TimestampFacts.json_keys_nodup md m Hnd); [exact (TimestampFacts.sorted_names_nodup md m Hsorted)|exact Hdecl].
Qed.

Lemma es_keys_set : incl (keys es) (map jn (set_fields md m)).
Proof.
  intros k Hk. unfold keys in Hk. rewrite (NullableFacts.m_msg_keys E sc md m es Hes) in Hk.
  apply in_map_iff in Hk. destruct Hk as [[name x] [Hn Hin]]. cbn [fst] in Hn. subst k.
  destruct (BytesFacts.wt_fields_in sc md m name x Hwf Hin) as [f [Hf _]]. destruct (find_field_spec _ _ _ Hf) as [Hinf Hname].
  assert (Hj : json_name name = jn f) by (unfold jn; rewrite Hname; reflexivity). rewrite Hj.
  apply set_field_jn; [exact Hinf|]. exists x. rewrite Hname. exact (BytesFacts.sorted_mget md m name x Hsorted Hin).
Qed.

Lemma del_all_keys ds r : incl (keys (del_all ds r)) (keys r).
Proof. intros k Hk. unfold keys, del_all in *. apply in_map_iff in Hk. destruct Hk as [e [He Hin]]. apply filter_In in Hin. subst k. apply in_map. apply Hin. Qed.
Lemma del_all_gone ds r k : In k ds -> ~ In k (keys (del_all ds r)).
Proof.
  intros Hk Hin. unfold keys, del_all in Hin. apply in_map_iff in Hin. destruct Hin as [e [He Hin]]. apply filter_In in Hin. destruct Hin as [_ Hp].
  apply Bool.negb_true_iff in Hp. subst k. assert (existsb (str_eqb (fst e)) ds = true) by (apply existsb_exists; exists (fst e); split; [exact Hk|apply str_eqb_refl]).
  congruence.
Qed.
Lemma del_all_nodup ds r : NoDup (keys r) -> NoDup (keys (del_all ds r)).
Proof.
  unfold keys, del_all. induction r as [|e t IH]; intros H; [constructor|]. cbn [map] in H. inversion H as [|a l Ha Hl]; subst. cbn [filter].
  destruct (negb (existsb (str_eqb (fst e)) ds)); [|exact (IH Hl)]. cbn [map]. constructor; [|exact (IH Hl)].
  intros Hin. apply Ha. apply in_map_iff in Hin. destruct Hin as [e' [He' Hin']]. apply filter_In in Hin'. rewrite <- He'. apply in_map. apply Hin'.
Qed.

Lemma F_probe : disj (flat_map probe (m_oneofs md)) (keys F).
Proof. intros k Hp Hk. apply del_all_keys in Hk. apply es_keys_set in Hk. exact (probes_fields k Hp Hk). Qed.
Lemma F_D : disj D (keys F).
Proof. intros k Hd Hk. exact (del_all_gone D es k Hd Hk). Qed.

(* MarshalJSON, all in all *)
Lemma enc_all : enc_oneof md m ks es = ROk (F ++ flat_map adds (m_oneofs md)).
Proof.
  rewrite enc_oneof_fold. rewrite (enc_fold ks Hks (m_oneofs md) es (fun o H => H)).
  - reflexivity.
  - (* distinct added keys *)
    assert (Hgen : forall os, (forall o, In o os -> In o (m_oneofs md)) -> NoDup (flat_map probe os) -> NoDup (flat_map (fun o => keys (adds o)) os)).
    { induction os as [|o r IH]; intros Hsub Hn; [constructor|]. cbn [flat_map] in *. apply NoDup_app_inv in Hn. destruct Hn as [Ho [Hr Hd]].
      apply NoDup_app_intro.
      - unfold adds. rewrite keys_app. pose proof (Hsub o (or_introl eq_refl)) as Hin.
        destruct (ckv_keys o ks Hin Hks) as [[Hinc [Hndc Hdc]]|Hnil].
        + apply NoDup_app_intro; [|exact Hndc|].
          * unfold kept. destruct (oneof_cfg o); [|constructor]. destruct (find_oneof_member md m o); [|constructor]. constructor; [intros []|constructor].
          * intros k Hk1 Hk2. unfold kept in Hk1. destruct (oneof_cfg o); [|destruct Hk1]. destruct (find_oneof_member md m o); [|destruct Hk1].
            cbn in Hk1. destruct Hk1 as [Hk1|[]]. subst k. exact (Hdc Hk2).
        + rewrite Hnil. cbn [keys map]. rewrite app_nil_r.
          unfold kept. destruct (oneof_cfg o); [|constructor]. destruct (find_oneof_member md m o); [|constructor]. constructor; [intros []|constructor].
      - apply IH; [intros o' Ho'; apply Hsub; right; exact Ho'|exact Hr].
      - intros k Hk1 Hk2. apply (Hd k).
        + exact (adds_keys o ks (Hsub o (or_introl eq_refl)) Hks k Hk1).
        + apply in_flat_map in Hk2. destruct Hk2 as [o' [Ho' Hk2]]. apply in_flat_map. exists o'. split; [exact Ho'|].
          exact (adds_keys o' ks (Hsub o' (or_intror Ho')) Hks k Hk2). }
    apply Hgen; [auto|exact probes_nodup].
  - intros k Hk Hin. apply es_keys_set in Hin. apply (probes_fields k); [|exact Hin].
    apply in_flat_map in Hk. destruct Hk as [o [Ho Hk]]. apply in_flat_map. exists o. split; [exact Ho|exact (adds_keys o ks Ho Hks k Hk)].
  - intros k Hk Hin. apply (D_probe k Hk). apply in_flat_map in Hin. destruct Hin as [o [Ho Hin]]. apply in_flat_map. exists o. split; [exact Ho|exact (adds_keys o ks Ho Hks k Hin)].
Qed.
(* the entry protojson wrote for a populated field *)
Lemma es_entry name x f : In (name, x) m -> find_field (m_fields md) name = Some f ->
  exists j, In (jn f, j) es /\ pj_fval E sc (f_kind f) x = ROk j.
Proof.
  intros Hin Hf. pose proof (TimestampFacts.m_msg_entries E sc md m es Hes) as HF.
  destruct (find_field_spec _ _ _ Hf) as [_ Hname].
  clear -HF Hin Hf Hname. induction HF as [|a b r r' Hab _ IH]; [destruct Hin|]. destruct Hin as [Hin|Hin].
  - subst a. destruct Hab as [g [Hg [Hk Hj]]]. cbn [fst snd] in *. assert (g = f) by congruence. subst g.
    exists (snd b). split; [left; destruct b as [k0 j0]; cbn [fst snd] in *; rewrite Hk; unfold jn; rewrite Hname; reflexivity|exact Hj].
  - destruct (IH Hin) as [j [H1 H2]]. exists j. split; [right; exact H1|exact H2].
Qed.

(* UnmarshalJSON up to the final protojson.Unmarshal *)
Lemma dec_all n :
  fold_left (fun acc o => acc >>= dec1 E sc (S (S n)) md o) (m_oneofs md) (ROk (F ++ flat_map adds (m_oneofs md))) =
  ROk (F ++ flat_map kept (m_oneofs md) ++ flat_map backs (m_oneofs md)).
Proof.
  pose proof (dec_fold n ks Hks (m_oneofs md) F [] (fun o H => H) probes_nodup D_nodup D_probe F_probe) as H.
  rewrite !app_nil_r in H. cbn [app] in H. apply H.
  - intros k _ [].
  - exact F_D.
  - intros k _ [].
  - (* the non-flattened message members are where protojson put them *)
    intros o Ho f Hcfg Hmem Hmsg Hfl.
    destruct (msg_member o f Ho Hcfg Hmem Hmsg) as [ctn [cmd [cm [Hk [Hg [Hinm [Hcts [Hcwk [Hcfm [Hclk [Hcown [Hcok [Hcs [Hcwf Hc]]]]]]]]]]]]]].
    rewrite Hfl in Hc. destruct (member_facts o f Hmem) as [Hin [_ [_ [Hself _]]]].
    destruct (es_entry (f_name f) (FM cm) f Hinm Hself) as [j [Hinj Hj]].
    rewrite Hk, pj_fval_FM, Hcts, Hcwk, Hcfm in Hj. apply rbind_ok in Hj. destruct Hj as [ces [Hces Hj]]. inversion Hj; subst j.
    destruct (nonflat_gj_un E EL sc ctn cmd cm Hcts Hcwk Hcfm Hcown Hcok Hcs Hcwf n ces Hc Hces) as [r Hr].
    exists (JObj ces), r. split; [|rewrite Hk; exact Hr].
    apply raw_get_nodup_in; [exact (del_all_nodup D es es_keys_nodup)|].
    unfold F, del_all. apply filter_In. split; [exact Hinj|]. cbn [fst]. apply Bool.negb_true_iff.
    destruct (existsb (str_eqb (jn f)) D) eqn:Ex; [|reflexivity]. exfalso.
    apply existsb_exists in Ex. destruct Ex as [k [Hk0 Hkk]]. apply str_eqb_eq in Hkk. subst k.
    apply D_in in Hk0. destruct Hk0 as [o' [f' [Ho' [Hf' Hjj]]]].
    destruct (flat_member_inv o' f' Hf') as [_ [Hmem' [Hfl' _]]].
    destruct (member_facts o' f' Hmem') as [Hin' [Hoo' _]]. destruct (member_facts o f Hmem) as [_ [Hoo _]].
    assert (f = f') by exact (NullableFacts.nodup_jn_inj (m_fields md) f f' Hnd Hin Hin' Hjj). subst f'.
    assert (Hn : o_name o = o_name o') by congruence.
    assert (o = o') by exact (nodup_map_inj o_name (m_oneofs md) o o' Hon Ho Ho' Hn). subst o'. congruence.
Qed.

(* ---- the final protojson.Unmarshal ------------------------------------------------------------------------------------------------ *)
Definition pm (e : str * fval) : bool := negb (existsb (str_eqb (json_name (fst e))) D).
Definition fb (o : oneof) : list (field * fval) :=
  match flat_member md m o with Some f => [(f, FM (mem_val f))] | None => [] end.

Lemma tags_filter_perm (p : str * fval -> bool) (l : mval) :
  Permutation (tags md l) (tags md (filter p l) ++ tags md (filter (fun e => negb (p e)) l)).
Proof.
  induction l as [|e r IH]; [constructor|]. cbn [filter]. destruct (p e); cbn [negb].
  - change (e :: r) with ([e] ++ r). change (e :: filter p r) with ([e] ++ filter p r). rewrite !tags_app, <- app_assoc.
    apply Permutation_app_head. exact IH.
  - change (e :: r) with ([e] ++ r). change (e :: filter (fun e0 => negb (p e0)) r) with ([e] ++ filter (fun e0 => negb (p e0)) r).
    rewrite !tags_app. eapply perm_trans; [apply Permutation_app_head; exact IH|].
    rewrite !app_assoc. apply Permutation_app_tail. apply Permutation_app_comm.
Qed.

Lemma kept_F : Forall2 (ent1 E sc md) (tags md (filter pm m)) F.
Proof.
  assert (Hgen : forall (l : mval) (es' : list (str * json)), Forall2 (TimestampFacts.ent_enc E sc md) l es' ->
            (forall e, In e l -> exists g, find_field (m_fields md) (fst e) = Some g /\ wt_entry sc g (snd e) = true) ->
            Forall2 (ent1 E sc md) (tags md (filter pm l)) (del_all D es')).
  { intros l es' HF. induction HF as [|[name x] [k j] r r' Hab _ IH]; intros Hall; [constructor|].
    destruct Hab as [g [Hg [Hk Hj]]]. cbn [fst snd] in Hg, Hk, Hj. subst k.
    unfold del_all. cbn [filter fst]. unfold pm at 1. cbn [fst].
    destruct (negb (existsb (str_eqb (json_name name)) D)).
    - unfold tags. cbn [flat_map fst snd]. rewrite Hg. cbn [app]. constructor; [|apply IH; intros e He; apply Hall; right; exact He].
      destruct (Hall (name, x) (or_introl eq_refl)) as [g' [Hg' Hw]]. cbn [fst snd] in Hg', Hw. assert (g' = g) by congruence. subst g'.
      destruct (find_field_spec _ _ _ Hg) as [Hin Hname].
      destruct (entry_rt E EL sc g x j (pj_roundtrip_fval E EL sc x) Hw Hj) as [Hu Hpop].
      unfold ent1. cbn [fst snd]. repeat split; [exact Hin|unfold jn; rewrite Hname; reflexivity|exact Hu|exact Hpop|exact (pj_not_null E EL sc _ _ _ Hj)].
    - apply IH. intros e He. apply Hall. right. exact He. }
  apply Hgen; [exact (TimestampFacts.m_msg_entries E sc md m es Hes)|].
  intros [name x] Hin. exact (BytesFacts.wt_fields_in sc md m name x Hwf Hin).
Qed.

Lemma backs_ent : Forall2 (ent1 E sc md) (flat_map fb (m_oneofs md)) (flat_map backs (m_oneofs md)).
Proof.
  apply Forall2_flat_map. intros o Ho. unfold fb, backs. destruct (flat_member md m o) as [f|] eqn:Hf; [|constructor].
  constructor; [|constructor]. destruct (flat_member_inv o f Hf) as [Hcfg [Hmem [Hfl Hmsg]]].
  destruct (flat_render o f ks Ho Hf Hks) as [ctn [cmd [cm [Hk [Hmv [Hclk [_ [Hgj HF]]]]]]]].
  destruct (msg_member o f Ho Hcfg Hmem Hmsg) as [ctn' [cmd' [cm' [Hk' [Hg [Hinm [Hcts [Hcwk [Hcfm [Hclk' [Hcown [Hcok [Hcs [Hcwf Hc]]]]]]]]]]]]]].
  assert (ctn' = ctn) by congruence. subst ctn'. assert (cmd' = cmd) by congruence. subst cmd'.
  assert (cm' = cm) by (unfold mem_val in Hmv; rewrite Hg in Hmv; congruence). subst cm'. rewrite Hfl in Hc.
  destruct (member_facts o f Hmem) as [Hin [_ [Hcard _]]].
  unfold ent1. cbn [fst snd]. rewrite Hmv. split; [exact Hin|]. split; [reflexivity|]. split; [|split; [reflexivity|discriminate]].
  unfold u_value. rewrite Hcard, Hk, (flat_pj_un E EL sc ctn cmd cm Hcts Hcwk Hcfm Hcok Hcs Hcwf _ Hc HF). reflexivity.
Qed.

Lemma moved_perm : Permutation (tags md (filter (fun e => negb (pm e)) m)) (flat_map fb (m_oneofs md)).
Proof.
  pose proof (tags_filter_perm pm m) as HP.
  assert (Hnt : NoDup (tags md m)).
  { apply (NoDup_map_inv (fun fv : field * fval => f_number (fst fv))). rewrite (tags_nums md m Hdecl). apply sorted_Z_NoDup. exact Hsorted. }
  apply NoDup_Permutation.
  - pose proof (Permutation_NoDup HP Hnt) as Hn. apply NoDup_app_inv in Hn. apply Hn.
  - apply (NoDup_map_inv (fun fv : field * fval => jn (fst fv))).
    assert (Hm : map (fun fv : field * fval => jn (fst fv)) (flat_map fb (m_oneofs md)) = D).
    { unfold D. generalize (m_oneofs md). intros os. induction os as [|o r IH]; [reflexivity|]. cbn [flat_map]. rewrite map_app, IH. f_equal.
      unfold fb, bk, del. destruct (flat_member md m o); reflexivity. }
    rewrite Hm. exact D_nodup.
  - intros [f x]. rewrite tags_in. split.
    + intros [name [Hin Hf]]. apply filter_In in Hin. destruct Hin as [Hin Hp]. unfold pm in Hp. cbn [fst] in Hp.
      apply Bool.negb_true_iff, Bool.negb_false_iff in Hp. apply existsb_exists in Hp. destruct Hp as [k [Hk Hkk]]. apply str_eqb_eq in Hkk. subst k.
      apply D_in in Hk. destruct Hk as [o [f' [Ho [Hf' Hj]]]].
      destruct (find_field_spec _ _ _ Hf) as [Hinf Hname].
      destruct (flat_member_inv o f' Hf') as [Hcfg [Hmem [Hfl Hmsg]]]. destruct (member_facts o f' Hmem) as [Hin' _].
      assert (f = f'). { apply (NullableFacts.nodup_jn_inj (m_fields md) f f' Hnd Hinf Hin'). unfold jn at 1. rewrite Hname. exact Hj. }
      subst f'. apply in_flat_map. exists o. split; [exact Ho|]. unfold fb. rewrite Hf'. left. f_equal.
      destruct (msg_member o f Ho Hcfg Hmem Hmsg) as [ctn [cmd [cm [_ [Hg _]]]]].
      unfold mem_val. rewrite Hg. rewrite <- Hname in Hin. pose proof (BytesFacts.sorted_mget md m _ x Hsorted Hin) as Hx. congruence.
    + intros Hin. apply in_flat_map in Hin. destruct Hin as [o [Ho Hin]]. unfold fb in Hin.
      destruct (flat_member md m o) as [f'|] eqn:Hf'; [|destruct Hin]. destruct Hin as [Hin|[]]. inversion Hin; subst f' x.
      destruct (flat_member_inv o f Hf') as [Hcfg [Hmem [Hfl Hmsg]]].
      destruct (msg_member o f Ho Hcfg Hmem Hmsg) as [ctn [cmd [cm [_ [Hg [Hinm _]]]]]].
      destruct (member_facts o f Hmem) as [_ [_ [_ [Hself _]]]].
      exists (f_name f). split; [|exact Hself]. unfold mem_val. rewrite Hg. apply filter_In. split; [exact Hinm|].
      unfold pm. cbn [fst]. apply Bool.negb_true_iff, Bool.negb_false_iff. apply existsb_exists. exists (jn f). split; [|apply str_eqb_refl].
      apply D_in. exists o, f. auto.
Qed.

Lemma final_pj : pj_un E sc (KMessage tn) (JObj (F ++ flat_map backs (m_oneofs md))) = ROk (FM m).
Proof.
  set (fvs := tags md (filter pm m) ++ flat_map fb (m_oneofs md)).
  assert (HP : Permutation fvs (tags md m)).
  { apply Permutation_sym. eapply perm_trans; [apply (tags_filter_perm pm m)|]. apply Permutation_app_head. exact moved_perm. }
  assert (HF : Forall2 (ent1 E sc md) fvs (F ++ flat_map backs (m_oneofs md))) by (apply Forall2_app; [exact kept_F|exact backs_ent]).
  rewrite (pj_un_perm E sc tn md fvs _ Hts Hwk Hfm Hok1 HF).
  - rewrite (assemble_perm fvs (tags md m)).
    + rewrite (tags_names md m Hdecl). reflexivity.
    + eapply Permutation_Forall; [apply Permutation_sym; exact HP|]. exact (tags_populated sc md m Hwf).
    + rewrite (tags_nums md m Hdecl). exact Hsorted.
    + exact HP.
  - eapply Permutation_NoDup; [apply Permutation_map, Permutation_sym; exact HP|]. rewrite (tags_nums md m Hdecl). apply sorted_Z_NoDup. exact Hsorted.
  - eapply Permutation_NoDup; [apply (Permutation_flat_map (fun fv : field * fval => opt_list (f_oneof (fst fv)))), Permutation_sym; exact HP|].
    assert (Hso : flat_map (fun fv : field * fval => opt_list (f_oneof (fst fv))) (tags md m) = set_oneofs md m).
    { unfold tags, set_oneofs. clear. induction m as [|e r IH]; [reflexivity|]. cbn [flat_map]. rewrite flat_map_app, IH. f_equal.
      destruct (find_field (m_fields md) (fst e)); [cbn [flat_map fst]; rewrite app_nil_r; reflexivity|reflexivity]. }
    rewrite Hso. apply TimestampFacts.nodup_str_NoDup. exact Hex.
Qed.

Lemma strip_final : strip_discs md (F ++ flat_map kept (m_oneofs md) ++ flat_map backs (m_oneofs md)) = F ++ flat_map backs (m_oneofs md).
Proof.
  rewrite strip_discs_del, !del_all_app.
  rewrite (del_all_disj _ F), (del_all_sub _ (flat_map kept (m_oneofs md))), (del_all_disj _ (flat_map backs (m_oneofs md))); [reflexivity| | |].
  - intros k Hk Hd. rewrite keys_flat_map in Hk.
    assert (HkD : In k D). { unfold D. apply in_flat_map in Hk. destruct Hk as [o [Ho Hk]]. rewrite backs_keys in Hk. apply in_flat_map. exists o. auto. }
    exact (D_probe k HkD (discs_probe _ k Hd)).
  - apply kept_keys_discs. auto.
  - intros k Hk Hd. exact (F_probe k (discs_probe _ k Hd) Hk).
Qed.
End Rendered.

(* ---- the round trip ------------------------------------------------------------------------------------------------------------------- *)
Theorem oneof_roundtrip_core j : encode E sc tn m = ROk j -> decode E sc tn j = ROk m.
Proof.
  intros Henc.
  assert (Howns : owns sc tn = true) by (unfold owns; rewrite Hlk, Hown; reflexivity).
  unfold encode in Henc. rewrite Howns, (NullableFacts.gj_fval_owned E sc tn md FtOneof m Hwk Hlk Hown) in Henc.
  apply rbind_ok in Henc. destruct Henc as [ks [Hks Henc]].
  unfold codec_body in Henc. assert (Hb : buildable sc FtOneof md = true) by reflexivity. rewrite Hb in Henc. cbn [negb] in Henc. cbv iota in Henc.
  apply rbind_ok in Henc. destruct Henc as [raw [Hraw Henc]].
  apply rbind_ok in Hraw. destruct Hraw as [j0 [Hpj Hobj]].
  unfold pj_marshal in Hpj. rewrite pj_fval_FM, Hts, Hwk, Hfm in Hpj.
  apply rbind_ok in Hpj. destruct Hpj as [es [Hes Hj0]]. inversion Hj0; subst j0.
  cbn [as_obj] in Hobj. inversion Hobj; subst raw. clear Hobj Hj0.
  rewrite (enc_all es Hes ks Hks) in Henc. cbn [rbind] in Henc. inversion Henc; subst j. clear Henc.
  unfold decode. rewrite Howns.
  cbn [json_size]. 
  rewrite (gj_un_oneof E sc _ tn md _ Hwk Hlk Hown).
  match goal with |- context [dec1 E sc (S ?k)] => destruct k as [|n] eqn:Ek end.
  - exfalso. discriminate Ek.
  - rewrite (dec_all es Hes ks Hks n). cbn [rbind].
    rewrite (strip_final es Hes), (final_pj es Hes ks Hks). reflexivity.
Qed.
End Main.

(* ---- what the defect classifier says, and what it misses ----------------------------------------------------------------------------- *)
(* the populated message member of every configured oneof has a type without a codec of its own, and not Timestamp *)
Definition variant_types_plain (sc : schema) (md : message) (m : mval) : bool :=
  forallb (fun o => negb (oneof_cfg o) ||
     match find_oneof_member md m o with
     | Some f => match f_kind f with
                 | KMessage ctn =>
                     negb (str_eqb ctn ts_name) &&
                     match find_message (all_messages sc) ctn with
                     | Some cmd => match owner_of sc cmd with OwnNone => true | _ => false end
                     | None => false
                     end
                 | _ => true
                 end
     | None => true
     end) (m_oneofs md).

(* a value of a NON-flattened member without codec the proof does not follow: a multi-word field whose lowerCamel key
   (protojson) folds onto another field of the Go struct, which json.Unmarshal then fills with a value of the wrong field.
   (The gaps this condition used to list are defect classes now, confirmed on the emitted code: flattened — an empty
   `optional bytes` (D4ReflectedEmptyOptBytes), a bool-keyed map (D4FlatVariantBoolMap); non-flattened — NaN / Infinity
   inside a repeated or map float field (D4OneofVariantReflect), a bool-keyed map (D4OneofVariantBoolMap), a folding onto a
   field that does not read the value (D4OneofVariantFoldClash).  When the other field does read it the round trip holds
   — OneofExamples.oneof_no_gap_remainder — but encoding/json assigns that field twice, which the proof leaves out.) *)
Definition nonflat_gap (cmd : message) (cm : mval) : bool :=
  existsb (fun e => match find_field (m_fields cmd) (fst e) with
                    | Some f => multiword (fst e) &&
                                match field_by_fold cmd (json_name (fst e)) with Some _ => true | None => false end
                    | None => false
                    end) cm.
Definition variant_no_gap (sc : schema) (md : message) (m : mval) : bool :=
  forallb (fun o => negb (oneof_cfg o) ||
     match find_oneof_member md m o with
     | Some f => match f_kind f, mget m (f_name f) with
                 | KMessage ctn, Some (FM cm) =>
                     match find_message (all_messages sc) ctn with
                     | Some cmd => o_flatten o || negb (nonflat_gap cmd cm)
                     | None => true
                     end
                 | _, _ => true
                 end
     | None => true
     end) (m_oneofs md).

Lemma flat_map_nil {A B} (g : A -> list B) l : flat_map g l = [] -> forall a, In a l -> g a = [].
Proof.
  induction l as [|b r IH]; intros H a Ha; [destruct Ha|]. cbn [flat_map] in H. apply app_eq_nil in H. destruct H as [H1 H2].
  destruct Ha as [Ha|Ha]; [subst b; exact H1|exact (IH H2 a Ha)].
Qed.

Lemma is_msg_kind_msgk k : is_msg_kind k = is_msgk k.
Proof. destruct k; reflexivity. Qed.

Section Classifier.
Variable sc : schema.

(* the children part of gj_defects *)
Definition kids_defects (md : message) (via : field -> bool) : list (str * fval) -> list c04_defect :=
  fix go (m : list (str * fval)) : list c04_defect :=
    match m with
    | [] => []
    | (name, x) :: r =>
        match find_field (m_fields md) name with
        | Some f => (if via f then gj_defects sc (f_kind f) x else []) ++ go r
        | None => go r
        end
    end.
Lemma kids_defects_nil md via m : kids_defects md via m = [] ->
  forall name x f, In (name, x) m -> find_field (m_fields md) name = Some f -> via f = true -> gj_defects sc (f_kind f) x = [].
Proof.
  induction m as [|[n0 x0] r IH]; intros H name x f Hin Hf Hv; [destruct Hin|]. cbn [kids_defects] in H.
  destruct Hin as [Hin|Hin].
  - inversion Hin; subst n0 x0. rewrite Hf, Hv in H. apply app_eq_nil in H. apply H.
  - destruct (find_field (m_fields md) n0); [apply app_eq_nil in H; destruct H as [_ H]|]; exact (IH H name x f Hin Hf Hv).
Qed.

Lemma gj_defects_own tn md ft m : lookup_message sc tn = Some md -> owner_of sc md = Own ft ->
  gj_defects sc (KMessage tn) (FM m) =
  local_defects sc md m ++
  (if existsb (fun e => match find_field (m_fields md) (fst e) with
                        | Some f => needs_gj sc ft md f && enum_codec_unknown sc (f_kind f) (snd e)
                        | None => false end) m then [D4EnumCodecUnknown] else []) ++
  kids_defects md (needs_gj sc ft md) m.
Proof. intros H1 H2. simpl. rewrite H1, H2. reflexivity. Qed.

Lemma gj_defects_none tn md m : lookup_message sc tn = Some md -> owner_of sc md = OwnNone ->
  gj_defects sc (KMessage tn) (FM m) =
  ((if existsb (fun e => match find_field (m_fields md) (fst e) with
                         | Some f => negb (is_msg_kind (f_kind f)) && nonfinite_in (f_kind f) (snd e)
                         | None => false end) m then [D4UnwrapSiblingNonFinite] else []) ++
   (if existsb (fun e => match find_field (m_fields md) (fst e), snd e with
                         | Some f, FS (VBytes []) => match f_card f with Optional => true | _ => false end
                         | _, _ => false end) m then [D4ReflectedEmptyOptBytes] else [])) ++
  (if existsb (fun e => match find_field (m_fields md) (fst e) with
                        | Some f => true && enum_codec_unknown sc (f_kind f) (snd e)
                        | None => false end) m then [D4EnumCodecUnknown] else []) ++
  kids_defects md (fun _ => true) m.
Proof. intros H1 H2. simpl. rewrite H1, H2. reflexivity. Qed.

(* flattened member without codec: the classifier's conditions are those of the reflection lemmas *)
Lemma flat_child_ok_of cmd cm :
  msg_ok cmd = true -> sorted_Z (map (fun e => num_of cmd (fst e)) cm) = true ->
  wt_fields sc cmd cm = true -> reflect_child_breaks sc cmd cm = false ->
  existsb (fun e => match find_field (m_fields cmd) (fst e) with
                    | Some f => negb (is_msg_kind (f_kind f)) && nonfinite_in (f_kind f) (snd e)
                    | None => false end) cm = false ->
  existsb (fun e => match find_field (m_fields cmd) (fst e), snd e with
                    | Some f, FS (VBytes []) => match f_card f with Optional => true | _ => false end
                    | _, _ => false end) cm = false ->
  existsb (fun g => match f_card g, mget cm (f_name g) with
                    | MapOf KBool, Some (FMap (_ :: _)) => true
                    | _, _ => false end) (m_fields cmd) = false ->
  flat_child_ok sc cmd cm = true.
Proof.
  intros Hok Hsorted Hwf Hr Hn Hob Hbmap. unfold flat_child_ok. apply forallb_forall. intros [name x] Hin. cbn [fst snd].
  destruct (BytesFacts.wt_fields_in sc cmd cm name x Hwf Hin) as [f [Hf Hwe]]. rewrite Hf.
  destruct (find_field_spec _ _ _ Hf) as [Hinf Hname].
  pose proof (TimestampFacts.existsb_false_in _ _ _ Hr Hin) as H1. pose proof (TimestampFacts.existsb_false_in _ _ _ Hn Hin) as H2.
  pose proof (TimestampFacts.existsb_false_in _ _ _ Hob Hin) as H3. cbn [fst snd] in H1, H2, H3. rewrite Hf in H1, H2, H3.
  pose proof (TimestampFacts.existsb_false_in _ _ _ Hbmap Hinf) as H4. cbv beta in H4.
  rewrite Hname, (EmptyFacts.mget_nodup cm name x (TimestampFacts.sorted_names_nodup cmd cm Hsorted) Hin) in H4.
  apply Bool.orb_false_iff in H1. destruct H1 as [H1 Hone].
  apply Bool.orb_false_iff in H1. destruct H1 as [H1 Hmsgts].
  apply Bool.orb_false_iff in H1. destruct H1 as [H1 Hfsp].
  apply Bool.orb_false_iff in H1. destruct H1 as [H1 Henc].
  apply Bool.orb_false_iff in H1. destruct H1 as [Hmw Htsk].
  assert (Hmk : is_msg_kind (f_kind f) = false).
  { destruct (is_msg_kind (f_kind f)); [|reflexivity]. rewrite Htsk in Hmsgts. discriminate Hmsgts. }
  rewrite Hmk in H2. cbn [negb andb] in H2.
  (* a present-but-empty byte string can only sit in an `optional` field, and that is the class D4ReflectedEmptyOptBytes *)
  assert (Heb : empty_bytes x = false).
  { destruct x as [[z|b|y|[|c y]|b|z]|cm0|l|kv]; try reflexivity. exfalso.
    unfold wt_entry in Hwe. pose proof (msg_ok_no_oneof cmd f Hok Hinf) as Hoo.
    destruct (f_card f) eqn:Hc; try discriminate Hwe; [|discriminate H3].
    apply andb_prop in Hwe. destruct Hwe as [Hwt Hpop]. unfold populated, implicit_scalar in Hpop. rewrite Hc, Hoo in Hpop.
    destruct (f_kind f); try discriminate Hwt; discriminate Hpop. }
  (* a populated map is non-empty, so a bool-keyed one is the class D4FlatVariantBoolMap *)
  assert (Hbm : match f_card f with MapOf KBool => true | _ => false end = false).
  { destruct (f_card f) as [| | |kk] eqn:Hc; try reflexivity. destruct kk; try reflexivity. exfalso.
    unfold wt_entry in Hwe. rewrite Hc in Hwe. destruct x as [v|cm0|l|[|e0 kv]]; try discriminate Hwe. discriminate H4. }
  rewrite Hmw, Heb. cbn [negb andb]. rewrite Bool.andb_true_r.
  unfold gj_entry_ok, gj_kind_ok. rewrite <- is_msg_kind_msgk, Hmk, H2, Hbm, Henc. reflexivity.
Qed.

Lemma nonflat_child_ok_of cmd cm :
  wt_fields sc cmd cm = true -> pj_form_breaks_reflect cmd cm = false -> pj_form_bool_map cmd cm = false ->
  nonflat_gap cmd cm = false ->
  nonflat_child_ok cmd cm = true.
Proof.
  intros Hwf Hr Hb Hg. unfold nonflat_child_ok. apply forallb_forall. intros [name x] Hin. cbn [fst snd].
  destruct (BytesFacts.wt_fields_in sc cmd cm name x Hwf Hin) as [f [Hf Hwe]]. rewrite Hf.
  pose proof (TimestampFacts.existsb_false_in _ _ _ Hr Hin) as H1. pose proof (TimestampFacts.existsb_false_in _ _ _ Hg Hin) as H3.
  pose proof (TimestampFacts.existsb_false_in _ _ _ Hb Hin) as H2.
  cbn [fst snd] in H1, H2, H3. rewrite Hf in H1, H2, H3.
  destruct (multiword name).
  - cbn [andb] in H3. destruct (field_by_fold cmd (json_name name)); [discriminate H3|reflexivity].
  - cbn [negb andb] in H1, H2.
    apply Bool.orb_false_iff in H1. destruct H1 as [H1 Hmsgts].
    apply Bool.orb_false_iff in H1. destruct H1 as [H1 Henum].
    apply Bool.orb_false_iff in H1. destruct H1 as [H1 Hnf].
    apply Bool.orb_false_iff in H1. destruct H1 as [Hi64 Htsk].
    rewrite Hnf. cbn [negb]. rewrite Bool.andb_true_r.
    assert (Hbm : match f_card f with MapOf KBool => true | _ => false end = false).
    { destruct (f_card f) as [| | |kk] eqn:Hc; try reflexivity. destruct kk; try reflexivity. exfalso.
      unfold wt_entry in Hwe. rewrite Hc in Hwe. destruct x as [v|cm0|l|[|e0 kv]]; try discriminate Hwe. discriminate H2. }
    rewrite Hbm. cbn [negb]. rewrite Bool.andb_true_r.
    destruct (f_kind f); try reflexivity; try discriminate Hi64; try discriminate Henum.
    rewrite Htsk in Hmsgts. discriminate Hmsgts.
Qed.
End Classifier.

(* ---- C04 for the discriminated-oneof codec ----------------------------------------------------------------------------------------------- *)
Theorem oneof_roundtrip : forall E, ExtLaws E -> forall sc tn md m j,
  find_message (all_messages sc) tn = Some md -> owner_of sc md = Own FtOneof ->
  wt1 sc tn m = true ->
  defects_C04 sc tn m = [] ->
  NullableFacts.nodup_str (map o_name (m_oneofs md)) = true ->
  oneof_keys_ok sc md m = true -> disc_values_ok md = true ->
  variant_types_plain sc md m = true -> variant_no_gap sc md m = true ->
  encode E sc tn m = ROk j -> decode E sc tn j = ROk (norm sc tn m).
Proof.
  intros E EL sc tn md m j Hfm Hown Hwt Hdef Hon Hkeys Hdv Htp Hng Henc.
  destruct (wt1_inv sc tn m Hwt) as [Hts [Hwk [md' [Hfm' [Hlk [Hok1 [Hsorted [Hwf Hex]]]]]]]].
  assert (md' = md) by congruence. subst md'.
  assert (Hnorm : norm sc tn m = m) by (unfold norm; rewrite Hlk, Hown; reflexivity). rewrite Hnorm.
  apply (oneof_roundtrip_core E EL sc tn md m Hts Hwk Hfm Hown Hok1 Hsorted Hwf Hex Hon Hkeys Hdv); [|exact Henc].
  (* the populated message members *)
  assert (Howns : owns sc tn = true) by (unfold owns; rewrite Hlk, Hown; reflexivity).
  unfold defects_C04 in Hdef. rewrite Howns in Hdef. apply CodecCompose.dedup4_nil in Hdef.
  rewrite (gj_defects_own sc tn md FtOneof m Hlk Hown) in Hdef.
  apply app_eq_nil in Hdef. destruct Hdef as [Hloc Hdef]. apply app_eq_nil in Hdef. destruct Hdef as [_ Hkids].
  unfold local_defects in Hloc. rewrite Hown in Hloc.
  apply app_eq_nil in Hloc. destruct Hloc as [Hloc Hloc3]. apply app_eq_nil in Hloc3. destruct Hloc3 as [_ Hloc3].
  apply app_eq_nil in Hloc3. destruct Hloc3 as [_ Hlbm].
  intros o Ho f Hcfg Hmem Hmsg.
  pose proof (flat_map_nil _ _ Hloc o Ho) as Hlo. cbv beta in Hlo. rewrite Hcfg, Hmem in Hlo.
  unfold variant_types_plain in Htp. rewrite forallb_forall in Htp. specialize (Htp o Ho). rewrite Hcfg, Hmem in Htp. cbn [negb orb] in Htp.
  unfold variant_no_gap in Hng. rewrite forallb_forall in Hng. specialize (Hng o Ho). rewrite Hcfg, Hmem in Hng. cbn [negb orb] in Hng.
  destruct (f_kind f) as [| | | | | | | | | | | | | | | etn | ctn] eqn:Hk; try discriminate Hmsg.
  apply andb_prop in Htp. destruct Htp as [Hcts Htp]. apply Bool.negb_true_iff in Hcts.
  destruct (find_message (all_messages sc) ctn) as [cmd|] eqn:Hcfm; [|discriminate Htp].
  destruct (owner_of sc cmd) as [| |] eqn:Hcown; try discriminate Htp.
  (* the member's value *)
  unfold find_oneof_member in Hmem. pose proof (find_some _ _ Hmem) as [Hinf Hp].
  destruct (f_oneof f) as [on|] eqn:Hoo; [|discriminate Hp]. apply andb_prop in Hp. destruct Hp as [Honn Hp].
  apply str_eqb_eq in Honn.
  destruct (mget m (f_name f)) as [x|] eqn:Hg; [|discriminate Hp].
  pose proof (Int64Facts.mget_pair m _ _ Hg) as Hinm.
  destruct (BytesFacts.wt_fields_in sc md m _ x Hwf Hinm) as [g [Hgf Hw]].
  assert (g = f). { pose proof (find_self (m_fields md) f (msg_ok1_nodup_jn md Hok1) Hinf). congruence. } subst g.
  assert (Hcard : f_card f = Singular) by exact (msg_ok1_member_singular md f on Hok1 Hinf Hoo).
  unfold wt_entry in Hw. rewrite Hcard, Hk in Hw.
  destruct x as [v|cm|l|kv]; try discriminate Hw.
  rewrite wt_FM, Hcts, Hcfm in Hw. apply andb_prop in Hw. destruct Hw as [Hcwk Hw]. apply Bool.negb_true_iff in Hcwk.
  apply andb_prop in Hw. destruct Hw as [Hw Hcwf]. apply andb_prop in Hw. destruct Hw as [Hcok Hcs].
  assert (Hclk : lookup_message sc ctn = Some cmd) by (unfold lookup_message; rewrite Hcts; exact Hcfm).
  cbn [msg_name] in Hlo. rewrite Hclk, Hcown in Hlo.
  exists ctn, cmd, cm. repeat split; try assumption; try reflexivity.
  destruct (o_flatten o) eqn:Hfl.
  - (* flattened *)
    destruct (reflect_child_breaks sc cmd cm) eqn:Hrb; [discriminate Hlo|].
    assert (Hneeds : needs_gj sc FtOneof md f = true).
    { cbn [needs_gj]. rewrite Hk, Hoo. cbn [is_msg_kind andb]. apply existsb_exists. exists o. split; [exact Ho|].
      rewrite Hcfg, Hfl, Honn, str_eqb_refl. reflexivity. }
    pose proof (kids_defects_nil sc md _ m Hkids (f_name f) (FM cm) f Hinm Hgf Hneeds) as Hcd.
    rewrite Hk, (gj_defects_none sc ctn cmd cm Hclk Hcown) in Hcd. apply app_eq_nil in Hcd. destruct Hcd as [Hcd _].
    apply app_eq_nil in Hcd. destruct Hcd as [Hcd Hcob].
    destruct (existsb _ cm) eqn:Hnf in Hcd; [discriminate Hcd|].
    destruct (existsb _ cm) eqn:Hob in Hcob; [discriminate Hcob|].
    (* the class D4FlatVariantBoolMap does not fire for this oneof *)
    assert (Hbmap : existsb (fun g => match f_card g, mget cm (f_name g) with
                                      | MapOf KBool, Some (FMap (_ :: _)) => true
                                      | _, _ => false end) (m_fields cmd) = false).
    { destruct (existsb _ (m_oneofs md)) eqn:Hexo in Hlbm; [discriminate Hlbm|].
      pose proof (TimestampFacts.existsb_false_in _ _ _ Hexo Ho) as Hb. cbv beta in Hb.
      unfold find_oneof_member in Hb. rewrite Hcfg, Hfl, Hmem, Hg in Hb. cbn [andb] in Hb. rewrite Hk in Hb.
      cbn [msg_name] in Hb. rewrite Hclk in Hb. exact Hb. }
    exact (flat_child_ok_of sc cmd cm Hcok Hcs Hcwf Hrb Hnf Hob Hbmap).
  - apply app_eq_nil in Hlo. destruct Hlo as [Hlo1 Hlo2]. apply app_eq_nil in Hlo2. destruct Hlo2 as [Hlo2 _].
    destruct (pj_form_breaks_reflect cmd cm) eqn:Hrb; [discriminate Hlo1|].
    destruct (pj_form_bool_map cmd cm) eqn:Hpb; [discriminate Hlo2|].
    cbn [orb] in Hng. apply Bool.negb_true_iff in Hng. exact (nonflat_child_ok_of sc cmd cm Hcwf Hrb Hpb Hng).
Qed.
Close Scope Z_scope.
