(* CodecFacts.v — C04: round trip of the emitted codecs; refutations of the defect classes. *)
From Sebuf Require Import CodecCases.
From SebufProofs Require Import TextFacts CodecTextFacts ProtoJsonFacts CodecExamples.

Open Scope Z_scope.

(* ---- messages without a codec of their own: protojson both ways ----------------------------------- *)
Lemma norm_not_owned sc tn m : owns sc tn = false -> norm sc tn m = m.
Proof.
  unfold owns, norm. destruct (lookup_message sc tn) as [md|]; [|reflexivity].
  destruct (owner_of sc md) as [|ft|]; try discriminate; reflexivity.
Qed.

Theorem C04_roundtrip_plain : forall E, ExtLaws E -> forall sc tn m j,
  owns sc tn = false -> wt sc (KMessage tn) (FM m) = true ->
  encode E sc tn m = ROk j -> decode E sc tn j = ROk (norm sc tn m).
Proof.
  intros E EL sc tn m j Hown Hwt Henc.
  unfold encode, decode in *. rewrite Hown in *. rewrite (norm_not_owned sc tn m Hown).
  eapply pj_roundtrip; eauto.
Qed.

(* ---- executable statement of the round trip (used by the witnesses) --------------------------------- *)
Definition rt_holds (E : ExtLib) (sc : schema) (tn : str) (m : mval) : bool :=
  match encode E sc tn m with
  | ROk j => match decode E sc tn j with
             | ROk m' => json_eqb (json_of_mval m') (json_of_mval (norm sc tn m))
             | _ => false
             end
  | _ => false
  end.

(* ---- refutations: one concrete witness per defect class (evaluated by the kernel) --------------------- *)
Definition refuted4 (d : c04_defect) (tn : str) (m : mval) : Prop :=
  defects_C04 xs tn m = [d] /\
  exists j, encode Ex xs tn m = ROk j /\ decode Ex xs tn j <> ROk (norm xs tn m).

Ltac refute4 := split; [vm_compute; reflexivity | eexists; split; [vm_compute; reflexivity | vm_compute; discriminate]].

(* {"id":"1","street":"s"} decodes to id:"1" — the flattened child is lost *)
Theorem C04_refuted_flatten_reset :
  refuted4 D4FlattenReset (q "Person") [(s "id", vstr "1"); (s "home", FM [(s "street", vstr "s")])].
Proof. refute4. Qed.

(* the encoder writes "body_text", the decoder looks for "bodyText": unknown field *)
Theorem C04_refuted_flatten_child_keys :
  defects_C04 xs (q "Post") [(s "id", vstr "1"); (s "detail", FM [(s "body_text", vstr "b")])] = [D4FlattenReset; D4FlattenChildKeys] /\
  exists j, encode Ex xs (q "Post") [(s "id", vstr "1"); (s "detail", FM [(s "body_text", vstr "b")])] = ROk j /\
            exists e, decode Ex xs (q "Post") j = RErr e.
Proof. split; [vm_compute; reflexivity|]. eexists. split; [vm_compute; reflexivity|]. eexists. vm_compute. reflexivity. Qed.

Theorem C04_refuted_flat_oneof_child :
  refuted4 D4FlatOneofChild (q "FlatEvent") [(s "eid", vstr "e"); (s "wide", FM [(s "alt_text", vstr "a")])].
Proof. refute4. Qed.

Theorem C04_refuted_flat_oneof_remarshal :
  refuted4 D4FlatOneofRemarshal (q "FlatEvent") [(s "times", FM [(s "secs", tsv 5 0)])].
Proof. refute4. Qed.

Theorem C04_refuted_oneof_variant_reflect :
  refuted4 D4OneofVariantReflect (q "Event") [(s "image", FM [(s "size", vint 7)])].
Proof. refute4. Qed.

(* NaN beside an unwrap map: json.Marshal fails, the message cannot be encoded at all *)
Theorem C04_refuted_unwrap_sibling_nonfinite :
  defects_C04 xs (q "Series") [(s "ratio", FS (VFloat 9221120237041090561))] = [D4UnwrapSiblingNonFinite] /\
  exists e, encode Ex xs (q "Series") [(s "ratio", FS (VFloat 9221120237041090561))] = RErr e.
Proof. split; [vm_compute; reflexivity|]. eexists. vm_compute. reflexivity. Qed.

Theorem C04_refuted_unwrap_sibling_negzero :
  refuted4 D4UnwrapSiblingNegZero (q "Series") [(s "ratio", FS (VFloat 9223372036854775808))].
Proof. refute4. Qed.

(* an undefined enum number beside an unwrap map: written as "99", rejected on the way back *)
Theorem C04_refuted_enum_codec_unknown :
  defects_C04 xs (q "EnumSeries") [(s "st", FS (VEnum 99))] = [D4EnumCodecUnknown] /\
  exists j, encode Ex xs (q "EnumSeries") [(s "st", FS (VEnum 99))] = ROk j /\
            exists e, decode Ex xs (q "EnumSeries") j = RErr e.
Proof. split; [vm_compute; reflexivity|]. eexists. split; [vm_compute; reflexivity|]. eexists. vm_compute. reflexivity. Qed.

(* contract form of an annotated child below the top level: {"t":{"secs":5}} is rejected *)
Theorem C04_canonical_in_refuted :
  exists tn m j, to_json Ex xs tn m = ROk j /\ defects_C05 xs tn m <> [] /\ exists e, decode Ex xs tn j = RErr e.
Proof.
  exists (q "TimesHolder"), [(s "t", FM [(s "secs", tsv 5 0)])]. eexists.
  split; [vm_compute; reflexivity|]. split; [vm_compute; discriminate|]. eexists. vm_compute. reflexivity.
Qed.

(* ---- non-vacuity: codec-owning messages on which no defect class fires and the round trip holds ------- *)
Example C04_nonvacuous_int64 :
  let m := [(s "big", vint 9007199254740993); (s "name", vstr "n")] in
  owns xs (q "Nums") = true /\ defects_C04 xs (q "Nums") m = [] /\ rt_holds Ex xs (q "Nums") m = true.
Proof. vm_compute. auto. Qed.
Example C04_nonvacuous_ts_lossy :
  let m := [(s "secs", tsv 5 123456789); (s "day", tsv 90000 1); (s "id", vstr "x")] in
  defects_C04 xs (q "Times") m = [] /\ rt_holds Ex xs (q "Times") m = true /\
  norm xs (q "Times") m = [(s "secs", tsv 5 0); (s "day", tsv 86400 0); (s "id", vstr "x")].
Proof. vm_compute. auto. Qed.
Example C04_nonvacuous_plain :
  let m := [(s "id", vstr "i"); (s "big_num", vint (-5)); (s "tags", FL [vstr "a"; vstr "b"]);
            (s "by_key", FMap [(VStr (s "k"), FM [(s "a", vstr "x"); (s "n", vint 3)])]);
            (s "leaf", FM []); (s "at", tsv 1700000000 500000000); (s "raw", FS (VBytes [ch 251; ch 255]));
            (s "ratio", FS (VFloat 4609434218613702656)); (s "opt_n", vint 0)] in
  wt xs (KMessage (q "Plain")) (FM m) = true /\ owns xs (q "Plain") = false /\ rt_holds Ex xs (q "Plain") m = true.
Proof. vm_compute. auto. Qed.
Example C04_nonvacuous_unwrap :
  let m := [(s "by_sym", FMap [(VStr (s "A"), FM [(s "bars", FL [FM [(s "a", vstr "x")]; FM []])])]); (s "total_count", vint 4)] in
  defects_C04 xs (q "Series") m = [] /\ rt_holds Ex xs (q "Series") m = true.
Proof. vm_compute. auto. Qed.
Close Scope Z_scope.
