(* FilesFacts.v — the statements of C12 (with "no files on refusal") and C14 over Validate.v / Files.v. *)
From Sebuf Require Import Text Schema Validate Files.
From SebufProofs Require Import TextFacts ValidateFacts.
Open Scope string_scope.
Open Scope list_scope.

(* ================================ C12 ================================================================ *)
Lemma flat_map_filter_nil {A B} (g : A -> list B) (p : A -> bool) l : flat_map g l = [] -> flat_map g (filter p l) = [].
Proof.
  intros H. rewrite flat_map_nil in H. apply flat_map_nil. intros x Hx. apply filter_In in Hx as [Hx _]. auto.
Qed.

Lemma broken_rules_nil_generated sc : broken_rules sc = [] -> broken_generated sc = [].
Proof. apply flat_map_filter_nil. Qed.

Lemma C12_sound_lemma : forall sc mock, dom_C12 sc = true -> defects_C12 sc = [] -> broken_generated sc <> [] ->
  exists e, go_http_accepts sc = Some e /\ named_violation (broken_generated sc) e /\ emitted_go_http mock sc = [].
Proof.
  intros sc mock D H B. destruct (go_http_accepts sc) as [e|] eqn:A.
  - exists e. repeat split; [now apply go_http_some_named|]. unfold emitted_go_http. now rewrite A.
  - exfalso. apply B. now apply go_http_none_no_violation.
Qed.

Lemma C12_sound_client_lemma : forall sc, dom_C12 sc = true -> defects_C12 sc = [] ->
  (exists v, In v (broken_generated sc) /\ client_rule (v_rule v) = true) ->
  exists e, go_client_accepts sc = Some e /\ named_violation (broken_generated sc) e /\ emitted_go_client sc = [].
Proof.
  intros sc D H (v & Hv & C). destruct (go_client_accepts sc) as [e|] eqn:A.
  - exists e. repeat split; [now apply go_client_some_named|]. unfold emitted_go_client. now rewrite A.
  - exfalso. rewrite (go_client_none_only_other_rules sc D H A v Hv) in C. discriminate.
Qed.

Lemma C12_complete_lemma : forall sc, dom_C12 sc = true -> defects_C12 sc = [] -> broken_rules sc = [] ->
  go_http_accepts sc = None /\ go_client_accepts sc = None /\ ts_server_accepts sc = None /\
  ts_client_accepts sc = None /\ openapi_accepts sc = None.
Proof.
  intros sc D H B. apply broken_rules_nil_generated in B.
  assert (forall e, ~ named_violation (broken_generated sc) e) as N by (intros e (v & Hv & _); now rewrite B in Hv).
  repeat split.
  - destruct (go_http_accepts sc) as [e|] eqn:A; [|reflexivity]. exfalso. apply (N e). now apply go_http_some_named.
  - destruct (go_client_accepts sc) as [e|] eqn:A; [|reflexivity]. exfalso. apply (N e). now apply go_client_some_named.
  - destruct (ts_server_accepts sc) as [e|] eqn:A; [|reflexivity]. exfalso. apply (N e). now apply ts_server_some_named.
Qed.

(* placement: any generated file (with or without services), any message of it (at any nesting depth:
   m_path is arbitrary) *)
Lemma C12_any_placement_lemma : forall sc f m, dom_C12 sc = true -> defects_C12 sc = [] ->
  In f sc -> fl_generate f = true -> In m (fl_messages f) -> message_violations sc m <> [] ->
  exists e, go_http_accepts sc = Some e /\ named_violation (broken_generated sc) e.
Proof.
  intros sc f m D H Hf G Hm V.
  destruct (C12_sound_lemma sc false D H) as (e & A & N & _).
  - intros B. apply V. destruct (message_violations sc m) as [|v l] eqn:E; [reflexivity|].
    assert (In v (broken_generated sc)) as I.
    { apply in_broken_msg with (f := f) (m := m); [apply filter_In; auto|exact Hm|rewrite E; now left]. }
    rewrite B in I. contradiction.
  - now exists e.
Qed.

(* ---- witnesses -------------------------------------------------------------------------------------- *)
Definition fld (n : string) (num : Z) (k : kind) (c : card) : field :=
  {| f_name := s n; f_number := num; f_kind := k; f_card := c; f_oneof := None; f_query := None; f_unwrap := false;
     f_int64 := None; f_enumenc := None; f_nullable := None; f_empty := None; f_tsfmt := None; f_bytesenc := None;
     f_oneof_value := None; f_flatten := None; f_flatten_prefix := None |}.
Definition annot (f : field) (o : option str) (q : option query_cfg) (u : bool) (i : option int64_enc) (ee : option enum_enc)
  (nu : option bool) (fl : option bool) : field :=
  {| f_name := f_name f; f_number := f_number f; f_kind := f_kind f; f_card := f_card f; f_oneof := o; f_query := q; f_unwrap := u;
     f_int64 := i; f_enumenc := ee; f_nullable := nu; f_empty := f_empty f; f_tsfmt := f_tsfmt f; f_bytesenc := f_bytesenc f;
     f_oneof_value := None; f_flatten := fl; f_flatten_prefix := None |}.
Definition with_flatten f := annot f None None false None None None (Some true).
Definition with_nullable f := annot f None None false None None (Some true) None.
Definition with_i64num f := annot f None None false (Some I64Number) None None None.
Definition with_enumnum f := annot f None None false None (Some EENumber) None None.
Definition with_unwrap f := annot f None None true None None None None.
Definition in_oneof_named (o : string) f := annot f (Some (s o)) None false None None None None.
Definition with_query (q : string) f := annot f None (Some {| q_name := s q; q_required := false |}) false None None None None.
Definition with_tsfmt (t : ts_fmt) (f : field) : field :=
  {| f_name := f_name f; f_number := f_number f; f_kind := f_kind f; f_card := f_card f; f_oneof := f_oneof f; f_query := f_query f;
     f_unwrap := f_unwrap f; f_int64 := f_int64 f; f_enumenc := f_enumenc f; f_nullable := f_nullable f; f_empty := f_empty f;
     f_tsfmt := Some t; f_bytesenc := f_bytesenc f; f_oneof_value := f_oneof_value f; f_flatten := f_flatten f; f_flatten_prefix := f_flatten_prefix f |}.

Definition msg (path : list string) (fs : list field) (os : list oneof) : message :=
  {| m_name := s "p." ++ join_with (s ".") (map s path); m_path := map s path; m_fields := fs; m_oneofs := os |}.
Definition rpc (n inp : string) (v : nat) (path : string) : method :=
  {| md_name := s n; md_in := s inp; md_out := s "p.Res"; md_has_cfg := true; md_path := s path; md_verb := Some v; md_headers := [] |}.
Definition svc (ms : list method) : service := {| sv_name := s "Api"; sv_base := s "/api"; sv_headers := []; sv_methods := ms |}.
Definition pfile (path : string) (gen : bool) (ms : list message) (es : list enum) (ss : list service) : file :=
  {| fl_path := s path; fl_package := s "p"; fl_gopkg := s "p"; fl_generate := gen; fl_messages := ms; fl_enums := es; fl_services := ss |}.
Definition res_msg := msg ["Res"] [fld "ok" 1 KBool Singular] [].
Definition addr_msg := msg ["Addr"] [fld "street" 1 KString Singular; fld "zip_code" 2 KString Singular] [].
Definition status_enum : enum :=
  {| e_name := s "p.Status"; e_values := [ {| ev_name := s "STATUS_UNSPECIFIED"; ev_number := 0; ev_custom := None |};
                                          {| ev_name := s "STATUS_ACTIVE"; ev_number := 1; ev_custom := Some (s "active") |} ] |}.
Definition ping := rpc "Ping" "p.Res" 2 "/ping".

(* message Req { repeated string id = 1; }  rpc Get(Req) GET /x/{id} *)
Definition w_repeated_pathvar : schema :=
  [pfile "a.proto" true [res_msg; msg ["Req"] [fld "id" 1 KString Repeated] []] [] [svc [ping; rpc "Get" "p.Req" 1 "/x/{id}"]]].
Lemma C12_refuted_repeated_pathvar_lemma : exists sc, dom_C12 sc = true /\ defects_C12 sc = [RepeatedFieldAsPathVariable] /\
  broken_generated sc = [viol RPathVariableNonScalar (s "id")] /\ go_http_accepts sc = None.
Proof. exists w_repeated_pathvar. vm_compute. repeat split; reflexivity. Qed.

(* message M { map<string, Status> by_key = 1 [enum_encoding = NUMBER]; }  Status has a custom value *)
Definition w_enum_map : schema :=
  [pfile "a.proto" true [res_msg; msg ["M"] [with_enumnum (fld "by_key" 1 (KEnum (s "p.Status")) (MapOf KString))] []] [status_enum] [svc [ping]]].
Lemma C12_refuted_enum_map_lemma : exists sc, dom_C12 sc = true /\ defects_C12 sc = [EnumConflictOnMapValueUnchecked] /\
  broken_generated sc = [viol REnumNumberWithCustomValues (s "by_key")] /\ go_http_accepts sc = None /\ go_client_accepts sc = None.
Proof. exists w_enum_map. vm_compute. repeat split; reflexivity. Qed.

(* lib.proto (imported, not generated): message Bad { string nick = 1 [nullable = true]; } *)
Definition w_imported : schema :=
  [pfile "lib.proto" false [msg ["Bad"] [with_nullable (fld "nick" 1 KString Singular)] []] [] [];
   pfile "a.proto" true [res_msg] [] [svc [ping; rpc "Use" "p.Bad" 2 "/use"]]].
Lemma C12_refuted_imported_lemma : exists sc, dom_C12 sc = true /\ defects_C12 sc = [RuleBrokenInImportedFile] /\
  broken_rules sc = [viol RNullableNonOptional (s "nick")] /\ go_http_accepts sc = None /\ go_client_accepts sc = None.
Proof. exists w_imported. vm_compute. repeat split; reflexivity. Qed.

(* message M { optional string nick = 1 [nullable = true]; Addr home = 2 [flatten = true]; } *)
Definition w_flatten_conflict : schema :=
  [pfile "a.proto" true [res_msg; addr_msg;
      msg ["M"] [with_nullable (fld "nick" 1 KString Optional); with_flatten (fld "home" 2 (KMessage (s "p.Addr")) Singular)] []] [] [svc [ping]]].
Lemma C12_refuted_flatten_conflict_lemma : exists sc, dom_C12 sc = true /\ defects_C12 sc = [FlattenMarshalJSONConflictRefused] /\
  broken_rules sc = [] /\ go_http_accepts sc <> None /\ go_client_accepts sc <> None.
Proof. exists w_flatten_conflict. vm_compute. repeat split; try reflexivity; discriminate. Qed.

(* message M { int64 big = 1 [int64_encoding = NUMBER]; oneof payload { option oneof_config = {discriminator: "kind"}; Addr text = 2; } } *)
Definition w_oneof_conflict : schema :=
  [pfile "a.proto" true [res_msg; addr_msg;
      msg ["M"] [with_i64num (fld "big" 1 KInt64 Singular); in_oneof_named "payload" (fld "text" 2 (KMessage (s "p.Addr")) Singular)]
          [{| o_name := s "payload"; o_has_cfg := true; o_discriminator := s "kind"; o_flatten := false |}]] [] [svc [ping]]].
Lemma C12_refuted_oneof_conflict_lemma : exists sc, dom_C12 sc = true /\ defects_C12 sc = [OneofMarshalJSONConflictRefused] /\
  broken_rules sc = [] /\ go_http_accepts sc <> None /\ go_client_accepts sc <> None.
Proof. exists w_oneof_conflict. vm_compute. repeat split; try reflexivity; discriminate. Qed.

(* message M { optional Addr home = 1 [flatten = true]; } *)
Definition w_flatten_optional : schema :=
  [pfile "a.proto" true [res_msg; addr_msg; msg ["M"] [with_flatten (fld "home" 1 (KMessage (s "p.Addr")) Optional)] []] [] [svc [ping]]].
Lemma C12_refuted_flatten_optional_lemma : exists sc, dom_C12 sc = true /\ defects_C12 sc = [FlattenOnOptionalMessageRefused] /\
  broken_rules sc = [] /\ go_http_accepts sc <> None /\ go_client_accepts sc <> None.
Proof. exists w_flatten_optional. vm_compute. repeat split; try reflexivity; discriminate. Qed.

(* non-vacuity: a valid schema with nested, repeated, map, oneof and annotated fields in two generated files
   (one without services) is accepted; breaking one rule inside the nested message of the service-less file
   makes both Go plugins refuse, naming the field *)
Definition nv_types (bad : bool) : file :=
  pfile "types.proto" true
    [addr_msg;
     msg ["Person"] [fld "id" 1 KString Singular; with_flatten (fld "home" 2 (KMessage (s "p.Addr")) Singular);
                     fld "tags" 3 KString Repeated; fld "by_key" 4 (KMessage (s "p.Addr")) (MapOf KString)] [];
     msg ["Person"; "Inner"] [(if bad then with_nullable (fld "nick" 1 KString Singular) else with_nullable (fld "nick" 1 KString Optional));
                              with_tsfmt TFDate (fld "at" 2 (KMessage (s "google.protobuf.Timestamp")) Singular)] [];
     msg ["Event"] [fld "id" 1 KString Singular; in_oneof_named "payload" (fld "addr" 2 (KMessage (s "p.Addr")) Singular)]
         [{| o_name := s "payload"; o_has_cfg := true; o_discriminator := s "kind"; o_flatten := true |}];
     msg ["AddrList"] [with_unwrap (fld "items" 1 (KMessage (s "p.Addr")) Repeated)] [];
     msg ["Nums"] [with_i64num (fld "big" 1 KInt64 Singular); with_enumnum (fld "level" 2 (KEnum (s "p.Level")) Singular);
                   fld "status" 3 (KEnum (s "p.Status")) Singular] []]
    [status_enum; {| e_name := s "p.Level"; e_values := [ {| ev_name := s "LEVEL_UNSPECIFIED"; ev_number := 0; ev_custom := None |} ] |}] [].
Definition nv_api : file :=
  pfile "a.proto" true [res_msg; msg ["GetReq"] [fld "id" 1 KString Singular; with_query "page" (fld "page" 2 KInt32 Singular)] []] []
        [svc [ping; rpc "Get" "p.GetReq" 1 "/people/{id}"; rpc "Put" "p.Person" 3 "/people/{id}"]].
Lemma C12_nonvacuous_lemma :
  (dom_C12 [nv_types false; nv_api] = true /\ defects_C12 [nv_types false; nv_api] = [] /\ broken_rules [nv_types false; nv_api] = [] /\
   go_http_accepts [nv_types false; nv_api] = None) /\
  (dom_C12 [nv_types true; nv_api] = true /\ defects_C12 [nv_types true; nv_api] = [] /\
   broken_generated [nv_types true; nv_api] = [viol RNullableNonOptional (s "nick")] /\
   go_http_accepts [nv_types true; nv_api] = Some (mk_err ENullableNotOptional (s "Inner") [s "nick"]) /\
   go_client_accepts [nv_types true; nv_api] = Some (mk_err ENullableNotOptional (s "Inner") [s "nick"])).
Proof. vm_compute. repeat split; reflexivity. Qed.

(* ================================ C14 ================================================================ *)
Lemma filter_all_false {A} (p : A -> bool) l : existsb p l = false -> filter p l = [].
Proof.
  intros H. rewrite existsb_false in H. induction l as [|a l IH]; cbn; [reflexivity|].
  rewrite (H a (or_introl eq_refl)). apply IH. intros x Hx. apply H. now right.
Qed.

(* whenever the client plugin emits a codec file, it lists the same types as the server plugin's file of that name *)
Lemma C14_same_name_same_contexts_lemma : forall sc f c,
  client_contexts sc f c <> [] -> client_contexts sc f c = http_contexts sc f c.
Proof.
  intros sc f c. destruct c; cbn; try reflexivity; try congruence; destruct (has_services f); congruence.
Qed.

(* a file free of the two defect classes gets the same codec methods from both plugins *)
Lemma C14_file_equiv_lemma : forall sc f, file_defects_C14 sc f = [] -> forall c, client_contexts sc f c = http_contexts sc f c.
Proof.
  intros sc f H c. unfold file_defects_C14 in H.
  destruct (any_msg (gets_unwrap_codec sc) f) eqn:U; [discriminate|].
  destruct (negb (has_services f) && (any_msg has_int64_number f || existsb enum_custom (fl_enums f))) eqn:S; [discriminate|].
  destruct c; cbn; try reflexivity.
  - unfold any_msg, gets_unwrap_codec in U. rewrite existsb_false in U.
    rewrite (filter_all_false is_root_unwrap), (filter_all_false (is_unwrap_container sc)); [reflexivity| |];
      apply existsb_false; intros m Hm; specialize (U m Hm); apply orb_false_iff in U; tauto.
  - destruct (has_services f); [reflexivity|]. cbn in S. apply orb_false_iff in S as [S _].
    unfold any_msg in S. now rewrite (filter_all_false _ _ S).
  - destruct (has_services f); [reflexivity|]. cbn in S. apply orb_false_iff in S as [_ S].
    now rewrite (filter_all_false _ _ S).
Qed.

Lemma defects_C14_nil_files sc : defects_C14 sc = [] -> forall f, In f (gen_files sc) -> file_defects_C14 sc f = [].
Proof.
  unfold defects_C14. intros H f Hf.
  destruct (existsb _ (gen_files sc)) eqn:E1 in H; [discriminate|].
  destruct (existsb _ (gen_files sc)) eqn:E2 in H; [discriminate|].
  rewrite existsb_false in E1, E2. specialize (E1 f Hf). specialize (E2 f Hf). cbv beta in E1, E2.
  apply nonempty_false in E1. apply nonempty_false in E2.
  destruct (file_defects_C14 sc f) as [|d l]; [reflexivity|].
  destruct d; cbn in E1, E2; discriminate.
Qed.

(* the package the client plugin generates alone has a codec pair for exactly the types the server package has one for *)
Lemma C14_client_only_equiv_lemma : forall sc, defects_C14 sc = [] ->
  forall tn c, client_has sc tn c = server_has sc tn c.
Proof.
  intros sc H tn c. unfold client_has, server_has.
  pose proof (defects_C14_nil_files sc H) as F.
  induction (gen_files sc) as [|f l IH]; [reflexivity|]. cbn.
  rewrite (C14_file_equiv_lemma sc f (F f (or_introl eq_refl)) c). f_equal. apply IH. intros g Hg. apply F. now right.
Qed.

(* ---- one directory written by both plugins: the result does not depend on the order ------------------ *)
Lemma codec_eqb_eq a b : codec_eqb a b = true -> a = b.
Proof. destruct a, b; cbn; congruence. Qed.

Lemma name_eqb_eq a b : name_eqb a b = true -> a = b.
Proof.
  destruct a as [p c], b as [q d]. unfold name_eqb. cbn. intros H. apply andb_true_iff in H as [H1 H2].
  apply str_eqb_eq in H1. apply codec_eqb_eq in H2. congruence.
Qed.

Lemma dir_lookup_app n A B :
  dir_lookup n (A ++ B) = match dir_lookup n B with Some x => Some x | None => dir_lookup n A end.
Proof.
  induction A as [|[k b] A IH]; cbn; [now destruct (dir_lookup n B)|].
  rewrite IH. destruct (dir_lookup n B); [reflexivity|]. reflexivity.
Qed.

Lemma dir_lookup_in n L b : dir_lookup n L = Some b -> In (n, b) L.
Proof.
  induction L as [|[k x] L IH]; cbn; [discriminate|].
  destruct (dir_lookup n L) eqn:E.
  - intros [= <-]. right. now apply IH.
  - destruct (name_eqb n k) eqn:N; [|discriminate]. intros [= <-]. apply name_eqb_eq in N. subst. now left.
Qed.

Lemma in_codec_files p sc path c ctx : In ((path, c), ctx) (codec_files p sc) ->
  exists f, In f (gen_files sc) /\ fl_path f = path /\ ctx <> [] /\
            ctx = match p with GoHttp => http_contexts sc f c | GoClient => client_contexts sc f c end.
Proof.
  unfold codec_files. intros H. apply in_flat_map in H as (f & Hf & H). apply in_flat_map in H as (c' & _ & H).
  destruct (nonempty _) eqn:N in H; [|contradiction]. destruct H as [H|[]]. inversion H; subst.
  exists f. repeat split; auto. intros E. rewrite E in N. discriminate.
Qed.

Lemma nodup_map_inj {A B} (g : A -> B) l a b : NoDup (map g l) -> In a l -> In b l -> g a = g b -> a = b.
Proof.
  induction l as [|x l IH]; cbn; intros ND Ha Hb E; [contradiction|].
  inversion ND as [|? ? NI ND']; subst.
  destruct Ha as [<-|Ha], Hb as [<-|Hb]; auto.
  - exfalso. apply NI. rewrite E. now apply in_map.
  - exfalso. apply NI. rewrite <- E. now apply in_map.
Qed.

Lemma C14_order_independent_lemma : forall sc, NoDup (map fl_path (gen_files sc)) ->
  forall n, dir_lookup n (directory [GoHttp; GoClient] sc) = dir_lookup n (directory [GoClient; GoHttp] sc).
Proof.
  intros sc ND n. unfold directory. cbn [flat_map]. rewrite !app_nil_r, !dir_lookup_app.
  destruct (dir_lookup n (codec_files GoClient sc)) as [b|] eqn:B, (dir_lookup n (codec_files GoHttp sc)) as [a|] eqn:A; try reflexivity.
  destruct n as [path c].
  apply dir_lookup_in, in_codec_files in A as (f & Hf & Pf & _ & ->).
  apply dir_lookup_in, in_codec_files in B as (g & Hg & Pg & NE & ->).
  assert (f = g) as <- by (apply (nodup_map_inj fl_path (gen_files sc)); congruence).
  f_equal. now apply C14_same_name_same_contexts_lemma.
Qed.

(* ---- refutations ---------------------------------------------------------------------------------------- *)
(* message AddrList { repeated Addr items = 1 [unwrap = true]; } in a file with a service *)
Definition w_unwrap : schema :=
  [pfile "a.proto" true [res_msg; addr_msg; msg ["AddrList"] [with_unwrap (fld "items" 1 (KMessage (s "p.Addr")) Repeated)] []] [] [svc [ping]]].
Lemma C14_refuted_client_no_unwrap_lemma : exists sc tn, go_http_accepts sc = None /\ go_client_accepts sc = None /\
  defects_C14 sc = [ClientNoUnwrap] /\ server_has sc tn CUnwrap = true /\ client_has sc tn CUnwrap = false /\
  emitted_go_http false sc = [(s "a.proto", SUnwrap); (s "a.proto", SHttp); (s "a.proto", SHttpBinding); (s "a.proto", SHttpConfig)] /\
  emitted_go_client sc = [(s "a.proto", SClient)].
Proof. exists w_unwrap, (s "p.AddrList"). vm_compute. repeat split; reflexivity. Qed.

(* types.proto (generated, no service): message Nums { int64 big = 1 [int64_encoding = NUMBER]; } enum Status with a custom value *)
Definition w_serviceless : schema :=
  [pfile "types.proto" true [msg ["Nums"] [with_i64num (fld "big" 1 KInt64 Singular)] []] [status_enum] [];
   pfile "a.proto" true [res_msg] [] [svc [ping; rpc "Put" "p.Nums" 2 "/nums"]]].
Lemma C14_refuted_serviceless_lemma : exists sc, go_http_accepts sc = None /\ go_client_accepts sc = None /\
  defects_C14 sc = [ClientServicelessNoInt64Enum] /\
  server_has sc (s "p.Nums") CInt64 = true /\ client_has sc (s "p.Nums") CInt64 = false /\
  server_has sc (s "p.Status") CEnum = true /\ client_has sc (s "p.Status") CEnum = false.
Proof. exists w_serviceless. vm_compute. repeat split; reflexivity. Qed.

(* non-vacuity: the two-file schema of C12's example is free of both classes only without its unwrap / service-less
   int64 parts; a one-file variant with every other codec is *)
Definition nv14 : schema :=
  [pfile "a.proto" true
     [res_msg; addr_msg;
      msg ["Person"] [fld "id" 1 KString Singular; with_flatten (fld "home" 2 (KMessage (s "p.Addr")) Singular)] [];
      msg ["Person"; "Inner"] [with_nullable (fld "nick" 1 KString Optional)] [];
      msg ["Times"] [with_tsfmt TFDate (fld "at" 1 (KMessage (s "google.protobuf.Timestamp")) Singular)] [];
      msg ["Event"] [fld "id" 1 KString Singular; in_oneof_named "payload" (fld "addr" 2 (KMessage (s "p.Addr")) Singular)]
          [{| o_name := s "payload"; o_has_cfg := true; o_discriminator := s "kind"; o_flatten := true |}];
      msg ["Nums"] [with_i64num (fld "big" 1 KInt64 Singular); fld "status" 2 (KEnum (s "p.Status")) Singular] []]
     [status_enum] [svc [ping]]].
Lemma C14_nonvacuous_lemma :
  defects_C14 nv14 = [] /\ go_http_accepts nv14 = None /\
  emitted_go_client nv14 = [(s "a.proto", SNullable); (s "a.proto", STimestampFormat); (s "a.proto", SFlatten); (s "a.proto", SOneofDiscriminator);
                            (s "a.proto", SClient); (s "a.proto", SEncoding); (s "a.proto", SEnumEncoding)] /\
  emitted_go_http false nv14 = [(s "a.proto", SEncoding); (s "a.proto", SEnumEncoding); (s "a.proto", SNullable); (s "a.proto", STimestampFormat);
                                (s "a.proto", SFlatten); (s "a.proto", SOneofDiscriminator); (s "a.proto", SHttp); (s "a.proto", SHttpBinding); (s "a.proto", SHttpConfig)] /\
  client_has nv14 (s "p.Nums") CInt64 = true /\ client_has nv14 (s "p.Person.Inner") CNullable = true.
Proof. vm_compute. repeat split; reflexivity. Qed.

(* ================================ C12: the colliding sibling may be any kind of field ================== *)
Lemma or_else_not_none_r {B} (a b : option B) : b <> None -> or_else a b <> None.
Proof. destruct a; cbn; [discriminate|auto]. Qed.
Lemma or_else_not_none_l {B} (a b : option B) : a <> None -> or_else a b <> None.
Proof. destruct a; cbn; [discriminate|congruence]. Qed.

(* the discriminator collides with ANY field of the message outside the oneof: cardinality, proto3 optional
   (synthetic oneof) and membership in another oneof (annotated or not) make no difference *)
Lemma C12_disc_collision_any_sibling_lemma : forall sc m o f,
  In o (m_oneofs m) -> oneof_configured o = true -> In f (m_fields m) -> in_oneof o f = false ->
  json_name (f_name f) = o_discriminator o ->
  oneof_msg_check sc m <> None /\ In (viol RDiscriminatorCollision (o_name o)) (message_violations sc m).
Proof.
  intros sc m o f Ho C Hf NI E.
  assert (In f (outside_fields m o)) as Out by (apply filter_In; split; [exact Hf|now rewrite NI]).
  split.
  - unfold oneof_msg_check. apply first_some_not_none with (x := o); [exact Ho|].
    unfold oneof_check. rewrite C. apply or_else_not_none_l. unfold disc_collision_check.
    apply first_some_not_none with (x := f); [exact Out|].
    cbv beta. rewrite E, str_eqb_refl. discriminate.
  - apply in_message_oneof with (o := o); [exact Ho|]. unfold oneof_part. rewrite C. apply in_or_app. left.
    apply in_when. split; [|reflexivity].
    apply mem_str_in. rewrite <- E. apply in_map_iff. now exists f.
Qed.

(* a child of a flattened variant collides with ANY field outside the oneof *)
Lemma C12_flat_child_collision_any_sibling_lemma : forall sc m o f v c,
  In o (m_oneofs m) -> oneof_configured o = true -> o_flatten o = true ->
  In f (m_fields m) -> in_oneof o f = false ->
  In v (variants m o) -> In c (kind_children sc (f_kind v)) -> snd c = json_name (f_name f) ->
  oneof_msg_check sc m <> None /\ In (viol ROneofFlattenChildCollision (o_name o)) (message_violations sc m).
Proof.
  intros sc m o f v c Ho C Fl Hf NI Hv Hc E.
  assert (mem_str (snd c) (reserved_names m o) = true) as R.
  { apply mem_str_in. unfold reserved_names. right. rewrite E. apply in_map_iff. exists f. split; [reflexivity|].
    apply filter_In. split; [exact Hf|now rewrite NI]. }
  split.
  - unfold oneof_msg_check. apply first_some_not_none with (x := o); [exact Ho|].
    unfold oneof_check. rewrite C, Fl. apply or_else_not_none_r. unfold oneof_flatten_check. apply or_else_not_none_r.
    apply first_some_not_none with (x := v); [exact Hv|]. cbv beta.
    apply first_some_not_none with (x := c); [exact Hc|]. cbv beta. rewrite R. discriminate.
  - apply in_message_oneof with (o := o); [exact Ho|]. unfold oneof_part. rewrite C, Fl.
    apply in_or_app. right. apply in_or_app. right. apply in_when. split; [|reflexivity].
    apply existsb_exists. exists v. split; [exact Hv|]. apply existsb_exists. exists c. now split.
Qed.

(* a flattened child collides with ANY non-flattened field of the message *)
Lemma C12_flatten_collision_any_sibling_lemma : forall sc m f g c,
  (forall x, In x (m_fields m) -> flatten_field_check m x = None) ->
  In f (m_fields m) -> is_flatten f = false ->
  In g (m_fields m) -> well_formed_flatten g = true -> In c (kind_children sc (f_kind g)) ->
  flatten_prefix g ++ snd c = json_name (f_name f) ->
  flatten_msg_check sc m <> None /\ In (viol RFlattenCollision (f_name g)) (message_violations sc m).
Proof.
  intros sc m f g c OK Hf NF Hg WF Hc E.
  assert (In (f_name g, fst c, flatten_prefix g ++ snd c) (spec_flattened sc m)) as I.
  { unfold spec_flattened, names_of. apply in_flat_map. exists g. split; [apply filter_In; auto|].
    apply in_map_iff. now exists c. }
  assert (mem_str (flatten_prefix g ++ snd c) (parent_json_names m) = true) as P.
  { apply mem_str_in. rewrite E. unfold parent_json_names. apply in_map_iff. exists f. split; [reflexivity|].
    apply filter_In. split; [exact Hf|now rewrite NF]. }
  assert (has_flatten m = true) as HF.
  { unfold has_flatten. apply existsb_exists. exists g. split; [exact Hg|].
    unfold well_formed_flatten in WF. destruct (is_flatten g); [reflexivity|discriminate]. }
  split.
  - intros N. destruct (flatten_msg_none sc m N) as [_ CP]. unfold collision_part in CP.
    rewrite flat_map_nil in CP. specialize (CP _ I). cbn [snd fst] in CP. rewrite P in CP. discriminate.
  - rewrite message_violations_parts. do 3 (apply in_or_app; right). apply in_or_app. left.
    unfold collision_part. apply in_flat_map. eexists. split; [exact I|]. cbn [snd fst]. rewrite P. now left.
Qed.

(* concrete instances: the sibling named like the discriminator is a proto3 optional field / a member of a second
   plain oneof / a member of a second annotated oneof / a map *)
Definition w_sibling (sib : list field) (extra : list oneof) : schema :=
  [pfile "a.proto" true
     [res_msg; addr_msg;
      msg ["Event"] (fld "id" 1 KString Singular :: sib ++ [in_oneof_named "content" (fld "text" 10 (KMessage (s "p.Addr")) Singular)])
          ({| o_name := s "content"; o_has_cfg := true; o_discriminator := s "kind"; o_flatten := true |} :: extra)] [] [svc [ping]]].
Definition plain_oneof : oneof := {| o_name := s "other"; o_has_cfg := false; o_discriminator := []; o_flatten := false |}.
Definition annotated_oneof : oneof := {| o_name := s "other"; o_has_cfg := true; o_discriminator := s "d2"; o_flatten := false |}.
Definition refused (sc : schema) : option (err_class * err_class) :=
  match go_http_accepts sc, go_client_accepts sc with
  | Some e, Some e' => Some (e_class e, e_class e')
  | _, _ => None
  end.
Lemma C12_sibling_kinds_lemma :
  refused (w_sibling [fld "kind" 2 KString Optional] []) = Some (EDiscCollision, EDiscCollision) /\
  refused (w_sibling [fld "kind" 2 (KMessage (s "p.Addr")) Optional] []) = Some (EDiscCollision, EDiscCollision) /\
  refused (w_sibling [in_oneof_named "other" (fld "kind" 2 KString Singular)] [plain_oneof]) = Some (EDiscCollision, EDiscCollision) /\
  refused (w_sibling [in_oneof_named "other" (fld "kind" 2 KString Singular)] [annotated_oneof]) = Some (EDiscCollision, EDiscCollision) /\
  refused (w_sibling [fld "kind" 2 KString (MapOf KString)] []) = Some (EDiscCollision, EDiscCollision) /\
  refused (w_sibling [fld "street" 2 KString Optional] []) = Some (EOneofFlatChildCollision, EOneofFlatChildCollision) /\
  refused (w_sibling [in_oneof_named "other" (fld "zip_code" 2 KInt32 Singular)] [annotated_oneof]) = Some (EOneofFlatChildCollision, EOneofFlatChildCollision) /\
  defects_C12 (w_sibling [fld "kind" 2 KString Optional] []) = [] /\
  go_http_accepts (w_sibling [fld "kinds" 2 KString Optional; in_oneof_named "other" (fld "kind_b" 3 KString Singular)] [annotated_oneof]) = None.
Proof. vm_compute. repeat split; reflexivity. Qed.

(* ================================ C14: nested declarations =========================================== *)
(* message Event { Timestamp created_at = 1 [UNIX_SECONDS]; message Occurrence { Timestamp at = 1 [UNIX_MILLIS];
   message Detail { Timestamp seen = 1 [DATE]; } } }  message Audit { message Entry { Timestamp at = 1 [UNIX_MILLIS]; } } *)
Definition ts_field (n : string) (t : ts_fmt) : field := with_tsfmt t (fld n 1 (KMessage (s "google.protobuf.Timestamp")) Singular).
Definition w_nested : schema :=
  [pfile "a.proto" true
     [res_msg;
      msg ["Event"] [ts_field "created_at" TFUnixSeconds] [];
      msg ["Event"; "Occurrence"] [ts_field "at" TFUnixMillis] [];
      msg ["Event"; "Occurrence"; "Detail"] [ts_field "seen" TFDate] [];
      msg ["Audit"] [fld "id" 1 KString Singular] [];
      msg ["Audit"; "Entry"] [ts_field "at" TFUnixMillis] []] [] [svc [ping]]].
Lemma C14_nested_declarations_lemma :
  forall f, In f (gen_files w_nested) ->
    client_contexts w_nested f CTimestamp = [s "p.Event"; s "p.Event.Occurrence"; s "p.Event.Occurrence.Detail"; s "p.Audit.Entry"] /\
    http_contexts w_nested f CTimestamp = client_contexts w_nested f CTimestamp /\
    context_types false w_nested f CTimestamp = [s "Event"; s "Event_Occurrence"; s "Event_Occurrence_Detail"; s "Audit_Entry"] /\
    context_types true w_nested f CTimestamp = context_types false w_nested f CTimestamp /\
    defects_C14 w_nested = [].
Proof. intros f [<-|[]]. vm_compute. repeat split; reflexivity. Qed.
