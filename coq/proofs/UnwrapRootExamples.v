(* UnwrapRootExamples.v — witnesses for the root-unwrap theorems: non-vacuity on the shared schema [xs] and on a
   schema with every root-unwrap shape, and one refutation per side condition. *)
From Sebuf Require Import CodecCases.
From SebufProofs Require Import TextFacts CodecTextFacts ProtoJsonFacts NullableFacts MappingFacts UnwrapRootFacts UnwrapRootConforms.
From SebufProofs Require Import CodecExamples.
Open Scope Z_scope.

Definition color_enum : enum :=
  {| e_name := s "x.v1.Color";
     e_values := [ {| ev_name := s "COLOR_UNSPECIFIED"; ev_number := 0; ev_custom := None |};
                   {| ev_name := s "COLOR_RED"; ev_number := 1; ev_custom := Some (s "red") |};
                   {| ev_name := s "COLOR_BLUE"; ev_number := 2; ev_custom := Some (s "blue") |} ] |}.
(* two values with one enum_value text *)
Definition dup_enum : enum :=
  {| e_name := s "x.v1.Dup";
     e_values := [ {| ev_name := s "DUP_A"; ev_number := 0; ev_custom := Some (s "same") |};
                   {| ev_name := s "DUP_B"; ev_number := 1; ev_custom := Some (s "same") |} ] |}.

(* root unwrap in every shape *)
Definition uws : schema :=
  [ {| fl_path := s "x/u.proto"; fl_package := s "x.v1"; fl_gopkg := s "x"; fl_generate := true;
       fl_messages :=
         [ msg "Leaf" [fld "a" 1 KString Singular; fld "n" 2 KInt64 Singular] [];
           msg "LeafMap" [set_unwrap (fld "by_id" 1 (T "Leaf") (MapOf KString))] [];
           msg "Page" [set_unwrap (fld "items" 1 (T "Leaf") Repeated); fld "total" 2 KInt32 Singular] [];
           msg "Book" [set_unwrap (fld "pages" 1 (T "Page") (MapOf KString))] [];
           msg "StrMap" [set_unwrap (fld "m" 1 KString (MapOf KString))] [];
           msg "Tags" [set_unwrap (fld "vals" 1 KString Repeated); fld "total" 2 KInt32 Singular] [];
           msg "TagCombo" [set_unwrap (fld "by_k" 1 (T "Tags") (MapOf KString))] [];
           msg "Ratios" [set_unwrap (fld "rs" 1 KDouble Repeated)] [];
           msg "Bigs" [set_unwrap (fld "bs" 1 KInt64 Repeated)] [];
           msg "Colors" [set_unwrap (fld "cs" 1 (KEnum (s "x.v1.Color")) Repeated)] [];
           msg "ColorCombo" [set_unwrap (fld "by_k" 1 (T "Colors") (MapOf KString))] [];
           msg "Dups" [set_unwrap (fld "ds" 1 (KEnum (s "x.v1.Dup")) Repeated)] [];
           msg "IntKeys" [set_unwrap (fld "by_n" 1 (T "Leaf") (MapOf KInt32))] [] ];
       fl_enums := [color_enum; dup_enum]; fl_services := [] |} ].

Definition leaf1 : fval := FM [(s "a", vstr "x"); (s "n", vint 7)].
Definition leaf1_json : json := JObj [(s "a", JStr (s "x")); (s "n", JStr (s "7"))].

(* all hypotheses of unwrap_root_roundtrip / conforms_unwrap_root at once *)
Definition root_hyps (sc : schema) (tn : str) (m : mval) : Prop :=
  str_eqb tn ts_name = false /\ is_wkt_other tn = false /\
  exists md, find_message (all_messages sc) tn = Some md /\ owner_of sc md = Own FtUnwrapRoot /\
             buildable sc FtUnwrapRoot md = true /\ unwrap_root_dom sc md = true /\
             wt sc (KMessage tn) (FM m) = true /\ defects_C04 sc tn m = [] /\ root_conf sc md m = true.
Lemma ex_md_of_match (ms : list message) (tn : str) (P : message -> Prop) :
  match find_message ms tn with Some md => P md | None => False end ->
  exists md, find_message ms tn = Some md /\ P md.
Proof. destruct (find_message ms tn) as [md|]; [|intros []]. intros H. exists md. split; [reflexivity|exact H]. Qed.
Ltac conj_split := repeat match goal with |- _ /\ _ => split end.
Ltac leaf :=
  match goal with
  | |- exists md : message, _ => apply ex_md_of_match; vm_compute; conj_split; reflexivity
  | |- exists _, _ => eexists; vm_compute; reflexivity
  | |- _ => vm_compute; reflexivity
  end.
Ltac witness := cbv zeta; unfold root_hyps; conj_split; leaf.

(* the shared witness schema [xs]: root list of messages (BarList), root list of strings (Strs) *)
Example unwrap_root_nonvacuous_xs :
  (let m := [(s "bars", FL [leaf1; FM []])] in
   let j := JArr [leaf1_json; JObj []] in
   root_hyps xs (q "BarList") m /\
   encode Ex xs (q "BarList") m = ROk j /\ to_json Ex xs (q "BarList") m = ROk j /\
   decode Ex xs (q "BarList") j = ROk m /\ norm xs (q "BarList") m = m) /\
  (let m := [(s "vals", FL [vstr "a"; vstr "b"])] in
   let j := JArr [JStr (s "a"); JStr (s "b")] in
   root_hyps xs (q "Strs") m /\
   encode Ex xs (q "Strs") m = ROk j /\ to_json Ex xs (q "Strs") m = ROk j /\
   decode Ex xs (q "Strs") j = ROk m /\ norm xs (q "Strs") m = m) /\
  (* nothing set: [] for messages; null for scalars, read back as nothing set *)
  encode Ex xs (q "BarList") [] = ROk (JArr []) /\ decode Ex xs (q "BarList") (JArr []) = ROk [] /\
  encode Ex xs (q "Strs") [] = ROk JNull /\ decode Ex xs (q "Strs") JNull = ROk [].
Proof. witness. Qed.

(* root map of messages, the combined form (the wrapper's other field is dropped: norm), root map of strings,
   root list of doubles, root list of an enum with enum_value texts *)
Example unwrap_root_nonvacuous_shapes :
  (let m := [(s "by_id", FMap [(VStr (s "a"), leaf1); (VStr (s "b"), FM [])])] in
   let j := JObj [(s "a", leaf1_json); (s "b", JObj [])] in
   root_hyps uws (q "LeafMap") m /\
   encode Ex uws (q "LeafMap") m = ROk j /\ to_json Ex uws (q "LeafMap") m = ROk j /\
   decode Ex uws (q "LeafMap") j = ROk m /\ norm uws (q "LeafMap") m = m) /\
  (let m := [(s "pages", FMap [(VStr (s "p1"), FM [(s "items", FL [leaf1]); (s "total", vint 3)]); (VStr (s "p2"), FM [])])] in
   let m' := [(s "pages", FMap [(VStr (s "p1"), FM [(s "items", FL [leaf1])]); (VStr (s "p2"), FM [])])] in
   let j := JObj [(s "p1", JArr [leaf1_json]); (s "p2", JArr [])] in
   root_hyps uws (q "Book") m /\
   encode Ex uws (q "Book") m = ROk j /\ to_json Ex uws (q "Book") m = ROk j /\
   decode Ex uws (q "Book") j = ROk m' /\ norm uws (q "Book") m = m') /\
  (let m := [(s "m", FMap [(VStr (s "a"), vstr "x")])] in
   let j := JObj [(s "a", JStr (s "x"))] in
   root_hyps uws (q "StrMap") m /\
   encode Ex uws (q "StrMap") m = ROk j /\ to_json Ex uws (q "StrMap") m = ROk j /\
   decode Ex uws (q "StrMap") j = ROk m) /\
  (let m := [(s "by_k", FMap [(VStr (s "a"), FM [(s "vals", FL [vstr "x"]); (s "total", vint 2)])])] in
   let m' := [(s "by_k", FMap [(VStr (s "a"), FM [(s "vals", FL [vstr "x"])])])] in
   let j := JObj [(s "a", JArr [JStr (s "x")])] in
   root_hyps uws (q "TagCombo") m /\
   encode Ex uws (q "TagCombo") m = ROk j /\ to_json Ex uws (q "TagCombo") m = ROk j /\
   decode Ex uws (q "TagCombo") j = ROk m' /\ norm uws (q "TagCombo") m = m') /\
  (let m := [(s "rs", FL [FS (VFloat 4609434218613702656)])] in
   let j := JArr [jflt 4609434218613702656] in
   root_hyps uws (q "Ratios") m /\
   encode Ex uws (q "Ratios") m = ROk j /\ to_json Ex uws (q "Ratios") m = ROk j /\
   decode Ex uws (q "Ratios") j = ROk m).
Proof. witness. Qed.

(* an enum with a MarshalJSON among the scalar elements: the round trip holds (conformance is not claimed) *)
Example unwrap_root_nonvacuous_enum :
  let m := [(s "cs", FL [FS (VEnum 1); FS (VEnum 2); FS (VEnum 0)])] in
  let j := JArr [JStr (s "red"); JStr (s "blue"); JStr (s "COLOR_UNSPECIFIED")] in
  (exists md, find_message (all_messages uws) (q "Colors") = Some md /\ owner_of uws md = Own FtUnwrapRoot /\
              unwrap_root_dom uws md = true) /\
  wt uws (KMessage (q "Colors")) (FM m) = true /\ defects_C04 uws (q "Colors") m = [] /\
  encode Ex uws (q "Colors") m = ROk j /\ decode Ex uws (q "Colors") j = ROk m.
Proof. witness. Qed.

(* the message shapes of unwrap_root_roundtrip_messages *)
Example unwrap_root_messages_nonvacuous :
  (exists md, find_message (all_messages xs) (q "BarList") = Some md /\ owner_of xs md = Own FtUnwrapRoot /\ msg_elems xs md = true) /\
  (exists md, find_message (all_messages uws) (q "LeafMap") = Some md /\ owner_of uws md = Own FtUnwrapRoot /\ msg_elems uws md = true) /\
  (exists md, find_message (all_messages uws) (q "Book") = Some md /\ owner_of uws md = Own FtUnwrapRoot /\ msg_elems uws md = true) /\
  (exists md, find_message (all_messages xs) (q "Strs") = Some md /\ owner_of xs md = Own FtUnwrapRoot /\ msg_elems xs md = false).
Proof. witness. Qed.

(* ---- the side conditions are needed --------------------------------------------------------------------------- *)
(* two enum values with one enum_value text: the second is read back as the first *)
Example unwrap_root_roundtrip_needs_enum_texts_distinct :
  let m := [(s "ds", FL [FS (VEnum 1)])] in
  (exists md, find_message (all_messages uws) (q "Dups") = Some md /\ owner_of uws md = Own FtUnwrapRoot /\
              unwrap_root_dom uws md = false) /\
  wt uws (KMessage (q "Dups")) (FM m) = true /\ defects_C04 uws (q "Dups") m = [] /\
  encode Ex uws (q "Dups") m = ROk (JArr [JStr (s "same")]) /\
  decode Ex uws (q "Dups") (JArr [JStr (s "same")]) = ROk [(s "ds", FL [FS (VEnum 0)])] /\
  norm uws (q "Dups") m = m.
Proof. witness. Qed.

(* an undefined number of an enum with a MarshalJSON inside a wrapper: written as "99", not read back; the
   defect classifier of CodecCases.v only looks at the root field (its kind here is a message), so
   defects_C04 = [] does not exclude it *)
Example unwrap_root_roundtrip_needs_no_codec_enum_in_wrapper :
  let m := [(s "by_k", FMap [(VStr (s "a"), FM [(s "cs", FL [FS (VEnum 99)])])])] in
  (exists md, find_message (all_messages uws) (q "ColorCombo") = Some md /\ owner_of uws md = Own FtUnwrapRoot /\
              unwrap_root_dom uws md = false) /\
  wt uws (KMessage (q "ColorCombo")) (FM m) = true /\ defects_C04 uws (q "ColorCombo") m = [] /\
  encode Ex uws (q "ColorCombo") m = ROk (JObj [(s "a", JArr [JStr (s "99")])]) /\
  decode Ex uws (q "ColorCombo") (JObj [(s "a", JArr [JStr (s "99")])]) = RErr (s "unknown enum value").
Proof. witness. Qed.

(* the same at the root is what defects_C04 tags (D4EnumCodecUnknown): the hypothesis defects_C04 = [] is needed *)
Example unwrap_root_roundtrip_needs_defect_free :
  let m := [(s "cs", FL [FS (VEnum 99)])] in
  (exists md, find_message (all_messages uws) (q "Colors") = Some md /\ owner_of uws md = Own FtUnwrapRoot /\
              unwrap_root_dom uws md = true) /\
  wt uws (KMessage (q "Colors")) (FM m) = true /\ defects_C04 uws (q "Colors") m = [D4EnumCodecUnknown] /\
  encode Ex uws (q "Colors") m = ROk (JArr [JStr (s "99")]) /\
  decode Ex uws (q "Colors") (JArr [JStr (s "99")]) = RErr (s "unknown enum value").
Proof. witness. Qed.

(* conformance: a map key type other than string does not compile (C13), the model declines *)
Example conforms_unwrap_root_needs_buildable :
  let m := [(s "by_n", FMap [(VInt 1, leaf1)])] in
  (exists md, find_message (all_messages uws) (q "IntKeys") = Some md /\ owner_of uws md = Own FtUnwrapRoot /\
              buildable uws FtUnwrapRoot md = false /\ root_conf uws md m = true) /\
  wt uws (KMessage (q "IntKeys")) (FM m) = true /\
  (exists w, encode Ex uws (q "IntKeys") m = RUnm w) /\
  to_json Ex uws (q "IntKeys") m = ROk (JObj [(s "1", leaf1_json)]).
Proof. witness. Qed.

(* conformance: outside root_conf — the nil scalar list at the root (D5RootNull), 64-bit integers as scalar
   elements (D5UnwrapSibling), and the nil scalar list INSIDE a wrapper, which defects_C05 does not tag *)
Example conforms_unwrap_root_needs_root_conf :
  (exists md, find_message (all_messages xs) (q "Strs") = Some md /\ root_conf xs md [] = false) /\
  defects_C05 xs (q "Strs") [] = [D5RootNull] /\
  encode Ex xs (q "Strs") [] = ROk JNull /\ to_json Ex xs (q "Strs") [] = ROk (JArr []) /\
  (let m := [(s "bs", FL [vint 5])] in
   (exists md, find_message (all_messages uws) (q "Bigs") = Some md /\ root_conf uws md m = false) /\
   wt uws (KMessage (q "Bigs")) (FM m) = true /\ defects_C05 uws (q "Bigs") m = [D5UnwrapSibling] /\
   encode Ex uws (q "Bigs") m = ROk (JArr [JNum 5]) /\ to_json Ex uws (q "Bigs") m = ROk (JArr [JStr (s "5")])) /\
  (let m := [(s "by_k", FMap [(VStr (s "b"), FM [(s "total", vint 3)])])] in
   (exists md, find_message (all_messages uws) (q "TagCombo") = Some md /\ owner_of uws md = Own FtUnwrapRoot /\
               buildable uws FtUnwrapRoot md = true /\ root_conf uws md m = false) /\
   wt uws (KMessage (q "TagCombo")) (FM m) = true /\ defects_C05 uws (q "TagCombo") m = [] /\
   encode Ex uws (q "TagCombo") m = ROk (JObj [(s "b", JNull)]) /\
   to_json Ex uws (q "TagCombo") m = ROk (JObj [(s "b", JArr [])])).
Proof. witness. Qed.

(* conformance: a list naming the field twice is not a message value (wt excludes it) *)
Example conforms_unwrap_root_needs_wt :
  let m := [(s "bars", FL [leaf1]); (s "bars", FL [FM []])] in
  (exists md, find_message (all_messages xs) (q "BarList") = Some md /\ root_conf xs md m = true) /\
  wt xs (KMessage (q "BarList")) (FM m) = false /\
  encode Ex xs (q "BarList") m = ROk (JArr [leaf1_json]) /\
  (exists w, to_json Ex xs (q "BarList") m = RUnm w).
Proof. witness. Qed.
Close Scope Z_scope.
