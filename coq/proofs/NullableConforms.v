(* C05_conforms for the nullable codec: a top-level message whose only annotations are nullable
   fields, with un-annotated children: the server's JSON IS the documented mapping, for all values. *)
From Sebuf Require Import CodecCases.
From SebufProofs Require Import TextFacts CodecTextFacts ProtoJsonFacts NullableFacts.
From SebufProofs Require Import MappingFacts.

Open Scope Z_scope.

(* no annotation other than nullable *)
Definition nulplain_field (f : field) : bool :=
  negb (f_unwrap f) && is_none (f_int64 f) && is_none (f_enumenc f) && is_none (f_empty f) &&
  is_none (f_tsfmt f) && is_none (f_bytesenc f) && is_none (f_oneof_value f) && is_none (f_flatten f) && is_none (f_flatten_prefix f).
Definition nulplain_msg (md : message) : bool :=
  forallb nulplain_field (m_fields md) && forallb (fun o => negb (o_has_cfg o)) (m_oneofs md).

Lemma nulplain_facts f : nulplain_field f = true ->
  f_unwrap f = false /\ f_empty f = None /\ f_flatten f = None /\ ctx_field_ok f = true.
Proof.
  unfold nulplain_field. intros H. repeat (apply andb_prop in H; destruct H as [H ?]).
  apply Bool.negb_true_iff in H. unfold ctx_field_ok.
  repeat match goal with
         | Hx : is_none ?o = true |- _ => destruct o; [discriminate Hx|clear Hx]
         end.
  repeat split; auto.
Qed.

Section Conforms.
Variable E : ExtLib.
Variable sc : schema.

Lemma no_cfg_oneof md f : forallb (fun o => negb (o_has_cfg o)) (m_oneofs md) = true -> mp_oneof_of md f = None.
Proof.
  unfold mp_oneof_of. intros H. destruct (f_oneof f) as [n|]; [|reflexivity].
  rewrite forallb_forall in H.
  induction (m_oneofs md) as [|o r IH]; [reflexivity|]. simpl.
  assert (Ho : o_has_cfg o = false).
  { specialize (H o (or_introl eq_refl)). apply Bool.negb_true_iff in H. exact H. }
  rewrite Ho, Bool.andb_false_r. simpl. apply IH. intros x Hx. apply H. right. exact Hx.
Qed.

Lemma mp_msg_nulplain md m :
  nulplain_msg md = true ->
  forallb (fun e => match find_field (m_fields md) (fst e) with
                    | Some f => plain_in sc (f_kind f) (snd e)
                    | None => false end) m = true ->
  mp_msg E sc md m = m_msg E sc md m >>= (fun es => ROk (map (fun e => PField (fst e) (snd e)) es)).
Proof.
  intros Hmd. unfold nulplain_msg in Hmd. apply andb_prop in Hmd. destruct Hmd as [Hf Ho].
  rewrite forallb_forall in Hf.
  induction m as [|[name x] r IH]; intros Hch; [reflexivity|].
  simpl in Hch. simpl mp_msg. simpl m_msg.
  destruct (find_field (m_fields md) name) as [f|] eqn:Ef; [|discriminate].
  apply andb_prop in Hch. destruct Hch as [Hpx Hr].
  destruct (nulplain_facts f (Hf f (find_field_in _ _ _ Ef))) as [_ [Hem [Hfl Hctx]]].
  unfold mp_entry. rewrite Hem, Hfl, (no_cfg_oneof md f Ho).
  rewrite (mapping_plain_fval E sc x (Some f) (f_kind f) Hctx Hpx).
  destruct (pj_fval E sc (f_kind f) x) as [j|e|w]; simpl; try reflexivity.
  rewrite (IH Hr). destruct (m_msg E sc md r) as [t|e|w]; reflexivity.
Qed.

Lemma nulplain_no_unwrap md : nulplain_msg md = true -> mp_root_unwrap md = None.
Proof.
  intros Hmd. unfold nulplain_msg in Hmd. apply andb_prop in Hmd. destruct Hmd as [Hf _].
  rewrite forallb_forall in Hf. unfold mp_root_unwrap, mp_unwrap_field.
  assert (Hnil : filter (fun f => f_unwrap f) (m_fields md) = []).
  { induction (m_fields md) as [|a r IH]; [reflexivity|]. simpl.
    destruct (nulplain_facts a (Hf a (or_introl eq_refl))) as [Hu _]. rewrite Hu. apply IH.
    intros f Hin. apply Hf. right. exact Hin. }
  rewrite Hnil. destruct (m_fields md) as [|? [|? ?]]; reflexivity.
Qed.

Lemma nulls_same md (m : mval) :
  flat_map (fun f => match f_nullable f, mget m (f_name f) with
                     | Some true, None => [(json_name (f_name f), JNull)]
                     | _, _ => []
                     end) (m_fields md) = flat_map (nulls_of m) (m_fields md).
Proof.
  induction (m_fields md) as [|f r IH]; [reflexivity|]. simpl. rewrite IH. f_equal.
  unfold nulls_of, is_nullable, jn. destruct (f_nullable f) as [[|]|]; destruct (mget m (f_name f)); reflexivity.
Qed.

Theorem conforms_nullable : forall tn md m,
  str_eqb tn ts_name = false -> is_wkt_other tn = false ->
  find_message (all_messages sc) tn = Some md -> owner_of sc md = Own FtNullable ->
  nodup_str (map jn (m_fields md)) = true ->
  nulplain_msg md = true ->
  forallb (fun e => match find_field (m_fields md) (fst e) with
                    | Some f => plain_in sc (f_kind f) (snd e)
                    | None => false end) m = true ->
  encode E sc tn m = to_json E sc tn m.
Proof.
  intros tn md m Hts Hwk Hfm Hown Hnd Hmd Hch.
  assert (Hlk : lookup_message sc tn = Some md) by (unfold lookup_message; rewrite Hts; exact Hfm).
  assert (Howns : owns sc tn = true) by (unfold owns; rewrite Hlk, Hown; reflexivity).
  assert (Hdecl : forallb (fun e => match find_field (m_fields md) (fst e) with Some _ => true | None => false end) m = true).
  { clear -Hch. induction m as [|e r IH]; [reflexivity|]. simpl in *.
    destruct (find_field (m_fields md) (fst e)); [|discriminate]. apply andb_prop in Hch. simpl. apply IH. apply Hch. }
  (* Impl *)
  unfold encode. rewrite Howns.
  rewrite (gj_fval_owned E sc tn md FtNullable m Hwk Hlk Hown), (kids_nullable E sc md m Hdecl). simpl rbind.
  unfold codec_body. assert (Hb : buildable sc FtNullable md = true) by reflexivity. rewrite Hb. simpl negb. cbv iota.
  unfold pj_marshal. rewrite pj_fval_FM, Hts, Hwk, Hfm.
  (* Spec *)
  unfold to_json. rewrite mp_fval_FM, Hts, Hwk, Hfm, (mp_msg_nulplain md m Hmd Hch).
  destruct (m_msg E sc md m) as [es|e|w] eqn:Hes; simpl; try reflexivity.
  unfold mp_finish. rewrite (nulplain_no_unwrap md Hmd), fields_of_pieces, nulls_same.
  rewrite enc_nullable_fold.
  rewrite (enc_append m (m_fields md) es Hnd); [reflexivity|].
  (* the null keys are not among the protojson keys *)
  intros f Hin Hne. destruct (raw_has (jn f) es) eqn:Eh; [|reflexivity]. exfalso.
  pose proof (m_msg_keys E sc md m es Hes) as Hkeys.
  apply raw_has_keys in Eh. rewrite Hkeys in Eh. apply in_map_iff in Eh. destruct Eh as [[name x] [Hn Hinm]]. simpl in Hn.
  rewrite forallb_forall in Hdecl. specialize (Hdecl _ Hinm). simpl in Hdecl.
  destruct (find_field (m_fields md) name) as [g|] eqn:Eg; [|discriminate].
  destruct (find_field_spec _ _ _ Eg) as [Hing Hname].
  assert (g = f). { eapply nodup_jn_inj; eauto. unfold jn. rewrite Hname. exact Hn. }
  subst g. unfold nulls_of in Hne. destruct (is_nullable f); [|apply Hne; reflexivity].
  destruct (mget m (f_name f)) eqn:Em; [apply Hne; reflexivity|].
  apply (mget_in m (f_name f)); [|exact Em]. rewrite Hname. apply (in_map fst) in Hinm. exact Hinm.
Qed.
End Conforms.
Close Scope Z_scope.

(* non-vacuity: the hypotheses of nullable_roundtrip / conforms_nullable hold for a concrete message
   with a set, an unset and an un-annotated field *)
From SebufProofs Require Import CodecExamples.
Example nullable_nonvacuous :
  exists md,
    find_message (all_messages xs) (q "Nul") = Some md /\ owner_of xs md = Own FtNullable /\
    nodup_str (map jn (m_fields md)) = true /\ nulplain_msg md = true /\
    wt xs (KMessage (q "Nul")) (FM [(s "id", vstr "x")]) = true /\
    encode Ex xs (q "Nul") [(s "id", vstr "x")] = ROk (JObj [(s "id", JStr (s "x")); (s "nick", JNull)]).
Proof. eexists. vm_compute. repeat split; reflexivity. Qed.
