(* OrderFacts.v — facts about Order.v used by props/C15.v *)
From Sebuf Require Import Text Json Order.
From SebufProofs Require Import TextFacts.

(* ================================================================================================ *)
(* the byte order of sort.Strings                                                                    *)
(* ================================================================================================ *)

Lemma code_inj a b : code a = code b -> a = b.
Proof. unfold code. intros H. rewrite <- (ascii_N_embedding a), <- (ascii_N_embedding b). now rewrite H. Qed.

Lemma str_le_refl a : str_le a a = true.
Proof. induction a as [|x a IH]; cbn; [reflexivity|]. now rewrite N.ltb_irrefl. Qed.

Lemma str_le_total a b : str_le a b = true \/ str_le b a = true.
Proof.
  revert b; induction a as [|x a IH]; intros [|y b]; cbn; auto.
  destruct (code x <? code y)%N eqn:E1; [now left|].
  destruct (code y <? code x)%N eqn:E2; [now right|]. apply IH.
Qed.

Lemma str_le_antisym a b : str_le a b = true -> str_le b a = true -> a = b.
Proof.
  revert b; induction a as [|x a IH]; intros [|y b]; cbn; try discriminate; auto.
  destruct (code x <? code y)%N eqn:E1; destruct (code y <? code x)%N eqn:E2; try discriminate.
  - apply N.ltb_lt in E1, E2. lia.
  - intros H1 H2. apply N.ltb_ge in E1, E2. assert (code x = code y) by lia.
    f_equal; [now apply code_inj|now apply IH].
Qed.

Lemma str_le_trans a b c : str_le a b = true -> str_le b c = true -> str_le a c = true.
Proof.
  revert b c; induction a as [|x a IH]; intros [|y b] [|z c]; cbn; try discriminate; auto.
  destruct (code x <? code y)%N eqn:E1; destruct (code y <? code z)%N eqn:E2;
    destruct (code x <? code z)%N eqn:E3; destruct (code y <? code x)%N eqn:E4;
    destruct (code z <? code y)%N eqn:E5; destruct (code z <? code x)%N eqn:E6;
    try discriminate; try reflexivity;
    repeat match goal with
           | H : (_ <? _)%N = true |- _ => apply N.ltb_lt in H
           | H : (_ <? _)%N = false |- _ => apply N.ltb_ge in H
           end; try lia.
  apply IH.
Qed.

(* ================================================================================================ *)
(* insertion sort by key is independent of the order in which the entries arrive                     *)
(* ================================================================================================ *)
Section SortGeneric.
  Variable A : Type.
  Notation entry := (str * A)%type.

  (* generic in the comparison: what makes the sorted output unique is that [le] is total,
     transitive and ANTISYMMETRIC ON KEYS *)
  Variable le : str -> str -> bool.
  Hypothesis le_total : forall a b, le a b = true \/ le b a = true.
  Hypothesis le_trans : forall a b c, le a b = true -> le b c = true -> le a c = true.
  Hypothesis le_antisym : forall a b, le a b = true -> le b a = true -> a = b.

  Lemma le_false_flip (x y : str) : le x y = false -> le y x = true.
  Proof. intros H. destruct (le_total x y); congruence. Qed.
  (* antisymmetry is used exactly here: two DIFFERENT keys cannot each be below the other, so their
     relative position after insertion does not depend on which was inserted first *)
  Lemma le_neq_flip (x y : str) : x <> y -> le x y = true -> le y x = false.
  Proof. intros Hn H. destruct (le y x) eqn:E; [|reflexivity]. exfalso. apply Hn. now apply le_antisym. Qed.

  Lemma insert_comm (x y : entry) l : fst x <> fst y ->
    insert_with le x (insert_with le y l) = insert_with le y (insert_with le x l).
  Proof.
    intros Hn. induction l as [|z r IH].
    - cbn. destruct (le (fst x) (fst y)) eqn:E.
      + now rewrite (le_neq_flip _ _ Hn E).
      + now rewrite (le_false_flip _ _ E).
    - cbn [insert_with]. destruct (le (fst y) (fst z)) eqn:Eyz; destruct (le (fst x) (fst z)) eqn:Exz; cbn [insert_with].
      + destruct (le (fst x) (fst y)) eqn:Exy.
        * rewrite (le_neq_flip _ _ Hn Exy). now rewrite Eyz.
        * rewrite (le_false_flip _ _ Exy). now rewrite Exz.
      + assert (Exy : le (fst x) (fst y) = false).
        { destruct (le (fst x) (fst y)) eqn:E; [|reflexivity]. rewrite (le_trans _ _ _ E Eyz) in Exz. discriminate. }
        rewrite Exy, Exz, Eyz. reflexivity.
      + assert (Eyx : le (fst y) (fst x) = false).
        { destruct (le (fst y) (fst x)) eqn:E; [|reflexivity]. rewrite (le_trans _ _ _ E Exz) in Eyz. discriminate. }
        rewrite Exz, Eyx, Eyz. reflexivity.
      + rewrite Exz, Eyz. now rewrite IH.
  Qed.

  Theorem sort_with_perm (l l' : list entry) :
    Permutation l l' -> NoDup (map fst l) -> sort_with le l = sort_with le l'.
  Proof.
    induction 1 as [|x l l' Hp IH|x y l|l l' l'' Hp1 IH1 Hp2 IH2]; intros Hnd.
    - reflexivity.
    - change (insert_with le x (sort_with le l) = insert_with le x (sort_with le l')).
      rewrite IH; [reflexivity|]. cbn in Hnd. now inversion Hnd.
    - change (insert_with le y (insert_with le x (sort_with le l)) = insert_with le x (insert_with le y (sort_with le l))).
      apply insert_comm. cbn in Hnd. inversion Hnd as [|? ? Hin _]. intros E. apply Hin. left. now symmetry.
    - rewrite IH1 by assumption. apply IH2.
      apply (Permutation_NoDup (l := map fst l)); [now apply Permutation_map|assumption].
  Qed.

End SortGeneric.

Section SortFacts.
  Variable A : Type.
  Notation entry := (str * A)%type.

  (* the generators' instance: sort.Strings on the exact names *)
  Theorem sort_by_key_perm (l l' : list entry) :
    Permutation l l' -> NoDup (map fst l) -> sort_by_key l = sort_by_key l'.
  Proof. apply (sort_with_perm A str_le str_le_total str_le_trans str_le_antisym). Qed.

  (* the content of a Go map has unique keys *)
  Lemma remove_key_in k (l : list entry) e : In e (remove_key k l) -> In e l /\ fst e <> k.
  Proof.
    induction l as [|y r IH]; cbn; [contradiction|]. destruct (str_eqb k (fst y)) eqn:E.
    - intros H. destruct (IH H). split; [now right|assumption].
    - intros [->|H]; [split; [now left|]|].
      + apply str_eqb_neq in E. congruence.
      + destruct (IH H). split; [now right|assumption].
  Qed.
  Lemma remove_key_nodup k (l : list entry) : NoDup (map fst l) -> NoDup (map fst (remove_key k l)).
  Proof.
    induction l as [|y r IH]; cbn; intros H; [constructor|]. inversion H as [|? ? Hin Hr]. subst.
    destruct (str_eqb k (fst y)); [now apply IH|]. cbn. constructor; [|now apply IH].
    intros Hc. apply Hin. apply in_map_iff in Hc as (e & He & Hi). apply remove_key_in in Hi as [Hi _].
    apply in_map_iff. eauto.
  Qed.
  Lemma map_put_nodup (m : list entry) x : NoDup (map fst m) -> NoDup (map fst (map_put m x)).
  Proof.
    intros H. unfold map_put. cbn. constructor; [|now apply remove_key_nodup].
    intros Hc. apply in_map_iff in Hc as (e & He & Hi). apply remove_key_in in Hi as [_ Hi]. congruence.
  Qed.
  Lemma map_of_nodup_from (ws m : list entry) : NoDup (map fst m) -> NoDup (map fst (fold_left map_put ws m)).
  Proof. revert m; induction ws as [|w r IH]; intros m H; cbn; [assumption|]. apply IH. now apply map_put_nodup. Qed.
  Lemma map_of_nodup (ws : list entry) : NoDup (map fst (map_of ws)).
  Proof. apply map_of_nodup_from. constructor. Qed.

  (* CombineHeaders returns the same slice whatever order the runtime iterates the map in *)
  Theorem combine_headers_order_independent (pi pi' : list entry -> list entry) svc mth :
    (forall m, Permutation m (pi m)) -> (forall m, Permutation m (pi' m)) ->
    combine_headers pi svc mth = combine_headers pi' svc mth.
  Proof.
    intros H1 H2. unfold combine_headers. destruct svc; [reflexivity|]. destruct mth; [reflexivity|].
    set (m := map_of _). transitivity (sort_by_key m).
    - symmetry. apply sort_by_key_perm; [apply H1|apply map_of_nodup].
    - apply sort_by_key_perm; [apply H2|apply map_of_nodup].
  Qed.
End SortFacts.

(* A sort under a coarser key is NOT a function of the collection: the case-insensitive comparison is
   total and transitive, yet two different names that are equal up to case come out in arrival order. *)
Lemma str_le_ci_total a b : str_le_ci a b = true \/ str_le_ci b a = true.
Proof. apply str_le_total. Qed.
Lemma str_le_ci_trans a b c : str_le_ci a b = true -> str_le_ci b c = true -> str_le_ci a c = true.
Proof. apply str_le_trans. Qed.
Lemma str_le_ci_not_antisymmetric :
  str_le_ci (s "X-Request-Id") (s "X-Request-ID") = true /\ str_le_ci (s "X-Request-ID") (s "X-Request-Id") = true /\
  s "X-Request-Id" <> s "X-Request-ID".
Proof. repeat split; try reflexivity. vm_compute. discriminate. Qed.
Lemma coarse_key_sort_depends_on_arrival_order :
  let l1 := [(s "X-Request-Id", 1%nat); (s "X-Request-ID", 2%nat); (s "Accept", 3%nat)] in
  let l2 := [(s "X-Request-ID", 2%nat); (s "X-Request-Id", 1%nat); (s "Accept", 3%nat)] in
  Permutation l1 l2 /\ NoDup (map fst l1) /\
  sort_with str_le_ci l1 <> sort_with str_le_ci l2 /\
  sort_by_key l1 = sort_by_key l2.
Proof.
  cbv zeta. split; [apply perm_swap|]. split.
  - repeat constructor; cbn; intuition discriminate.
  - split; [vm_compute; discriminate|reflexivity].
Qed.

(* ================================================================================================ *)
(* what a plugin reads                                                                               *)
(* ================================================================================================ *)

Inductive subl {X} : list X -> list X -> Prop :=
  | subl_nil : subl [] []
  | subl_skip x l l' : subl l l' -> subl l (x :: l')
  | subl_keep x l l' : subl l l' -> subl (x :: l) (x :: l').

Lemma subl_refl {X} (l : list X) : subl l l.
Proof. induction l; [constructor|now apply subl_keep]. Qed.
Lemma subl_filter {X} (P : X -> bool) l : subl (filter P l) l.
Proof. induction l as [|x r IH]; cbn; [constructor|]. destruct (P x); [now apply subl_keep|now apply subl_skip]. Qed.
Lemma subl_app {X} (a a' b b' : list X) : subl a a' -> subl b b' -> subl (a ++ b) (a' ++ b').
Proof. induction 1; cbn; intros Hb; [assumption|apply subl_skip; auto|apply subl_keep; auto]. Qed.
Lemma subl_nil_l {X} (l : list X) : subl [] l.
Proof. induction l; [constructor|now apply subl_skip]. Qed.
Lemma subl_flat_map {X Y} (f : X -> list Y) l l' : subl l l' -> subl (flat_map f l) (flat_map f l').
Proof.
  induction 1; cbn; [constructor| |].
  - replace (flat_map f l) with ([] ++ flat_map f l) by reflexivity. apply subl_app; [apply subl_nil_l|assumption].
  - apply subl_app; [apply subl_refl|assumption].
Qed.
Lemma subl_in {X} (l l' : list X) x : subl l l' -> In x l -> In x l'.
Proof. induction 1; cbn; intros Hx; auto. destruct Hx; auto. Qed.

Lemma find_msg_some ms n m : find_msg ms n = Some m -> In m ms /\ om_name m = n.
Proof.
  induction ms as [|a r IH]; cbn; [discriminate|]. destruct (str_eqb (om_name a) n) eqn:E.
  - intros H. inversion H. subst. split; [now left|now apply str_eqb_eq].
  - intros H. destruct (IH H). split; [now right|assumption].
Qed.
Lemma find_msg_in ms n : In n (map om_name ms) -> exists m, find_msg ms n = Some m.
Proof.
  induction ms as [|a r IH]; cbn; [contradiction|]. destruct (str_eqb (om_name a) n) eqn:E; [eauto|].
  intros [H|H]; [apply str_eqb_neq in E; congruence|auto].
Qed.

(* unique names: a lookup in a sub-list of the pool finds what the pool finds *)
Lemma find_msg_subl l l' n m : subl l l' -> NoDup (map om_name l') -> find_msg l n = Some m -> find_msg l' n = Some m.
Proof.
  induction 1 as [|x l l' Hs IH|x l l' Hs IH]; cbn; intros Hnd Hf.
  - discriminate.
  - inversion Hnd as [|? ? Hin Hr]. subst. destruct (str_eqb (om_name x) n) eqn:E; [|auto].
    exfalso. apply Hin. apply find_msg_some in Hf as [Hi Hn]. apply str_eqb_eq in E. rewrite E, <- Hn.
    apply in_map. now apply (subl_in _ _ _ Hs).
  - inversion Hnd. subst. destruct (str_eqb (om_name x) n); [assumption|auto].
Qed.

Lemma subl_trans {X} (a b c : list X) : subl a b -> subl b c -> subl a c.
Proof.
  intros H1 H2. revert a H1. induction H2 as [|x l l' H2 IH|x l l' H2 IH]; intros a H1.
  - assumption.
  - apply subl_skip. auto.
  - inversion H1; subst; [apply subl_skip|apply subl_keep]; auto.
Qed.

Lemma global_subl r : subl (global_unwrap r) (all_msgs (rq_files r)).
Proof.
  unfold global_unwrap, all_msgs.
  eapply subl_trans; [apply subl_filter|]. apply subl_flat_map. apply subl_filter.
Qed.

(* the table lookup and its fallback always amount to "the unwrap info of the resolved message":
   which files are generated together does not matter *)
Theorem unwrap_info_is_resolved r n : wf_request r ->
  unwrap_info r n = match resolve r n with Some m => om_unwrap m | None => None end.
Proof.
  intros Hwf. unfold unwrap_info. destruct (find_msg (global_unwrap r) n) as [m|] eqn:E; [|reflexivity].
  unfold resolve. now rewrite (find_msg_subl _ _ _ _ (global_subl r) Hwf E).
Qed.

Lemma flat_map_ext_in {X Y} (f g : X -> list Y) l : (forall x, In x l -> f x = g x) -> flat_map f l = flat_map g l.
Proof. induction l as [|a r IH]; cbn; intros H; [reflexivity|]. rewrite (H a) by now left. rewrite IH; [reflexivity|]. intros x Hx. apply H. now right. Qed.

Lemma generate_via_resolve r1 r2 f : wf_request r1 -> wf_request r2 ->
  (forall m n, In m (of_msgs f) -> In n (om_refs m ++ om_mapvals m) -> resolve r1 n = resolve r2 n) ->
  generate r1 f = generate r2 f.
Proof.
  intros W1 W2 H. unfold generate, generate_with. f_equal.
  - apply flat_map_ext_in. intros m Hm. apply map_ext_in. intros n Hn. now apply (H m n).
  - unfold unwrap_part. apply flat_map_ext_in. intros m Hm. apply flat_map_ext_in. intros n Hn.
    rewrite !unwrap_info_is_resolved by assumption. rewrite (H m n Hm); [reflexivity|]. apply in_or_app. now right.
Qed.

(* same descriptor pool, any file_to_generate: a permutation of it, a single file of it, more files *)
Theorem generate_independent_of_gen_set r1 r2 f :
  wf_request r1 -> rq_files r1 = rq_files r2 -> generate r1 f = generate r2 f.
Proof.
  intros W E. apply generate_via_resolve; [assumption|unfold wf_request; now rewrite <- E|].
  intros m n _ _. unfold resolve. now rewrite E.
Qed.

(* files added anywhere in proto_file (and possibly to file_to_generate) that f does not reach *)
Theorem generate_ignores_unrelated r1 r2 f :
  subl (rq_files r1) (rq_files r2) -> wf_request r2 -> closed_in r1 f ->
  generate r1 f = generate r2 f.
Proof.
  intros Hs W2 Hc.
  assert (Hsm : subl (all_msgs (rq_files r1)) (all_msgs (rq_files r2))) by (apply subl_flat_map; assumption).
  assert (W1 : wf_request r1).
  { unfold wf_request, names in *. clear Hc. induction Hsm as [|x l l' Hs' IH|x l l' Hs' IH]; cbn in *.
    - constructor.
    - inversion W2; auto.
    - inversion W2 as [|? ? Hin Hr]; subst. constructor; [|auto].
      intros Hc. apply Hin. apply in_map_iff in Hc as (e & He & Hi). apply in_map_iff. exists e. split; [assumption|].
      now apply (subl_in _ _ _ Hs'). }
  apply generate_via_resolve; [assumption|assumption|].
  intros m n Hm Hn. specialize (Hc m n Hm Hn). unfold names in Hc. apply find_msg_in in Hc as (x & Hx).
  unfold resolve. rewrite Hx. symmetry. now apply (find_msg_subl _ _ _ _ Hsm W2).
Qed.

(* without the fallback of collectUnwrapMapFields the output of a file WOULD depend on whether the
   file defining a map's value type is generated in the same invocation *)
Local Open Scope string_scope.
Definition b_file : ofile := {| of_path := s "b.proto"; of_imports := [];
  of_msgs := [ {| om_name := s "p.B"; om_unwrap := Some 7; om_mapvals := []; om_refs := []; om_body := 0 |} ]; of_body := 0 |}.
Definition a_file : ofile := {| of_path := s "a.proto"; of_imports := [s "b.proto"];
  of_msgs := [ {| om_name := s "p.A"; om_unwrap := None; om_mapvals := [s "p.B"]; om_refs := []; om_body := 1 |} ]; of_body := 0 |}.
Definition r_single : request := {| rq_files := [b_file; a_file]; rq_gen := [s "a.proto"] |}.
Definition r_multi : request := {| rq_files := [b_file; a_file]; rq_gen := [s "b.proto"; s "a.proto"] |}.

Lemma table_only_depends_on_gen_set :
  (out_unwrap (generate_with unwrap_info_table_only r_single a_file) = []) /\
  (out_unwrap (generate_with unwrap_info_table_only r_multi a_file) = [(s "p.A", s "p.B", 7%nat)]) /\
  (generate r_single a_file = generate r_multi a_file) /\
  (out_unwrap (generate r_single a_file) = [(s "p.A", s "p.B", 7%nat)]).
Proof. repeat split; reflexivity. Qed.

Lemma r_multi_wf : wf_request r_multi /\ closed_in r_multi a_file.
Proof.
  split.
  - unfold wf_request. cbn. repeat constructor; cbn; intuition discriminate.
  - intros m n Hm Hn. cbn in *. destruct Hm as [<-|[]]. cbn in Hn. destruct Hn as [<-|[]]. now left.
Qed.
