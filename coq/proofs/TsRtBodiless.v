(* TsRtBodiless.v — the TS server on GET / DELETE routes: path variables and query parameters of the
   kinds the TS server model handles (string, bool, 32-bit and — String()-typed — 64-bit integers), for every
   value of the declared type.  TS client -> TS server and Go client -> TS server deliver the request the caller
   passed, modulo the zero-value elision both clients perform (a query field holding its zero value is not
   sent; the server's Number("0") / === "true" / ?? "" defaults re-create the zero value, which a handler
   object does not list). *)
From Coq Require Import Lia ZArith.
From Sebuf Require Import Text Json Url Num Route Schema Value GoRt TsRt.
From SebufProofs Require Import TextFacts RouteFacts UrlFacts NumFacts GoRtFacts TsRtFacts.

(* ---- Number() of the decimal text of an integer ----------------------------------------------------------- *)
Lemma js_number_show_int z : (- 2 ^ 53 <= z <= 2 ^ 53)%Z -> z <> 0%Z -> js_number (show_int z) = NumInt z.
Proof.
  intros [Hlo Hhi] Hz. destruct z as [|p|p]; [congruence| |].
  - rewrite show_int_pos. destruct (show_nat_N_shape (Npos p)) as [c [r [E [D _]]]].
    destruct (digit_not_sign c D) as [H1 [H2 _]].
    rewrite E. cbv beta iota zeta delta [js_number]. rewrite H1, H2. rewrite <- E, parse_nat_show.
    assert (L : (2 ^ 53 <? Npos p)%N = false) by (apply N.ltb_ge; lia).
    rewrite L. reflexivity.
  - change (show_int (Zneg p)) with ("-"%char :: show_nat_N (Npos p)).
    cbv beta iota zeta delta [js_number]. change (Ascii.eqb "-"%char "-"%char) with true. cbv beta iota.
    rewrite parse_nat_show.
    assert (L : (2 ^ 53 <? Npos p)%N = false) by (apply N.ltb_ge; lia).
    rewrite L. reflexivity.
Qed.

Lemma js_number_zero : js_number (s "0") = NumInt 0.
Proof. vm_compute. reflexivity. Qed.

(* ---- the canonical reading of a 64-bit decimal string ------------------------------------------------------ *)
Lemma canon_dec_signed z : (- 2 ^ 63 <= z < 2 ^ 63)%Z -> canon_dec true 64 (show_int z) = Some z.
Proof.
  intros H. unfold canon_dec. rewrite (parse_int_show 64 z ltac:(reflexivity) H). now rewrite str_eqb_refl.
Qed.

Lemma canon_dec_unsigned z : (0 <= z < 2 ^ 64)%Z -> canon_dec false 64 (show_int z) = Some z.
Proof.
  intros H. unfold canon_dec. rewrite (parse_uint_show 64 z H). now rewrite str_eqb_refl.
Qed.

(* decimal text is ASCII, hence UTF-8 *)
Lemma ascii_utf8 : forall y, forallb (fun c => (code c <? 128)%N) y = true -> utf8_valid y = true.
Proof.
  induction y as [|c y IH]; [reflexivity|]. cbn [forallb utf8_valid]. intros H.
  apply andb_true_iff in H as [H1 H2]. rewrite H1. now apply IH.
Qed.

Lemma digit_ascii c : is_digit c = true -> (code c <? 128)%N = true.
Proof. unfold is_digit. intros D. apply andb_true_iff in D as [_ D]. apply N.leb_le in D. apply N.ltb_lt. lia. Qed.

Lemma digits_ascii r : forallb is_digit r = true -> forallb (fun c => (code c <? 128)%N) r = true.
Proof.
  intros H. apply forallb_forall. intros d Hd. rewrite forallb_forall in H. now apply digit_ascii, H.
Qed.

Lemma show_int_utf8 z : utf8_valid (show_int z) = true.
Proof.
  apply ascii_utf8. destruct z as [|p|p]; [reflexivity| |].
  - rewrite show_int_pos. destruct (show_nat_N_shape (Npos p)) as [c [r [E [D R]]]]. rewrite E.
    cbn [forallb]. now rewrite (digit_ascii c D), (digits_ascii r R).
  - change (show_int (Zneg p)) with ("-"%char :: show_nat_N (Npos p)).
    destruct (show_nat_N_shape (Npos p)) as [c [r [E [D R]]]]. rewrite E.
    cbn [forallb]. rewrite (digit_ascii c D), (digits_ascii r R). reflexivity.
Qed.

(* ---- what the handler object holds for a field ------------------------------------------------------------- *)
(* the request's value for the field, as a handler object lists it: nothing for the zero value *)
Definition ts_expect (req : mval) (f : field) : option tsval :=
  if is_zero (scalar_of req f) then None else Some (TsV (FS (scalar_of req f))).
Definition expect_key (fs : list field) (req : mval) (k : str) : option tsval :=
  match find_field fs k with Some f => ts_expect req f | None => None end.

Lemma expect_key_field fs req f : NoDup (map f_name fs) -> In f fs ->
  expect_key fs req (f_name f) = ts_expect req f.
Proof. intros Hnd Hf. unfold expect_key. now rewrite (find_field_nodup fs f Hnd Hf). Qed.

Lemma expect_key_none fs req k : ~ In k (map f_name fs) -> expect_key fs req k = None.
Proof.
  intros H. unfold expect_key. destruct (find_field fs k) as [f|] eqn:E; [|reflexivity].
  apply find_field_some in E as [Hf Hn]. exfalso. apply H. rewrite <- Hn. now apply in_map.
Qed.

(* a path parameter: decodeURIComponent's string read in a string or 64-bit property *)
Lemma canon_path_value k v : is_str_or_64 k = true -> typed_scalar k v -> sprint v <> [] ->
  canon_js k (JsStr (sprint v)) = if is_zero v then None else Some (TsV (FS v)).
Proof.
  intros Hk Ht Hne.
  destruct k; try discriminate Hk; destruct v as [z|b|x|x|fb|en]; cbv beta iota delta [typed_scalar] in Ht; try contradiction;
    cbv beta iota delta [sprint canon_js is_zero]; cbv beta iota delta [sprint] in Hne.
  all: try (rewrite (canon_dec_signed z Ht); reflexivity).
  all: try (rewrite (canon_dec_unsigned z Ht); reflexivity).
  destruct x as [|c x]; [congruence|reflexivity].
Qed.

(* a query parameter: Number(q ?? "0") / q === "true" / q ?? "" of what the clients send for the value *)
Definition not_number_enc (f : field) : bool := match f_int64 f with Some I64Number => false | _ => true end.

Lemma canon_query_value f q v :
  url_kind_ok (f_kind f) = true -> not_number_enc f = true ->
  typed_scalar (f_kind f) v -> is_64 (f_kind f) && is_zero v = false ->
  params_get q (qname f) = (if is_zero v then None else Some (sprint v)) ->
  exists j, ts_query_js f q = Ok j /\
            canon_js (f_kind f) j = if is_zero v then None else Some (TsV (FS v)).
Proof.
  intros Hk Hn Ht H64 Hq. unfold ts_query_js, ts_scalar_type. rewrite Hq.
  unfold not_number_enc in Hn.
  destruct (f_kind f); try discriminate Hk; destruct v as [z|b|x|x|fb|en]; cbv beta iota delta [typed_scalar] in Ht; try contradiction;
    cbv beta iota delta [is_64 andb] in H64; cbv beta iota delta [is_zero] in *; cbv beta iota delta [sprint].
  (* 32-bit kinds: Number() *)
  all: try solve
    [destruct (Z.eqb z 0) eqn:Ez;
     [apply Z.eqb_eq in Ez; subst z; rewrite js_number_zero; eexists; split; [reflexivity|]; reflexivity
     |pose proof Ez as Ez'; apply Z.eqb_neq in Ez'; rewrite (js_number_show_int z ltac:(lia) Ez');
      eexists; split; [reflexivity|]; cbv beta iota zeta delta [canon_js zin];
      match goal with |- context [(?a <=? ?y)%Z && (?y <? ?b)%Z] =>
        replace ((a <=? y)%Z && (y <? b)%Z) with true
          by (symmetry; apply andb_true_iff; split; [apply Z.leb_le|apply Z.ltb_lt]; lia) end;
      rewrite Ez; reflexivity]].
  (* 64-bit kinds: the string itself (never the zero value here) *)
  all: try solve
    [rewrite H64; destruct (f_int64 f) as [[| |]|]; try discriminate Hn;
     (eexists; split; [reflexivity|]); cbv beta iota zeta delta [canon_js];
     first [rewrite (canon_dec_signed z Ht)|rewrite (canon_dec_unsigned z Ht)]; rewrite H64; reflexivity].
  - (* bool *)
    destruct b; cbv beta iota delta [negb]; eexists; (split; [reflexivity|]); reflexivity.
  - (* string *)
    destruct x as [|c x]; cbv beta iota delta [str_eqb]; eexists; (split; [reflexivity|]); reflexivity.
Qed.

(* ---- the handler object after a run of property assignments ------------------------------------------------- *)
Definition set_keys (X : str -> option tsval) (ks : list str) (o : tsobj) : tsobj :=
  fold_left (fun o k => tset o k (X k)) ks o.

Lemma tget_set_keys X : forall ks o k,
  tget (set_keys X ks o) k = if existsb (str_eqb k) ks then X k else tget o k.
Proof.
  unfold set_keys. induction ks as [|k0 ks IH]; intros o k; [reflexivity|].
  cbn [fold_left existsb]. rewrite IH, tget_tset.
  destruct (existsb (str_eqb k) ks); [now rewrite orb_true_r|]. rewrite orb_false_r.
  destruct (str_eqb k k0) eqn:E; [|reflexivity]. apply str_eqb_eq in E. now subst.
Qed.

Lemma existsb_str_In k ks : existsb (str_eqb k) ks = true <-> In k ks.
Proof.
  rewrite existsb_exists. split.
  - intros [x [Hx E]]. apply str_eqb_eq in E. now subst.
  - intros H. exists k. split; [exact H|apply str_eqb_refl].
Qed.

(* ---- query parameters ------------------------------------------------------------------------------------------ *)
Lemma ts_bind_query_keys (X : str -> option tsval) q : forall qfs o,
  (forall f, In f qfs -> exists j, ts_query_js f q = Ok j /\ canon_js (f_kind f) j = X (f_name f)) ->
  ts_bind_query qfs q o = Ok (set_keys X (map f_name qfs) o).
Proof.
  induction qfs as [|f qfs IH]; intros o H; [reflexivity|].
  destruct (H f (or_introl eq_refl)) as [j [Hj Hc]].
  cbn [ts_bind_query map]. rewrite Hj, Hc. unfold set_keys. cbn [fold_left].
  apply IH. intros g Hg. apply H. now right.
Qed.

(* ---- path parameters ------------------------------------------------------------------------------------------- *)
Section PathKeys.
Variables (fs : list field) (req : mval) (E : str -> str) (X : str -> option tsval).
Hypothesis E_dec : forall x, utf8_valid x = true -> decode_uri_component (E x) = Some x.

Lemma ts_bind_path_keys tl segs : Forall2 (fun t g => seg_of t = Some g) tl segs ->
  forall vars o,
  (forall v, In v vars -> In (SVar v) segs /\
     exists f, find_field fs v = Some f /\ f_name f = v /\ utf8_valid (var_val fs req v) = true /\
               canon_js (f_kind f) (JsStr (var_val fs req v)) = X v) ->
  ts_bind_path fs ([] :: tl) ([] :: map (efill fs req E) segs) vars o = Ok (Some (set_keys X vars o)).
Proof.
  intros HF. induction vars as [|v vars IH]; intros o Hv; [reflexivity|].
  destruct (Hv v (or_introl eq_refl)) as [Hin [f [Hf [Hn [Hu Hc]]]]].
  destruct (index_own fs req E tl segs HF v Hin) as [i [Hi Hnth]].
  cbn [ts_bind_path index_of]. rewrite Hi. cbn [option_map str_eqb]. rewrite Hf. cbn [nth].
  rewrite Hnth, (E_dec _ Hu), Hc, Hn. unfold set_keys. cbn [fold_left].
  apply IH. intros v' Hv'. apply Hv. now right.
Qed.
End PathKeys.

(* ======================================================================================================== *)
(* The TS server on a bodiless route                                                                          *)
(* ======================================================================================================== *)
Section TsServerNoBody.
Variables (sc : schema) (fl : file) (sv : service) (md : method) (req : mval) (hs : list (str * str)) (E : str -> str).
Notation fs := (in_fields sc md).
Notation r := (info_of fl sv md (in_fields sc md)).
Hypothesis E_nil : forall x, E x = [] -> x = [].
Hypothesis E_dec : forall x, utf8_valid x = true -> decode_uri_component (E x) = Some x.
Hypothesis E_noslash : forall x, ~ In slash (E x).

(* a path variable the TS server carries faithfully: its field exists, has a string or 64-bit kind, holds a
   value of that kind whose text is a non-empty UTF-8 string *)
Definition path_var_ok (v : str) : Prop :=
  exists f, find_field fs v = Some f /\ is_str_or_64 (f_kind f) = true /\
    typed_scalar (f_kind f) (scalar_of req f) /\
    var_val fs req v <> [] /\ utf8_valid (var_val fs req v) = true.

(* a query parameter as both clients send it: absent for the zero value, else the printed value; a 64-bit
   field holding zero is the documented defect C08Int64QueryAbsent *)
Definition query_par_ok (q : list (str * str)) (f : field) : Prop :=
  typed_scalar (f_kind f) (scalar_of req f) /\
  is_64 (f_kind f) && is_zero (scalar_of req f) = false /\
  params_get q (qname f) = (if is_zero (scalar_of req f) then None else Some (sprint (scalar_of req f))).

(* the route found for a request made of md's own template is md's own *)
Lemma ts_route_own tw segs tl :
  In md (sv_methods sv) -> NoDup (map md_name (sv_methods sv)) ->
  split_on slash (client_path r) = [] :: tl -> Forall2 (fun t g => seg_of t = Some g) tl segs ->
  seg_vars segs = path_vars r ->
  tw_verb tw = eff_verb r ->
  split_on slash (tw_path tw) = [] :: map (efill fs req E) segs ->
  (forall v, In v (path_vars r) -> var_val fs req v <> []) ->
  (forall n, ts_dispatched sc fl sv tw = Some n -> n = md_name md) ->
  ts_find_route (ts_routes sc fl sv) (tw_verb tw) ([] :: map (efill fs req E) segs) = Some (ts_route_of sc fl sv md).
Proof.
  intros Hmd Hnd Htl HF Hvars Hverb Hsplit Hne Hdisp.
  assert (Hown : ts_match ([] :: tl) ([] :: map (efill fs req E) segs) = true).
  { cbn [ts_match]. change (tmpl_is_var []) with false. cbn [str_eqb andb].
    apply (ts_match_own fs req E E_nil tl segs HF). intros v Hv. rewrite Hvars in Hv. now apply Hne. }
  destruct (ts_find_route (ts_routes sc fl sv) (tw_verb tw) ([] :: map (efill fs req E) segs)) as [r0|] eqn:Efr.
  2: { exfalso. rewrite ts_find_route_fold in Efr. revert Efr. apply tfr_complete. right.
       exists (ts_route_of sc fl sv md). split; [rewrite ts_routes_map; now apply in_map|]. split.
       - cbn [ts_route_of tr_route ts_server client_route rt_verb]. rewrite Hverb. apply verb_eqb_refl.
       - cbn [ts_route_of tr_tmpl ts_server client_route rt_path]. rewrite Htl. exact Hown. }
  f_equal. rewrite ts_find_route_fold in Efr.
  pose proof (tfr_sound (tw_verb tw) ([] :: map (efill fs req E) segs) (fun x => In x (ts_routes sc fl sv))
                (ts_routes sc fl sv) None ltac:(intros ? X; discriminate X) ltac:(intros ? X; exact X) r0 Efr) as Hin.
  rewrite ts_routes_map in Hin. apply in_map_iff in Hin as [md0 [<- Hmd0]].
  assert (Hn : md_name md0 = md_name md).
  { apply Hdisp. unfold ts_dispatched. rewrite Hsplit, ts_find_route_fold, Efr. reflexivity. }
  f_equal. apply (nodup_map_inj md_name (sv_methods sv)); assumption.
Qed.

Theorem ts_server_nobody tw segs :
  In md (sv_methods sv) -> NoDup (map md_name (sv_methods sv)) ->
  tsegs (client_path r) = Some segs -> seg_vars segs = path_vars r ->
  (forall x, In (SLit x) segs -> ~ In slash x) ->
  verb_has_body (eff_verb r) = false ->
  tw_verb tw = eff_verb r ->
  tw_path tw = slash :: join_with [slash] (map (efill fs req E) segs) ->
  NoDup (map f_name fs) ->
  (forall v, In v (path_vars r) -> path_var_ok v) ->
  (forall f, In f (query_fields fs) -> query_par_ok (form_parse (tw_query tw)) f) ->
  hdr_violation (sv_headers sv ++ md_headers md) hs = Ok None ->
  (forall n, ts_dispatched sc fl sv tw = Some n -> n = md_name md) ->
  forall o, ts_server_handle sc fl sv tw hs = Ok o ->
  exists saw, o = TsDelivered (md_name md) saw /\
    forall k, tget saw k = if existsb (str_eqb k) (path_vars r ++ map f_name (query_fields fs))
                           then expect_key fs req k else None.
Proof.
  intros Hmd Hnd Hts Hvars Hlit Hbody Hverb Hpath Hfnd Hpv Hqp Hhdr Hdisp o H.
  destruct (tsegs_template _ _ Hts) as [tl [Htl HF]].
  assert (Hsegs_ne : segs <> []) by (destruct (tsegs_inv _ _ Hts) as [_ [A _]]; exact A).
  assert (Hsplit : split_on slash (tw_path tw) = [] :: map (efill fs req E) segs).
  { rewrite Hpath, split_on_slash_cons. f_equal. apply split_on_join.
    - destruct segs; [congruence|discriminate].
    - intros y Hy. apply in_map_iff in Hy as [g [<- Hg]]. destruct g as [x|v]; cbn [efill]; [now apply Hlit|apply E_noslash]. }
  unfold ts_server_handle in H. cbn [ts_server_loads negb] in H. rewrite Hsplit in H.
  rewrite (ts_route_own tw segs tl Hmd Hnd Htl HF Hvars Hverb Hsplit) in H.
  2: { intros v Hv. destruct (Hpv v Hv) as [f [_ [_ [_ [Hne _]]]]]. exact Hne. }
  2: { exact Hdisp. }
  cbn [ts_route_of tr_md tr_fields tr_route tr_tmpl ts_server client_route rt_body rt_pathvars rt_path] in H.
  rewrite Hbody in H. cbn [negb] in H. rewrite Htl in H.
  destruct (ts_url_modelled fs (path_vars r) true) eqn:Hmod; cbn [negb] in H; [|discriminate].
  rewrite Hhdr in H.
  unfold ts_url_modelled in Hmod. cbn [negb orb] in Hmod. apply andb_true_iff in Hmod as [_ Hmq].
  rewrite forallb_forall in Hmq.
  (* query parameters *)
  rewrite (ts_bind_query_keys (expect_key fs req) (form_parse (tw_query tw)) (query_fields fs) []) in H.
  2: { intros f Hf. destruct (Hqp f Hf) as [Ht [H64 Hq]].
       specialize (Hmq f Hf). apply andb_true_iff in Hmq as [Hmq Hnum]. apply andb_true_iff in Hmq as [Hk _].
       rewrite (expect_key_field fs req f Hfnd) by (now apply query_fields_In in Hf as [Hf _]).
       exact (canon_query_value f _ (scalar_of req f) Hk Hnum Ht H64 Hq). }
  (* path parameters *)
  assert (Hall : forall v, In v (path_vars r) -> In (SVar v) segs /\
            exists f, find_field fs v = Some f /\ f_name f = v /\ utf8_valid (var_val fs req v) = true /\
                      canon_js (f_kind f) (JsStr (var_val fs req v)) = expect_key fs req v).
  { intros v Hv. split; [apply seg_vars_in; now rewrite Hvars|].
    destruct (Hpv v Hv) as [f [Hf [Hk [Ht [Hne Hu]]]]]. exists f.
    destruct (find_field_some fs v f Hf) as [Hin Hname].
    repeat split; try assumption.
    unfold expect_key, ts_expect. rewrite Hf. unfold var_val in Hne |- *. rewrite Hf in Hne |- *.
    now apply canon_path_value. }
  rewrite (ts_bind_path_keys fs req E (expect_key fs req) E_dec tl segs HF (path_vars r) [] Hall) in H.
  rewrite (ts_bind_path_keys fs req E (expect_key fs req) E_dec tl segs HF (path_vars r) _ Hall) in H.
  inversion H; subst o. eexists. split; [reflexivity|].
  intros k. rewrite !tget_set_keys, existsb_app. cbn [tget].
  destruct (existsb (str_eqb k) (path_vars r)); [reflexivity|]. cbn [orb].
  destruct (existsb (str_eqb k) (map f_name (query_fields fs))); reflexivity.
Qed.
End TsServerNoBody.

(* ======================================================================================================== *)
(* TS client -> TS server and Go client -> TS server, GET / DELETE                                            *)
(* ======================================================================================================== *)

(* what an empty defect list says for the two pairs that end in the TS server *)
Lemma defects_to_ts_inv2 sc fl sv md req p : p <> TsGo -> defects_C08 p sc fl sv md req = [] ->
  let fs := in_fields sc md in let r := info_of fl sv md fs in
  existsb (fun v => match find_field fs v with
                    | Some f => negb (is_str_or_64 (f_kind f)) | None => false end) (path_vars r) = false /\
  (negb (verb_has_body (eff_verb r)) &&
     existsb (fun f => is_64 (f_kind f) && is_zero (scalar_of req f)) (query_fields fs) = false) /\
  in_chars lbrace (ri_base r) = false /\
  (negb (verb_has_body (eff_verb r)) && dup_names (map qname (query_fields fs)) = false).
Proof.
  intros Hp. unfold defects_C08. cbv zeta. intros H.
  destruct p; [congruence| |]; cbn [negb andb app] in H;
    apply app_nil_split in H as [_ H]; apply app_nil_split in H as [_ H];
    apply app_nil_split in H as [H8 H]; apply app_nil_split in H as [H9 H];
    apply app_nil_split in H as [H10 H11];
    (repeat split; [now apply if_nil in H8|now apply if_nil in H9|now apply if_nil in H10|now apply if_nil in H11]).
Qed.

Lemma sort_kv_nodup : forall l, NoDup (map fst l) -> NoDup (map fst (sort_kv l)).
Proof.
  induction l as [|x l IH]; intros H; [constructor|].
  cbn [map] in H. inversion H as [|? ? Hni Hnd]; subst.
  cbn [sort_kv fold_right]. fold (sort_kv l).
  assert (Hni' : ~ In (fst x) (map fst (sort_kv l))).
  { intros Hin. apply Hni. apply in_map_iff in Hin as [y [Ey Hy]]. rewrite <- Ey. apply in_map. now apply in_sort_kv. }
  specialize (IH Hnd). revert IH Hni'. generalize (sort_kv l) as t.
  induction t as [|h t IHt]; intros Hndt Hnit; cbn [insert_kv map].
  - constructor; [intros []|constructor].
  - destruct (str_leb (fst x) (fst h)); cbn [map].
    + constructor; [exact Hnit|exact Hndt].
    + cbn [map] in Hndt, Hnit. inversion Hndt as [|? ? Hh Ht]; subst. constructor.
      * intros Hin. apply in_map_iff in Hin as [y [Ey Hy]]. apply in_insert_kv in Hy as [->|Hy].
        -- apply Hnit. now left.
        -- apply Hh. rewrite <- Ey. now apply in_map.
      * apply IHt; [exact Ht|]. intros Hin. apply Hnit. now right.
Qed.

Lemma params_get_values q k : params_get q k = match query_values q k with [] => None | x :: _ => Some x end.
Proof. reflexivity. Qed.

(* the path values are UTF-8 (a JS string always is; a Go string need not be) *)
Definition path_vals_utf8 (fs : list field) (req : mval) (vars : list str) : bool :=
  forallb (fun v => utf8_valid (var_val fs req v)) vars.

(* the handler object lists exactly the request's non-zero fields *)
Definition ts_saw_req (fs : list field) (req : mval) (saw : tsobj) : Prop :=
  (forall f, In f fs -> tget saw (f_name f) = ts_expect req f) /\
  (forall k, ~ In k (map f_name fs) -> tget saw k = None).

Section ToTsNoBody.
Variables (sc : schema) (fl : file) (sv : service) (md : method) (req : mval).
Notation fs := (in_fields sc md).
Notation r := (info_of fl sv md (in_fields sc md)).

(* from the per-key description to the per-field one, when every field travels on the URL *)
Lemma saw_of_keys saw :
  NoDup (map f_name fs) ->
  (forall f, In f fs -> In (f_name f) (path_vars r) \/ f_query f <> None) ->
  (forall k, tget saw k = if existsb (str_eqb k) (path_vars r ++ map f_name (query_fields fs))
                          then expect_key fs req k else None) ->
  ts_saw_req fs req saw.
Proof.
  intros Hfnd Hcover Hk. split.
  - intros f Hf. rewrite Hk.
    assert (Hin : existsb (str_eqb (f_name f)) (path_vars r ++ map f_name (query_fields fs)) = true).
    { apply existsb_str_In. apply in_or_app. destruct (Hcover f Hf) as [Hp|Hq]; [now left|right].
      apply in_map. apply query_fields_In. now split. }
    rewrite Hin. now apply expect_key_field.
  - intros k Hn. rewrite Hk, (expect_key_none fs req k Hn).
    now destruct (existsb (str_eqb k) (path_vars r ++ map f_name (query_fields fs))).
Qed.

(* the side conditions shared by the two theorems, from the defect list and wf_nobody *)
Lemma to_ts_conditions p segs q :
  p <> TsGo -> defects_C08 p sc fl sv md req = [] ->
  wf_nobody sc fl sv md req = true ->
  path_vals_utf8 fs req (path_vars r) = true ->
  seg_vars segs = path_vars r ->
  (forall v, In v (seg_vars segs) -> exists f, find_field fs v = Some f /\ field_url_ok f = true) ->
  client_query fs req = Ok q ->
  verb_has_body (eff_verb r) = false /\ NoDup (map md_name (sv_methods sv)) /\ NoDup (map f_name fs) /\
  (forall f, In f fs -> In (f_name f) (path_vars r) \/ f_query f <> None) /\
  (forall v, In v (path_vars r) -> path_var_ok sc md req v) /\
  NoDup (map fst q) /\
  (forall f, In f (query_fields fs) -> query_par_ok req q f) /\
  (forall f, In f fs -> field_url_ok f = true).
Proof.
  intros Hp Hdef Hwf Hutf Hvars Hfields Hq.
  unfold wf_nobody in Hwf. cbv zeta in Hwf.
  apply andb_true_iff in Hwf as [Hwf Hcov]. apply andb_true_iff in Hwf as [Hwf Hfnd].
  apply andb_true_iff in Hwf as [Hwf Hty]. apply andb_true_iff in Hwf as [Hwf Hne].
  apply andb_true_iff in Hwf as [Hbody Hnd]. apply negb_true_iff in Hbody.
  apply nodupb_sound in Hnd, Hfnd. apply req_typedb_sound in Hty.
  destruct (defects_to_ts_inv2 sc fl sv md req p Hp Hdef) as [Hps [H64 [_ Hdup]]]. cbv zeta in Hps, H64, Hdup.
  rewrite Hbody in H64, Hdup. cbn [negb andb] in H64, Hdup.
  unfold client_query in Hq. apply client_query_gen in Hq as [Hqok ->].
  assert (Hqnd : NoDup (map qname (query_fields fs))) by now apply dup_fix_false.
  assert (Hpv : forall v, In v (path_vars r) -> path_var_ok sc md req v).
  { intros v Hv. destruct (Hfields v ltac:(now rewrite Hvars)) as [f [Hf Hok]]. exists f.
    pose proof (existsb_false_forall _ _ Hps v Hv) as F. cbv beta in F. rewrite Hf in F. apply negb_false_iff in F.
    repeat split; try assumption.
    - apply Hty; [now apply (find_field_some fs v f)|now apply field_url_ok_kind].
    - unfold path_vals_nonempty in Hne. rewrite forallb_forall in Hne. specialize (Hne v Hv).
      apply negb_true_iff in Hne. now apply str_eqb_neq in Hne.
    - unfold path_vals_utf8 in Hutf. rewrite forallb_forall in Hutf. now apply Hutf. }
  assert (Hqp : forall f, In f (query_fields fs) -> query_par_ok req (flat_map (qgen req) (query_fields fs)) f).
  { intros f Hf. unfold query_par_ok. split; [|split].
    - apply Hty; [now apply query_fields_In in Hf as [Hf _]|now apply field_url_ok_kind, Hqok].
    - exact (existsb_false_forall _ _ H64 f Hf).
    - rewrite params_get_values, (qgen_values req (query_fields fs) Hqnd f Hf).
      now destruct (is_zero (scalar_of req f)). }
  split; [exact Hbody|]. split; [exact Hnd|]. split; [exact Hfnd|]. split; [now apply coverb_sound|].
  split; [exact Hpv|]. split; [now apply qgen_nodup|]. split; [exact Hqp|].
  intros f Hf. destruct (coverb_sound _ _ Hcov f Hf) as [Hp'|Hq'].
  - destruct (Hfields (f_name f) ltac:(now rewrite Hvars)) as [f' [Hf' Hok]].
    rewrite (find_field_nodup fs f Hfnd Hf) in Hf'. inversion Hf'. now subst f'.
  - apply Hqok. apply query_fields_In. now split.
Qed.

(* for a canonical request value (populated fields only) the handler object is the request, key for key *)
Lemma saw_req_canonical saw :
  ts_saw_req fs req saw -> canonical fs req -> NoDup (map f_name fs) ->
  (forall f, In f fs -> field_url_ok f = true) ->
  forall k, tget saw k = tget (tsobj_of_mval req) k.
Proof.
  intros [Hs1 Hs2] Hcan Hfnd Hok k. rewrite tget_of_mval.
  destruct (in_dec str_dec k (map f_name fs)) as [Hin|Hni].
  - apply in_map_iff in Hin as [f [<- Hf]]. rewrite (Hs1 f Hf). unfold ts_expect, scalar_of.
    destruct (mget req (f_name f)) as [v|] eqn:Eg.
    + pose proof (canonical_key_ok fs req _ _ Hcan (mget_In _ _ _ Eg)) as K. unfold key_ok in K.
      rewrite (find_field_nodup fs f Hfnd Hf), (Hok f Hf) in K.
      destruct v as [x|m|l|kv]; try discriminate K. apply negb_true_iff in K. now rewrite K.
    + now rewrite is_zero_zero_of.
  - rewrite (Hs2 k Hni). destruct (mget req k) as [v|] eqn:Eg; [|reflexivity]. exfalso.
    pose proof (canonical_key_ok fs req _ _ Hcan (mget_In _ _ _ Eg)) as K. unfold key_ok in K.
    destruct (find_field fs k) as [g|] eqn:Eg2; [|discriminate K].
    apply find_field_some in Eg2 as [Hg Hn]. apply Hni. rewrite <- Hn. now apply in_map.
Qed.

Lemma ts_ts_nobody_core : forall hs resp w o,
  ts_ts_call sc fl sv md hs req resp = Ok (w, o) ->
  defects_C08 TsTs sc fl sv md req = [] ->
  In md (sv_methods sv) ->
  wf_nobody sc fl sv md req = true ->
  path_vals_utf8 fs req (path_vars r) = true ->
  template_ok r = true -> ts_template_ok r = true ->
  hdr_violation (sv_headers sv ++ md_headers md) hs = Ok None ->
  exists saw, o = ODelivered (md_name md) saw resp /\ ts_saw_req fs req saw /\
              NoDup (map f_name fs) /\ (forall f, In f fs -> field_url_ok f = true).
Proof.
  intros hs resp w o Hcall Hdef Hmd Hwf Hutf Htpl Hlits Hhdr.
  destruct (defects_to_ts_inv sc fl sv md req TsTs ltac:(discriminate) Hdef) as [Hdirty Hdisp].
  unfold ts_ts_call in Hcall. cbv zeta in Hcall.
  destruct (ts_client_build fl sv md fs req) as [tw|] eqn:Htb; [|discriminate].
  destruct (ts_client_build_inv sc fl sv md req tw Htb) as [segs [filled [q [Hts [_ [Hfill [Hq [Hverb [Hpath [Hquery _]]]]]]]]]].
  destruct (ts_fill_all sc md req segs filled Hfill) as [-> [_ Hfields]].
  unfold template_ok in Htpl. rewrite Hts in Htpl. apply strs_eqb_eq in Htpl.
  unfold ts_template_ok in Hlits. rewrite Hts in Hlits.
  destruct (tsegs_inv _ _ Hts) as [_ [_ Hlit_noslash]].
  assert (Hbody : verb_has_body (eff_verb r) = false).
  { unfold wf_nobody in Hwf. cbv zeta in Hwf. repeat (apply andb_true_iff in Hwf as [Hwf _]). now apply negb_true_iff. }
  rewrite Hbody in Hq.
  destruct (to_ts_conditions TsTs segs q ltac:(discriminate) Hdef Hwf Hutf Htpl Hfields Hq)
    as [_ [Hnd [Hfnd [Hcover [Hpv [Hqnd [Hqp Hallok]]]]]]].
  change (map (ts_fill_str sc md req) segs) with (map (efill fs req encode_uri_component) segs) in Hpath.
  rewrite (whatwg_segs_id _ (no_dotty_fill sc md req encode_uri_component segs dotty_encode_uri Hlits
             (dirty_of_defects sc fl sv md req segs Htpl Hdirty
                (fun v Hv => match Hpv v Hv with ex_intro _ f (conj Hf _) => ex_intro _ f Hf end)))) in Hpath.
  destruct (ts_server_handle sc fl sv tw hs) as [to|] eqn:Hsh; [|discriminate].
  destruct (ts_server_nobody sc fl sv md req hs encode_uri_component
              (fun x => proj1 (encode_uri_nil_iff x)) decode_encode_uri encode_uri_no_slash
              tw segs Hmd Hnd Hts Htpl Hlit_noslash Hbody Hverb Hpath Hfnd Hpv) with (o := to)
    as [saw [-> Hsaw]]; try assumption.
  - rewrite Hquery, (params_of_nodup q Hqnd), form_parse_form_encode. exact Hqp.
  - exact (Hdisp tw eq_refl).
  - inversion Hcall; subst. exists saw. split; [reflexivity|]. split; [now apply saw_of_keys|now split].
Qed.

Lemma go_ts_nobody_core : forall hs resp w o,
  go_ts_call sc fl sv md hs req resp = Ok (w, o) ->
  defects_C08 GoTs sc fl sv md req = [] ->
  In md (sv_methods sv) ->
  wf_nobody sc fl sv md req = true ->
  path_vals_utf8 fs req (path_vars r) = true ->
  template_ok r = true -> ts_template_ok r = true ->
  hdr_violation (sv_headers sv ++ md_headers md) hs = Ok None ->
  exists saw, o = ODelivered (md_name md) saw resp /\ ts_saw_req fs req saw /\
              NoDup (map f_name fs) /\ (forall f, In f fs -> field_url_ok f = true).
Proof.
  intros hs resp w o Hcall Hdef Hmd Hwf Hutf Htpl Hlits Hhdr.
  destruct (defects_to_ts_inv sc fl sv md req GoTs ltac:(discriminate) Hdef) as [Hdirty Hdisp].
  unfold go_ts_call in Hcall. cbv zeta in Hcall.
  destruct (client_build fl sv md fs CtJSON req) as [w0|] eqn:Hcb; [|discriminate].
  destruct (client_build_inv sc fl sv md CtJSON req w0 Hcb) as [segs [filled [q [Hts [_ [Hfill [Hq [Hverb [Hpath [Hquery _]]]]]]]]]].
  apply fill_all in Hfill as [-> Hfields].
  unfold template_ok in Htpl. rewrite Hts in Htpl. apply strs_eqb_eq in Htpl.
  unfold ts_template_ok in Hlits. rewrite Hts in Hlits.
  destruct (tsegs_inv _ _ Hts) as [_ [Hne Hlit_noslash]].
  assert (Hbody : verb_has_body (eff_verb r) = false).
  { unfold wf_nobody in Hwf. cbv zeta in Hwf. repeat (apply andb_true_iff in Hwf as [Hwf _]). now apply negb_true_iff. }
  rewrite Hbody in Hq.
  destruct (to_ts_conditions GoTs segs q ltac:(discriminate) Hdef Hwf Hutf Htpl Hfields Hq)
    as [_ [Hnd [Hfnd [Hcover [Hpv [Hqnd [Hqp Hallok]]]]]]].
  change (map (fill_str fs req) segs) with (map (efill fs req path_escape) segs) in Hpath.
  assert (Hnodot : forallb (fun x => negb (dotty x)) (map (efill fs req path_escape) segs) = true).
  { apply (no_dotty_fill sc md req path_escape segs dotty_path_escape Hlits).
    apply (dirty_of_defects sc fl sv md req segs Htpl Hdirty). intros v Hv. destruct (Hpv v Hv) as [f [Hf _]]. now exists f. }
  assert (Hsplit : split_on slash (join_with [slash] (map (efill fs req path_escape) segs)) = map (efill fs req path_escape) segs).
  { apply split_on_join; [destruct segs; [congruence|discriminate]|].
    intros y Hy. apply in_map_iff in Hy as [g [<- Hg]]. destruct g as [x|v]; cbn [efill];
      [now apply Hlit_noslash|exact (path_escape_no_slash _)]. }
  assert (Htwpath : tw_path (ts_wire_of w0) = slash :: join_with [slash] (map (efill fs req path_escape) segs)).
  { cbn [ts_wire_of tw_path]. rewrite Hpath. unfold whatwg_path. change (Ascii.eqb slash slash) with true. cbv iota.
    now rewrite Hsplit, (whatwg_segs_id _ Hnodot). }
  destruct (ts_server_handle sc fl sv (ts_wire_of w0) hs) as [to|] eqn:Hsh; [|discriminate].
  destruct (ts_server_nobody sc fl sv md req hs path_escape
              (fun x => proj1 (path_escape_nil_iff x)) decode_path_escape path_escape_no_slash
              (ts_wire_of w0) segs Hmd Hnd Hts Htpl Hlit_noslash Hbody Hverb Htwpath Hfnd Hpv) with (o := to)
    as [saw [-> Hsaw]]; try assumption.
  - cbn [ts_wire_of tw_query]. rewrite Hquery, form_parse_encode_query.
    intros f Hf. destruct (Hqp f Hf) as [Ht [H64 Hg]]. split; [exact Ht|]. split; [exact H64|].
    rewrite params_get_values, (query_values_sort_kv _ _ (sort_kv_nodup q Hqnd)), (query_values_sort_kv _ _ Hqnd).
    exact Hg.
  - exact (Hdisp w0 eq_refl).
  - inversion Hcall; subst. exists saw. split; [reflexivity|]. split; [now apply saw_of_keys|now split].
Qed.

Theorem ts_ts_nobody : forall hs resp w o,
  ts_ts_call sc fl sv md hs req resp = Ok (w, o) ->
  defects_C08 TsTs sc fl sv md req = [] ->
  In md (sv_methods sv) ->
  wf_nobody sc fl sv md req = true ->
  path_vals_utf8 fs req (path_vars r) = true ->
  template_ok r = true -> ts_template_ok r = true ->
  hdr_violation (sv_headers sv ++ md_headers md) hs = Ok None ->
  exists saw, o = ODelivered (md_name md) saw resp /\ ts_saw_req fs req saw.
Proof.
  intros hs resp w o Hcall Hdef Hmd Hwf Hutf Htpl Hlits Hhdr.
  destruct (ts_ts_nobody_core hs resp w o Hcall Hdef Hmd Hwf Hutf Htpl Hlits Hhdr) as [saw [Ho [Hs _]]].
  now exists saw.
Qed.

Theorem go_ts_nobody : forall hs resp w o,
  go_ts_call sc fl sv md hs req resp = Ok (w, o) ->
  defects_C08 GoTs sc fl sv md req = [] ->
  In md (sv_methods sv) ->
  wf_nobody sc fl sv md req = true ->
  path_vals_utf8 fs req (path_vars r) = true ->
  template_ok r = true -> ts_template_ok r = true ->
  hdr_violation (sv_headers sv ++ md_headers md) hs = Ok None ->
  exists saw, o = ODelivered (md_name md) saw resp /\ ts_saw_req fs req saw.
Proof.
  intros hs resp w o Hcall Hdef Hmd Hwf Hutf Htpl Hlits Hhdr.
  destruct (go_ts_nobody_core hs resp w o Hcall Hdef Hmd Hwf Hutf Htpl Hlits Hhdr) as [saw [Ho [Hs _]]].
  now exists saw.
Qed.

(* ... and for a canonical request value nothing is lost: the handler sees the request *)
Theorem ts_ts_nobody_exact : forall hs resp w o,
  ts_ts_call sc fl sv md hs req resp = Ok (w, o) ->
  defects_C08 TsTs sc fl sv md req = [] ->
  In md (sv_methods sv) ->
  wf_nobody sc fl sv md req = true ->
  path_vals_utf8 fs req (path_vars r) = true ->
  template_ok r = true -> ts_template_ok r = true ->
  hdr_violation (sv_headers sv ++ md_headers md) hs = Ok None ->
  canonicalb fs req = true ->
  exists saw, o = ODelivered (md_name md) saw resp /\ forall k, tget saw k = tget (tsobj_of_mval req) k.
Proof.
  intros hs resp w o Hcall Hdef Hmd Hwf Hutf Htpl Hlits Hhdr Hcan.
  destruct (ts_ts_nobody_core hs resp w o Hcall Hdef Hmd Hwf Hutf Htpl Hlits Hhdr) as [saw [Ho [Hs [Hfnd Hok]]]].
  exists saw. split; [exact Ho|]. now apply saw_req_canonical.
Qed.

Theorem go_ts_nobody_exact : forall hs resp w o,
  go_ts_call sc fl sv md hs req resp = Ok (w, o) ->
  defects_C08 GoTs sc fl sv md req = [] ->
  In md (sv_methods sv) ->
  wf_nobody sc fl sv md req = true ->
  path_vals_utf8 fs req (path_vars r) = true ->
  template_ok r = true -> ts_template_ok r = true ->
  hdr_violation (sv_headers sv ++ md_headers md) hs = Ok None ->
  canonicalb fs req = true ->
  exists saw, o = ODelivered (md_name md) saw resp /\ forall k, tget saw k = tget (tsobj_of_mval req) k.
Proof.
  intros hs resp w o Hcall Hdef Hmd Hwf Hutf Htpl Hlits Hhdr Hcan.
  destruct (go_ts_nobody_core hs resp w o Hcall Hdef Hmd Hwf Hutf Htpl Hlits Hhdr) as [saw [Ho [Hs [Hfnd Hok]]]].
  exists saw. split; [exact Ho|]. now apply saw_req_canonical.
Qed.
End ToTsNoBody.
