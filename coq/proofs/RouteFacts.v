From Sebuf Require Import Text Route.
From SebufProofs Require Import TextFacts.

Lemma app_nil_split {A} (l1 l2 : list A) : l1 ++ l2 = [] -> l1 = [] /\ l2 = [].
Proof. destruct l1; cbn; [tauto|discriminate]. Qed.

Lemma ensure_leading_slash_id p : has_prefix [slash] p = true -> ensure_leading_slash p = p.
Proof.
  intros H. unfold ensure_leading_slash. destruct p as [|c r]; [cbn in H; discriminate|]. now rewrite H.
Qed.

Lemma slash_trim_prefix custom :
  custom <> [] ->
  [slash] ++ trim_prefix [slash] custom = if has_prefix [slash] custom then custom else slash :: custom.
Proof.
  intros Hne. destruct (has_prefix [slash] custom) eqn:E.
  - apply has_prefix_cons1 in E as [r ->]. now rewrite trim_prefix_cons1_hit.
  - now rewrite trim_prefix_miss.
Qed.

Lemma verb_eqb_eq a b : verb_eqb a b = true <-> a = b.
Proof. destruct a, b; cbn; split; intros; try discriminate; reflexivity. Qed.

Lemma key_eqb_eq a b : key_eqb a b = true <-> a = b.
Proof.
  destruct a as [p v], b as [q w]. unfold key_eqb; cbn. rewrite andb_true_iff, str_eqb_eq, verb_eqb_eq.
  split; [intros [-> ->]; reflexivity | intros E; inversion E; auto].
Qed.

Lemma key_eqb_refl a : key_eqb a a = true.
Proof. now apply key_eqb_eq. Qed.

(* ---- agreement ---------------------------------------------------------------------- *)

Lemma paths_agree r : defects_C03 r = [] ->
  go_server_path r = client_path r /\ client_path r = openapi_path r.
Proof.
  unfold defects_C03. intros H.
  apply app_nil_split in H as [H1 H]. apply app_nil_split in H as [H2 H]. apply app_nil_split in H as [H3 _].
  unfold go_server_path, client_path, openapi_path.
  destruct (cfg_path r) as [|c cs] eqn:Ec; [discriminate|].
  assert (Hcfg : ri_has_cfg r = true).
  { unfold cfg_path in Ec. destruct (ri_has_cfg r); [reflexivity|discriminate]. }
  destruct (ri_base r) as [|b bs] eqn:Eb.
  - (* no base path *)
    destruct (has_prefix [slash] (c :: cs)) eqn:Ep; [|discriminate].
    rewrite Hcfg. unfold build_http_path.
    rewrite (ensure_leading_slash_id (c :: cs) Ep). split; reflexivity.
  - destruct (has_prefix [slash] (b :: bs)) eqn:Ep; [|discriminate].
    unfold build_http_path.
    rewrite (ensure_leading_slash_id (b :: bs) Ep).
    rewrite <- (slash_trim_prefix (c :: cs)) by discriminate.
    split; reflexivity.
Qed.

Lemma agree_all r : defects_C03 r = [] ->
  go_server r = go_client r /\ go_client r = ts_client r /\ ts_client r = ts_server r /\ ts_server r = openapi r.
Proof.
  intros H. destruct (paths_agree r H) as [P1 P2].
  assert (Q : (if verb_has_body (eff_verb r) then [] else ri_query r) = ri_query r).
  { unfold defects_C03 in H.
    apply app_nil_split in H as [_ H]. apply app_nil_split in H as [_ H]. apply app_nil_split in H as [_ H].
    destruct (verb_has_body (eff_verb r)); [|reflexivity].
    destruct (ri_query r); [reflexivity|discriminate]. }
  unfold go_client, ts_client, ts_server, client_route, go_server, openapi.
  rewrite Q, P1, <- P2. repeat split; reflexivity.
Qed.

(* ---- one operation per RPC ------------------------------------------------------------ *)

Definition keys_of (rs : list rpc_info) := map (fun r => route_key (openapi r)) rs.

Lemma existsb_key_false doc k :
  ~ In k (map fst doc) -> existsb (fun e : (str * verb) * str => key_eqb (fst e) k) doc = false.
Proof.
  induction doc as [|e doc IH]; cbn; [reflexivity|]. intros H.
  destruct (key_eqb (fst e) k) eqn:E.
  - apply key_eqb_eq in E. exfalso. apply H. now left.
  - cbn. apply IH. intros Hin. apply H. now right.
Qed.

Lemma assign_ops_fresh rs : forall doc,
  NoDup (map fst doc ++ keys_of rs) ->
  assign_ops doc rs = doc ++ map (fun r => (route_key (openapi r), ri_method r)) rs.
Proof.
  induction rs as [|r rs IH]; intros doc H; cbn.
  - now rewrite app_nil_r.
  - cbn in H.
    assert (Hnot : ~ In (route_key (openapi r)) (map fst doc)).
    { apply NoDup_remove_2 in H. intros Hin. apply H. apply in_or_app. now left. }
    rewrite (existsb_key_false _ _ Hnot).
    rewrite IH.
    + rewrite <- app_assoc. reflexivity.
    + rewrite map_app. cbn. rewrite <- app_assoc. cbn. exact H.
Qed.

Lemma count_ops_unique rs m :
  NoDup (map ri_method rs) -> In m (map ri_method rs) ->
  count_ops_for m (map (fun r => (route_key (openapi r), ri_method r)) rs) = 1.
Proof.
  unfold count_ops_for.
  induction rs as [|r rs IH]; cbn; intros Hnd Hin; [contradiction|].
  inversion Hnd as [|? ? Hni Hnd']; subst.
  destruct (str_eqb (ri_method r) m) eqn:E.
  - apply str_eqb_eq in E. subst m. cbn. f_equal.
    clear IH Hin Hnd Hnd'. induction rs as [|q rs IH]; cbn; [reflexivity|].
    destruct (str_eqb (ri_method q) (ri_method r)) eqn:E.
    + apply str_eqb_eq in E. exfalso. apply Hni. cbn. now left.
    + apply IH. intros Hin. apply Hni. cbn. now right.
  - destruct Hin as [Hin|Hin].
    + subst. now rewrite str_eqb_refl in E.
    + now apply IH.
Qed.

Lemma one_operation rs :
  NoDup (keys_of rs) -> NoDup (map ri_method rs) ->
  forall r, In r rs -> count_ops_for (ri_method r) (openapi_ops rs) = 1.
Proof.
  intros Hk Hm r Hin. unfold openapi_ops. rewrite assign_ops_fresh by (cbn; exact Hk). cbn.
  apply count_ops_unique; [exact Hm|]. now apply in_map.
Qed.

(* two RPCs on one (path, verb): the first one disappears from the document *)
Lemma shared_key_loses_one r1 r2 :
  route_key (openapi r1) = route_key (openapi r2) -> ri_method r1 <> ri_method r2 ->
  count_ops_for (ri_method r1) (openapi_ops [r1; r2]) = 0.
Proof.
  intros Hk Hm. unfold openapi_ops, count_ops_for.
  cbn [assign_ops existsb app]. rewrite <- Hk.
  cbn [existsb map fst orb].
  pose proof (key_eqb_refl (route_key (openapi r1))) as R.
  rewrite !R. cbn [orb filter snd].
  destruct (str_eqb (ri_method r2) (ri_method r1)) eqn:E; [|reflexivity].
  apply str_eqb_eq in E. congruence.
Qed.

(* ---- the body flag is decided by the effective verb alone ----------------------------------------
   rpc_info does not even mention the request message's fields: whatever is left for the body once the
   URL has taken its share (nothing for an empty or fully path-bound request, one field, only
   query-annotated fields), each of the five generators treats POST/PUT/PATCH (and the defaulted verb) as
   body-carrying and GET/DELETE as bodiless. *)
Lemma body_by_verb : forall r : rpc_info,
  rt_body (go_server r) = verb_has_body (eff_verb r) /\
  rt_body (go_client r) = verb_has_body (eff_verb r) /\
  rt_body (ts_client r) = verb_has_body (eff_verb r) /\
  rt_body (ts_server r) = verb_has_body (eff_verb r) /\
  rt_body (openapi r) = verb_has_body (eff_verb r).
Proof. intro r. repeat split; reflexivity. Qed.

(* two RPCs with the same effective verb get the same body flag from every generator, whatever their
   templates, path variables and query fields are *)
Lemma body_same_verb : forall r1 r2 : rpc_info, eff_verb r1 = eff_verb r2 ->
  rt_body (go_client r1) = rt_body (go_server r2) /\ rt_body (go_client r1) = rt_body (openapi r2) /\
  rt_body (go_client r1) = rt_body (ts_server r2) /\ rt_body (go_client r1) = rt_body (ts_client r2).
Proof. intros r1 r2 H. unfold go_client, ts_client, ts_server, client_route, go_server, openapi; simpl. rewrite H. repeat split; reflexivity. Qed.
