(* TsRtFacts.v — facts about the JS built-ins transcribed in TsRt.v (escaping round trips between the
   four escapers/unescapers that meet in a cross-language call), the header-helper name derivations, and
   the delivery theorems for the three client/server pairs. *)
From Sebuf Require Import Text Json Url Num Route Schema Value GoRt TsRt.
From SebufProofs Require Import TextFacts RouteFacts UrlFacts NumFacts GoRtFacts.

Local Open Scope N_scope.

Ltac sweep c := destruct c as [[] [] [] [] [] [] [] []]; vm_compute; reflexivity.

(* ---- per-byte facts ----------------------------------------------------------------------------------- *)
Definition ue1 (c : ascii) : str := if uri_unreserved c then [c] else pct c.
Definition fe1 (c : ascii) : str :=
  if Ascii.eqb c " "%char then ["+"%char] else if form_safe c then [c] else pct c.

Lemma encode_uri_cons c x : encode_uri_component (c :: x) = ue1 c ++ encode_uri_component x.
Proof. reflexivity. Qed.
Lemma form_escape_cons c x : form_escape (c :: x) = fe1 c ++ form_escape x.
Proof. reflexivity. Qed.

Lemma unreserved_not_pct c : implb (uri_unreserved c) (negb (Ascii.eqb c "%"%char)) = true.
Proof. sweep c. Qed.
Lemma form_safe_not_pct_plus c :
  implb (form_safe c) (negb (Ascii.eqb c "%"%char) && negb (Ascii.eqb c "+"%char)) = true.
Proof. sweep c. Qed.
Lemma ue1_no_slash c : in_chars slash (ue1 c) = false.
Proof. sweep c. Qed.
Lemma ue1_nonempty c : ue1 c <> [].
Proof. unfold ue1, pct. destruct (uri_unreserved c); discriminate. Qed.
Lemma fe1_clean c :
  in_chars amp (fe1 c) || in_chars eqc (fe1 c) || in_chars ";"%char (fe1 c) = false.
Proof. sweep c. Qed.

(* ---- S1: what the Go server's net/url makes of the TS client's escaping ------------------------------- *)
Lemma unescape_ue1 c t u : unescape false t = Some u -> unescape false (ue1 c ++ t) = Some (c :: u).
Proof.
  intros H. unfold ue1. pose proof (unreserved_not_pct c) as S.
  destruct (uri_unreserved c).
  - cbn [implb] in S. apply negb_true_iff in S.
    cbn [app]. rewrite (unescape_plain false c t S), H. reflexivity.
  - now rewrite unescape_pct, H.
Qed.

Lemma path_unescape_encode_uri : forall x, path_unescape (encode_uri_component x) = Some x.
Proof.
  unfold path_unescape. induction x as [|c x IH]; [reflexivity|].
  rewrite encode_uri_cons. now apply unescape_ue1.
Qed.

Lemma seg_unescape_encode_uri x : seg_unescape (encode_uri_component x) = x.
Proof. unfold seg_unescape. now rewrite path_unescape_encode_uri. Qed.

(* ---- S2: decodeURIComponent after encodeURIComponent, and after Go's url.PathEscape -------------------- *)
Theorem decode_encode_uri : forall x, utf8_valid x = true ->
  decode_uri_component (encode_uri_component x) = Some x.
Proof.
  intros x H. unfold decode_uri_component.
  change (unescape false) with path_unescape. now rewrite path_unescape_encode_uri, H.
Qed.

Theorem decode_path_escape : forall x, utf8_valid x = true ->
  decode_uri_component (path_escape x) = Some x.
Proof.
  intros x H. unfold decode_uri_component.
  change (unescape false) with path_unescape. now rewrite path_unescape_escape, H.
Qed.

(* without the validity hypothesis the decoder throws (URIError) rather than inventing a value *)
Lemma decode_encode_uri_invalid : forall x, utf8_valid x = false ->
  decode_uri_component (encode_uri_component x) = None.
Proof.
  intros x H. unfold decode_uri_component.
  change (unescape false) with path_unescape. now rewrite path_unescape_encode_uri, H.
Qed.

Lemma encode_uri_inj x y : encode_uri_component x = encode_uri_component y -> x = y.
Proof.
  intros E. pose proof (path_unescape_encode_uri x) as Hx. rewrite E, path_unescape_encode_uri in Hx.
  now inversion Hx.
Qed.

Lemma encode_uri_no_slash : forall x, In slash (encode_uri_component x) -> False.
Proof.
  intros x H. unfold encode_uri_component in H. apply in_flat_map in H as [c [_ H]].
  change (In slash (ue1 c)) in H. apply in_chars_In in H. rewrite ue1_no_slash in H. discriminate.
Qed.

Lemma encode_uri_nil_iff : forall x, encode_uri_component x = [] <-> x = [].
Proof.
  intros x. split; [|intros ->; reflexivity].
  destruct x as [|c x]; [reflexivity|]. rewrite encode_uri_cons. intros H.
  apply app_eq_nil in H as [H _]. now apply ue1_nonempty in H.
Qed.

(* ---- S3: URLSearchParams' serializer read by Go's url.ParseQuery -------------------------------------- *)
Lemma unescape_fe1 c t u : unescape true t = Some u -> unescape true (fe1 c ++ t) = Some (c :: u).
Proof.
  intros H. unfold fe1. destruct (Ascii.eqb c " "%char) eqn:Esp.
  - apply Ascii.eqb_eq in Esp. subst c. cbn [app].
    rewrite unescape_plain by reflexivity. rewrite H. reflexivity.
  - pose proof (form_safe_not_pct_plus c) as S.
    destruct (form_safe c).
    + cbn [implb] in S. apply andb_true_iff in S as [S1 S2].
      apply negb_true_iff in S1. apply negb_true_iff in S2.
      cbn [app]. rewrite (unescape_plain true c t S1), H, S2. reflexivity.
    + now rewrite unescape_pct, H.
Qed.

Theorem query_unescape_form_escape : forall x, query_unescape (form_escape x) = Some x.
Proof.
  unfold query_unescape. induction x as [|c x IH]; [reflexivity|].
  rewrite form_escape_cons. now apply unescape_fe1.
Qed.

Lemma form_escape_clean : forall x c, In c (form_escape x) -> c <> amp /\ c <> eqc /\ c <> ";"%char.
Proof.
  intros x c H. unfold form_escape in H. apply in_flat_map in H as [d [_ H]].
  change (In c (fe1 d)) in H. pose proof (fe1_clean d) as Q.
  apply orb_false_iff in Q as [Q Q3]. apply orb_false_iff in Q as [Q1 Q2].
  apply in_chars_false in Q1, Q2, Q3. repeat split; intros ->; contradiction.
Qed.

Lemma form_pair_no_amp p : ~ In amp (form_pair p).
Proof.
  unfold form_pair. intros H. apply in_app_or in H as [H|H].
  - now apply form_escape_clean in H as [H _].
  - cbn in H. destruct H as [H|H]; [discriminate|]. now apply form_escape_clean in H as [H _].
Qed.

Lemma form_pair_no_semi p : in_chars ";"%char (form_pair p) = false.
Proof.
  apply in_chars_false. unfold form_pair. intros H. apply in_app_or in H as [H|H].
  - now apply form_escape_clean in H as [_ [_ H]].
  - cbn in H. destruct H as [H|H]; [discriminate|]. now apply form_escape_clean in H as [_ [_ H]].
Qed.

Lemma form_escape_no_eq x : ~ In eqc (form_escape x).
Proof. intros H. now apply form_escape_clean in H as [_ [H _]]. Qed.

Lemma parse_pair_form p : parse_pair (form_pair p) = Some p.
Proof.
  destruct p as [k v]. unfold parse_pair. rewrite form_pair_no_semi.
  unfold form_pair. cbn [fst snd app].
  rewrite (cut_at_app eqc (form_escape k) (form_escape v) (form_escape_no_eq k)).
  now rewrite !query_unescape_form_escape.
Qed.

Lemma form_pair_nonempty p : form_pair p <> [].
Proof. unfold form_pair. destruct (form_escape (fst p)); discriminate. Qed.

Theorem parse_query_form_encode : forall kv, parse_query (form_encode kv) = kv.
Proof.
  intros kv. unfold parse_query, form_encode.
  destruct kv as [|p kv]; [reflexivity|].
  rewrite split_on_join.
  - induction (p :: kv) as [|q l IH]; [reflexivity|].
    cbn [map flat_map]. rewrite IH.
    destruct (form_pair q) eqn:E; [now apply form_pair_nonempty in E|].
    rewrite <- E, parse_pair_form. reflexivity.
  - discriminate.
  - intros x Hx. apply in_map_iff in Hx as [q [<- _]]. apply form_pair_no_amp.
Qed.

(* ---- S4: URLSearchParams' parser reading its own serializer and Go's url.Values.Encode ----------------- *)
Lemma form_unescape_pct c t : form_unescape (pct c ++ t) = c :: form_unescape t.
Proof.
  unfold pct. cbn [app form_unescape]. rewrite Ascii.eqb_refl, hex_hi, hex_lo. now rewrite ch_code.
Qed.

Lemma form_unescape_plain c t : Ascii.eqb c "%"%char = false ->
  form_unescape (c :: t) = (if Ascii.eqb c "+"%char then " "%char else c) :: form_unescape t.
Proof. intros H. cbn [form_unescape]. now rewrite H. Qed.

Lemma form_unescape_fe1 c t : form_unescape (fe1 c ++ t) = c :: form_unescape t.
Proof.
  unfold fe1. destruct (Ascii.eqb c " "%char) eqn:Esp.
  - apply Ascii.eqb_eq in Esp. subst c. reflexivity.
  - pose proof (form_safe_not_pct_plus c) as S.
    destruct (form_safe c).
    + cbn [implb] in S. apply andb_true_iff in S as [S1 S2].
      apply negb_true_iff in S1. apply negb_true_iff in S2.
      cbn [app]. now rewrite (form_unescape_plain c t S1), S2.
    + apply form_unescape_pct.
Qed.

Theorem form_unescape_form_escape : forall x, form_unescape (form_escape x) = x.
Proof.
  induction x as [|c x IH]; [reflexivity|].
  now rewrite form_escape_cons, form_unescape_fe1, IH.
Qed.

Lemma form_unescape_qe1 c t : form_unescape (qe1 c ++ t) = c :: form_unescape t.
Proof.
  unfold qe1. destruct (Ascii.eqb c " "%char) eqn:Esp.
  - apply Ascii.eqb_eq in Esp. subst c. reflexivity.
  - pose proof (query_safe_not_pct_plus c) as S.
    destruct (query_safe c).
    + cbn [implb] in S. apply andb_true_iff in S as [S1 S2].
      apply negb_true_iff in S1. apply negb_true_iff in S2.
      cbn [app]. now rewrite (form_unescape_plain c t S1), S2.
    + apply form_unescape_pct.
Qed.

Theorem form_unescape_query_escape : forall x, form_unescape (query_escape x) = x.
Proof.
  induction x as [|c x IH]; [reflexivity|].
  now rewrite query_escape_cons, form_unescape_qe1, IH.
Qed.

Lemma form_parse_pairs (enc : str * str -> str) (esc : str -> str) :
  (forall p, enc p = esc (fst p) ++ [eqc] ++ esc (snd p)) ->
  (forall x, ~ In eqc (esc x)) -> (forall x, form_unescape (esc x) = x) ->
  (forall p, ~ In amp (enc p)) ->
  forall kv, form_parse (join_with [amp] (map enc kv)) = kv.
Proof.
  intros Henc Hnoeq Hrt Hnoamp kv. unfold form_parse.
  destruct kv as [|p kv]; [reflexivity|].
  rewrite split_on_join.
  - induction (p :: kv) as [|q l IH]; [reflexivity|].
    cbn [map flat_map]. rewrite IH.
    destruct (enc q) eqn:E.
    + rewrite Henc in E. destruct (esc (fst q)); discriminate.
    + rewrite <- E, Henc. destruct q as [k v]. cbn [fst snd].
      change (esc k ++ [eqc] ++ esc v) with (esc k ++ eqc :: esc v).
      rewrite (cut_at_app eqc (esc k) (esc v) (Hnoeq k)). now rewrite !Hrt.
  - discriminate.
  - intros x Hx. apply in_map_iff in Hx as [q [<- _]]. apply Hnoamp.
Qed.

Theorem form_parse_form_encode : forall kv, form_parse (form_encode kv) = kv.
Proof.
  intros kv. unfold form_encode.
  apply (form_parse_pairs form_pair form_escape); auto using form_escape_no_eq, form_unescape_form_escape, form_pair_no_amp.
Qed.

Lemma query_escape_no_eq x : ~ In eqc (query_escape x).
Proof. intros H. now apply query_escape_clean in H as [_ [H _]]. Qed.

Theorem form_parse_encode_query : forall kv, form_parse (encode_query kv) = sort_kv kv.
Proof.
  intros kv. unfold encode_query.
  apply (form_parse_pairs enc_pair query_escape); auto using query_escape_no_eq, form_unescape_query_escape, enc_pair_no_amp.
Qed.

(* ---- S5: dot segments ---------------------------------------------------------------------------------- *)
(* the URL parser removes a segment exactly when it percent-decodes to "." or ".." *)
Definition preimages (c : ascii) : list ascii :=
  if is_lower c then [c; to_upper c] else if is_upper c then [] else [c].
Lemma to_lower_pre a : In a (preimages (to_lower a)).
Proof. destruct a as [[] [] [] [] [] [] [] []]; vm_compute; tauto. Qed.
(* every string with a given lower-casing *)
Fixpoint expand (t : str) : list str :=
  match t with
  | [] => [[]]
  | c :: r => flat_map (fun a => map (cons a) (expand r)) (preimages c)
  end.
Lemma in_expand : forall y, In y (expand (lower_str y)).
Proof.
  induction y as [|a y IH]; [now left|].
  cbn [lower_str map expand]. apply in_flat_map. exists a. split; [apply to_lower_pre|].
  now apply in_map.
Qed.

Definition unescapes_to (d : str) (z : str) : bool :=
  match path_unescape z with Some u => str_eqb u d | None => false end.

Lemma lower_eq_unescape y t d :
  str_eqb (lower_str y) t = true -> forallb (unescapes_to d) (expand t) = true -> path_unescape y = Some d.
Proof.
  intros E H. apply str_eqb_eq in E. rewrite forallb_forall in H.
  specialize (H y). rewrite <- E in H. specialize (H (in_expand y)).
  unfold unescapes_to in H. destruct (path_unescape y) as [u|]; [|discriminate].
  apply str_eqb_eq in H. now subst.
Qed.

Lemma single_dot_unescape y : is_single_dot y = true -> path_unescape y = Some (s ".").
Proof.
  unfold is_single_dot. cbn [existsb]. rewrite orb_false_r. intros H. apply orb_true_iff in H as [H|H];
    (eapply lower_eq_unescape; [exact H|vm_compute; reflexivity]).
Qed.

Lemma double_dot_unescape y : is_double_dot y = true -> path_unescape y = Some (s "..").
Proof.
  unfold is_double_dot. cbn [existsb]. rewrite orb_false_r. intros H.
  repeat (apply orb_true_iff in H as [H|H]);
    (eapply lower_eq_unescape; [exact H|vm_compute; reflexivity]).
Qed.

Definition dotty (y : str) : bool := is_single_dot y || is_double_dot y.

Lemma dotty_unescape y : dotty y = true -> exists d, path_unescape y = Some d /\ dirty_seg d = true.
Proof.
  unfold dotty. intros H. apply orb_true_iff in H as [H|H].
  - exists (s "."). split; [now apply single_dot_unescape|reflexivity].
  - exists (s ".."). split; [now apply double_dot_unescape|reflexivity].
Qed.

Lemma dotty_encode_uri x : dirty_seg x = false -> dotty (encode_uri_component x) = false.
Proof.
  intros H. destruct (dotty (encode_uri_component x)) eqn:E; [|reflexivity].
  apply dotty_unescape in E as [d [E1 E2]]. rewrite path_unescape_encode_uri in E1. inversion E1; subst. congruence.
Qed.

Lemma dotty_path_escape x : dirty_seg x = false -> dotty (path_escape x) = false.
Proof.
  intros H. destruct (dotty (path_escape x)) eqn:E; [|reflexivity].
  apply dotty_unescape in E as [d [E1 E2]]. rewrite path_unescape_escape in E1. inversion E1; subst. congruence.
Qed.

(* a literal segment that unescapes to itself is removed only when it is "." or ".." as written *)
Lemma dotty_fix x : seg_unescape x = x -> dirty_seg x = false -> dotty x = false.
Proof.
  intros Hfix H. destruct (dotty x) eqn:E; [|reflexivity].
  apply dotty_unescape in E as [d [E1 E2]]. unfold seg_unescape in Hfix. rewrite E1 in Hfix. subst. congruence.
Qed.

(* the path state leaves a path without such segments alone *)
Lemma whatwg_aux_id : forall segs acc, forallb (fun x => negb (dotty x)) segs = true ->
  whatwg_aux acc segs = rev acc ++ segs.
Proof.
  induction segs as [|x r IH]; intros acc H; cbn [whatwg_aux].
  - now rewrite app_nil_r.
  - cbn [forallb] in H. apply andb_true_iff in H as [Hx Hr]. apply negb_true_iff in Hx.
    unfold dotty in Hx. apply orb_false_iff in Hx as [H1 H2]. rewrite H1, H2.
    rewrite IH by exact Hr. cbn [rev]. now rewrite <- app_assoc.
Qed.

Theorem whatwg_segs_id segs : forallb (fun x => negb (dotty x)) segs = true -> whatwg_segs segs = segs.
Proof. intros H. unfold whatwg_segs. now rewrite whatwg_aux_id. Qed.

(* ---- header helper options ------------------------------------------------------------------------------- *)
Lemma helper_sets_declared derive declared h : In h declared -> In h (helper_sets derive declared (derive h)).
Proof. intros H. unfold helper_sets. apply filter_In. split; [exact H|apply str_eqb_refl]. Qed.

Lemma helper_sets_only derive declared opt h' : In h' (helper_sets derive declared opt) -> derive h' = opt /\ In h' declared.
Proof. unfold helper_sets. intros H. apply filter_In in H as [H E]. apply str_eqb_eq in E. now split. Qed.

(* the helper addressed by the option name derived from a declared header sets that header, and — when the
   derivation does not identify two of the declared names — nothing else *)
Theorem header_helper_exact derive declared h :
  In h declared -> NoDup declared ->
  (forall a b, In a declared -> In b declared -> derive a = derive b -> a = b) ->
  helper_sets derive declared (derive h) = [h].
Proof.
  intros Hin Hnd Hinj. unfold helper_sets.
  induction declared as [|d l IH]; [contradiction|].
  inversion Hnd as [|? ? Hnotin Hnd']; subst. cbn [filter].
  destruct Hin as [->|Hin].
  - rewrite str_eqb_refl. f_equal.
    apply filter_none. intros y Hy. apply str_eqb_neq. intros E.
    assert (y = h) by (apply Hinj; [now right|now left|exact E]). subst. contradiction.
  - destruct (str_eqb (derive d) (derive h)) eqn:E.
    + apply str_eqb_eq in E. assert (d = h) by (apply Hinj; [now left|now right|exact E]). subst. contradiction.
    + apply IH; [exact Hin|exact Hnd'|]. intros a b Ha Hb. apply Hinj; now right.
Qed.

(* Go: on names "X-<token without '-'>" the function name is the token: injective *)
Lemma filter_id {A} (P : A -> bool) l : (forall x, In x l -> P x = true) -> filter P l = l.
Proof.
  induction l as [|a l IH]; intros H; [reflexivity|]. cbn. rewrite (H a (or_introl eq_refl)). f_equal.
  apply IH. intros x Hx. apply H. now right.
Qed.

Lemma trim_prefix_app p x : trim_prefix p (p ++ x) = x.
Proof.
  unfold trim_prefix. assert (H : has_prefix p (p ++ x) = true).
  { induction p as [|c p IH]; [reflexivity|]. cbn. now rewrite Ascii.eqb_refl, IH. }
  rewrite H. induction p as [|c p IH]; [reflexivity|]. cbn. apply IH. cbn in H. now rewrite Ascii.eqb_refl in H.
Qed.

Lemma go_header_func_simple t : ~ In "-"%char t -> go_header_func (s "X-" ++ t) = t.
Proof.
  intros H. unfold go_header_func. rewrite trim_prefix_app. apply filter_id.
  intros x Hx. apply negb_true_iff. apply ascii_eqb_neq. intros ->. contradiction.
Qed.

Theorem go_header_func_inj_simple t1 t2 : ~ In "-"%char t1 -> ~ In "-"%char t2 ->
  go_header_func (s "X-" ++ t1) = go_header_func (s "X-" ++ t2) -> t1 = t2.
Proof. intros H1 H2. now rewrite !go_header_func_simple. Qed.

(* TS: on names "X-<token without '-'>" the property name is the lower-cased token: two such names share a
   property exactly when they are the same header (header names are case-insensitive) *)
Lemma split_on_aux_none c : forall x acc, ~ In c x -> split_on_aux c acc x = [rev acc ++ x].
Proof.
  induction x as [|d x IH]; intros acc H; cbn.
  - now rewrite app_nil_r.
  - destruct (Ascii.eqb d c) eqn:E.
    + apply Ascii.eqb_eq in E. subst. exfalso. apply H. now left.
    + rewrite IH. * cbn. now rewrite <- app_assoc. * intros Hin. apply H. now right.
Qed.

Lemma ts_header_prop_simple t : ~ In "-"%char t -> ts_header_prop (s "X-" ++ t) = lower_str t.
Proof.
  intros H. unfold ts_header_prop. rewrite trim_prefix_app. unfold split_on.
  rewrite split_on_aux_none by exact H. cbn. now rewrite app_nil_r.
Qed.

Theorem ts_header_prop_inj_simple t1 t2 : ~ In "-"%char t1 -> ~ In "-"%char t2 ->
  ts_header_prop (s "X-" ++ t1) = ts_header_prop (s "X-" ++ t2) -> lower_str t1 = lower_str t2.
Proof. intros H1 H2. now rewrite !ts_header_prop_simple. Qed.

(* ======================================================================================================== *)
(* TS client -> Go server: reduction to the Go client -> Go server theorems of GoRtFacts                      *)
(* ======================================================================================================== *)

Lemma match_segs_cons_lit x pr e sr : (pr <> [] \/ x <> []) ->
  match_segs (SLit x :: pr) (e :: sr) = if str_eqb (seg_unescape e) (seg_unescape x) then match_segs pr sr else None.
Proof. intros [H|H]; destruct x, pr; try reflexivity; contradiction. Qed.
Lemma match_segs_cons_var v pr e sr :
  match_segs (SVar v :: pr) (e :: sr) =
  if str_eqb (seg_unescape e) [] || str_eqb (seg_unescape e) [slash] then None
  else match match_segs pr sr with Some b => Some ((v, seg_unescape e) :: b) | None => None end.
Proof. reflexivity. Qed.

Lemma match_segs_unescape : forall pat a b,
  map seg_unescape a = map seg_unescape b -> match_segs pat a = match_segs pat b.
Proof.
  induction pat as [|g pr IH]; intros a b H.
  - destruct a, b; try discriminate; reflexivity.
  - destruct a as [|e a], b as [|e' b]; try discriminate.
    + destruct g as [[|c x]|v]; destruct pr; reflexivity.
    + cbn [map] in H. injection H as He Hr.
      destruct g as [x|v].
      * destruct x as [|c x].
        -- destruct pr as [|g2 pr]; [reflexivity|].
           rewrite !match_segs_cons_lit by (left; discriminate). rewrite He. now rewrite (IH a b Hr).
        -- rewrite !match_segs_cons_lit by (right; discriminate). rewrite He. now rewrite (IH a b Hr).
      * rewrite !match_segs_cons_var. rewrite He. now rewrite (IH a b Hr).
Qed.

Lemma find_route_ext rs v a b :
  (forall pat, match_segs pat a = match_segs pat b) -> find_route rs v a = find_route rs v b.
Proof.
  intros H. unfold find_route. generalize (@None (sroute * list (str * str))).
  induction rs as [|r0 rs IH]; intros acc; cbn [fold_left]; [reflexivity|].
  rewrite H. apply IH.
Qed.

Lemma bind_query_ext fs : forall qfs q1 q2 m,
  (forall k, query_values q1 k = query_values q2 k) -> bind_query fs qfs q1 m = bind_query fs qfs q2 m.
Proof.
  induction qfs as [|f qfs IH]; intros q1 q2 m H; [reflexivity|].
  cbn [bind_query]. rewrite H. destruct (query_values q2 (qname f)) as [|x xs].
  - destruct (qrequired f); [reflexivity|now apply IH].
  - destruct (convert (f_kind f) x); [now apply IH|reflexivity].
Qed.

Lemma slash_redirect_ext rs v a b :
  map seg_unescape a = map seg_unescape b -> slash_redirect rs v a = slash_redirect rs v b.
Proof.
  intros H. unfold slash_redirect.
  assert (Hlen : List.length a = List.length b).
  { rewrite <- (map_length seg_unescape a), <- (map_length seg_unescape b). now rewrite H. }
  assert (Hm : forall pat, match_segs pat (a ++ [[]]) = match_segs pat (b ++ [[]])).
  { intros pat. apply match_segs_unescape. rewrite !map_app. now rewrite H. }
  induction rs as [|r0 rs IH]; [reflexivity|]. cbn [existsb]. rewrite IH, Hlen, Hm. reflexivity.
Qed.

Lemma server_handle_ext rs w1 w2 ct resp p1 p2 :
  w_path w1 = slash :: p1 -> w_path w2 = slash :: p2 -> w_verb w1 = w_verb w2 -> w_body w1 = w_body w2 ->
  clean_segs (split_on slash p1) = clean_segs (split_on slash p2) ->
  map seg_unescape (split_on slash p1) = map seg_unescape (split_on slash p2) ->
  (forall k, query_values (w_query w1) k = query_values (w_query w2) k) ->
  server_handle rs w1 ct resp = server_handle rs w2 ct resp.
Proof.
  intros P1 P2 V B C U Q. unfold server_handle. rewrite P1, P2, C, B, V.
  rewrite (find_route_ext rs (w_verb w2) _ _ (fun pat => match_segs_unescape pat _ _ U)).
  rewrite (slash_redirect_ext rs (w_verb w2) _ _ U).
  destruct (clean_segs (split_on slash p2)); cbn [negb]; [|reflexivity].
  destruct (find_route rs (w_verb w2) (split_on slash p2)) as [[r0 b]|]; [|reflexivity].
  destruct (is_subtree (sr_pat r0) && slash_redirect rs (w_verb w2) (split_on slash p2)); [reflexivity|].
  destruct (negb (all_singular_url (sr_fields r0) (rt_pathvars (sr_route r0)))); [reflexivity|].
  destruct (body_start (rt_body (sr_route r0)) ct (w_body w2)) as [m0|]; [|reflexivity].
  destruct (bind_path (sr_fields r0) (rt_pathvars (sr_route r0)) b m0) as [m1|]; [|reflexivity].
  now rewrite (bind_query_ext (sr_fields r0) _ (w_query w1) (w_query w2) m1 Q).
Qed.

Lemma clean_not_dirty : forall l, clean_segs l = true -> forall y, In y l -> dirty_seg y = false.
Proof.
  induction l as [|x l IH]; intros H y Hy; [contradiction|].
  destruct l as [|x2 l].
  - cbn in H. destruct Hy as [<-|[]]. now apply negb_true_iff in H.
  - rewrite clean_segs_cons2 in H. apply andb_true_iff in H as [H H3]. apply andb_true_iff in H as [H1 _].
    destruct Hy as [<-|Hy]; [now apply negb_true_iff in H1|now apply IH].
Qed.

Lemma clean_segs_rel : forall l1 l2,
  Forall2 (fun a b => dirty_seg a = dirty_seg b /\ str_eqb a [] = str_eqb b []) l1 l2 ->
  clean_segs l1 = clean_segs l2.
Proof.
  intros l1 l2 H. induction H as [|a b l1 l2 [Hd He] H IH]; [reflexivity|].
  destruct H as [|a2 b2 l1 l2 H2 H].
  - cbn. now rewrite Hd.
  - rewrite !clean_segs_cons2. now rewrite Hd, He, IH.
Qed.

Lemma str_eqb_inj_fun (f : str -> str) y z : (forall a b, f a = f b -> a = b) -> str_eqb (f y) (f z) = str_eqb y z.
Proof.
  intros Hinj. destruct (str_eqb y z) eqn:E.
  - apply str_eqb_eq in E. subst. apply str_eqb_refl.
  - apply str_eqb_neq. intros H. apply Hinj in H. apply str_eqb_neq in E. contradiction.
Qed.

Lemma dirty_encode_uri y : dirty_seg (encode_uri_component y) = dirty_seg y.
Proof.
  unfold dirty_seg.
  change (s ".") with (encode_uri_component (s ".")) at 1. change (s "..") with (encode_uri_component (s "..")) at 1.
  now rewrite !(str_eqb_inj_fun encode_uri_component) by apply encode_uri_inj.
Qed.

Lemma nil_encode_uri y : str_eqb (encode_uri_component y) [] = str_eqb y [].
Proof.
  change (@nil ascii) with (encode_uri_component []) at 1.
  now rewrite (str_eqb_inj_fun encode_uri_component) by apply encode_uri_inj.
Qed.

Lemma params_set_fresh : forall l k v, ~ In k (map fst l) -> params_set l k v = l ++ [(k, v)].
Proof.
  induction l as [|[k' v'] l IH]; intros k v H; [reflexivity|].
  cbn [params_set]. destruct (str_eqb k k') eqn:E.
  - apply str_eqb_eq in E. subst. exfalso. apply H. now left.
  - cbn [app]. f_equal. apply IH. intros Hin. apply H. now right.
Qed.

Lemma params_of_nodup_aux : forall l acc, NoDup (map fst (acc ++ l)) ->
  fold_left (fun a p => params_set a (fst p) (snd p)) l acc = acc ++ l.
Proof.
  induction l as [|[k v] l IH]; intros acc H; cbn [fold_left].
  - now rewrite app_nil_r.
  - cbn [fst snd]. rewrite params_set_fresh.
    + rewrite IH; [now rewrite <- app_assoc|]. now rewrite <- app_assoc.
    + rewrite map_app in H. cbn [map fst] in H. apply NoDup_remove_2 in H.
      intros Hin. apply H. apply in_or_app. now left.
Qed.

Lemma params_of_nodup l : NoDup (map fst l) -> params_of l = l.
Proof. intros H. unfold params_of. now rewrite params_of_nodup_aux. Qed.

Section TsGo.
Variables (sc : schema) (fl : file) (sv : service) (md : method) (req : mval).
Notation fs := (in_fields sc md).
Notation r := (info_of fl sv md (in_fields sc md)).

Definition ts_fill_str (g : seg) : str :=
  match g with SLit x => x | SVar v => encode_uri_component (var_val fs req v) end.

Lemma ts_fill_seg_var v x : ts_fill_seg fs req (SVar v) = Ok x ->
  exists f, find_field fs v = Some f /\ field_url_ok f = true /\ x = encode_uri_component (var_val fs req v).
Proof.
  unfold ts_fill_seg, var_val, field_url_ok, singular, js_string. destruct (find_field fs v) as [f|]; [|discriminate].
  destruct (url_kind_ok (f_kind f) && match f_card f with Singular => true | _ => false end) eqn:E;
    [|discriminate].
  intros H. inversion H. exists f. repeat split. exact E.
Qed.

Lemma ts_fill_all : forall segs filled,
  all_ok (map (ts_fill_seg fs req) segs) = Ok filled ->
  filled = map ts_fill_str segs /\
  all_ok (map (fill_seg fs req) segs) = Ok (map (fill_str fs req) segs) /\
  (forall v, In v (seg_vars segs) -> exists f, find_field fs v = Some f /\ field_url_ok f = true).
Proof.
  induction segs as [|g segs IH]; intros filled H.
  - cbn in H. inversion H. repeat split; intros v [].
  - cbn [map] in H. apply all_ok_cons in H as [x [t [Hx [Ht ->]]]].
    destruct (IH t Ht) as [IH1 [IH2 IH3]]. destruct g as [lit|v].
    + cbn in Hx. inversion Hx; subst x. repeat split.
      * cbn [map ts_fill_str]. now f_equal.
      * cbn [map fill_seg all_ok fill_str]. now rewrite IH2.
      * exact IH3.
    + apply ts_fill_seg_var in Hx as [f [Hf [Hok ->]]]. repeat split.
      * cbn [map ts_fill_str]. now f_equal.
      * cbn [map all_ok]. unfold fill_seg at 1. rewrite Hf. unfold field_url_ok in Hok. rewrite Hok.
        cbn [all_ok]. rewrite IH2. cbn [fill_str]. unfold var_val. now rewrite Hf.
      * intros v' Hin. cbn [seg_vars flat_map app] in Hin. destruct Hin as [<-|Hin]; [now exists f|].
        now apply IH3.
Qed.

Lemma ts_client_build_inv tw : ts_client_build fl sv md fs req = Ok tw ->
  exists segs filled q,
    tsegs (client_path r) = Some segs /\
    client_template_plain (path_vars r) segs = true /\
    all_ok (map (ts_fill_seg fs req) segs) = Ok filled /\
    (if verb_has_body (eff_verb r) then Ok [] else client_query fs req) = Ok q /\
    tw_verb tw = eff_verb r /\ tw_path tw = slash :: join_with [slash] (whatwg_segs filled) /\
    tw_query tw = form_encode (params_of q) /\
    tw_body tw = (if verb_has_body (eff_verb r) then Some (BJson, req) else None).
Proof.
  unfold ts_client_build. cbv zeta. cbn [rt_path rt_body rt_verb rt_pathvars ts_client client_route].
  destruct (tsegs (client_path r)) as [segs|] eqn:E1; [|discriminate].
  destruct (client_template_plain (path_vars r) segs) eqn:E0; cbn [negb]; [|discriminate].
  destruct (all_ok (map (ts_fill_seg fs req) segs)) as [filled|] eqn:E2; [|discriminate].
  destruct (if verb_has_body (eff_verb r) then Ok [] else client_query fs req) as [q|] eqn:E3; [|discriminate].
  intros H. inversion H. exists segs, filled, q.
  repeat split; try reflexivity; try assumption.
Qed.

Lemma seg_unescape_fill segs :
  map seg_unescape (map ts_fill_str segs) = map seg_unescape (map (fill_str fs req) segs).
Proof.
  induction segs as [|g segs IH]; [reflexivity|]. cbn [map]. rewrite IH. f_equal.
  destruct g as [x|v]; [reflexivity|]. cbn [ts_fill_str fill_str].
  now rewrite seg_unescape_encode_uri, seg_unescape_escape.
Qed.

Lemma ts_fill_no_slash segs : (forall x, In (SLit x) segs -> ~ In slash x) ->
  forall y, In y (map ts_fill_str segs) -> ~ In slash y.
Proof.
  intros Hl y Hy. apply in_map_iff in Hy as [g [<- Hg]]. destruct g as [x|v]; cbn [ts_fill_str].
  - now apply Hl.
  - exact (encode_uri_no_slash _).
Qed.

Lemma fill_rel segs :
  Forall2 (fun a b => dirty_seg a = dirty_seg b /\ str_eqb a [] = str_eqb b [])
          (map ts_fill_str segs) (map (fill_str fs req) segs).
Proof.
  induction segs as [|g segs IH]; [constructor|]. cbn [map]. constructor; [|exact IH].
  destruct g as [x|v]; [split; reflexivity|]. cbn [ts_fill_str fill_str].
  now rewrite dirty_encode_uri, dirty_path_escape, nil_encode_uri, nil_path_escape.
Qed.

(* relation between the outcome of the TS->Go call and the Go->Go call on the same request/response *)
Definition lifts (o : c08_outcome) (og : outcome) : Prop :=
  match og with
  | Delivered saw got => o = ODelivered (md_name md) (tsobj_of_mval saw) got
  | Rejected f => o = ORejected f
  | NotRouted => o = ONotRouted
  | RegistrationPanic => o = OPanic
  | ClientDecodeError _ => True
  end.

Definition dup_names : list str -> bool :=
  fix dup (l : list str) : bool := match l with [] => false | x :: t => existsb (str_eqb x) t || dup t end.

Lemma defects_ts_go_inv : defects_C08 TsGo sc fl sv md req = [] ->
  filter route_defect (defects_C03 r) = [] /\
  path_val_is dirty_seg fs req r = false /\
  path_val_is (fun x => str_eqb x [slash]) fs req r = false /\
  (verb_has_body (eff_verb r) && existsb qrequired (query_fields fs) = false) /\
  server_routes sc fl sv <> Ok None /\
  (forall tw rs, ts_client_build fl sv md fs req = Ok tw -> server_routes sc fl sv = Ok (Some rs) ->
     forall n, dispatched_to rs (go_wire_of tw) = Some n -> n = md_name md) /\
  (negb (verb_has_body (eff_verb r)) &&
     existsb (fun f => qrequired f && is_zero (scalar_of req f)) (query_fields fs) = false) /\
  in_chars lbrace (ri_base r) = false /\
  (negb (verb_has_body (eff_verb r)) && dup_names (map qname (query_fields fs)) = false).
Proof.
  unfold defects_C08. cbv zeta. cbn [negb andb]. intros H.
  apply app_nil_split in H as [H1 H]. apply app_nil_split in H as [H3 H].
  apply app_nil_split in H as [H4 H]. apply app_nil_split in H as [H5 H].
  apply app_nil_split in H as [H6 H]. apply app_nil_split in H as [H7 H].
  apply app_nil_split in H as [_ H]. apply app_nil_split in H as [_ H].
  apply app_nil_split in H as [H9 H]. apply app_nil_split in H as [H10 H11].
  repeat split.
  - now apply map_eq_nil in H1.
  - now apply if_nil in H3.
  - now apply if_nil in H4.
  - now apply if_nil in H5.
  - intros E. rewrite E in H6. discriminate.
  - intros tw rs Hw Hrs n Hn. rewrite Hw, Hrs, Hn in H7.
    destruct (str_eqb n (md_name md)) eqn:E; [now apply str_eqb_eq in E|discriminate].
  - now apply if_nil in H9.
  - now apply if_nil in H10.
  - now apply if_nil in H11.
Qed.

(* side condition on the template: no literal segment is a dot segment for the URL parser ("%2e" ...) *)
Definition lits_plain (segs : list seg) : bool :=
  forallb (fun g => match g with SLit x => negb (dotty x) | SVar _ => true end) segs.
Definition ts_template_ok (ri : rpc_info) : bool :=
  match tsegs (client_path ri) with Some segs => lits_plain segs | None => false end.

Theorem ts_go_reduce : forall resp w o,
  ts_go_call sc fl sv md req resp = Ok (w, o) ->
  defects_C08 TsGo sc fl sv md req = [] ->
  In md (sv_methods sv) -> NoDup (map md_name (sv_methods sv)) ->
  ts_template_ok r = true ->
  path_vals_nonempty fs req (path_vars r) = true ->
  exists wg og, go_call sc fl sv md CtJSON req resp = Ok (wg, og) /\
                defects_C01 sc fl sv md CtJSON req = [] /\ lifts o og.
Proof.
  intros resp w o Hcall Hdef Hmd Hnd Hlits Hne.
  destruct (defects_ts_go_inv Hdef) as [Hroute [Hdirty [Hslash [Hreq [Hnopanic [Hdisp [Hzero [Hbase Hdup]]]]]]]].
  unfold ts_go_call in Hcall. cbv zeta in Hcall.
  destruct (ts_client_build fl sv md fs req) as [tw|] eqn:Htb; [|discriminate].
  destruct (server_routes sc fl sv) as [[rs|]|] eqn:Hsr; [|congruence|discriminate].
  destruct (ts_client_build_inv tw Htb) as [segs [filled [q [Hts [Hplain [Hfill [Hq [Hverb [Hpath [Hquery Hbody]]]]]]]]]].
  destruct (ts_fill_all segs filled Hfill) as [-> [Hgofill Hfields]].
  unfold ts_template_ok in Hlits. rewrite Hts in Hlits.
  (* the Go client's request for the same call *)
  set (wg := {| w_verb := eff_verb r; w_path := slash :: join_with [slash] (map (fill_str fs req) segs);
                w_query := sort_kv q;
                w_body := if verb_has_body (eff_verb r) then Some (client_fmt CtJSON, req) else None |}).
  assert (Hcb : client_build fl sv md fs CtJSON req = Ok wg).
  { unfold client_build. cbv zeta. cbn [rt_path rt_body rt_verb rt_pathvars go_client client_route].
    rewrite Hts, Hplain, Hgofill, Hq. reflexivity. }
  (* the template's variables are the method path's variables *)
  assert (Hcfg : cfg_path r <> []).
  { pose proof Hroute as Hr. unfold defects_C03 in Hr. apply filter_nil_app in Hr as [Hr _].
    intros E. rewrite E in Hr. discriminate. }
  assert (Hbase' : ~ In lbrace (ri_base r)) by now apply in_chars_false.
  assert (Htpl : template_ok r = true).
  { unfold template_ok. rewrite Hts.
    rewrite <- (extract_client_path _ Hcfg Hbase'), (extract_tsegs _ _ Hts). apply strs_eqb_refl. }
  pose proof Htpl as Hvars. unfold template_ok in Hvars. rewrite Hts in Hvars. apply strs_eqb_eq in Hvars.
  destruct (tsegs_inv _ _ Hts) as [_ [Hsegs_ne Hlit_noslash]].
  (* no segment of the filled template is a dot segment for the URL parser *)
  assert (Hnodot : forallb (fun x => negb (dotty x)) (map ts_fill_str segs) = true).
  { apply forallb_forall. intros y Hy. apply in_map_iff in Hy as [g [<- Hg]].
    destruct g as [x|v]; cbn [ts_fill_str].
    - unfold lits_plain in Hlits. rewrite forallb_forall in Hlits. exact (Hlits _ Hg).
    - apply negb_true_iff. apply dotty_encode_uri.
      assert (Hv : In v (path_vars r)).
      { rewrite <- Hvars. unfold seg_vars. apply in_flat_map. exists (SVar v). split; [exact Hg|now left]. }
      destruct (Hfields v) as [f [Hf _]]; [now rewrite Hvars|].
      unfold path_val_is in Hdirty. pose proof (existsb_false_forall _ _ Hdirty v Hv) as F. cbv beta in F.
      rewrite Hf in F. unfold var_val. now rewrite Hf. }
  rewrite (whatwg_segs_id _ Hnodot) in Hpath.
  assert (Hsplit_ts : split_on slash (join_with [slash] (map ts_fill_str segs)) = map ts_fill_str segs).
  { apply split_on_join; [destruct segs; [congruence|discriminate]|]. now apply ts_fill_no_slash. }
  assert (Hsplit_go : split_on slash (join_with [slash] (map (fill_str fs req) segs)) = map (fill_str fs req) segs).
  { apply split_on_join; [destruct segs; [congruence|discriminate]|]. now apply fill_no_slash. }
  assert (Hq_nd : NoDup (map fst q)).
  { destruct (verb_has_body (eff_verb r)) eqn:Hb.
    - inversion Hq. constructor.
    - unfold client_query in Hq. apply client_query_gen in Hq as [_ ->]. apply qgen_nodup.
      cbn [negb andb] in Hdup. now apply dup_fix_false. }
  assert (Hun : map seg_unescape (map ts_fill_str segs) = map seg_unescape (map (fill_str fs req) segs))
    by apply seg_unescape_fill.
  (* the two requests are dispatched alike *)
  assert (Hsame : server_handle rs (go_wire_of tw) CtJSON resp = server_handle rs wg CtJSON resp).
  { apply (server_handle_ext rs (go_wire_of tw) wg CtJSON resp
             (join_with [slash] (map ts_fill_str segs)) (join_with [slash] (map (fill_str fs req) segs))).
    - exact Hpath.
    - reflexivity.
    - exact Hverb.
    - cbn [go_wire_of w_body wg]. rewrite Hbody. reflexivity.
    - rewrite Hsplit_ts, Hsplit_go. apply clean_segs_rel, fill_rel.
    - now rewrite Hsplit_ts, Hsplit_go.
    - intros k. cbn [go_wire_of w_query wg]. rewrite Hquery, parse_query_form_encode.
      rewrite (params_of_nodup q Hq_nd). now rewrite query_values_sort_kv. }
  assert (Hdsame : dispatched_to rs (go_wire_of tw) = dispatched_to rs wg).
  { unfold dispatched_to. cbn [go_wire_of w_path w_verb wg]. rewrite Hpath, Hverb, Hsplit_ts, Hsplit_go.
    now rewrite (find_route_ext rs (eff_verb r) _ _ (fun pat => match_segs_unescape pat _ _ Hun)). }
  (* the Go->Go defect list is empty too *)
  assert (Hdef01 : defects_C01 sc fl sv md CtJSON req = []).
  { unfold defects_C01. cbv zeta. rewrite Hcb, Hsr, Hroute. cbn [map app].
    unfold path_val_is in Hdirty, Hslash. rewrite Hdirty, Hslash, Hreq. cbn [app].
    rewrite <- Hdsame. rewrite Hzero, Hbase. unfold dup_names in Hdup. rewrite Hdup.
    destruct (dispatched_to rs (go_wire_of tw)) as [n|] eqn:En; [|reflexivity].
    rewrite (Hdisp tw rs eq_refl eq_refl n En). now rewrite str_eqb_refl. }
  exists wg. unfold go_call. cbv zeta. rewrite Hcb, Hsr, <- Hsame.
  (* where the Go->Go call goes *)
  destruct (call_core sc fl sv md CtJSON req wg rs Hcb Hsr Hdef01 Hmd Hnd Htpl Hne)
    as [p [r0 [Hp [_ [Hfr0 _]]]]].
  assert (Hn : dispatched_to rs (go_wire_of tw) = Some (md_name md)).
  { rewrite Hdsame. unfold dispatched_to. rewrite Hp, Hfr0.
    f_equal. apply (Hdisp tw rs eq_refl eq_refl). rewrite Hdsame. unfold dispatched_to. now rewrite Hp, Hfr0. }
  rewrite Hn in Hcall.
  destruct (server_handle rs (go_wire_of tw) CtJSON resp) as [[[[saw [f v]]|]|[fld|[]]]|]; try discriminate.
  - inversion Hcall; subst.
    destruct (bfmt_eqb f (client_fmt CtJSON) || match f, v with BBin, [] => true | _, _ => false end);
      eexists; (split; [reflexivity|]); (split; [exact Hdef01|]); cbn [lifts]; auto.
  - inversion Hcall; subst. eexists. split; [reflexivity|]. split; [exact Hdef01|reflexivity].
  - inversion Hcall; subst. eexists. split; [reflexivity|]. split; [exact Hdef01|reflexivity].
  - inversion Hcall; subst. eexists. split; [reflexivity|]. split; [exact Hdef01|reflexivity].
Qed.

End TsGo.

(* ---- TS client -> Go server: the delivery theorems ------------------------------------------------------- *)
Theorem ts_go_body : forall sc fl sv md req resp w o,
  ts_go_call sc fl sv md req resp = Ok (w, o) ->
  defects_C08 TsGo sc fl sv md req = [] ->
  In md (sv_methods sv) ->
  wf_body sc fl sv md req = true ->
  ts_template_ok (info_of fl sv md (in_fields sc md)) = true ->
  o = ODelivered (md_name md) (tsobj_of_mval req) resp.
Proof.
  intros sc fl sv md req resp w o Hcall Hdef Hmd Hwf Htpl.
  pose proof Hwf as Hwf'. unfold wf_body in Hwf'. cbv zeta in Hwf'.
  repeat (apply andb_true_iff in Hwf' as [Hwf' ?]).
  assert (Hnd : NoDup (map md_name (sv_methods sv))) by now apply nodupb_sound.
  destruct (ts_go_reduce sc fl sv md req resp w o Hcall Hdef Hmd Hnd Htpl) as [wg [og [Hgo [Hd01 Hl]]]];
    [assumption|].
  rewrite (go_call_body_b sc fl sv md CtJSON req resp wg og Hgo Hd01 Hmd Hwf) in Hl. exact Hl.
Qed.

Theorem ts_go_nobody : forall sc fl sv md req resp w o,
  ts_go_call sc fl sv md req resp = Ok (w, o) ->
  defects_C08 TsGo sc fl sv md req = [] ->
  In md (sv_methods sv) ->
  wf_nobody sc fl sv md req = true ->
  ts_template_ok (info_of fl sv md (in_fields sc md)) = true ->
  exists saw, o = ODelivered (md_name md) (tsobj_of_mval saw) resp /\
              forall f, In f (in_fields sc md) -> scalar_of saw f = scalar_of req f.
Proof.
  intros sc fl sv md req resp w o Hcall Hdef Hmd Hwf Htpl.
  pose proof Hwf as Hwf'. unfold wf_nobody in Hwf'. cbv zeta in Hwf'.
  repeat (apply andb_true_iff in Hwf' as [Hwf' ?]).
  assert (Hnd : NoDup (map md_name (sv_methods sv))) by now apply nodupb_sound.
  destruct (ts_go_reduce sc fl sv md req resp w o Hcall Hdef Hmd Hnd Htpl) as [wg [og [Hgo [Hd01 Hl]]]];
    [assumption|].
  destruct (go_call_nobody_b sc fl sv md CtJSON req resp wg og Hgo Hd01 Hmd Hwf) as [saw [-> Hs]].
  exists saw. split; [exact Hl|exact Hs].
Qed.

(* ---- the Go client's helpers after d19dbea: one helper per function name, for the first header deriving it --- *)
Theorem go_helper_exact declared h :
  In h declared ->
  (forall a b, In a declared -> In b declared -> go_header_func a = go_header_func b -> a = b) ->
  go_helper_sets declared (go_header_func h) = [h].
Proof.
  intros Hin Hinj. unfold go_helper_sets.
  destruct (find (fun x => str_eqb (go_header_func x) (go_header_func h)) declared) as [x|] eqn:E.
  - apply find_some in E as [Hx Ex]. apply str_eqb_eq in Ex. f_equal. now apply Hinj.
  - exfalso. pose proof (find_none _ _ E h Hin) as F. cbv beta in F. now rewrite str_eqb_refl in F.
Qed.

(* ======================================================================================================== *)
(* The TS server: a request built from the route's own template reaches the route's handler                    *)
(* ======================================================================================================== *)

(* ---- the handler object ------------------------------------------------------------------------------------ *)
Lemma tget_app o1 o2 k : tget (o1 ++ o2) k = match tget o1 k with Some x => Some x | None => tget o2 k end.
Proof.
  induction o1 as [|[k' v] o1 IH]; [reflexivity|]. cbn [app tget].
  destruct (str_eqb k k'); [reflexivity|exact IH].
Qed.

Lemma tget_tremove_same o k : tget (tremove o k) k = None.
Proof.
  unfold tremove. induction o as [|[k' v] o IH]; [reflexivity|]. cbn [filter fst].
  destruct (str_eqb k' k) eqn:E; cbn [negb].
  - exact IH.
  - cbn [tget]. destruct (str_eqb k k') eqn:E2; [|exact IH].
    apply str_eqb_eq in E2. subst. now rewrite str_eqb_refl in E.
Qed.

Lemma tget_tremove_other o k k' : k' <> k -> tget (tremove o k) k' = tget o k'.
Proof.
  intros Hne. unfold tremove. induction o as [|[k2 v] o IH]; [reflexivity|]. cbn [filter fst].
  destruct (str_eqb k2 k) eqn:E; cbn [negb].
  - apply str_eqb_eq in E. subst k2. cbn [tget].
    destruct (str_eqb k' k) eqn:E2; [apply str_eqb_eq in E2; contradiction|exact IH].
  - cbn [tget]. destruct (str_eqb k' k2); [reflexivity|exact IH].
Qed.

Lemma tget_tset o k c k' : tget (tset o k c) k' = if str_eqb k' k then c else tget o k'.
Proof.
  destruct (str_eqb k' k) eqn:E.
  - apply str_eqb_eq in E. subst k'. unfold tset. destruct c as [x|].
    + rewrite tget_app, tget_tremove_same. cbn [tget]. now rewrite str_eqb_refl.
    + apply tget_tremove_same.
  - apply str_eqb_neq in E. unfold tset. destruct c as [x|].
    + rewrite tget_app, (tget_tremove_other o k k' E). destruct (tget o k'); [reflexivity|].
      cbn [tget]. destruct (str_eqb k' k) eqn:E2; [apply str_eqb_eq in E2; contradiction|reflexivity].
    + now apply tget_tremove_other.
Qed.

Lemma tget_of_mval m k : tget (tsobj_of_mval m) k = option_map TsV (mget m k).
Proof.
  unfold tsobj_of_mval. induction m as [|[k' v] m IH]; [reflexivity|]. cbn [map tget mget fst snd].
  destruct (str_eqb k k'); [reflexivity|exact IH].
Qed.

(* ---- the template router ------------------------------------------------------------------------------------ *)
Lemma split_on_slash_cons x : split_on slash (slash :: x) = [] :: split_on slash x.
Proof. reflexivity. Qed.

Fixpoint all_some_F2 {A B} (f : A -> option B) (l : list A) : forall out, all_some (map f l) = Some out ->
  Forall2 (fun a b => f a = Some b) l out.
Proof.
  destruct l as [|a l]; intros out H.
  - cbn in H. inversion H. constructor.
  - cbn [map all_some] in H. destruct (f a) as [b|] eqn:Ea; [|discriminate].
    destruct (all_some (map f l)) as [t|] eqn:Et; [|discriminate]. inversion H; subst out.
    constructor; [exact Ea|]. now apply all_some_F2.
Qed.

Lemma tsegs_template p segs : tsegs p = Some segs ->
  exists tl, split_on slash p = [] :: tl /\ Forall2 (fun t g => seg_of t = Some g) tl segs.
Proof.
  unfold tsegs. destruct p as [|c rest]; [discriminate|].
  destruct (Ascii.eqb c slash) eqn:Ec; [|discriminate]. apply Ascii.eqb_eq in Ec. subst c.
  intros H. exists (split_on slash rest). split; [apply split_on_slash_cons|now apply all_some_F2].
Qed.

Section Fill.
Variables (fs : list field) (req : mval) (E : str -> str).
Hypothesis E_nil : forall x, E x = [] -> x = [].

Definition efill (g : seg) : str := match g with SLit x => x | SVar v => E (var_val fs req v) end.

Lemma tmpl_is_var_lit t x : seg_of t = Some (SLit x) -> tmpl_is_var t = false.
Proof. unfold tmpl_is_var. now intros ->. Qed.
Lemma tmpl_is_var_var t v : seg_of t = Some (SVar v) -> tmpl_is_var t = true.
Proof. unfold tmpl_is_var. now intros ->. Qed.

Lemma ts_match_own : forall tl segs, Forall2 (fun t g => seg_of t = Some g) tl segs ->
  (forall v, In v (seg_vars segs) -> var_val fs req v <> []) ->
  ts_match tl (map efill segs) = true.
Proof.
  intros tl segs H. induction H as [|t g tl segs Hg H IH]; intros Hv; [reflexivity|].
  cbn [map ts_match]. destruct g as [x|v].
  - rewrite (tmpl_is_var_lit t x Hg). apply seg_of_lit in Hg. subst x. cbn [efill].
    rewrite str_eqb_refl. apply IH. intros v Hin. now apply Hv.
  - rewrite (tmpl_is_var_var t v Hg). cbn [efill].
    assert (Hne : str_eqb (E (var_val fs req v)) [] = false).
    { apply str_eqb_neq. intros Hnil. apply E_nil in Hnil. apply (Hv v); [now left|exact Hnil]. }
    rewrite Hne. cbn [negb andb]. apply IH. intros v' Hin. apply Hv. now right.
Qed.

(* the template's index of "{v}" holds the escaped value of v in the request *)
Lemma index_own : forall tl segs, Forall2 (fun t g => seg_of t = Some g) tl segs ->
  forall v, In (SVar v) segs ->
  exists i, index_of (lbrace :: v ++ [rbrace]) tl = Some i /\ nth i (map efill segs) [] = E (var_val fs req v).
Proof.
  intros tl segs H. induction H as [|t g tl segs Hg H IH]; intros v Hin; [contradiction|].
  cbn [index_of]. destruct (str_eqb (lbrace :: v ++ [rbrace]) t) eqn:Et.
  - apply str_eqb_eq in Et. exists O. split; [reflexivity|]. cbn [map nth].
    (* t is "{v}", so it parses to the variable v *)
    assert (Hsv : seg_of t = Some (SVar v)).
    { destruct Hin as [Hh|Hin].
      - now rewrite <- Hh.
      - clear - Hin H Et. induction H as [|t2 g2 tl segs Hg2 H IH2]; [contradiction|].
        destruct Hin as [->|Hin]; [|now apply IH2].
        pose proof (seg_of_var _ _ Hg2) as [Ht2 _]. rewrite <- Et, <- Ht2. exact Hg2. }
    rewrite Hsv in Hg. inversion Hg. reflexivity.
  - destruct Hin as [->|Hin].
    + pose proof (seg_of_var _ _ Hg) as [Ht _]. rewrite Ht, str_eqb_refl in Et. discriminate.
    + destruct (IH v Hin) as [i [Hi Hn]]. exists (S i). split; [now rewrite Hi|exact Hn].
Qed.
End Fill.

(* fold_left with an accumulator of routes: what the router returns *)
Definition tfr_step (v : verb) (segs : list str) (best : option ts_route) (r : ts_route) : option ts_route :=
  if verb_eqb (rt_verb (tr_route r)) v && ts_match (tr_tmpl r) segs then
    match best with
    | Some b => if ts_more_specific (tr_tmpl r) (tr_tmpl b) then Some r else best
    | None => Some r
    end
  else best.

Lemma ts_find_route_fold rs v segs : ts_find_route rs v segs = fold_left (tfr_step v segs) rs None.
Proof. reflexivity. Qed.

Lemma tfr_sound v segs (P : ts_route -> Prop) : forall rs best,
  (forall b, best = Some b -> P b) -> (forall r, In r rs -> P r) ->
  forall r0, fold_left (tfr_step v segs) rs best = Some r0 -> P r0.
Proof.
  induction rs as [|r rs IH]; intros best Hb Hrs r0 H.
  - cbn in H. now apply Hb.
  - cbn [fold_left] in H. apply (IH (tfr_step v segs best r)); [|intros x Hx; apply Hrs; now right|exact H].
    intros b Hbb. unfold tfr_step in Hbb.
    destruct (verb_eqb (rt_verb (tr_route r)) v && ts_match (tr_tmpl r) segs).
    + destruct best as [b0|].
      * destruct (ts_more_specific (tr_tmpl r) (tr_tmpl b0)); inversion Hbb; subst.
        -- apply Hrs. now left.
        -- now apply Hb.
      * inversion Hbb; subst. apply Hrs. now left.
    + now apply Hb.
Qed.

Lemma tfr_step_some v segs best r : best <> None -> tfr_step v segs best r <> None.
Proof.
  intros H. unfold tfr_step. destruct (verb_eqb (rt_verb (tr_route r)) v && ts_match (tr_tmpl r) segs); [|exact H].
  destruct best as [b|]; [|congruence]. destruct (ts_more_specific (tr_tmpl r) (tr_tmpl b)); discriminate.
Qed.

Lemma tfr_complete v segs : forall rs best,
  (best <> None \/ exists r, In r rs /\ verb_eqb (rt_verb (tr_route r)) v = true /\ ts_match (tr_tmpl r) segs = true) ->
  fold_left (tfr_step v segs) rs best <> None.
Proof.
  induction rs as [|r rs IH]; intros best H.
  - cbn. destruct H as [H|[r [[] _]]]. exact H.
  - cbn [fold_left]. apply IH. destruct H as [H|[r0 [[->|Hin] [Hv Hm]]]].
    + left. now apply tfr_step_some.
    + left. unfold tfr_step. rewrite Hv, Hm. cbn [andb].
      destruct best as [b|]; [|discriminate]. destruct (ts_more_specific (tr_tmpl r0) (tr_tmpl b)); discriminate.
    + right. exists r0. now repeat split.
Qed.

Section TsServer.
Variables (sc : schema) (fl : file) (sv : service) (md : method) (req : mval) (hs : list (str * str)) (E : str -> str).
Notation fs := (in_fields sc md).
Notation r := (info_of fl sv md (in_fields sc md)).
Hypothesis E_nil : forall x, E x = [] -> x = [].
Hypothesis E_dec : forall x, utf8_valid x = true -> decode_uri_component (E x) = Some x.
Hypothesis E_noslash : forall x, ~ In slash (E x).

(* what the TS server writes into the request object for a path variable is what the request value holds
   in that field: the variable's field is found, its printed value is a non-empty UTF-8 string, and the
   canonical reading of that string in the field's kind is the field's entry *)
Definition path_value_ok (v : str) : Prop :=
  exists f, find_field fs v = Some f /\
    var_val fs req v <> [] /\ utf8_valid (var_val fs req v) = true /\
    canon_js (f_kind f) (JsStr (var_val fs req v)) = tget (tsobj_of_mval req) (f_name f).

Definition bp_step (o : tsobj) (v : str) : tsobj :=
  match find_field fs v with
  | Some f => tset o (f_name f) (canon_js (f_kind f) (JsStr (var_val fs req v)))
  | None => o
  end.

Lemma seg_vars_in segs v : In v (seg_vars segs) -> In (SVar v) segs.
Proof.
  unfold seg_vars. intros H. apply in_flat_map in H as [g [Hg Hv]]. destruct g as [x|u]; [contradiction|].
  destruct Hv as [->|[]]. exact Hg.
Qed.

Lemma bind_path_own tl segs : Forall2 (fun t g => seg_of t = Some g) tl segs ->
  forall vars o, (forall v, In v vars -> In (SVar v) segs /\ path_value_ok v) ->
  ts_bind_path fs ([] :: tl) ([] :: map (efill fs req E) segs) vars o = Ok (Some (fold_left bp_step vars o)).
Proof.
  intros HF. induction vars as [|v vars IH]; intros o Hv; [reflexivity|].
  destruct (Hv v (or_introl eq_refl)) as [Hin [f [Hf [Hne [Hu Hc]]]]].
  destruct (index_own fs req E tl segs HF v Hin) as [i [Hi Hn]].
  cbn [ts_bind_path index_of]. rewrite Hi. cbn [option_map str_eqb]. rewrite Hf. cbn [nth]. rewrite Hn, (E_dec _ Hu).
  cbn [fold_left]. unfold bp_step at 2. rewrite Hf. apply IH. intros v' Hv'. apply Hv. now right.
Qed.

Lemma bp_fold_inv : forall vars o,
  (forall v, In v vars -> path_value_ok v) ->
  (forall k, tget o k = tget (tsobj_of_mval req) k) ->
  forall k, tget (fold_left bp_step vars o) k = tget (tsobj_of_mval req) k.
Proof.
  induction vars as [|v vars IH]; intros o Hv Ho k; [apply Ho|].
  cbn [fold_left]. apply IH; [intros v' Hv'; apply Hv; now right|].
  intros k'. destruct (Hv v (or_introl eq_refl)) as [f [Hf [_ [_ Hc]]]].
  unfold bp_step. rewrite Hf, tget_tset. destruct (str_eqb k' (f_name f)) eqn:Ek; [|apply Ho].
  apply str_eqb_eq in Ek. subst k'. exact Hc.
Qed.

Definition ts_route_of (m : method) : ts_route :=
  {| tr_md := m; tr_fields := in_fields sc m; tr_route := ts_server (info_of fl sv m (in_fields sc m));
     tr_tmpl := split_on slash (rt_path (ts_server (info_of fl sv m (in_fields sc m)))) |}.

Lemma ts_routes_map : ts_routes sc fl sv = map ts_route_of (sv_methods sv).
Proof. reflexivity. Qed.

Theorem ts_server_body tw segs :
  In md (sv_methods sv) -> NoDup (map md_name (sv_methods sv)) ->
  tsegs (client_path r) = Some segs -> seg_vars segs = path_vars r ->
  (forall x, In (SLit x) segs -> ~ In slash x) ->
  verb_has_body (eff_verb r) = true ->
  tw_verb tw = eff_verb r ->
  tw_path tw = slash :: join_with [slash] (map (efill fs req E) segs) ->
  tw_body tw = Some (BJson, req) ->
  (forall v, In v (path_vars r) -> path_value_ok v) ->
  hdr_violation (sv_headers sv ++ md_headers md) hs = Ok None ->
  (forall n, ts_dispatched sc fl sv tw = Some n -> n = md_name md) ->
  forall o, ts_server_handle sc fl sv tw hs = Ok o ->
  exists saw, o = TsDelivered (md_name md) saw /\ forall k, tget saw k = tget (tsobj_of_mval req) k.
Proof.
  intros Hmd Hnd Hts Hvars Hlit Hbody Hverb Hpath Hwb Hpv Hhdr Hdisp o H.
  destruct (tsegs_template _ _ Hts) as [tl [Htl HF]].
  assert (Hsegs_ne : segs <> []) by (destruct (tsegs_inv _ _ Hts) as [_ [A _]]; exact A).
  assert (Hsplit : split_on slash (tw_path tw) = [] :: map (efill fs req E) segs).
  { rewrite Hpath, split_on_slash_cons. f_equal. apply split_on_join.
    - destruct segs; [congruence|discriminate].
    - intros y Hy. apply in_map_iff in Hy as [g [<- Hg]]. destruct g as [x|v]; cbn [efill]; [now apply Hlit|apply E_noslash]. }
  assert (Hown : ts_match ([] :: tl) ([] :: map (efill fs req E) segs) = true).
  { cbn [ts_match]. change (tmpl_is_var []) with false. cbn [str_eqb andb].
    apply (ts_match_own fs req E E_nil tl segs HF). intros v Hv. rewrite Hvars in Hv.
    destruct (Hpv v Hv) as [f [_ [Hne _]]]. exact Hne. }
  unfold ts_server_handle in H. cbn [ts_server_loads negb] in H. rewrite Hsplit in H.
  destruct (ts_find_route (ts_routes sc fl sv) (tw_verb tw) ([] :: map (efill fs req E) segs)) as [r0|] eqn:Efr.
  2: { exfalso. rewrite ts_find_route_fold in Efr. revert Efr. apply tfr_complete. right.
       exists (ts_route_of md). split; [rewrite ts_routes_map; now apply in_map|]. split.
       - cbn [ts_route_of tr_route ts_server client_route rt_verb]. rewrite Hverb. apply verb_eqb_refl.
       - cbn [ts_route_of tr_tmpl ts_server client_route rt_path]. rewrite Htl. exact Hown. }
  (* the route found is md's own *)
  assert (Hr0 : r0 = ts_route_of md).
  { rewrite ts_find_route_fold in Efr.
    pose proof (tfr_sound (tw_verb tw) ([] :: map (efill fs req E) segs) (fun x => In x (ts_routes sc fl sv))
                  (ts_routes sc fl sv) None ltac:(intros ? X; discriminate X) ltac:(intros ? X; exact X) r0 Efr) as Hin.
    rewrite ts_routes_map in Hin. apply in_map_iff in Hin as [md0 [<- Hmd0]].
    assert (Hn : md_name md0 = md_name md).
    { apply Hdisp. unfold ts_dispatched. rewrite Hsplit, ts_find_route_fold, Efr. reflexivity. }
    f_equal. apply (nodup_map_inj md_name (sv_methods sv)); assumption. }
  subst r0. cbn [ts_route_of tr_md tr_fields tr_route tr_tmpl ts_server client_route rt_body rt_pathvars rt_path] in H.
  rewrite Hbody in H. cbn [negb] in H. rewrite Htl in H.
  destruct (ts_url_modelled fs (path_vars r) false); cbn [negb] in H; [|discriminate].
  rewrite Hhdr, Hwb in H.
  assert (Hall : forall v, In v (path_vars r) -> In (SVar v) segs /\ path_value_ok v).
  { intros v Hv. split; [apply seg_vars_in; now rewrite Hvars|now apply Hpv]. }
  rewrite (bind_path_own tl segs HF (path_vars r) [] Hall) in H.
  rewrite (bind_path_own tl segs HF (path_vars r) (tsobj_of_mval req) Hall) in H.
  inversion H; subst o. eexists. split; [reflexivity|].
  apply bp_fold_inv; [exact Hpv|reflexivity].
Qed.
End TsServer.

(* ---- TS client -> TS server and Go client -> TS server, verbs with a body ------------------------------------ *)
Section ToTs.
Variables (sc : schema) (fl : file) (sv : service) (md : method) (req : mval).
Notation fs := (in_fields sc md).
Notation r := (info_of fl sv md (in_fields sc md)).

Lemma defects_to_ts_inv p : p <> TsGo -> defects_C08 p sc fl sv md req = [] ->
  path_val_is dirty_seg fs req r = false /\
  (match p with
   | TsGo => True
   | GoTs => forall w, client_build fl sv md fs CtJSON req = Ok w ->
               forall n, ts_dispatched sc fl sv (ts_wire_of w) = Some n -> n = md_name md
   | TsTs => forall tw, ts_client_build fl sv md fs req = Ok tw ->
               forall n, ts_dispatched sc fl sv tw = Some n -> n = md_name md
   end).
Proof.
  intros Hp. unfold defects_C08. cbv zeta. intros H.
  destruct p; [congruence| |]; cbn [negb andb app] in H;
    apply app_nil_split in H as [H3 H]; apply app_nil_split in H as [H7 _];
    (split; [now apply if_nil in H3|]).
  - intros w Hw n Hn. rewrite Hw, Hn in H7.
    destruct (str_eqb n (md_name md)) eqn:E; [now apply str_eqb_eq in E|discriminate].
  - intros tw Hw n Hn. rewrite Hw, Hn in H7.
    destruct (str_eqb n (md_name md)) eqn:E; [now apply str_eqb_eq in E|discriminate].
Qed.

Lemma no_dotty_fill (E : str -> str) segs :
  (forall x, dirty_seg x = false -> dotty (E x) = false) ->
  lits_plain segs = true ->
  (forall v, In (SVar v) segs -> dirty_seg (var_val fs req v) = false) ->
  forallb (fun x => negb (dotty x)) (map (efill fs req E) segs) = true.
Proof.
  intros HE Hl Hv. apply forallb_forall. intros y Hy. apply in_map_iff in Hy as [g [<- Hg]].
  destruct g as [x|v]; cbn [efill].
  - unfold lits_plain in Hl. rewrite forallb_forall in Hl. exact (Hl _ Hg).
  - apply negb_true_iff. apply HE. now apply Hv.
Qed.

Lemma dirty_of_defects segs : seg_vars segs = path_vars r ->
  path_val_is dirty_seg fs req r = false ->
  (forall v, In v (path_vars r) -> exists f, find_field fs v = Some f) ->
  forall v, In (SVar v) segs -> dirty_seg (var_val fs req v) = false.
Proof.
  intros Hvars Hd Hf v Hin.
  assert (Hv : In v (path_vars r)).
  { rewrite <- Hvars. unfold seg_vars. apply in_flat_map. exists (SVar v). split; [exact Hin|now left]. }
  destruct (Hf v Hv) as [f Hff]. unfold path_val_is in Hd.
  pose proof (existsb_false_forall _ _ Hd v Hv) as F. cbv beta in F. rewrite Hff in F.
  unfold var_val. now rewrite Hff.
Qed.

Theorem ts_ts_body : forall hs resp w o,
  ts_ts_call sc fl sv md hs req resp = Ok (w, o) ->
  defects_C08 TsTs sc fl sv md req = [] ->
  In md (sv_methods sv) -> NoDup (map md_name (sv_methods sv)) ->
  verb_has_body (eff_verb r) = true ->
  template_ok r = true -> ts_template_ok r = true ->
  hdr_violation (sv_headers sv ++ md_headers md) hs = Ok None ->
  (forall v, In v (path_vars r) -> path_value_ok sc md req v) ->
  exists saw, o = ODelivered (md_name md) saw resp /\ forall k, tget saw k = tget (tsobj_of_mval req) k.
Proof.
  intros hs resp w o Hcall Hdef Hmd Hnd Hbody Htpl Hlits Hhdr Hpv.
  destruct (defects_to_ts_inv TsTs ltac:(discriminate) Hdef) as [Hdirty Hdisp].
  unfold ts_ts_call in Hcall. cbv zeta in Hcall.
  destruct (ts_client_build fl sv md fs req) as [tw|] eqn:Htb; [|discriminate].
  destruct (ts_client_build_inv sc fl sv md req tw Htb) as [segs [filled [q [Hts [_ [Hfill [_ [Hverb [Hpath [_ Hwb]]]]]]]]]].
  destruct (ts_fill_all sc md req segs filled Hfill) as [-> [_ Hfields]].
  unfold template_ok in Htpl. rewrite Hts in Htpl. apply strs_eqb_eq in Htpl.
  unfold ts_template_ok in Hlits. rewrite Hts in Hlits.
  destruct (tsegs_inv _ _ Hts) as [_ [_ Hlit_noslash]].
  change (map (ts_fill_str sc md req) segs) with (map (efill fs req encode_uri_component) segs) in Hpath.
  rewrite (whatwg_segs_id _ (no_dotty_fill encode_uri_component segs dotty_encode_uri Hlits
             (dirty_of_defects segs Htpl Hdirty
                (fun v Hv => match Hpv v Hv with ex_intro _ f (conj Hf _) => ex_intro _ f Hf end)))) in Hpath.
  rewrite Hbody in Hwb.
  destruct (ts_server_handle sc fl sv tw hs) as [to|] eqn:Hsh; [|discriminate].
  destruct (ts_server_body sc fl sv md req hs encode_uri_component
              (fun x => proj1 (encode_uri_nil_iff x)) decode_encode_uri encode_uri_no_slash
              tw segs Hmd Hnd Hts Htpl Hlit_noslash Hbody Hverb Hpath Hwb Hpv Hhdr (Hdisp tw eq_refl) to Hsh)
    as [saw [-> Hsaw]].
  inversion Hcall; subst. exists saw. split; [reflexivity|exact Hsaw].
Qed.

Theorem go_ts_body : forall hs resp w o,
  go_ts_call sc fl sv md hs req resp = Ok (w, o) ->
  defects_C08 GoTs sc fl sv md req = [] ->
  In md (sv_methods sv) -> NoDup (map md_name (sv_methods sv)) ->
  verb_has_body (eff_verb r) = true ->
  template_ok r = true -> ts_template_ok r = true ->
  hdr_violation (sv_headers sv ++ md_headers md) hs = Ok None ->
  (forall v, In v (path_vars r) -> path_value_ok sc md req v) ->
  exists saw, o = ODelivered (md_name md) saw resp /\ forall k, tget saw k = tget (tsobj_of_mval req) k.
Proof.
  intros hs resp w o Hcall Hdef Hmd Hnd Hbody Htpl Hlits Hhdr Hpv.
  destruct (defects_to_ts_inv GoTs ltac:(discriminate) Hdef) as [Hdirty Hdisp].
  unfold go_ts_call in Hcall. cbv zeta in Hcall.
  destruct (client_build fl sv md fs CtJSON req) as [w0|] eqn:Hcb; [|discriminate].
  destruct (client_build_inv sc fl sv md CtJSON req w0 Hcb) as [segs [filled [q [Hts [_ [Hfill [_ [Hverb [Hpath [_ Hwb]]]]]]]]]].
  apply fill_all in Hfill as [-> Hfields].
  unfold template_ok in Htpl. rewrite Hts in Htpl. apply strs_eqb_eq in Htpl.
  unfold ts_template_ok in Hlits. rewrite Hts in Hlits.
  destruct (tsegs_inv _ _ Hts) as [_ [Hne Hlit_noslash]].
  change (map (fill_str fs req) segs) with (map (efill fs req path_escape) segs) in Hpath.
  assert (Hnodot : forallb (fun x => negb (dotty x)) (map (efill fs req path_escape) segs) = true).
  { apply (no_dotty_fill path_escape segs dotty_path_escape Hlits).
    apply (dirty_of_defects segs Htpl Hdirty). intros v Hv. destruct (Hpv v Hv) as [f [Hf _]]. now exists f. }
  assert (Hsplit : split_on slash (join_with [slash] (map (efill fs req path_escape) segs)) = map (efill fs req path_escape) segs).
  { apply split_on_join; [destruct segs; [congruence|discriminate]|].
    intros y Hy. apply in_map_iff in Hy as [g [<- Hg]]. destruct g as [x|v]; cbn [efill];
      [now apply Hlit_noslash|exact (path_escape_no_slash _)]. }
  assert (Htwpath : tw_path (ts_wire_of w0) = slash :: join_with [slash] (map (efill fs req path_escape) segs)).
  { cbn [ts_wire_of tw_path]. rewrite Hpath. unfold whatwg_path. change (Ascii.eqb slash slash) with true. cbv iota.
    now rewrite Hsplit, (whatwg_segs_id _ Hnodot). }
  rewrite Hbody in Hwb.
  destruct (ts_server_handle sc fl sv (ts_wire_of w0) hs) as [to|] eqn:Hsh; [|discriminate].
  destruct (ts_server_body sc fl sv md req hs path_escape
              (fun x => proj1 (path_escape_nil_iff x)) decode_path_escape path_escape_no_slash
              (ts_wire_of w0) segs Hmd Hnd Hts Htpl Hlit_noslash Hbody Hverb Htwpath Hwb Hpv Hhdr (Hdisp w0 eq_refl) to Hsh)
    as [saw [-> Hsaw]].
  inversion Hcall; subst. exists saw. split; [reflexivity|exact Hsaw].
Qed.

(* the side condition [path_value_ok] for the kinds the TS server carries faithfully *)
Lemma path_value_ok_string v f x :
  find_field fs v = Some f -> f_kind f = KString -> mget req (f_name f) = Some (FS (VStr x)) ->
  x <> [] -> utf8_valid x = true -> path_value_ok sc md req v.
Proof.
  intros Hf Hk Hg Hne Hu. exists f. unfold var_val. rewrite Hf. unfold scalar_of. rewrite Hg. cbn [sprint].
  repeat split; try assumption. rewrite Hk, tget_of_mval, Hg. destruct x; [congruence|reflexivity].
Qed.

Lemma path_value_ok_int64 v f z :
  find_field fs v = Some f -> f_kind f = KInt64 -> mget req (f_name f) = Some (FS (VInt z)) ->
  z <> 0%Z -> (- 2 ^ 63 <= z < 2 ^ 63)%Z -> path_value_ok sc md req v.
Proof.
  intros Hf Hk Hg Hz Hr. exists f. unfold var_val. rewrite Hf. unfold scalar_of. rewrite Hg. cbn [sprint].
  split; [reflexivity|]. split; [apply show_int_nonempty|]. split.
  - (* decimal text is ASCII *)
    assert (Hasc : forall y, forallb (fun c => (code c <? 128)%N) y = true -> utf8_valid y = true).
    { induction y as [|c y IH]; [reflexivity|]. cbn [forallb utf8_valid]. intros H. apply andb_true_iff in H as [H1 H2].
      rewrite H1. now apply IH. }
    apply Hasc. destruct (show_int_first z) as [c [rr [Heq Hc]]].
    destruct z as [|p|p]; [congruence| |].
    + rewrite show_int_pos. destruct (show_nat_N_shape (Npos p)) as [c0 [r0 [E0 [D0 R0]]]]. rewrite E0.
      cbn [forallb]. apply andb_true_iff. split.
      * unfold is_digit in D0. apply andb_true_iff in D0 as [_ D]. apply N.leb_le in D. apply N.ltb_lt. lia.
      * apply forallb_forall. intros d Hd. rewrite forallb_forall in R0. specialize (R0 d Hd).
        unfold is_digit in R0. apply andb_true_iff in R0 as [_ D]. apply N.leb_le in D. apply N.ltb_lt. lia.
    + cbn [show_int]. destruct (show_nat_N_shape (Npos p)) as [c0 [r0 [E0 [D0 R0]]]]. rewrite E0.
      cbn [forallb]. apply andb_true_iff. split; [reflexivity|]. apply andb_true_iff. split.
      * unfold is_digit in D0. apply andb_true_iff in D0 as [_ D]. apply N.leb_le in D. apply N.ltb_lt. lia.
      * apply forallb_forall. intros d Hd. rewrite forallb_forall in R0. specialize (R0 d Hd).
        unfold is_digit in R0. apply andb_true_iff in R0 as [_ D]. apply N.leb_le in D. apply N.ltb_lt. lia.
  - rewrite Hk, tget_of_mval, Hg. cbn [canon_js option_map]. unfold canon_dec.
    rewrite (parse_int_show 64 z ltac:(reflexivity) Hr), str_eqb_refl.
    destruct (Z.eqb z 0) eqn:Ez; [apply Z.eqb_eq in Ez; contradiction|reflexivity].
Qed.
End ToTs.
