(* OpenApiFacts.v — C18: facts about the document model (OpenApi.v, Yaml.v, OasCheck.v). *)
From Sebuf Require Import JsonSchema Yaml Rules Route OpenApi OasCheck.
From SebufProofs Require Import JsonSchemaFacts.

(* ================================================================================================ *)
(*  The two renderings denote the same document when no scalar is a YAML 1.1 boolean word             *)
(* ================================================================================================ *)
Lemma resolve11_eq_12 x : yaml11_bool_word x = false -> resolve11 x = resolve12 x.
Proof.
  unfold yaml11_bool_word, resolve11, resolve12, resolve_with. intros H.
  apply orb_false_elim in H as [Ht Hf]. rewrite Ht, Hf.
  destruct x as [|c r]; [reflexivity|]. now rewrite !orb_false_r.
Qed.

Lemma rd_scalar_agree e : yaml11_bool_word (snd e) = false -> rd_scalar reader11 e = rd_scalar reader12 e.
Proof.
  destruct e as [tagged x]. cbn [snd]. intros H. unfold rd_scalar. cbn [fst snd].
  destruct tagged; cbn [rd_str rd_plain reader11 reader12].
  - rewrite (resolve11_eq_12 _ H). destruct (resolve12 x); reflexivity.
  - now rewrite (resolve11_eq_12 _ H).
Qed.

(* induction over the nested tree *)
Section YInd.
Variable Q : ynode -> Prop.
Hypothesis Hstr : forall x, Q (YStr x).
Hypothesis Hplain : forall x, Q (YPlain x).
Hypothesis Hgo : forall x, Q (YGoStr x).
Hypothesis Hnum : forall d, Q (YNum d).
Hypothesis Hbool : forall b, Q (YBool b).
Hypothesis Hnull : Q YNull.
Hypothesis Hseq : forall l, Forall Q l -> Q (YSeq l).
Hypothesis Hmap : forall kv, Forall (fun e => Q (snd e)) kv -> Q (YMap kv).
Fixpoint ynode_ind' (n : ynode) : Q n :=
  match n with
  | YStr x => Hstr x
  | YPlain x => Hplain x
  | YGoStr x => Hgo x
  | YNum d => Hnum d
  | YBool b => Hbool b
  | YNull => Hnull
  | YSeq l => Hseq l ((fix go (l : list ynode) : Forall Q l :=
                         match l with [] => Forall_nil _ | a :: r => Forall_cons a (ynode_ind' a) (go r) end) l)
  | YMap kv => Hmap kv ((fix go (kv : list (str * ynode)) : Forall (fun e => Q (snd e)) kv :=
                           match kv with [] => Forall_nil _ | (k, a) :: r => Forall_cons (k, a) (ynode_ind' a) (go r) end) kv)
  end.
End YInd.

Theorem denote_agree (R1 R2 : reader) (n : ynode) :
  (forall e, In e (scalars n) -> rd_scalar R1 e = rd_scalar R2 e) -> denote R1 n = denote R2 n.
Proof.
  induction n as [x|x|x|d|b| |l IH|kv IH] using ynode_ind'; intros H.
  - exact (H (true, x) (or_introl eq_refl)).
  - exact (H (false, x) (or_introl eq_refl)).
  - reflexivity.
  - reflexivity.
  - reflexivity.
  - reflexivity.
  - cbn [denote]. f_equal. cbn [scalars] in H.
    induction l as [|a l IHl]; [reflexivity|]. inversion IH as [|? ? Ha Hl]; subst. cbn [map]. f_equal.
    + apply Ha. intros e He. apply H. cbn [flat_map]. apply in_or_app. now left.
    + apply IHl; [assumption|]. intros e He. apply H. cbn [flat_map]. apply in_or_app. now right.
  - cbn [denote]. f_equal. cbn [scalars] in H.
    induction kv as [|[k a] kv IHkv]; [reflexivity|]. inversion IH as [|? ? Ha Hl]; subst. cbn [snd] in Ha.
    f_equal.
    + f_equal.
      * pose proof (H (true, k) (or_introl eq_refl)) as Hk. unfold rd_scalar in Hk. cbn [fst snd] in Hk. now rewrite Hk.
      * apply Ha. intros e He. apply H. right. apply in_or_app. now left.
    + apply IHkv; [assumption|]. intros e He. apply H. right. apply in_or_app. now right.
Qed.

Theorem json_eq_yaml (d : ynode) :
  (forall e, In e (scalars d) -> yaml11_bool_word (snd e) = false) -> denote reader11 d = denote reader12 d.
Proof. intros H. apply denote_agree. intros e He. apply rd_scalar_agree. now apply H. Qed.

(* ================================================================================================ *)
(*  One document per service                                                                         *)
(* ================================================================================================ *)
Lemma app_inj_tail_str (a b t : str) : a ++ t = b ++ t -> a = b.
Proof. apply app_inv_tail. Qed.

Theorem one_doc_per_service p sc :
  List.length (emitted_files p sc) = List.length (generated_services sc) /\
  (forall i sv, nth_error (generated_services sc) i = Some sv ->
     nth_error (emitted_files p sc) i = Some (sv_name sv ++ s ".openapi." ++ (if format_is_json p then s "json" else s "yaml"))) /\
  (NoDup (map sv_name (generated_services sc)) -> NoDup (emitted_files p sc)).
Proof.
  unfold emitted_files, emitted_names. repeat split.
  - now rewrite !map_length.
  - intros i sv H. rewrite map_map. rewrite nth_error_map, H. reflexivity.
  - intros H. induction (map sv_name (generated_services sc)) as [|a l IH]; [constructor|].
    inversion H as [|? ? Hn Hl]; subst. cbn [map]. constructor; [|now apply IH].
    intros Hin. apply in_map_iff in Hin as [b [Hb Hinb]]. unfold file_name_of in Hb.
    apply app_inv_tail in Hb. subst. contradiction.
Qed.

(* ================================================================================================ *)
(*  Operations                                                                                        *)
(* ================================================================================================ *)
Section Ops.
Context {A : Type}.
Variable name : A -> str.
Definition names (l : list ((str * verb) * A)) : list str := map (fun e => name (snd e)) l.

Lemma assign_op_in k (a : A) l e : In e (assign_op k a l) -> e = (k, a) \/ In e l.
Proof.
  induction l as [|[k' a'] r IH]; cbn; intros H.
  - destruct H as [<-|[]]. now left.
  - destruct (key_eqb k' k).
    + destruct H as [<-|H]; [now left|right; now right].
    + destruct H as [<-|H]; [right; now left|]. destruct (IH H) as [->|H']; [now left|right; now right].
Qed.

Lemma assign_op_nodup k (a : A) l :
  NoDup (names l) -> ~ In (name a) (names l) -> NoDup (names (assign_op k a l)).
Proof.
  unfold names. induction l as [|[k' a'] r IH]; cbn; intros Hnd Hni.
  - constructor; [intros []|constructor].
  - inversion Hnd as [|? ? Hn' Hr]; subst. destruct (key_eqb k' k); cbn.
    + constructor; [|assumption]. intros Hin. apply Hni. now right.
    + constructor.
      * intros Hin. apply in_map_iff in Hin as [e [He Hin]]. apply assign_op_in in Hin as [->|Hin].
        -- cbn in He. apply Hni. now left.
        -- apply Hn'. apply in_map_iff. now exists e.
      * apply IH; [assumption|]. intros Hin. apply Hni. now right.
Qed.

Lemma fold_assign_nodup (key : A -> str * verb) ms acc :
  NoDup (map name ms) -> NoDup (names acc) -> (forall x, In x (map name ms) -> ~ In x (names acc)) ->
  NoDup (names (fold_left (fun acc m => assign_op (key m) m acc) ms acc)).
Proof.
  revert acc. induction ms as [|m ms IH]; intros acc Hms Hacc Hdis; [exact Hacc|].
  cbn [fold_left]. inversion Hms as [|? ? Hm Hms']; subst. apply IH; [assumption| |].
  - apply assign_op_nodup; [assumption|]. apply Hdis. now left.
  - intros x Hx Hin. unfold names in Hin. apply in_map_iff in Hin as [e [He Hin]].
    apply assign_op_in in Hin as [->|Hin].
    + cbn in He. subst. contradiction.
    + apply (Hdis x); [now right|]. unfold names. apply in_map_iff. now exists e.
Qed.

Lemma assign_op_fresh k (a : A) (l : list ((str * verb) * A)) :
  (forall e, In e l -> key_eqb (fst e) k = false) -> assign_op k a l = l ++ [(k, a)].
Proof.
  induction l as [|[k' a'] r IH]; cbn; intros H; [reflexivity|].
  pose proof (H (k', a') (or_introl eq_refl)) as Hk. cbn [fst] in Hk. rewrite Hk. f_equal. apply IH. intros e He. apply H. now right.
Qed.
End Ops.

Lemma key_eqb_sym a b : key_eqb a b = key_eqb b a.
Proof.
  unfold key_eqb. rewrite (str_eqb_sym (fst a) (fst b)). f_equal.
  destruct (snd a), (snd b); reflexivity.
Qed.

(* operationIds (= RPC names) are unique whenever the RPC names of the service are *)
Theorem operation_ids_unique sv :
  NoDup (map md_name (sv_methods sv)) -> NoDup (map (fun e => md_name (snd e)) (doc_ops sv)).
Proof.
  intros H. unfold doc_ops. apply (fold_assign_nodup md_name); [assumption|constructor|]. intros x _ [].
Qed.

(* without a shared (verb, path) every RPC keeps its operation, in order *)
Theorem every_rpc_has_operation sv :
  has_dup_key (route_keys sv) = false -> map snd (doc_ops sv) = sv_methods sv.
Proof.
  unfold doc_ops, route_keys.
  assert (G : forall ms acc,
             has_dup_key (map (method_key sv) ms) = false ->
             (forall e m, In e acc -> In m ms -> key_eqb (fst e) (method_key sv m) = false) ->
             map snd (fold_left (fun acc md => assign_op (method_key sv md) md acc) ms acc) = map snd acc ++ ms).
  { induction ms as [|m ms IH]; intros acc Hd Hacc; cbn [fold_left]; [now rewrite app_nil_r|].
    cbn [map has_dup_key] in Hd. apply orb_false_elim in Hd as [Hm Hd].
    rewrite assign_op_fresh by (intros e He; apply (Hacc e m He); now left).
    rewrite IH; [rewrite map_app, <- app_assoc; reflexivity|assumption|].
    intros e m' He Hm'. apply in_app_or in He as [He|[<-|[]]].
    - apply (Hacc e m' He). now right.
    - cbn [fst]. destruct (key_eqb (method_key sv m) (method_key sv m')) eqn:E; [|reflexivity].
      rewrite <- Hm. symmetry. apply existsb_exists. exists (method_key sv m'). split; [now apply in_map|assumption]. }
  intros H. rewrite (G _ [] H); [reflexivity|]. intros e m [].
Qed.

(* ================================================================================================ *)
(*  Path variables of the template = declared path parameters                                         *)
(* ================================================================================================ *)
Lemma extract_skip_prefix a b : has_lbrace a = false -> extract_params_aux None (a ++ b) = extract_params_aux None b.
Proof.
  induction a as [|c a IH]; intros H; [reflexivity|].
  unfold has_lbrace in H. cbn [existsb] in H. apply orb_false_elim in H as [Hc Ha].
  cbn [app extract_params_aux]. rewrite Ascii.eqb_sym, Hc. now apply IH.
Qed.
Lemma extract_no_brace a : has_lbrace a = false -> extract_path_params a = [].
Proof. intros H. unfold extract_path_params. rewrite <- (app_nil_r a). now rewrite extract_skip_prefix. Qed.

Lemma has_lbrace_firstn n x : has_lbrace x = false -> has_lbrace (firstn n x) = false.
Proof.
  revert n. induction x as [|c x IH]; intros [|n] H; try reflexivity.
  unfold has_lbrace in *. cbn [firstn existsb] in *.
  apply orb_false_elim in H as [Hc Hx]. now rewrite Hc, IH.
Qed.
Lemma has_lbrace_app a b : has_lbrace (a ++ b) = has_lbrace a || has_lbrace b.
Proof. unfold has_lbrace. apply existsb_app. Qed.

Lemma has_lbrace_ensure x : has_lbrace x = false -> has_lbrace (ensure_leading_slash x) = false.
Proof.
  intros H. unfold ensure_leading_slash. destruct x as [|c x]; [reflexivity|].
  destruct (has_prefix [slash] (c :: x)); [assumption|].
  change (has_lbrace (slash :: c :: x)) with (Ascii.eqb lbrace slash || has_lbrace (c :: x)). now rewrite H.
Qed.
Lemma has_lbrace_trim_suffix p x : has_lbrace x = false -> has_lbrace (trim_suffix p x) = false.
Proof. intros H. unfold trim_suffix. destruct (has_suffix p x); [now apply has_lbrace_firstn|assumption]. Qed.

Lemma extract_ensure x : extract_path_params (ensure_leading_slash x) = extract_path_params x.
Proof.
  unfold ensure_leading_slash. destruct x as [|c x]; [reflexivity|].
  destruct (has_prefix [slash] (c :: x)); reflexivity.
Qed.
Lemma extract_trim_prefix_slash x : extract_params_aux None (trim_prefix [slash] x) = extract_params_aux None x.
Proof.
  unfold trim_prefix. destruct x as [|c x]; [reflexivity|]. cbn [has_prefix].
  destruct (Ascii.eqb slash c) eqn:E; cbn; [|reflexivity].
  apply Ascii.eqb_eq in E. subst. reflexivity.
Qed.

Lemma extract_build_http_path base path :
  has_lbrace base = false -> extract_path_params (build_http_path base path) = extract_path_params path.
Proof.
  intros H. unfold build_http_path. destruct base as [|b base], path as [|c path].
  - reflexivity.
  - apply extract_ensure.
  - rewrite extract_no_brace; [reflexivity|now apply has_lbrace_ensure].
  - unfold extract_path_params. rewrite extract_skip_prefix by now apply has_lbrace_trim_suffix, has_lbrace_ensure.
    change ([slash] ++ trim_prefix [slash] (c :: path)) with (slash :: trim_prefix [slash] (c :: path)).
    cbn [extract_params_aux]. change (Ascii.eqb slash lbrace) with false. cbv iota. apply extract_trim_prefix_slash.
Qed.

Theorem path_vars_iff_params sv md :
  has_lbrace (sv_base sv) = false -> has_lbrace (sv_name sv) = false -> has_lbrace (md_name md) = false ->
  template_vars sv md = declared_vars sv md.
Proof.
  intros Hb Hs Hm. unfold template_vars, declared_vars, method_path, openapi_path, path_vars, cfg_path.
  cbn [info_of_method ri_base ri_has_cfg ri_path ri_service ri_method].
  destruct (sv_base sv) as [|b base] eqn:Eb.
  - destruct (md_has_cfg md).
    + now apply extract_build_http_path.
    + apply extract_no_brace. rewrite !has_lbrace_app, Hs, Hm. reflexivity.
  - destruct (md_has_cfg md); now apply extract_build_http_path.
Qed.

(* ================================================================================================ *)
(*  Names of parameters are unique per location                                                        *)
(* ================================================================================================ *)
Lemma mem_str_In x l : mem_str x l = true <-> In x l.
Proof.
  unfold mem_str. rewrite existsb_exists. split.
  - intros [y [Hy E]]. apply str_eqb_eq in E. now subst.
  - intros H. exists x. split; [assumption|apply str_eqb_refl].
Qed.
Lemma has_dup_NoDup l : has_dup l = false -> NoDup l.
Proof.
  induction l as [|a l IH]; intros H; [constructor|].
  cbn in H. apply orb_false_elim in H as [Ha Hl]. constructor; [|now apply IH].
  intros Hin. apply mem_str_In in Hin. congruence.
Qed.

Lemma nodup_app {A} (a b : list A) : NoDup a -> NoDup b -> (forall x, In x a -> In x b -> False) -> NoDup (a ++ b).
Proof.
  induction a as [|x a IH]; intros Ha Hb Hd; [exact Hb|].
  inversion Ha as [|? ? Hx Ha']; subst. cbn. constructor.
  - intros Hin. apply in_app_or in Hin as [Hin|Hin]; [contradiction|]. apply (Hd x); [now left|assumption].
  - apply IH; [assumption|assumption|]. intros y Hy. apply Hd. now right.
Qed.

(* header names are case-insensitive (RFC 9110 §5.1) *)
Definition param_key (p : str * str * bool * ynode) : str * str :=
  match p with (n, l, _, _) => (l, if str_eqb l (s "header") then lower_str n else n) end.

Lemma NoDup_map_pair (loc : str) (l : list str) : NoDup l -> NoDup (map (fun n => (loc, n)) l).
Proof.
  induction 1 as [|a l Ha Hl IH]; cbn; constructor; [|assumption].
  intros Hin. apply in_map_iff in Hin as [b [Hb Hin]]. injection Hb as ->. contradiction.
Qed.

Theorem param_names_unique sc sv md :
  has_dup (map lower_str (op_header_names sc sv md)) = false ->
  has_dup (declared_vars sv md) = false ->
  has_dup (op_query_names sc md) = false ->
  NoDup (map param_key (op_parameters sc sv md)) /\
  (forall n l r sch, In (n, l, r, sch) (op_parameters sc sv md) -> l = s "path" -> r = true).
Proof.
  intros Hh Hp Hq. apply has_dup_NoDup in Hh, Hp, Hq. split.
  - unfold op_parameters. rewrite !map_app, !map_map. cbn [param_key].
    change (str_eqb (s "header") (s "header")) with true. change (str_eqb (s "path") (s "header")) with false.
    change (str_eqb (s "query") (s "header")) with false. cbv iota.
    assert (H1 : NoDup (map (fun h : header => (s "header", lower_str (h_name h)))
                    (filter (fun h => match h_name h with [] => false | _ => true end) (combine_headers (sv_headers sv) (md_headers md))))).
    { unfold op_header_names in Hh. rewrite map_map in Hh. rewrite <- (map_map (fun h => lower_str (h_name h)) (fun n => (s "header", n))).
      now apply NoDup_map_pair. }
    assert (H2 : NoDup (map (fun v : str => (s "path", v)) (path_vars (info_of_method sv md (input_fields sc md))))).
    { now apply NoDup_map_pair. }
    assert (H3 : NoDup (map (fun f : field => (s "query", query_name f)) (filter has_query (input_fields sc md)))).
    { unfold op_query_names in Hq. rewrite <- (map_map query_name (fun n => (s "query", n))). now apply NoDup_map_pair. }
    assert (D : forall (A B : Type) (la : list A) (lb : list B) (fa : A -> str) (fb : B -> str) (x y : str),
               x <> y -> forall e, In e (map (fun a => (x, fa a)) la) -> In e (map (fun b => (y, fb b)) lb) -> False).
    { intros A B la lb fa fb x y Hxy e Ha Hb. apply in_map_iff in Ha as [a [<- _]]. apply in_map_iff in Hb as [b [Hb _]].
      injection Hb as Hb _. now symmetry in Hb. }
    apply nodup_app; [assumption| |].
    + apply nodup_app; [assumption|assumption|]. intros e Ha Hb. exact (D _ _ _ _ _ _ (s "path") (s "query") ltac:(discriminate) e Ha Hb).
    + intros e Ha Hb. apply in_app_or in Hb as [Hb|Hb].
      * exact (D _ _ _ _ _ _ (s "header") (s "path") ltac:(discriminate) e Ha Hb).
      * exact (D _ _ _ _ _ _ (s "header") (s "query") ltac:(discriminate) e Ha Hb).
  - intros n l r sch Hin Hl. unfold op_parameters in Hin.
    apply in_app_or in Hin as [Hin|Hin]; [|apply in_app_or in Hin as [Hin|Hin]];
      apply in_map_iff in Hin as [x [Hx _]]; injection Hx as _ Hl' Hr _; subst; try reflexivity; discriminate.
Qed.

(* ================================================================================================ *)
(*  required is listed exactly for the fields whose rules require them (plain object schemas)         *)
(* ================================================================================================ *)
Lemma gostr_names l : flat_map (fun x => match x with YGoStr y => [y] | _ => [] end) (map YGoStr l) = l.
Proof. induction l as [|a l IH]; [reflexivity|]. cbn. now rewrite IH. Qed.

Lemma required_of_object props req : required_of (object_of props req) = req.
Proof.
  unfold object_of, required_of.
  destruct props as [|p ps], req as [|r rs]; cbn [app find fst]; try reflexivity;
    change (str_eqb (s "type") (s "required")) with false; cbv iota; cbn [find fst];
    try (change (str_eqb (s "properties") (s "required")) with false; cbv iota; cbn [find fst]);
    try reflexivity;
    change (str_eqb (s "required") (s "required")) with true; cbv iota; apply gostr_names.
Qed.

Theorem required_iff sc sd m f :
  In f (m_fields m) -> NoDup (map jname (m_fields m)) ->
  (In (jname f) (required_of (plain_object_schema sc sd m)) <-> field_required sd (m_name m) f = true).
Proof.
  intros Hf Hnd. unfold plain_object_schema. rewrite required_of_object. split.
  - intros H. apply in_map_iff in H as [g [Hg Hin]]. apply filter_In in Hin as [Hing Hreq].
    assert (g = f); [|now subst].
    clear Hreq. induction (m_fields m) as [|h l IH]; [destruct Hf|].
    cbn [map] in Hnd. inversion Hnd as [|? ? Hh Hl]; subst.
    destruct Hf as [->|Hf], Hing as [->|Hing]; try reflexivity.
    + exfalso. apply Hh. rewrite <- Hg. now apply in_map.
    + exfalso. apply Hh. rewrite Hg. now apply in_map.
    + now apply IH.
  - intros H. apply in_map. apply filter_In. now split.
Qed.

(* In the per-variant schemas of a flattened discriminated oneof the common fields' `required` is
   dropped (generator.go:338-342 lists the discriminator only): message M { string id = 1 [required];
   oneof kind (discriminator "type", flatten) { A a = 2; } } *)
Definition ex_required_schema : schema :=
  [{| fl_path := s "x.proto"; fl_package := s "x"; fl_gopkg := s "x"; fl_generate := true;
      fl_messages := [ {| m_name := s "x.M"; m_path := [s "M"];
                          m_fields := [plain_field (s "id") 1 KString Singular;
                                       {| f_name := s "a"; f_number := 2; f_kind := KMessage (s "x.A"); f_card := Singular; f_oneof := Some (s "kind");
                                          f_query := None; f_unwrap := false; f_int64 := None; f_enumenc := None; f_nullable := None; f_empty := None;
                                          f_tsfmt := None; f_bytesenc := None; f_oneof_value := None; f_flatten := None; f_flatten_prefix := None |}];
                          m_oneofs := [{| o_name := s "kind"; o_has_cfg := true; o_discriminator := s "type"; o_flatten := true |}] |};
                       {| m_name := s "x.A"; m_path := [s "A"]; m_fields := [plain_field (s "v") 1 KString Singular]; m_oneofs := [] |} ];
      fl_enums := []; fl_services := [] |}].
Definition ex_required_side : side :=
  {| sd_rules := [((s "x.M", s "id"), {| r_required := true; r_min_len := None; r_max_len := None; r_len := None; r_pattern := None;
       r_str_in := []; r_str_not_in := []; r_str_const := None; r_well_known := None; r_gt := None; r_gte := None; r_lt := None; r_lte := None;
       r_num_const := None; r_num_in := []; r_min_items := None; r_max_items := None; r_unique := false; r_min_pairs := None; r_max_pairs := None |})];
     sd_examples := [] |}.

Definition ex_required_msg : message := nth 0 (all_messages ex_required_schema) timestamp_message.
Definition ex_required_field : field := plain_field (s "id") 1 KString Singular.

Theorem refuted_required_dropped :
  exists sc sd m f, In f (m_fields m) /\ field_required sd (m_name m) f = true /\
    Forall (fun set => ~ In (jname f) (required_of (snd set))) (object_schema_sets sc sd m).
Proof.
  exists ex_required_schema, ex_required_side, ex_required_msg, ex_required_field.
  split; [|split].
  - left. reflexivity.
  - vm_compute. reflexivity.
  - apply Forall_forall. intros set Hin Hreq. apply mem_str_In in Hreq.
    assert (H : forallb (fun set => negb (mem_str (jname ex_required_field) (required_of (snd set))))
                        (object_schema_sets ex_required_schema ex_required_side ex_required_msg) = true) by (vm_compute; reflexivity).
    rewrite forallb_forall in H. specialize (H set Hin). rewrite Hreq in H. discriminate.
Qed.

(* ================================================================================================ *)
(*  Every message reachable from the service's RPCs has a component schema                            *)
(* ================================================================================================ *)
Section Reach.
Variable sc : schema.
Variable sd : side.

Definition targets (fq : str) : list str :=
  match lookup_message sc fq with Some m => field_targets m | None => [] end.

Inductive reachable (roots : list str) : str -> Prop :=
  | R_root r : In r roots -> reachable roots r
  | R_step a b : reachable roots a -> In b (targets a) -> reachable roots b.

Definition set_names (st : cstate) : list str := map fst (cs_sets st).

Definition step_field (f : nat) (m : message) (acc : option cstate) (fd : field) : option cstate :=
  match acc with
  | None => None
  | Some a =>
      let a' := if is_map fd
                then {| cs_visited := cs_visited a; cs_sets := cs_sets a ++ object_schema_sets sc sd (entry_message m fd);
                        cs_unknown := cs_unknown a |}
                else a in
      match f_kind fd with KMessage tn => collect sc sd f a' tn | _ => Some a' end
  end.
Definition step_msg (f : nat) (acc : option cstate) (t : str) : option cstate :=
  match acc with Some a => collect sc sd f a t | None => None end.

Lemma collect_S f st fq :
  collect sc sd (S f) st fq =
  if mem_str fq (cs_visited st) then Some st else
  match lookup_message sc fq with
  | None => Some {| cs_visited := fq :: cs_visited st; cs_sets := cs_sets st; cs_unknown := fq :: cs_unknown st |}
  | Some m =>
      fold_left (step_msg f) (map m_name (declared_nested sc m))
        (fold_left (step_field f m) (m_fields m)
           (Some {| cs_visited := fq :: cs_visited st;
                    cs_sets := cs_sets st ++ process_message sc sd (S (List.length (all_messages sc))) m;
                    cs_unknown := cs_unknown st |}))
  end.
Proof. reflexivity. Qed.

(* x is closed in st: its field targets are visited and, when it is a known message, a component
   carries its short name *)
Definition closed_in (st : cstate) (x : str) : Prop :=
  (forall t, In t (targets x) -> In t (cs_visited st)) /\
  (forall m, lookup_message sc x = Some m -> In (short_name x) (set_names st)).

Definition grows (a b : cstate) : Prop :=
  incl (cs_visited a) (cs_visited b) /\ incl (set_names a) (set_names b) /\
  (forall x, In x (cs_visited b) -> ~ In x (cs_visited a) -> closed_in b x).

Lemma closed_mono a b x : incl (cs_visited a) (cs_visited b) -> incl (set_names a) (set_names b) -> closed_in a x -> closed_in b x.
Proof. intros Hv Hs [H1 H2]. split; [intros t Ht; apply Hv, H1, Ht|intros m Hm; apply Hs, (H2 m Hm)]. Qed.

Lemma grows_refl a : grows a a.
Proof. split; [|split]; try apply incl_refl. intros x H1 H2. contradiction. Qed.

Lemma grows_trans a b c : grows a b -> grows b c -> grows a c.
Proof.
  intros [V1 [S1 C1]] [V2 [S2 C2]]. split; [|split].
  - eapply incl_tran; eassumption.
  - eapply incl_tran; eassumption.
  - intros x Hx Hnx. destruct (in_dec (list_eq_dec Ascii.ascii_dec) x (cs_visited b)) as [Hb|Hb].
    + apply (closed_mono b c); try assumption. apply (C1 x Hb Hnx).
    + apply (C2 x Hx Hb).
Qed.

Lemma fold_step_field_none f m fs : fold_left (step_field f m) fs None = None.
Proof. induction fs; [reflexivity|assumption]. Qed.
Lemma fold_step_msg_none f ts : fold_left (step_msg f) ts None = None.
Proof. induction ts; [reflexivity|assumption]. Qed.

Lemma object_schema_sets_has_name m : In (short_name (m_name m)) (map fst (object_schema_sets sc sd m)).
Proof.
  unfold object_schema_sets.
  destruct (root_unwrap_field m); [now left|].
  destruct (has_flatten_fields m); [now left|].
  destruct (has_disc_oneof m); [|now left].
  destruct (has_flattened_oneof m); [|now left].
  rewrite map_app. apply in_or_app. right. now left.
Qed.

Lemma process_message_has_name n m : In (short_name (m_name m)) (map fst (process_message sc sd (S n) m)).
Proof. cbn [process_message]. rewrite map_app. apply in_or_app. left. apply object_schema_sets_has_name. Qed.

Lemma lookup_name fq m : lookup_message sc fq = Some m -> m_name m = fq.
Proof.
  unfold lookup_message. destruct (find_message (all_messages sc) fq) eqn:E.
  - intros [= <-]. induction (all_messages sc) as [|a l IH]; [discriminate|]. cbn in E.
    destruct (str_eqb (m_name a) fq) eqn:Ea; [injection E as <-; now apply str_eqb_eq|now apply IH].
  - destruct (str_eqb fq timestamp_fq) eqn:Et; [|discriminate]. intros [= <-]. apply str_eqb_eq in Et. now subst.
Qed.

Lemma collect_spec f : forall st fq st', collect sc sd f st fq = Some st' -> grows st st' /\ In fq (cs_visited st').
Proof.
  induction f as [|f IH]; intros st fq st' H; [discriminate|].
  rewrite collect_S in H.
  destruct (mem_str fq (cs_visited st)) eqn:Ev.
  { injection H as <-. split; [apply grows_refl|now apply mem_str_In]. }
  assert (Hnv : ~ In fq (cs_visited st)) by (intros Hin; apply mem_str_In in Hin; congruence).
  destruct (lookup_message sc fq) as [m|] eqn:El.
  2:{ injection H as <-. split; [|now left]. split; [|split].
      - intros x Hx. now right.
      - apply incl_refl.
      - intros x Hx Hnx. cbn in Hx. destruct Hx as [<-|Hx]; [|contradiction]. split.
        + intros t Ht. unfold targets in Ht. rewrite El in Ht. destruct Ht.
        + intros m Hm. congruence. }
  set (st1 := {| cs_visited := fq :: cs_visited st;
                 cs_sets := cs_sets st ++ process_message sc sd (S (List.length (all_messages sc))) m;
                 cs_unknown := cs_unknown st |}) in H.
  (* the field fold *)
  assert (HF : forall fs a b, fold_left (step_field f m) fs (Some a) = Some b ->
                 grows a b /\ (forall fd tn, In fd fs -> f_kind fd = KMessage tn -> In tn (cs_visited b))).
  { induction fs as [|fd fs IHfs]; intros a b Hab.
    - injection Hab as <-. split; [apply grows_refl|intros ? ? []].
    - cbn [fold_left] in Hab.
      set (a' := if is_map fd then {| cs_visited := cs_visited a; cs_sets := cs_sets a ++ object_schema_sets sc sd (entry_message m fd); cs_unknown := cs_unknown a |} else a) in *.
      assert (Haa' : grows a a').
      { unfold a'. destruct (is_map fd); [|apply grows_refl]. split; [|split]; cbn; try apply incl_refl.
        - unfold set_names. cbn. rewrite map_app. apply incl_appl, incl_refl.
        - intros x Hx Hnx. contradiction. }
      destruct (step_field f m (Some a) fd) as [c|] eqn:Ec; [|rewrite fold_step_field_none in Hab; discriminate].
      destruct (IHfs c b Hab) as [Gcb Tcb].
      unfold step_field in Ec. fold a' in Ec.
      destruct (f_kind fd) eqn:Ek; try (injection Ec as <-; split; [eapply grows_trans; eassumption|];
        intros fd' tn' [<-|Hin] Hk'; [congruence|eapply Tcb; eassumption]).
      destruct (IH _ _ _ Ec) as [Ga'c Hin]. split; [eapply grows_trans; [exact Haa'|eapply grows_trans; eassumption]|].
      intros fd' tn' [<-|Hin'] Hk'; [|eapply Tcb; eassumption].
      rewrite Ek in Hk'. injection Hk' as <-. destruct Gcb as [V _]. now apply V. }
  assert (HM : forall ts a b, fold_left (step_msg f) ts (Some a) = Some b -> grows a b).
  { induction ts as [|t ts IHts]; intros a b Hab.
    - injection Hab as <-. apply grows_refl.
    - cbn [fold_left] in Hab. destruct (step_msg f (Some a) t) as [c|] eqn:Ec; [|rewrite fold_step_msg_none in Hab; discriminate].
      cbn in Ec. destruct (IH _ _ _ Ec) as [Gac _]. eapply grows_trans; [exact Gac|now apply IHts]. }
  destruct (fold_left (step_field f m) (m_fields m) (Some st1)) as [st2|] eqn:E2; [|rewrite fold_step_msg_none in H; discriminate].
  destruct (HF _ _ _ E2) as [G12 T2]. pose proof (HM _ _ _ H) as G2'.
  pose proof (grows_trans _ _ _ G12 G2') as G1'. destruct G1' as [V1 [S1 C1]].
  split; [|apply V1; now left].
  split; [|split].
  - intros x Hx. apply V1. now right.
  - intros x Hx. apply S1. unfold set_names, st1. cbn. rewrite map_app. apply in_or_app. now left.
  - intros x H0 Hnx. split.
   + intros t Ht. destruct (str_eqb x fq) eqn:Ex.
    * apply str_eqb_eq in Ex. subst x. unfold targets in Ht. rewrite El in Ht. unfold field_targets in Ht.
      apply in_flat_map in Ht as [fd [Hfd Hk]]. destruct (f_kind fd) eqn:Ek; try (destruct Hk; fail). destruct Hk as [<-|[]].
      destruct G2' as [V2 _]. apply V2. eapply T2; eassumption.
    * assert (Hx1 : ~ In x (cs_visited st1)).
      { cbn. intros [<-|Hx1]; [now rewrite str_eqb_refl in Ex|contradiction]. }
      apply (proj1 (C1 x H0 Hx1)). exact Ht.
   + intros m' Hm'. destruct (str_eqb x fq) eqn:Ex.
    * apply str_eqb_eq in Ex. subst x. apply S1. unfold set_names, st1. cbn. rewrite map_app. apply in_or_app. right.
      rewrite <- (lookup_name _ _ El). apply process_message_has_name.
    * assert (Hx1 : ~ In x (cs_visited st1)).
      { cbn. intros [<-|Hx1]; [now rewrite str_eqb_refl in Ex|contradiction]. }
      apply (proj2 (C1 x H0 Hx1) m' Hm').
Qed.

Lemma omap_set_keys {A} k (v : A) l x : In x (map fst l) \/ x = k -> In x (map fst (omap_set k v l)).
Proof.
  induction l as [|[k' v'] r IH]; cbn; intros H.
  - destruct H as [ [] | -> ]. now left.
  - destruct (str_eqb k k') eqn:E; cbn.
    + apply str_eqb_eq in E. subst. destruct H as [ [<-|H] | -> ]; [now left|now right|now left].
    + destruct H as [ [<-|H] | -> ]; [now left| |]; right; apply IH; [now left|now right].
Qed.
Lemma omap_of_keys {A} (l : list (str * A)) x : In x (map fst l) -> In x (map fst (omap_of l)).
Proof.
  unfold omap_of. assert (G : forall acc, In x (map fst acc) \/ In x (map fst l) ->
                               In x (map fst (fold_left (fun acc e => omap_set (fst e) (snd e) acc) l acc))).
  { induction l as [|[k v] r IH]; intros acc H; cbn [fold_left].
    - destruct H as [H|[]]. exact H.
    - apply IH. cbn [fst snd map] in *. destruct H as [H|[<-|H]].
      + left. apply omap_set_keys. now left.
      + left. apply omap_set_keys. now right.
      + now right. }
  intros H. apply G. now right.
Qed.

Theorem reachable_have_schemas sv st :
  collect_service sc sd sv = Some st ->
  forall fq m, reachable (method_roots sv) fq -> lookup_message sc fq = Some m ->
  In (short_name fq) (map fst (components_of_sets (cs_sets st))).
Proof.
  intros Hc.
  (* the fold over the roots: everything visited is closed, the roots are visited *)
  assert (HR : forall roots a b,
             fold_left (fun acc t => match acc with Some a => collect sc sd (collect_fuel sc) a t | None => None end) roots (Some a) = Some b ->
             grows a b /\ forall r, In r roots -> In r (cs_visited b)).
  { induction roots as [|r roots IH]; intros a b Hab.
    - injection Hab as <-. split; [apply grows_refl|intros ? []].
    - cbn [fold_left] in Hab. destruct (collect sc sd (collect_fuel sc) a r) as [c|] eqn:Ec.
      + destruct (collect_spec _ _ _ _ Ec) as [Gac Hr]. destruct (IH _ _ Hab) as [Gcb Hroots].
        split; [eapply grows_trans; eassumption|]. intros r' [<-|Hr']; [destruct Gcb as [V _]; now apply V|now apply Hroots].
      + exfalso. clear -Hab. induction roots; cbn in Hab; [discriminate|auto]. }
  unfold collect_service in Hc. destruct (HR _ _ _ Hc) as [[_ [_ C]] Hroots].
  assert (Hvis : forall fq, reachable (method_roots sv) fq -> In fq (cs_visited st)).
  { induction 1 as [r Hr|a b Ha IHa Hb]; [now apply Hroots|].
    destruct (C a IHa (fun H => H)) as [Ht _]. now apply Ht. }
  intros fq m Hr Hm. unfold components_of_sets. apply omap_of_keys. rewrite map_app. apply in_or_app. right.
  destruct (C fq (Hvis fq Hr) (fun H => H)) as [_ Hs]. exact (Hs m Hm).
Qed.

End Reach.

(* ================================================================================================ *)
(*  References of the operations resolve                                                              *)
(* ================================================================================================ *)
Lemma has_prefix_app p x : has_prefix p (p ++ x) = true.
Proof. induction p as [|c p IH]; [reflexivity|]. cbn. now rewrite Ascii.eqb_refl, IH. Qed.
Lemma skipn_app_len {A} (p x : list A) : skipn (List.length p) (p ++ x) = x.
Proof. induction p; [reflexivity|assumption]. Qed.

Lemma ref_resolves_name cs x : In x (map fst cs) -> ref_resolves cs (ref_prefix ++ x) = true.
Proof.
  intros H. unfold ref_resolves. rewrite has_prefix_app, skipn_app_len. now apply mem_str_In.
Qed.

Lemma param_schema_refs k : refs_of (param_schema k) = [].
Proof. destruct k; reflexivity. Qed.

Lemma op_parameters_refs sc sv md :
  flat_map refs_of (map (fun p => match p with (n, l, r, sch) => parameter_node n l r sch end) (op_parameters sc sv md)) = [].
Proof.
  unfold op_parameters. rewrite !map_app, !flat_map_app, !map_map.
  assert (E : forall {A} (l : list A) (g : A -> ynode), (forall a, refs_of (g a) = []) -> flat_map refs_of (map g l) = []).
  { intros A l g Hg. induction l as [|a l IH]; [reflexivity|]. cbn. now rewrite Hg, IH. }
  rewrite !E; try reflexivity.
  - intros f. cbn. rewrite param_schema_refs. reflexivity.
  - intros v. cbn. destruct (find_field (input_fields sc md) v); [rewrite param_schema_refs|]; reflexivity.
  - intros h. cbn. destruct (h_format h); reflexivity.
Qed.

Lemma operation_refs sc sv md :
  refs_of (operation_node sc sv md) =
  (if verb_has_body (verb_of_method md) then [ref_prefix ++ short_name (md_in md)] else []) ++
  [ref_prefix ++ short_name (md_out md); ref_prefix ++ s "ValidationError"; ref_prefix ++ s "Error"].
Proof.
  unfold operation_node. cbn [refs_of]. rewrite !flat_map_app.
  assert (Hp : flat_map (fun e => entry_refs (fst e) (snd e) (refs_of (snd e)))
                 match op_parameters sc sv md with
                 | [] => []
                 | _ :: _ => [(s "parameters", YSeq (map (fun p => match p with (n, l, r, sch) => parameter_node n l r sch end) (op_parameters sc sv md)))]
                 end = []).
  { destruct (op_parameters sc sv md) eqn:E; [reflexivity|]. rewrite <- E. cbn [flat_map fst snd refs_of]. rewrite op_parameters_refs. reflexivity. }
  rewrite Hp. destruct (verb_has_body (verb_of_method md)); reflexivity.
Qed.

Theorem refs_resolve_operations sc sd sv st :
  collect_service sc sd sv = Some st ->
  forall md, In md (sv_methods sv) ->
  lookup_message sc (md_in md) <> None -> lookup_message sc (md_out md) <> None ->
  forall t, In t (refs_of (operation_node sc sv md)) ->
  ref_resolves (components_of_sets (cs_sets st)) t = true.
Proof.
  intros Hc md Hmd Hin Hout t Ht. rewrite operation_refs in Ht.
  assert (Hroot : forall fq, In fq [md_in md; md_out md] -> lookup_message sc fq <> None ->
                    In (short_name fq) (map fst (components_of_sets (cs_sets st)))).
  { intros fq Hfq Hl. destruct (lookup_message sc fq) as [m|] eqn:El; [|congruence].
    eapply (reachable_have_schemas sc sd sv st Hc fq m); [|exact El].
    apply R_root. unfold method_roots. apply in_flat_map. exists md. split; assumption. }
  assert (Hb : forall n, In n [s "ValidationError"; s "Error"] -> In n (map fst (components_of_sets (cs_sets st)))).
  { intros n Hn. unfold components_of_sets. apply omap_of_keys. rewrite map_app. apply in_or_app. left.
    cbn. destruct Hn as [<-|[<-|[]]]; auto. }
  apply in_app_or in Ht as [Ht|Ht].
  - destruct (verb_has_body (verb_of_method md)); [|destruct Ht]. destruct Ht as [<-|[]].
    apply ref_resolves_name, Hroot; [now left|assumption].
  - destruct Ht as [<-|[<-|[<-|[]]]]; apply ref_resolves_name.
    + apply Hroot; [right; now left|assumption].
    + apply Hb. now left.
    + apply Hb. right. now left.
Qed.

(* ================================================================================================ *)
(*  What defects_C18 = [] says about the input                                                        *)
(* ================================================================================================ *)
Lemma if_nil' {A} (b : bool) (x : A) : (if b then [x] else []) = [] -> b = false.
Proof. destruct b; [discriminate|reflexivity]. Qed.

Lemma defects_C18_nil sc sd sv st d :
  collect_service sc sd sv = Some st -> document_y sc sd sv = Some d -> defects_C18 sc sd sv = [] ->
  has_dup (map short_name (collected_messages sc st)) = false /\
  existsb (fun n => mem_str n builtin_names) (map short_name (collected_messages sc st)) = false /\
  existsb (fun md => has_dup (map lower_str (op_header_names sc sv md))) (sv_methods sv) = false /\
  has_dup_key (route_keys sv) = false /\
  existsb (fun md => has_dup (declared_vars sv md)) (sv_methods sv) = false /\
  has_lbrace (sv_base sv) = false /\
  existsb (fun md => has_dup (op_query_names sc md)) (sv_methods sv) = false /\
  existsb (fun e => yaml11_bool_word (snd e)) (scalars d) = false.
Proof.
  intros Hc Hd H. unfold defects_C18 in H. rewrite Hc, Hd in H.
  repeat (apply app_eq_nil in H as [?H H]).
  repeat match goal with Hx : (if _ then [_] else []) = [] |- _ => apply if_nil' in Hx end.
  repeat split; assumption.
Qed.

Lemma existsb_false_forall {A} (p : A -> bool) l : existsb p l = false -> forall a, In a l -> p a = false.
Proof.
  intros H a Ha. destruct (p a) eqn:E; [|reflexivity]. rewrite <- H. symmetry. apply existsb_exists. now exists a.
Qed.

(* ================================================================================================ *)
(*  The clauses of C18 for an input outside the defect classes                                        *)
(* ================================================================================================ *)
Section Good.
Variables (sc : schema) (sd : side) (sv : service) (st : cstate) (d : ynode).
Hypothesis collected : collect_service sc sd sv = Some st.
Hypothesis document : document_y sc sd sv = Some d.
Hypothesis good : defects_C18 sc sd sv = [].

(* every message reachable from the RPCs through message-typed fields has a component schema under
   its short name (no defect hypothesis needed), and distinct collected messages have distinct
   component names *)
Lemma good_reachable_have_schemas : forall fq m,
  reachable sc (method_roots sv) fq -> lookup_message sc fq = Some m ->
  In (short_name fq) (map fst (components_of_sets (cs_sets st))).
Proof. exact (reachable_have_schemas sc sd sv st collected). Qed.

Lemma good_components_distinct : NoDup (map short_name (collected_messages sc st)).
Proof. apply has_dup_NoDup. exact (proj1 (defects_C18_nil _ _ _ _ _ collected document good)). Qed.

(* the references of every operation (request body, 200, 400, default) resolve *)
Lemma good_refs_resolve_partial : forall md, In md (sv_methods sv) ->
  lookup_message sc (md_in md) <> None -> lookup_message sc (md_out md) <> None ->
  forall t, In t (refs_of (operation_node sc sv md)) -> ref_resolves (components_of_sets (cs_sets st)) t = true.
Proof. exact (refs_resolve_operations sc sd sv st collected). Qed.

(* the variables of the path template are exactly the declared path parameters, each declared
   once and required *)
Lemma good_path_vars_iff_params : forall md, In md (sv_methods sv) ->
  has_lbrace (sv_name sv) = false -> has_lbrace (md_name md) = false ->
  template_vars sv md = declared_vars sv md /\ NoDup (declared_vars sv md) /\
  (forall n l r sch, In (n, l, r, sch) (op_parameters sc sv md) -> l = s "path" -> r = true).
Proof.
  intros md Hmd Hs Hm.
  destruct (defects_C18_nil _ _ _ _ _ collected document good) as [_ [_ [Hh [_ [Hv [Hb [Hq _]]]]]]].
  split; [now apply path_vars_iff_params|]. split.
  - apply has_dup_NoDup. exact (existsb_false_forall _ _ Hv md Hmd).
  - apply (param_names_unique sc sv md);
      [exact (existsb_false_forall _ _ Hh md Hmd)|exact (existsb_false_forall _ _ Hv md Hmd)|exact (existsb_false_forall _ _ Hq md Hmd)].
Qed.

(* parameter names are unique per location (header names compared without case) *)
Lemma good_param_names_unique : forall md, In md (sv_methods sv) ->
  NoDup (map param_key (op_parameters sc sv md)).
Proof.
  intros md Hmd.
  destruct (defects_C18_nil _ _ _ _ _ collected document good) as [_ [_ [Hh [_ [Hv [_ [Hq _]]]]]]].
  apply (param_names_unique sc sv md);
    [exact (existsb_false_forall _ _ Hh md Hmd)|exact (existsb_false_forall _ _ Hv md Hmd)|exact (existsb_false_forall _ _ Hq md Hmd)].
Qed.

(* every RPC is an operation of the document, in order *)
Lemma good_every_rpc_has_operation : map snd (doc_ops sv) = sv_methods sv.
Proof. apply every_rpc_has_operation. exact (proj1 (proj2 (proj2 (proj2 (defects_C18_nil _ _ _ _ _ collected document good))))). Qed.

(* the .json rendering denotes the same document as the .yaml rendering *)
Lemma good_json_eq_yaml : denote reader11 d = denote reader12 d.
Proof.
  apply json_eq_yaml. intros e He.
  destruct (defects_C18_nil _ _ _ _ _ collected document good) as [_ [_ [_ [_ [_ [_ [_ Hy]]]]]]].
  exact (existsb_false_forall _ _ Hy e He).
Qed.
End Good.
