(* ClashFacts.v — encoding/json on a struct, two keys of one object addressing the same field (Codec.clash_unm,
   Codec.last_wins), and the key order json.Marshal gives a map[string]json.RawMessage (Codec.raw_sort):
   when the addressed fields are pairwise distinct nothing clashes and the order of the keys does not matter. *)
From Coq Require Import List Permutation Bool.
From Sebuf Require Import CodecCases.
From SebufProofs Require Import TextFacts.
Import ListNotations.

Lemma existsb_name_notin {A} (h : A -> str) (n : str) (l : list A) :
  ~ In n (map h l) -> existsb (fun g => str_eqb (h g) n) l = false.
Proof.
  intros Hn. destruct (existsb (fun g => str_eqb (h g) n) l) eqn:Hex; [|reflexivity]. exfalso.
  apply existsb_exists in Hex. destruct Hex as [g [Hin Hg]]. apply str_eqb_eq in Hg. apply Hn. rewrite <- Hg.
  apply in_map. exact Hin.
Qed.

(* pairwise distinct fields: no clash to decline *)
Lemma clash_unm_nodup fs : NoDup (map f_name fs) -> clash_unm fs = false.
Proof.
  induction fs as [|f r IH]; intros Hnd; [reflexivity|]. cbn [map] in Hnd. inversion Hnd as [|x l Hnot Hr]; subst.
  cbn [clash_unm]. rewrite (existsb_name_notin f_name (f_name f) r Hnot), Bool.andb_false_r. cbn [orb]. exact (IH Hr).
Qed.

(* pairwise distinct fields: every assignment stands *)
Lemma last_wins_nodup l : NoDup (map (fun e : field * fval => f_name (fst e)) l) -> last_wins l = l.
Proof.
  induction l as [|e r IH]; intros Hnd; [reflexivity|]. cbn [map] in Hnd. inversion Hnd as [|x l0 Hnot Hr]; subst.
  cbn [last_wins]. rewrite (existsb_name_notin (fun e' : field * fval => f_name (fst e')) (f_name (fst e)) r Hnot).
  rewrite (IH Hr). reflexivity.
Qed.

Lemma raw_insert_perm e r : Permutation (raw_insert e r) (e :: r).
Proof.
  induction r as [|e' t IH]; cbn [raw_insert]; [apply Permutation_refl|].
  destruct (Url.str_leb (fst e) (fst e')); [apply Permutation_refl|].
  eapply Permutation_trans; [apply perm_skip; exact IH|apply perm_swap].
Qed.
Lemma raw_sort_perm r : Permutation (raw_sort r) r.
Proof.
  induction r as [|e t IH]; cbn [raw_sort fold_right]; [apply Permutation_refl|].
  eapply Permutation_trans; [apply raw_insert_perm|]. apply perm_skip. exact IH.
Qed.

(* a pointwise relation survives a permutation of the right-hand list *)
Lemma Forall2_perm_r {A B} (R : A -> B -> Prop) l2 l2' :
  Permutation l2 l2' -> forall l1, Forall2 R l1 l2 -> exists l1', Permutation l1 l1' /\ Forall2 R l1' l2'.
Proof.
  induction 1 as [|b t t' _ IH|b c t|t u v _ IH1 _ IH2]; intros l1 HF.
  - inversion HF; subst. exists []. split; [apply Permutation_refl|constructor].
  - inversion HF as [|a b0 r t0 Hab Hr]; subst. destruct (IH r Hr) as [r' [Hp HF']].
    exists (a :: r'). split; [apply perm_skip; exact Hp|constructor; assumption].
  - inversion HF as [|a1 b1 r1 t1 Hab1 Hr1]; subst. inversion Hr1 as [|a2 b2 r2 t2 Hab2 Hr2]; subst.
    exists (a2 :: a1 :: r2). split; [apply perm_swap|repeat constructor; assumption].
  - destruct (IH1 l1 HF) as [m1 [Hp1 HF1]]. destruct (IH2 m1 HF1) as [m2 [Hp2 HF2]].
    exists m2. split; [eapply Permutation_trans; eassumption|exact HF2].
Qed.

Lemma flat_map_via_map {A B C} (h : A -> B) (g : B -> list C) (l : list A) :
  flat_map (fun a => g (h a)) l = flat_map g (map h l).
Proof. induction l as [|a r IH]; [reflexivity|]. cbn [map flat_map]. rewrite IH. reflexivity. Qed.
