(* GoRtRawFacts.v — the emitted Go server facing an arbitrary request (C02): what the URL binds, when
   it is rejected, and that the URL's values reach the handler unless the body resets them. *)
From Coq Require Import ZifyN ZifyNat ZifyBool.
From Sebuf Require Import Text Route Schema Value Num Url GoRt GoRtRaw.
From SebufProofs Require Import TextFacts NumFacts UrlFacts GoRtFacts.

(* ==== 4. conversion facts over ALL strings ========================================================= *)

Lemma parse_digits_digits : forall x acc n, parse_digits acc x = Some n -> forallb is_digit x = true.
Proof.
  induction x as [|c x IH]; intros acc n H; [reflexivity|].
  cbn [parse_digits] in H. unfold digit_val in H.
  destruct (is_digit c) eqn:E; [|discriminate]. cbn [forallb]. rewrite E. cbn [andb].
  exact (IH _ _ H).
Qed.

Lemma parse_nat_some x n : parse_nat x = Some n -> x <> [] /\ forallb is_digit x = true.
Proof.
  unfold parse_nat. destruct x as [|c r]; [discriminate|]. intros H. split; [discriminate|].
  exact (parse_digits_digits _ _ _ H).
Qed.

Lemma parse_nat_nondigit x : forallb is_digit x = false -> parse_nat x = None.
Proof.
  intros H. destruct (parse_nat x) as [n|] eqn:E; [|reflexivity].
  apply parse_nat_some in E as [_ E]. congruence.
Qed.

(* the part of the text after the optional sign, and the sign *)
Definition int_body (x : str) : str :=
  match x with
  | c :: r => if Ascii.eqb c "-"%char then r else if Ascii.eqb c "+"%char then r else x
  | [] => []
  end.
Definition int_neg (x : str) : bool :=
  match x with c :: _ => Ascii.eqb c "-"%char | [] => false end.

Lemma parse_int_unfold bits x :
  parse_int bits x =
  match parse_nat (int_body x) with
  | Some n =>
      if int_neg x then (if (n <=? 2 ^ (bits - 1))%N then Some (- Z.of_N n)%Z else None)
      else (if (n <? 2 ^ (bits - 1))%N then Some (Z.of_N n) else None)
  | None => None
  end.
Proof.
  unfold parse_int, int_body, int_neg. destruct x as [|c r]; [reflexivity|].
  destruct (Ascii.eqb c "-"%char); [reflexivity|]. destruct (Ascii.eqb c "+"%char); reflexivity.
Qed.

Lemma pow2_pos (b : N) : (0 < 2 ^ Z.of_N b)%Z.
Proof. apply Z.pow_pos_nonneg; lia. Qed.

(* range soundness *)
Lemma parse_int_range bits x z : parse_int bits x = Some z ->
  (- 2 ^ Z.of_N (bits - 1) <= z < 2 ^ Z.of_N (bits - 1))%Z.
Proof.
  rewrite parse_int_unfold. destruct (parse_nat (int_body x)) as [n|]; [|discriminate].
  pose proof (pow2_N2Z (bits - 1)) as P. pose proof (pow2_pos (bits - 1)) as Q.
  destruct (int_neg x).
  - destruct (n <=? 2 ^ (bits - 1))%N eqn:E; [|discriminate]. intros H. inversion H. subst z.
    apply N.leb_le in E. lia.
  - destruct (n <? 2 ^ (bits - 1))%N eqn:E; [|discriminate]. intros H. inversion H. subst z.
    apply N.ltb_lt in E. lia.
Qed.

Lemma parse_uint_range bits x z : parse_uint bits x = Some z -> (0 <= z < 2 ^ Z.of_N bits)%Z.
Proof.
  unfold parse_uint. destruct (parse_nat x) as [n|]; [|discriminate].
  pose proof (pow2_N2Z bits) as P.
  destruct (n <? 2 ^ bits)%N eqn:E; [|discriminate]. intros H. inversion H. subst z.
  apply N.ltb_lt in E. lia.
Qed.

(* syntax soundness: at least one character after the optional sign, digits only *)
Lemma parse_int_syntax bits x z : parse_int bits x = Some z ->
  int_body x <> [] /\ forallb is_digit (int_body x) = true.
Proof.
  rewrite parse_int_unfold. destruct (parse_nat (int_body x)) as [n|] eqn:E; [|discriminate].
  intros _. now apply parse_nat_some in E.
Qed.

Lemma parse_uint_syntax bits x z : parse_uint bits x = Some z ->
  x <> [] /\ forallb is_digit x = true.
Proof.
  unfold parse_uint. destruct (parse_nat x) as [n|] eqn:E; [|discriminate].
  intros _. now apply parse_nat_some in E.
Qed.

Lemma parse_int_empty bits : parse_int bits [] = None.
Proof. reflexivity. Qed.
Lemma parse_uint_empty bits : parse_uint bits [] = None.
Proof. reflexivity. Qed.

Lemma parse_int_sign_only bits x : int_body x = [] -> parse_int bits x = None.
Proof. intros H. rewrite parse_int_unfold, H. reflexivity. Qed.

Lemma parse_int_nondigit bits x : forallb is_digit (int_body x) = false -> parse_int bits x = None.
Proof. intros H. rewrite parse_int_unfold, (parse_nat_nondigit _ H). reflexivity. Qed.

Lemma parse_uint_nondigit bits x : forallb is_digit x = false -> parse_uint bits x = None.
Proof. intros H. unfold parse_uint. now rewrite (parse_nat_nondigit _ H). Qed.

Definition bool_true_spellings : list str := [s "1"; s "t"; s "T"; s "TRUE"; s "true"; s "True"].
Definition bool_false_spellings : list str := [s "0"; s "f"; s "F"; s "FALSE"; s "false"; s "False"].

Lemma existsb_str_eqb_In x l : existsb (str_eqb x) l = true -> In x l.
Proof.
  intros H. apply existsb_exists in H as [y [Hy E]]. apply str_eqb_eq in E. now subst.
Qed.

Lemma parse_bool_spelling x b : parse_bool x = Some b ->
  In x (if b then bool_true_spellings else bool_false_spellings).
Proof.
  unfold parse_bool.
  destruct (existsb (str_eqb x) [s "1"; s "t"; s "T"; s "TRUE"; s "true"; s "True"]) eqn:E1.
  - intros H. inversion H. subst b. now apply existsb_str_eqb_In.
  - destruct (existsb (str_eqb x) [s "0"; s "f"; s "F"; s "FALSE"; s "false"; s "False"]) eqn:E2;
      [|discriminate].
    intros H. inversion H. subst b. now apply existsb_str_eqb_In.
Qed.

(* whatever [convert] accepts is a value of the field's type *)
Lemma convert_typed k x v : convert k x = Some v -> typed_scalar k v /\ url_kind_ok k = true.
Proof.
  destruct k; cbv beta iota delta [convert]; intros H; try discriminate H.
  all: try (destruct (parse_int 32 x) as [z|] eqn:E; [|discriminate H]; inversion H; subst v;
            split; [exact (parse_int_range 32 x z E)|reflexivity]).
  all: try (destruct (parse_int 64 x) as [z|] eqn:E; [|discriminate H]; inversion H; subst v;
            split; [exact (parse_int_range 64 x z E)|reflexivity]).
  all: try (destruct (parse_uint 32 x) as [z|] eqn:E; [|discriminate H]; inversion H; subst v;
            split; [exact (parse_uint_range 32 x z E)|reflexivity]).
  all: try (destruct (parse_uint 64 x) as [z|] eqn:E; [|discriminate H]; inversion H; subst v;
            split; [exact (parse_uint_range 64 x z E)|reflexivity]).
  - destruct (parse_bool x) as [b|]; [|discriminate H]. inversion H. split; [exact I|reflexivity].
  - inversion H. split; [exact I|reflexivity].
Qed.

Lemma convert_all_none k : forall xs, convert_all k xs = None -> exists x, In x xs /\ convert k x = None.
Proof.
  induction xs as [|x xs IH]; intros H; [discriminate|]. cbn [convert_all] in H.
  destruct (convert k x) as [v|] eqn:E; [|exists x; split; [now left|exact E]].
  destruct (convert_all k xs) as [t|]; [discriminate|].
  destruct (IH eq_refl) as [y [Hy Ey]]. exists y. split; [now right|exact Ey].
Qed.

Lemma convert_all_some k : forall xs l, convert_all k xs = Some l ->
  Forall2 (fun x e => exists v, convert k x = Some v /\ e = FS v) xs l.
Proof.
  induction xs as [|x xs IH]; intros l H; cbn [convert_all] in H.
  - inversion H. constructor.
  - destruct (convert k x) as [v|] eqn:E; [|discriminate].
    destruct (convert_all k xs) as [t|]; [|discriminate]. inversion H. subst l.
    constructor; [now exists v|now apply IH].
Qed.

Lemma convert_all_complete k : forall xs, (forall x, In x xs -> convert k x <> None) ->
  convert_all k xs <> None.
Proof.
  induction xs as [|x xs IH]; intros H; cbn [convert_all]; [discriminate|].
  destruct (convert k x) as [v|] eqn:E; [|exfalso; now apply (H x (or_introl eq_refl))].
  destruct (convert_all k xs) eqn:Ea; [discriminate|]. exfalso. apply IH; [|reflexivity].
  intros y Hy. apply H. now right.
Qed.

(* ==== message values at the key level ============================================================== *)

Lemma mget_mset_scalar_other fs m f v k : k <> f_name f ->
  mget (mset_scalar fs m f v) k = mget m k.
Proof.
  intros Hne. unfold mset_scalar. destruct (is_zero v).
  - now rewrite mget_mremove_other.
  - now rewrite mget_minsert_other, mget_mremove_other.
Qed.

Lemma mget_mset_list_other fs m f l k : k <> f_name f ->
  mget (mset_list fs m f l) k = mget m k.
Proof.
  intros Hne. unfold mset_list. destruct l.
  - now rewrite mget_mremove_other.
  - now rewrite mget_minsert_other, mget_mremove_other.
Qed.

Lemma mget_mset_list_same fs m f l : l <> [] -> mget (mset_list fs m f l) (f_name f) = Some (FL l).
Proof.
  intros Hne. unfold mset_list. destruct l as [|e l]; [congruence|].
  apply mget_minsert_same. apply mget_mremove_same.
Qed.

Lemma scalar_of_mget m m' g : mget m' (f_name g) = mget m (f_name g) -> scalar_of m' g = scalar_of m g.
Proof. unfold scalar_of. now intros ->. Qed.

(* ==== 2a / 3. path binding ========================================================================= *)

(* the text the route match bound to variable v ("" when there is none) *)
Definition binding_of (b : list (str * str)) (v : str) : str :=
  match find (fun p : str * str => str_eqb (fst p) v) b with Some p => snd p | None => [] end.

Lemma bind_path_cons fs v vars b m :
  bind_path fs (v :: vars) b m =
  match find_field fs v with
  | None => bind_path fs vars b m
  | Some f =>
      if str_eqb (binding_of b v) [] then inr v else
      match convert (f_kind f) (binding_of b v) with
      | Some x => bind_path fs vars b (mset_scalar fs m f x)
      | None => inr v
      end
  end.
Proof. reflexivity. Qed.

(* 2a: what a successful path binding leaves in the message *)
Lemma bind_path_vals fs b : forall vars m m1, bind_path fs vars b m = inl m1 ->
  (forall k, ~ In k vars -> mget m1 k = mget m k) /\
  (forall v f, In v vars -> find_field fs v = Some f ->
     exists x, binding_of b v <> [] /\ convert (f_kind f) (binding_of b v) = Some x /\
               scalar_of m1 f = x).
Proof.
  induction vars as [|v vars IH]; intros m m1 H.
  - cbn in H. inversion H. subst. split; [reflexivity|intros v f []].
  - rewrite bind_path_cons in H. destruct (find_field fs v) as [f|] eqn:Ef.
    + destruct (str_eqb (binding_of b v) []) eqn:En; [discriminate|].
      destruct (convert (f_kind f) (binding_of b v)) as [x|] eqn:Ec; [|discriminate].
      destruct (IH _ _ H) as [K V].
      destruct (find_field_some fs v f Ef) as [_ Hname].
      split.
      * intros k Hk. rewrite K by (intros Hin; apply Hk; now right).
        apply mget_mset_scalar_other. intros ->. apply Hk. left. now symmetry.
      * intros v0 f0 Hin Hf0. destruct (in_dec str_dec v0 vars) as [Hv|Hv]; [now apply V|].
        destruct Hin as [<-|Hin]; [|contradiction]. rewrite Ef in Hf0. inversion Hf0; subst f0.
        exists x. split; [now apply str_eqb_neq|]. split; [exact Ec|].
        destruct (convert_typed _ _ _ Ec) as [Ht Hk].
        rewrite <- (scalar_of_mset_same fs m f x Hk Ht). apply scalar_of_mget.
        apply K. now rewrite Hname.
    + destruct (IH _ _ H) as [K V]. split.
      * intros k Hk. apply K. intros Hin. apply Hk. now right.
      * intros v0 f0 [<-|Hin] Hf0; [congruence|now apply V].
Qed.

(* 3: why a path binding fails *)
Lemma bind_path_reject fs b : forall vars m v, bind_path fs vars b m = inr v ->
  In v vars /\ exists f, find_field fs v = Some f /\
    (binding_of b v = [] \/ convert (f_kind f) (binding_of b v) = None).
Proof.
  induction vars as [|u vars IH]; intros m v H; [discriminate|].
  rewrite bind_path_cons in H.
  assert (Hrec : forall m', bind_path fs vars b m' = inr v ->
            In v (u :: vars) /\ exists f, find_field fs v = Some f /\
              (binding_of b v = [] \/ convert (f_kind f) (binding_of b v) = None)).
  { intros m' H'. destruct (IH _ _ H') as [A B]. split; [now right|exact B]. }
  destruct (find_field fs u) as [f|] eqn:Ef; [|exact (Hrec m H)].
  destruct (str_eqb (binding_of b u) []) eqn:En.
  - inversion H. subst v. split; [now left|]. exists f. split; [exact Ef|left]. now apply str_eqb_eq.
  - destruct (convert (f_kind f) (binding_of b u)) as [x|] eqn:Ec; [exact (Hrec _ H)|].
    inversion H. subst v. split; [now left|]. exists f. split; [exact Ef|now right].
Qed.

Lemma bind_path_complete fs b : forall vars m,
  (forall v f, In v vars -> find_field fs v = Some f ->
     binding_of b v <> [] /\ convert (f_kind f) (binding_of b v) <> None) ->
  exists m1, bind_path fs vars b m = inl m1.
Proof.
  induction vars as [|v vars IH]; intros m H; [now exists m|].
  rewrite bind_path_cons.
  assert (H' : forall v0 f, In v0 vars -> find_field fs v0 = Some f ->
            binding_of b v0 <> [] /\ convert (f_kind f) (binding_of b v0) <> None).
  { intros v0 f Hin. apply H. now right. }
  destruct (find_field fs v) as [f|] eqn:Ef; [|now apply IH].
  destruct (H v f (or_introl eq_refl) Ef) as [Hne Hc]. apply str_eqb_neq in Hne. rewrite Hne.
  destruct (convert (f_kind f) (binding_of b v)); [now apply IH|congruence].
Qed.

(* ==== 2b, 2c / 3. query binding ==================================================================== *)

Definition is_repeated (f : field) : bool := match f_card f with Repeated => true | _ => false end.

Lemma bind_query_raw_cons fs f qfs q m :
  bind_query_raw fs (f :: qfs) q m =
  match query_values q (qname f) with
  | [] => if qrequired f then inr (f_name f) else bind_query_raw fs qfs q m
  | x :: xs =>
      if is_repeated f then
        match convert_all (f_kind f) (x :: xs) with
        | Some l => bind_query_raw fs qfs q (mset_list fs m f l)
        | None => inr (f_name f)
        end
      else
        match convert (f_kind f) x with
        | Some v => bind_query_raw fs qfs q (mset_scalar fs m f v)
        | None => inr (f_name f)
        end
  end.
Proof.
  cbn [bind_query_raw]. unfold is_repeated.
  destruct (query_values q (qname f)); [reflexivity|]. destruct (f_card f); reflexivity.
Qed.

(* what the query gives field f: nothing, one converted scalar, or the list of all occurrences *)
Definition query_gives (q : list (str * str)) (m m2 : mval) (f : field) : Prop :=
  match query_values q (qname f) with
  | [] => qrequired f = false /\ mget m2 (f_name f) = mget m (f_name f)
  | x :: xs =>
      if is_repeated f
      then exists l, convert_all (f_kind f) (x :: xs) = Some l /\ mget m2 (f_name f) = Some (FL l)
      else exists v, convert (f_kind f) x = Some v /\ scalar_of m2 f = v
  end.

Lemma bind_query_raw_vals fs q : forall qfs m m2,
  NoDup (map f_name qfs) -> bind_query_raw fs qfs q m = inl m2 ->
  (forall k, ~ In k (map f_name qfs) -> mget m2 k = mget m k) /\
  (forall f, In f qfs -> query_gives q m m2 f).
Proof.
  induction qfs as [|f qfs IH]; intros m m2 Hnd H.
  - cbn in H. inversion H. subst. split; [reflexivity|intros f []].
  - cbn [map] in Hnd. inversion Hnd as [|? ? Hni Hnd']; subst.
    rewrite bind_query_raw_cons in H. unfold query_gives.
    destruct (query_values q (qname f)) as [|x xs] eqn:Eq.
    + destruct (qrequired f) eqn:Er; [discriminate|].
      destruct (IH _ _ Hnd' H) as [K V]. split.
      * intros k Hk. apply K. intros Hin. apply Hk. now right.
      * intros g [<-|Hg]; [|now apply V]. rewrite Eq. split; [exact Er|now apply K].
    + destruct (is_repeated f) eqn:Erep.
      * destruct (convert_all (f_kind f) (x :: xs)) as [l|] eqn:Ec; [|discriminate].
        destruct (IH _ _ Hnd' H) as [K V]. split.
        -- intros k Hk. rewrite K by (intros Hin; apply Hk; now right).
           apply mget_mset_list_other. intros ->. apply Hk. now left.
        -- intros g [<-|Hg].
           ++ rewrite Eq, Erep. exists l. split; [exact Ec|]. rewrite (K _ Hni).
              apply mget_mset_list_same. cbn [convert_all] in Ec.
              destruct (convert (f_kind f) x); [|discriminate].
              destruct (convert_all (f_kind f) xs); [|discriminate]. inversion Ec. discriminate.
           ++ pose proof (V g Hg) as G. unfold query_gives in G.
              assert (Hne : f_name g <> f_name f).
              { intros E. apply Hni. rewrite <- E. now apply in_map. }
              destruct (query_values q (qname g)); [|exact G].
              destruct G as [G1 G2]. split; [exact G1|]. rewrite G2. now apply mget_mset_list_other.
      * destruct (convert (f_kind f) x) as [v|] eqn:Ec; [|discriminate].
        destruct (IH _ _ Hnd' H) as [K V]. split.
        -- intros k Hk. rewrite K by (intros Hin; apply Hk; now right).
           apply mget_mset_scalar_other. intros ->. apply Hk. now left.
        -- intros g [<-|Hg].
           ++ rewrite Eq, Erep. exists v. split; [exact Ec|].
              destruct (convert_typed _ _ _ Ec) as [Ht Hk].
              rewrite <- (scalar_of_mset_same fs m f v Hk Ht). apply scalar_of_mget. now apply K.
           ++ pose proof (V g Hg) as G. unfold query_gives in G.
              assert (Hne : f_name g <> f_name f).
              { intros E. apply Hni. rewrite <- E. now apply in_map. }
              destruct (query_values q (qname g)); [|exact G].
              destruct G as [G1 G2]. split; [exact G1|]. rewrite G2. now apply mget_mset_scalar_other.
Qed.

(* 2b *)
Lemma bind_query_raw_singular fs q qfs m m2 f x xs :
  NoDup (map f_name qfs) -> bind_query_raw fs qfs q m = inl m2 ->
  In f qfs -> is_repeated f = false -> query_values q (qname f) = x :: xs ->
  exists v, convert (f_kind f) x = Some v /\ scalar_of m2 f = v.
Proof.
  intros Hnd H Hf Hr Hq. destruct (bind_query_raw_vals fs q qfs m m2 Hnd H) as [_ V].
  specialize (V f Hf). unfold query_gives in V. now rewrite Hq, Hr in V.
Qed.

(* 2c *)
Lemma bind_query_raw_repeated fs q qfs m m2 f x xs :
  NoDup (map f_name qfs) -> bind_query_raw fs qfs q m = inl m2 ->
  In f qfs -> is_repeated f = true -> query_values q (qname f) = x :: xs ->
  exists l, convert_all (f_kind f) (x :: xs) = Some l /\ mget m2 (f_name f) = Some (FL l) /\
            Forall2 (fun y e => exists v, convert (f_kind f) y = Some v /\ e = FS v) (x :: xs) l.
Proof.
  intros Hnd H Hf Hr Hq. destruct (bind_query_raw_vals fs q qfs m m2 Hnd H) as [_ V].
  specialize (V f Hf). unfold query_gives in V. rewrite Hq, Hr in V. destruct V as [l [Hc Hm]].
  exists l. repeat split; [exact Hc|exact Hm|now apply convert_all_some].
Qed.

(* 2a continued: query binding leaves path-bound fields alone when the names differ *)
Lemma bind_query_raw_keeps fs q qfs m m2 g :
  NoDup (map f_name qfs) -> bind_query_raw fs qfs q m = inl m2 ->
  ~ In (f_name g) (map f_name qfs) -> scalar_of m2 g = scalar_of m g.
Proof.
  intros Hnd H Hni. destruct (bind_query_raw_vals fs q qfs m m2 Hnd H) as [K _].
  apply scalar_of_mget. now apply K.
Qed.

(* 3: why a query binding fails *)
Definition query_fails (q : list (str * str)) (f : field) : Prop :=
  match query_values q (qname f) with
  | [] => qrequired f = true
  | x :: xs => if is_repeated f then exists y, In y (x :: xs) /\ convert (f_kind f) y = None
               else convert (f_kind f) x = None
  end.

Lemma bind_query_raw_reject fs q : forall qfs m n, bind_query_raw fs qfs q m = inr n ->
  exists f, In f qfs /\ f_name f = n /\ query_fails q f.
Proof.
  induction qfs as [|f qfs IH]; intros m n H; [discriminate|].
  rewrite bind_query_raw_cons in H.
  assert (Hrec : forall m', bind_query_raw fs qfs q m' = inr n ->
            exists g, In g (f :: qfs) /\ f_name g = n /\ query_fails q g).
  { intros m' H'. destruct (IH _ _ H') as [g [A B]]. exists g. split; [now right|exact B]. }
  assert (Hhere : query_fails q f -> inr (f_name f) = @inr mval str n ->
            exists g, In g (f :: qfs) /\ f_name g = n /\ query_fails q g).
  { intros Hq E. inversion E. exists f. repeat split; [now left|exact Hq]. }
  unfold query_fails in Hhere.
  destruct (query_values q (qname f)) as [|x xs].
  - destruct (qrequired f); [now apply Hhere|exact (Hrec m H)].
  - destruct (is_repeated f).
    + destruct (convert_all (f_kind f) (x :: xs)) as [l|] eqn:Ec; [exact (Hrec _ H)|].
      apply Hhere; [|exact H]. now apply convert_all_none.
    + destruct (convert (f_kind f) x) as [v|] eqn:Ec; [exact (Hrec _ H)|]. now apply Hhere.
Qed.

Lemma bind_query_raw_complete fs q : forall qfs m,
  (forall f, In f qfs -> ~ query_fails q f) -> exists m2, bind_query_raw fs qfs q m = inl m2.
Proof.
  induction qfs as [|f qfs IH]; intros m H; [now exists m|].
  rewrite bind_query_raw_cons.
  assert (H' : forall g, In g qfs -> ~ query_fails q g) by (intros g Hg; apply H; now right).
  pose proof (H f (or_introl eq_refl)) as Hf. unfold query_fails in Hf.
  destruct (query_values q (qname f)) as [|x xs].
  - destruct (qrequired f); [now contradiction Hf|now apply IH].
  - destruct (is_repeated f).
    + destruct (convert_all (f_kind f) (x :: xs)) as [l|] eqn:Ec; [now apply IH|].
      exfalso. apply Hf. now apply convert_all_none.
    + destruct (convert (f_kind f) x); [now apply IH|now contradiction Hf].
Qed.

(* ==== raw_handle ===================================================================================== *)

(* the request reaches route r with bindings b and r is within the model *)
Definition routed (rs : list sroute) (rq : raw_req) (p : str) (r : sroute) (b : list (str * str)) : Prop :=
  rq_path rq = slash :: p /\ path_unescape (rq_path rq) <> None /\
  clean_segs (split_on slash p) = true /\
  find_route rs (rq_verb rq) (split_on slash p) = Some (r, b) /\ raw_modelled r = true.

(* the message the URL values are applied to: the decoded body of a POST/PUT/PATCH, else the empty one *)
Definition raw_start (r : sroute) (rq : raw_req) : mval + str :=
  body_start (rt_body (sr_route r)) (rq_ct rq) (rq_body rq).

Lemma raw_handle_routed rs rq p r b : routed rs rq p r b ->
  raw_handle rs rq =
  match raw_start r rq with
  | inr f => Ok (RRejected f)
  | inl m0 =>
      match bind_path (sr_fields r) (rt_pathvars (sr_route r)) b m0 with
      | inr f => Ok (RRejected f)
      | inl m1 =>
          match bind_query_raw (sr_fields r) (query_fields (sr_fields r)) (parse_query (rq_query rq)) m1 with
          | inr f => Ok (RRejected f)
          | inl m2 => Ok (RDispatched (md_name (sr_md r)) m2)
          end
      end
  end.
Proof.
  intros [Hp [Hu [Hc [Hf Hm]]]]. unfold raw_handle, raw_start. rewrite Hp in *. cbv beta iota zeta.
  rewrite Ascii.eqb_refl. cbn [negb].
  destruct (path_unescape (slash :: p)); [|congruence].
  rewrite Hc. cbn [negb]. rewrite Hf, Hm. reflexivity.
Qed.

(* a dispatch or a rejection can only come from a routed request *)
Lemma raw_handle_inv rs rq o : raw_handle rs rq = Ok o -> o <> RNotRouted ->
  exists p r b, routed rs rq p r b.
Proof.
  unfold raw_handle, routed. destruct (rq_path rq) as [|c p] eqn:Hp; [intros H; inversion H; congruence|].
  cbv beta iota zeta.
  destruct (Ascii.eqb c slash) eqn:Ec; cbn [negb]; [|intros H; inversion H; congruence].
  apply Ascii.eqb_eq in Ec. subst c.
  destruct (path_unescape (slash :: p)) eqn:Eu; [|intros H; inversion H; congruence].
  destruct (clean_segs (split_on slash p)) eqn:Ecl; cbn [negb]; [|intros H; inversion H; congruence].
  destruct (find_route rs (rq_verb rq) (split_on slash p)) as [[r b]|] eqn:Ef;
    [|intros H; inversion H; congruence].
  destruct (raw_modelled r) eqn:Em; cbn [negb]; [|discriminate].
  intros _ _. exists p, r, b. repeat split; try assumption; try reflexivity. discriminate.
Qed.

Lemma body_start_inr has_body ct body f : body_start has_body ct body = inr f ->
  f = s "body" /\ has_body = true /\ exists g v, body = Some (g, v) /\ bfmt_eqb g (server_fmt ct) = false.
Proof.
  unfold body_start. destruct has_body; [|discriminate]. destruct body as [[g v]|]; [|discriminate].
  destruct (bfmt_eqb g (server_fmt ct)) eqn:E; [discriminate|]. intros H. inversion H.
  repeat split. now exists g, v.
Qed.

(* 3: a body the server cannot read is reported first, as field "body" *)
Lemma raw_handle_reject_body rs rq p r b f : routed rs rq p r b ->
  raw_start r rq = inr f -> raw_handle rs rq = Ok (RRejected f) /\ f = s "body".
Proof.
  intros Hr H. rewrite (raw_handle_routed rs rq p r b Hr), H. split; [reflexivity|].
  now apply body_start_inr in H as [H _].
Qed.

(* 3: a failed URL binding answers 400 naming the field; the handler is not invoked *)
Lemma raw_handle_reject_path rs rq p r b m0 f : routed rs rq p r b ->
  raw_start r rq = inl m0 ->
  bind_path (sr_fields r) (rt_pathvars (sr_route r)) b m0 = inr f ->
  raw_handle rs rq = Ok (RRejected f).
Proof. intros Hr H0 H. now rewrite (raw_handle_routed rs rq p r b Hr), H0, H. Qed.

Lemma raw_handle_reject_query rs rq p r b m0 m1 f : routed rs rq p r b ->
  raw_start r rq = inl m0 ->
  bind_path (sr_fields r) (rt_pathvars (sr_route r)) b m0 = inl m1 ->
  bind_query_raw (sr_fields r) (query_fields (sr_fields r)) (parse_query (rq_query rq)) m1 = inr f ->
  raw_handle rs rq = Ok (RRejected f).
Proof. intros Hr H0 H1 H2. now rewrite (raw_handle_routed rs rq p r b Hr), H0, H1, H2. Qed.

(* the URL conditions of a route: every path variable converts, every query field is absent and optional
   or converts *)
Definition url_converts (r : sroute) (b : list (str * str)) (q : list (str * str)) : Prop :=
  (forall v f, In v (rt_pathvars (sr_route r)) -> find_field (sr_fields r) v = Some f ->
     binding_of b v <> [] /\ convert (f_kind f) (binding_of b v) <> None) /\
  (forall f, In f (query_fields (sr_fields r)) -> ~ query_fails q f).

(* 3, converse: when the URL converts the request is dispatched, or rejected for its body *)
Lemma raw_handle_url_ok rs rq p r b : routed rs rq p r b ->
  url_converts r b (parse_query (rq_query rq)) ->
  (exists saw, raw_handle rs rq = Ok (RDispatched (md_name (sr_md r)) saw)) \/
  raw_handle rs rq = Ok (RRejected (s "body")).
Proof.
  intros Hr [Hp Hq]. rewrite (raw_handle_routed rs rq p r b Hr).
  destruct (raw_start r rq) as [m0|f] eqn:E0.
  - left. destruct (bind_path_complete _ b _ m0 Hp) as [m1 ->].
    destruct (bind_query_raw_complete (sr_fields r) _ _ m1 Hq) as [m2 ->]. now eexists.
  - right. apply body_start_inr in E0 as [-> _]. reflexivity.
Qed.

(* 3, the other direction: every rejection has one of the three reasons; the body is judged first *)
Lemma raw_handle_rejected_inv rs rq n : raw_handle rs rq = Ok (RRejected n) ->
  exists p r b, routed rs rq p r b /\
    ((n = s "body" /\ rt_body (sr_route r) = true /\
      exists f v, rq_body rq = Some (f, v) /\ bfmt_eqb f (server_fmt (rq_ct rq)) = false) \/
     (exists m0, raw_start r rq = inl m0 /\
        ((In n (rt_pathvars (sr_route r)) /\ exists f, find_field (sr_fields r) n = Some f /\
            (binding_of b n = [] \/ convert (f_kind f) (binding_of b n) = None)) \/
         (exists f, In f (query_fields (sr_fields r)) /\ f_name f = n /\
            query_fails (parse_query (rq_query rq)) f)))).
Proof.
  intros H. destruct (raw_handle_inv rs rq _ H) as [p [r [b Hr]]]; [discriminate|].
  exists p, r, b. split; [exact Hr|]. rewrite (raw_handle_routed rs rq p r b Hr) in H.
  destruct (raw_start r rq) as [m0|f] eqn:E0.
  - right. exists m0. split; [reflexivity|].
    destruct (bind_path (sr_fields r) (rt_pathvars (sr_route r)) b m0) as [m1|v] eqn:E1.
    + destruct (bind_query_raw (sr_fields r) (query_fields (sr_fields r)) (parse_query (rq_query rq)) m1)
        as [m2|v] eqn:E2; [discriminate|].
      right. inversion H. subst v. now apply (bind_query_raw_reject _ _ _ _ _ E2).
    + left. inversion H. subst v. now apply (bind_path_reject _ _ _ _ _ E1).
  - left. inversion H. subst f. now apply body_start_inr in E0.
Qed.

(* ==== 1. the URL's values reach the handler, whatever the body says ================================== *)

(* what the handler sees is the body's message with the path values, then the query values, bound on top *)
Lemma url_wins rs rq n saw c p r b :
  raw_handle rs rq = Ok (RDispatched n saw) ->
  rq_path rq = c :: p ->
  find_route rs (rq_verb rq) (split_on slash p) = Some (r, b) ->
  n = md_name (sr_md r) /\
  exists m0 m1,
    raw_start r rq = inl m0 /\
    bind_path (sr_fields r) (rt_pathvars (sr_route r)) b m0 = inl m1 /\
    bind_query_raw (sr_fields r) (query_fields (sr_fields r)) (parse_query (rq_query rq)) m1 = inl saw.
Proof.
  intros H Hp Hf.
  unfold raw_handle in H. rewrite Hp in *. cbv beta iota zeta in H.
  destruct (negb (Ascii.eqb c slash)); [discriminate|].
  destruct (path_unescape (c :: p)); [|discriminate].
  destruct (negb (clean_segs (split_on slash p))); [discriminate|].
  rewrite Hf in *. destruct (negb (raw_modelled r)); [discriminate|].
  change (body_start (rt_body (sr_route r)) (rq_ct rq) (rq_body rq)) with (raw_start r rq) in H.
  destruct (raw_start r rq) as [m0|f] eqn:E0; [|discriminate].
  destruct (bind_path (sr_fields r) (rt_pathvars (sr_route r)) b m0) as [m1|f] eqn:E1; [|discriminate].
  destruct (bind_query_raw (sr_fields r) (query_fields (sr_fields r)) (parse_query (rq_query rq)) m1)
    as [m2|f] eqn:E2; [|discriminate].
  inversion H; subst. split; [reflexivity|]. exists m0, m1. repeat split; assumption.
Qed.

(* the starting message is the body (when the verb carries one), else empty *)
Lemma raw_start_inl r rq m0 : raw_start r rq = inl m0 ->
  m0 = (if rt_body (sr_route r) then match rq_body rq with Some (_, v) => v | None => [] end else []).
Proof.
  unfold raw_start, body_start. destruct (rt_body (sr_route r)); [|intros H; now inversion H].
  destruct (rq_body rq) as [[f v]|]; [|intros H; now inversion H].
  destruct (bfmt_eqb f (server_fmt (rq_ct rq))); [intros H; now inversion H|discriminate].
Qed.

(* end to end, path variables: the handler sees the converted text of the path segment *)
Lemma handler_sees_path_value rs rq n saw c p r b v f :
  raw_handle rs rq = Ok (RDispatched n saw) ->
  rq_path rq = c :: p ->
  find_route rs (rq_verb rq) (split_on slash p) = Some (r, b) ->
  NoDup (map f_name (query_fields (sr_fields r))) ->
  In v (rt_pathvars (sr_route r)) -> find_field (sr_fields r) v = Some f ->
  ~ In v (map f_name (query_fields (sr_fields r))) ->
  exists x, convert (f_kind f) (binding_of b v) = Some x /\ scalar_of saw f = x.
Proof.
  intros H Hp Hf Hnd Hv Hfd Hnq.
  destruct (url_wins rs rq n saw c p r b H Hp Hf) as [_ [m0 [m1 [_ [H1 H2]]]]].
  destruct (bind_path_vals _ b _ _ _ H1) as [_ V]. destruct (V v f Hv Hfd) as [x [_ [Hc Hx]]].
  destruct (find_field_some _ _ _ Hfd) as [_ Hname].
  exists x. split; [exact Hc|]. rewrite <- Hx.
  apply (bind_query_raw_keeps _ _ _ _ _ f Hnd H2). now rewrite Hname.
Qed.

(* end to end, singular query parameters: the handler sees the converted first occurrence *)
Lemma handler_sees_query_value rs rq n saw c p r b f x xs :
  raw_handle rs rq = Ok (RDispatched n saw) ->
  rq_path rq = c :: p ->
  find_route rs (rq_verb rq) (split_on slash p) = Some (r, b) ->
  NoDup (map f_name (query_fields (sr_fields r))) ->
  In f (query_fields (sr_fields r)) -> is_repeated f = false ->
  query_values (parse_query (rq_query rq)) (qname f) = x :: xs ->
  exists y, convert (f_kind f) x = Some y /\ scalar_of saw f = y.
Proof.
  intros H Hp Hf Hnd Hin Hr Hq.
  destruct (url_wins rs rq n saw c p r b H Hp Hf) as [_ [m0 [m1 [_ [_ H2]]]]].
  exact (bind_query_raw_singular _ _ _ _ _ f x xs Hnd H2 Hin Hr Hq).
Qed.

(* end to end, repeated query parameters: the handler sees every occurrence, converted, in order
   (and nothing the body may have put in that list) *)
Lemma handler_sees_query_list rs rq n saw c p r b f x xs :
  raw_handle rs rq = Ok (RDispatched n saw) ->
  rq_path rq = c :: p ->
  find_route rs (rq_verb rq) (split_on slash p) = Some (r, b) ->
  NoDup (map f_name (query_fields (sr_fields r))) ->
  In f (query_fields (sr_fields r)) -> is_repeated f = true ->
  query_values (parse_query (rq_query rq)) (qname f) = x :: xs ->
  exists l, convert_all (f_kind f) (x :: xs) = Some l /\ mget saw (f_name f) = Some (FL l).
Proof.
  intros H Hp Hf Hnd Hin Hr Hq.
  destruct (url_wins rs rq n saw c p r b H Hp Hf) as [_ [m0 [m1 [_ [_ H2]]]]].
  destruct (bind_query_raw_repeated _ _ _ _ _ f x xs Hnd H2 Hin Hr Hq) as [l [Hc [Hm _]]].
  now exists l.
Qed.

(* what the URL does not bind comes from the body: keys that are neither a path variable nor a query
   field, and query fields absent from the query string *)
Lemma handler_sees_body_elsewhere rs rq n saw c p r b :
  raw_handle rs rq = Ok (RDispatched n saw) ->
  rq_path rq = c :: p ->
  find_route rs (rq_verb rq) (split_on slash p) = Some (r, b) ->
  NoDup (map f_name (query_fields (sr_fields r))) ->
  exists m0, raw_start r rq = inl m0 /\
    (forall k, ~ In k (rt_pathvars (sr_route r)) -> ~ In k (map f_name (query_fields (sr_fields r))) ->
       mget saw k = mget m0 k) /\
    (forall f, In f (query_fields (sr_fields r)) -> ~ In (f_name f) (rt_pathvars (sr_route r)) ->
       query_values (parse_query (rq_query rq)) (qname f) = [] -> mget saw (f_name f) = mget m0 (f_name f)).
Proof.
  intros H Hp Hf Hnd.
  destruct (url_wins rs rq n saw c p r b H Hp Hf) as [_ [m0 [m1 [H0 [H1 H2]]]]].
  exists m0. split; [exact H0|].
  destruct (bind_path_vals _ b _ _ _ H1) as [K1 _].
  destruct (bind_query_raw_vals _ _ _ _ _ Hnd H2) as [K2 V2]. split.
  - intros k Hk1 Hk2. now rewrite (K2 k Hk2), (K1 k Hk1).
  - intros f Hin Hnp Hq. pose proof (V2 f Hin) as G. unfold query_gives in G. rewrite Hq in G.
    destruct G as [_ G]. now rewrite G, (K1 _ Hnp).
Qed.
