From Sebuf Require Import RejectDoc.
From Coq Require Import Lia.

(* utf8.ValidString is compositional: a sequence of complete characters followed by another one *)
Lemma utf8_valid_app_n : forall n a b, List.length a <= n ->
  utf8_valid a = true -> utf8_valid b = true -> utf8_valid (a ++ b) = true.
Proof.
  induction n as [|n IH]; intros a b Hl Ha Hb.
  - destruct a; [exact Hb|cbn in Hl; lia].
  - destruct a as [|c r]; [exact Hb|].
    cbn [List.length] in Hl.
    change ((c :: r) ++ b) with (c :: (r ++ b)).
    cbn [utf8_valid] in Ha. cbn [utf8_valid].
    destruct (code c <? 128)%N.
    { apply IH; [lia|exact Ha|exact Hb]. }
    destruct (in_rng 194 223 c).
    { destruct r as [|c1 r1]; [discriminate|]. cbn [app].
      apply andb_true_iff in Ha as [H1 H2]. rewrite H1. cbn [andb].
      apply IH; [cbn [List.length] in Hl; lia|exact H2|exact Hb]. }
    destruct (in_rng 224 239 c).
    { destruct r as [|c1 [|c2 r2]]; try discriminate. cbn [app].
      apply andb_true_iff in Ha as [H12 H3]. rewrite H12. cbn [andb].
      apply IH; [cbn [List.length] in Hl; lia|exact H3|exact Hb]. }
    destruct (in_rng 240 244 c); [|discriminate].
    destruct r as [|c1 [|c2 [|c3 r3]]]; try discriminate. cbn [app].
    apply andb_true_iff in Ha as [H123 H4]. rewrite H123. cbn [andb].
    apply IH; [cbn [List.length] in Hl; lia|exact H4|exact Hb].
Qed.

Lemma utf8_valid_app a b : utf8_valid a = true -> utf8_valid b = true -> utf8_valid (a ++ b) = true.
Proof. apply (utf8_valid_app_n (List.length a)). lia. Qed.

Lemma utf8_valid_rep n u : utf8_valid u = true -> utf8_valid (rep_tok n u) = true.
Proof. intros Hu. induction n as [|n IH]; [reflexivity|]. cbn [rep_tok]. now apply utf8_valid_app. Qed.

(* Whatever the length of the quoted token and wherever its characters fall (no offset is special: the
   description is never cut), a rejection whose wording and token are valid UTF-8 is answered with a
   ValidationError document naming the field. *)
Theorem reject_doc_well_formed field before token after :
  utf8_valid before = true -> utf8_valid token = true -> utf8_valid after = true ->
  go_reject_doc field before token after = RDValidation field.
Proof.
  intros Hb Ht Ha. unfold go_reject_doc, description.
  rewrite (utf8_valid_app before (token ++ after) Hb (utf8_valid_app token after Ht Ha)). reflexivity.
Qed.

Corollary reject_doc_repeated field before pad n unit after :
  utf8_valid before = true -> utf8_valid pad = true -> utf8_valid unit = true -> utf8_valid after = true ->
  well_formed_doc (go_reject_doc field before (pad ++ rep_tok n unit) after) = true.
Proof.
  intros Hb Hp Hu Ha. rewrite reject_doc_well_formed; try assumption; [reflexivity|].
  apply utf8_valid_app; [exact Hp|now apply utf8_valid_rep].
Qed.
