(* CodecTextFacts.v — round trips of the text codecs, for ALL byte lists / integers. *)
From Sebuf Require Import CodecText.
From SebufProofs Require Import TextFacts.
From Coq Require Import DecimalString DecimalN DecimalZ.

(* ---- base64 -------------------------------------------------------------------------------------- *)
Lemma b64_val_char : forall url x, b64_val url (b64_char url x) = Some x.
Proof.
  intros url [[[[[a b] c] d] e] f].
  destruct url, a, b, c, d, e, f; reflexivity.
Qed.

Lemma b64_char_not_pad : forall url x, Ascii.eqb (b64_char url x) padc = false.
Proof.
  intros url [[[[[a b] c] d] e] f].
  destruct url, a, b, c, d, e, f; reflexivity.
Qed.

Lemma list_ind3 (A : Type) (P : list A -> Prop) :
  P [] -> (forall a, P [a]) -> (forall a b, P [a; b]) ->
  (forall a b c r, P r -> P (a :: b :: c :: r)) -> forall l, P l.
Proof.
  intros H0 H1 H2 H3.
  assert (H : forall l, P l /\ (forall a, P (a :: l)) /\ (forall a b, P (a :: b :: l))).
  { induction l as [|x l [IH0 [IH1 IH2]]].
    - split; [exact H0|]. split; [exact H1|exact H2].
    - split; [apply IH1|]. split; [intro a; apply IH2|]. intros a b. apply H3. exact IH0. }
  intro l. apply H.
Qed.

Lemma dec4_enc3 url a b c :
  match enc3 url a b c with
  | [c1; c2; c3; c4] => vals4 url c1 c2 c3 c4 = Some [a; b; c]
  | _ => False
  end.
Proof.
  destruct a as [a0 a1 a2 a3 a4 a5 a6 a7], b as [b0 b1 b2 b3 b4 b5 b6 b7], c as [c0 c1 c2 c3 c4 c5 c6 c7].
  unfold enc3, vals4. rewrite !b64_val_char. reflexivity.
Qed.

Lemma enc3_shape url a b c : exists c1 c2 c3 c4,
  enc3 url a b c = [c1; c2; c3; c4] /\ vals4 url c1 c2 c3 c4 = Some [a; b; c] /\ Ascii.eqb c4 padc = false.
Proof.
  destruct a as [a0 a1 a2 a3 a4 a5 a6 a7], b as [b0 b1 b2 b3 b4 b5 b6 b7], c as [c0 c1 c2 c3 c4 c5 c6 c7].
  unfold enc3. do 4 eexists. split; [reflexivity|]. split.
  - unfold vals4. rewrite !b64_val_char. reflexivity.
  - apply b64_char_not_pad.
Qed.

Lemma b64_enc_nil_inv url pad x : b64_enc url pad x = [] -> x = [].
Proof.
  destruct x as [|a [|b [|c r]]]; auto.
  - destruct a; simpl; discriminate.
  - destruct a, b; simpl; discriminate.
  - destruct a, b, c; simpl; discriminate.
Qed.

Theorem b64_roundtrip : forall url pad x, b64_dec url pad (b64_enc url pad x) = Some x.
Proof.
  intros url pad x. induction x as [|a|a b|a b c r IH] using list_ind3.
  - reflexivity.
  - destruct a as [a0 a1 a2 a3 a4 a5 a6 a7]. destruct pad; simpl.
    + unfold vals2. rewrite !b64_val_char. reflexivity.
    + unfold vals2. rewrite !b64_val_char. reflexivity.
  - destruct a as [a0 a1 a2 a3 a4 a5 a6 a7], b as [b0 b1 b2 b3 b4 b5 b6 b7]. destruct pad; simpl.
    + rewrite b64_char_not_pad. unfold vals3. rewrite !b64_val_char. reflexivity.
    + unfold vals3. rewrite !b64_val_char. reflexivity.
  - destruct (enc3_shape url a b c) as [c1 [c2 [c3 [c4 [He [Hv Hp]]]]]].
    change (b64_enc url pad (a :: b :: c :: r)) with (enc3 url a b c ++ b64_enc url pad r).
    rewrite He. simpl app.
    destruct (b64_enc url pad r) as [|y t] eqn:Er.
    + apply b64_enc_nil_inv in Er. subst r.
      simpl. rewrite Hp, Bool.andb_false_r. rewrite Hv. reflexivity.
    + change (b64_dec url pad (c1 :: c2 :: c3 :: c4 :: y :: t))
        with (match vals4 url c1 c2 c3 c4, b64_dec url pad (y :: t) with
              | Some h, Some t' => Some (h ++ t') | _, _ => None end).
      rewrite Hv, IH. reflexivity.
Qed.

Corollary base64_std_roundtrip x : b64_dec false true (b64_enc false true x) = Some x.
Proof. apply b64_roundtrip. Qed.
Corollary base64_raw_roundtrip x : b64_dec false false (b64_enc false false x) = Some x.
Proof. apply b64_roundtrip. Qed.
Corollary base64url_roundtrip x : b64_dec true true (b64_enc true true x) = Some x.
Proof. apply b64_roundtrip. Qed.
Corollary base64url_raw_roundtrip x : b64_dec true false (b64_enc true false x) = Some x.
Proof. apply b64_roundtrip. Qed.

(* ---- hex ------------------------------------------------------------------------------------------- *)
Lemma hex_val_char : forall x, hex_val (hex_char x) = Some x.
Proof. intros [[[a b] c] d]. destruct a, b, c, d; reflexivity. Qed.

Theorem hex_roundtrip : forall x, hex_dec (hex_enc x) = Some x.
Proof.
  induction x as [|[b0 b1 b2 b3 b4 b5 b6 b7] r IH]; [reflexivity|].
  simpl hex_enc.
  change (hex_dec (hex_char (b7, b6, b5, b4) :: hex_char (b3, b2, b1, b0) :: hex_enc r))
    with (match hex_val (hex_char (b7, b6, b5, b4)), hex_val (hex_char (b3, b2, b1, b0)), hex_dec (hex_enc r) with
          | Some (b7, b6, b5, b4), Some (b3, b2, b1, b0), Some t => Some (Ascii b0 b1 b2 b3 b4 b5 b6 b7 :: t)
          | _, _, _ => None end).
  rewrite !hex_val_char, IH. reflexivity.
Qed.

(* ---- decimal ---------------------------------------------------------------------------------------- *)
Lemma show_N_parse n : dec_parse_N (show_N n) = Some n.
Proof.
  unfold dec_parse_N, show_N.
  rewrite string_of_list_ascii_of_string, NilEmpty.usu. simpl.
  rewrite DecimalN.Unsigned.of_to. reflexivity.
Qed.

Lemma show_N_head_not_minus n : match show_N n with c :: _ => Ascii.eqb c "-"%char = false | [] => True end.
Proof.
  unfold show_N. destruct (N.to_uint n); simpl; auto.
Qed.

Theorem decimal_roundtrip : forall z, Z_of_dec (show_Z z) = Some z.
Proof.
  intros z. unfold Z_of_dec.
  assert (H : match show_Z z with
              | c :: t => if Ascii.eqb c "-"%char then option_map (fun n => (- Z.of_N n)%Z) (dec_parse_N t)
                          else option_map Z.of_N (dec_parse_N (show_Z z))
              | [] => None end = Some z).
  { destruct z as [|p|p].
    - reflexivity.
    - change (show_Z (Z.pos p)) with (show_N (N.pos p)).
      pose proof (show_N_head_not_minus (N.pos p)) as Hh.
      pose proof (show_N_parse (N.pos p)) as Hp.
      destruct (show_N (N.pos p)) as [|c t].
      + discriminate.
      + rewrite Hh, Hp. reflexivity.
    - change (show_Z (Z.neg p)) with ("-"%char :: show_N (N.pos p)).
      cbv beta iota. change (Ascii.eqb "-"%char "-"%char) with true. cbv iota.
      rewrite show_N_parse. reflexivity. }
  rewrite H. rewrite str_eqb_refl. reflexivity.
Qed.
