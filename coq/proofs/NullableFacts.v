(* NullableFacts.v — the nullable codec (internal/httpgen/nullable.go) in general:
   MarshalJSON = protojson output ++ one null per unset nullable field,
   UnmarshalJSON deletes exactly those nulls again; hence the round trip (C04) for every message
   whose codec is the nullable one, for all well-typed values. *)
From Sebuf Require Import CodecCases.
From SebufProofs Require Import TextFacts CodecTextFacts ProtoJsonFacts.

Open Scope Z_scope.

(* ---- raw-map facts ---------------------------------------------------------------------------------------- *)
Lemma raw_has_app k a b : raw_has k (a ++ b) = raw_has k a || raw_has k b.
Proof. unfold raw_has. apply existsb_app. Qed.

Lemma raw_del_notin k l : raw_has k l = false -> raw_del k l = l.
Proof.
  unfold raw_has, raw_del. induction l as [|e r IH]; simpl; [reflexivity|].
  intros H. apply Bool.orb_false_iff in H. destruct H as [H1 H2]. rewrite H1. simpl. rewrite (IH H2). reflexivity.
Qed.
Lemma raw_del_app k a b : raw_del k (a ++ b) = raw_del k a ++ raw_del k b.
Proof. unfold raw_del. apply filter_app. Qed.
Lemma raw_get_app_l k a b v : raw_get k a = Some v -> raw_get k (a ++ b) = Some v.
Proof.
  unfold raw_get. induction a as [|[k' v'] r IH]; simpl; [discriminate|].
  destruct (str_eqb k k'); auto.
Qed.
Lemma raw_get_app_r k a b : raw_has k a = false -> raw_get k (a ++ b) = raw_get k b.
Proof.
  unfold raw_get, raw_has. induction a as [|[k' v'] r IH]; simpl; [reflexivity|].
  intros H. apply Bool.orb_false_iff in H. destruct H as [H1 H2].
  assert (Hs : str_eqb k k' = false).
  { destruct (str_eqb k k') eqn:E; [|reflexivity]. apply str_eqb_eq in E. subst. rewrite str_eqb_refl in H1. discriminate. }
  rewrite Hs. apply IH. exact H2.
Qed.
Lemma raw_get_in k l v : raw_get k l = Some v -> In (k, v) l.
Proof.
  unfold raw_get. induction l as [|[k' v'] r IH]; simpl; [discriminate|].
  destruct (str_eqb k k') eqn:E; intros H.
  - inversion H; subst. apply str_eqb_eq in E. subst. left. reflexivity.
  - right. apply IH. exact H.
Qed.
Lemma raw_has_get k l : raw_has k l = true -> exists v, raw_get k l = Some v.
Proof.
  unfold raw_has, raw_get. induction l as [|[k' v'] r IH]; simpl; [discriminate|].
  intros H. destruct (str_eqb k k') eqn:E; [eauto|].
  assert (Hs : str_eqb k' k = false).
  { destruct (str_eqb k' k) eqn:E'; [|reflexivity]. apply str_eqb_eq in E'. subst. rewrite str_eqb_refl in E. discriminate. }
  rewrite Hs in H. simpl in H. apply IH. exact H.
Qed.
Lemma raw_has_keys k l : raw_has k l = true <-> In k (map fst l).
Proof.
  unfold raw_has. rewrite existsb_exists. split.
  - intros [e [Hin He]]. apply str_eqb_eq in He. subst. apply in_map. exact Hin.
  - intros H. apply in_map_iff in H. destruct H as [e [He Hin]]. exists e. split; [exact Hin|]. subst. apply str_eqb_refl.
Qed.

(* ---- distinct json names ------------------------------------------------------------------------------------ *)
Fixpoint nodup_str (l : list str) : bool :=
  match l with [] => true | x :: r => negb (existsb (str_eqb x) r) && nodup_str r end.

Lemma nodup_jn_inj fs a b :
  nodup_str (map jn fs) = true -> In a fs -> In b fs -> jn a = jn b -> a = b.
Proof.
  induction fs as [|g r IH]; simpl; [intros _ []|].
  intros Hn Ha Hb Heq. apply andb_prop in Hn. destruct Hn as [Hg Hr].
  assert (Hnot : forall c, In c r -> jn g <> jn c).
  { intros c Hc E. apply Bool.negb_true_iff in Hg.
    assert (existsb (str_eqb (jn g)) (map jn r) = true).
    { apply existsb_exists. exists (jn c). split; [apply in_map; exact Hc|]. rewrite E. apply str_eqb_refl. }
    congruence. }
  destruct Ha as [Ha|Ha], Hb as [Hb|Hb]; subst.
  - reflexivity.
  - exfalso. eapply Hnot; eauto.
  - exfalso. eapply Hnot; eauto.
  - apply IH; auto.
Qed.

Section Nullable.
Variable E : ExtLib.
Hypothesis EL : ExtLaws E.
Variable sc : schema.
Variable md : message.
Variable m : mval.

Definition nulls_of (f : field) : rawmap :=
  if is_nullable f then match mget m (f_name f) with None => [(jn f, JNull)] | Some _ => [] end else [].

Definition enc_step (raw : rawmap) (f : field) : rawmap :=
  if is_nullable f then match mget m (f_name f) with None => raw_set (jn f) JNull raw | Some _ => raw end else raw.
Definition dec_step (raw : rawmap) (f : field) : rawmap :=
  if is_nullable f then match raw_get (jn f) raw with Some JNull => raw_del (jn f) raw | _ => raw end else raw.

Lemma enc_nullable_fold raw : enc_nullable md m raw = fold_left enc_step (m_fields md) raw.
Proof. reflexivity. Qed.
Lemma dec_nullable_fold raw : dec_nullable md raw = fold_left dec_step (m_fields md) raw.
Proof. reflexivity. Qed.

Lemma nulls_keys fs k : raw_has k (flat_map nulls_of fs) = true -> In k (map jn fs).
Proof.
  induction fs as [|f r IH]; simpl; [discriminate|].
  rewrite raw_has_app. intros H. apply Bool.orb_true_iff in H. destruct H as [H|H].
  - left. unfold nulls_of in H. destruct (is_nullable f); [|discriminate].
    destruct (mget m (f_name f)); [discriminate|]. unfold raw_has in H. simpl in H.
    rewrite Bool.orb_false_r in H. apply str_eqb_eq in H. exact H.
  - right. apply IH. exact H.
Qed.

Lemma nodup_head_notin (x : str) l : nodup_str (x :: l) = true -> ~ In x l.
Proof.
  simpl. intros H Hin. apply andb_prop in H. destruct H as [H _]. apply Bool.negb_true_iff in H.
  assert (existsb (str_eqb x) l = true) by (apply existsb_exists; exists x; split; [exact Hin|apply str_eqb_refl]).
  congruence.
Qed.

(* MarshalJSON: the nulls are appended after the protojson entries *)
Lemma enc_append fs : forall raw,
  nodup_str (map jn fs) = true ->
  (forall f, In f fs -> nulls_of f <> [] -> raw_has (jn f) raw = false) ->
  fold_left enc_step fs raw = raw ++ flat_map nulls_of fs.
Proof.
  induction fs as [|f r IH]; intros raw Hnd Hfree; simpl.
  - rewrite app_nil_r. reflexivity.
  - assert (Hstep : enc_step raw f = raw ++ nulls_of f).
    { unfold enc_step, nulls_of. destruct (is_nullable f) eqn:En; [|rewrite app_nil_r; reflexivity].
      destruct (mget m (f_name f)) eqn:Eg; [rewrite app_nil_r; reflexivity|].
      unfold raw_set. rewrite (Hfree f (or_introl eq_refl)); [reflexivity|].
      unfold nulls_of. rewrite En, Eg. discriminate. }
    rewrite Hstep. rewrite IH.
    + rewrite <- app_assoc. reflexivity.
    + simpl in Hnd. apply andb_prop in Hnd. apply Hnd.
    + intros f' Hin Hne. rewrite raw_has_app. rewrite (Hfree f' (or_intror Hin) Hne). simpl.
      destruct (raw_has (jn f') (nulls_of f)) eqn:Eh; [|reflexivity]. exfalso.
      assert (Hk : In (jn f') (map jn [f])).
      { apply (nulls_keys [f]). simpl. rewrite app_nil_r. exact Eh. }
      simpl in Hk. destruct Hk as [Hk|[]].
      apply (nodup_head_notin (jn f) (map jn r) Hnd). rewrite Hk. apply in_map. exact Hin.
Qed.

(* UnmarshalJSON removes exactly those nulls *)
Lemma dec_remove fs : forall es,
  nodup_str (map jn fs) = true ->
  (forall f, In f fs -> nulls_of f <> [] -> raw_has (jn f) es = false) ->
  (forall f v, In f fs -> raw_get (jn f) es = Some v -> v <> JNull) ->
  fold_left dec_step fs (es ++ flat_map nulls_of fs) = es.
Proof.
  induction fs as [|f r IH]; intros es Hnd Hfree Hnn; simpl.
  - rewrite app_nil_r. reflexivity.
  - assert (Hnd' : nodup_str (map jn r) = true) by (simpl in Hnd; apply andb_prop in Hnd; apply Hnd).
    assert (Hrest : raw_has (jn f) (flat_map nulls_of r) = false).
    { destruct (raw_has (jn f) (flat_map nulls_of r)) eqn:Eh; [|reflexivity]. exfalso.
      apply (nodup_head_notin (jn f) (map jn r) Hnd). apply nulls_keys. exact Eh. }
    assert (Hstep : dec_step (es ++ nulls_of f ++ flat_map nulls_of r) f = es ++ flat_map nulls_of r).
    { unfold dec_step. destruct (is_nullable f) eqn:En.
      - destruct (mget m (f_name f)) eqn:Eg.
        + assert (Hnf : nulls_of f = []) by (unfold nulls_of; rewrite En, Eg; reflexivity).
          rewrite Hnf. simpl app.
          destruct (raw_get (jn f) (es ++ flat_map nulls_of r)) as [v|] eqn:Er; [|reflexivity].
          destruct v; try reflexivity. exfalso.
          destruct (raw_has (jn f) es) eqn:Eh.
          * destruct (raw_has_get _ _ Eh) as [v Hv]. rewrite (raw_get_app_l _ _ _ _ Hv) in Er. inversion Er; subst.
            exact (Hnn f JNull (or_introl eq_refl) Hv eq_refl).
          * rewrite (raw_get_app_r _ _ _ Eh) in Er. apply raw_get_in in Er.
            assert (raw_has (jn f) (flat_map nulls_of r) = true).
            { apply raw_has_keys. apply (in_map fst) in Er. exact Er. }
            congruence.
        + assert (Hnf : nulls_of f = [(jn f, JNull)]) by (unfold nulls_of; rewrite En, Eg; reflexivity).
          assert (Hes : raw_has (jn f) es = false).
          { apply (Hfree f (or_introl eq_refl)). rewrite Hnf. discriminate. }
          rewrite Hnf. rewrite (raw_get_app_r _ _ _ Hes). simpl app. unfold raw_get at 1. simpl assoc_json. rewrite str_eqb_refl.
          rewrite raw_del_app, (raw_del_notin _ _ Hes). f_equal.
          unfold raw_del at 1. simpl filter. rewrite str_eqb_refl. simpl.
          apply raw_del_notin. exact Hrest.
      - assert (Hnf : nulls_of f = []) by (unfold nulls_of; rewrite En; reflexivity).
        rewrite Hnf. reflexivity. }
    rewrite Hstep. apply IH; auto.
    + intros f' Hin. apply Hfree. right. exact Hin.
    + intros f' v Hin. apply Hnn. right. exact Hin.
Qed.
End Nullable.

(* ---- the codec of a nullable-owning message, unfolded ------------------------------------------------------ *)
Section Codec.
Variable E : ExtLib.
Hypothesis EL : ExtLaws E.
Variable sc : schema.

Definition kids_loop (ft : feature) (md : message) : list (str * fval) -> res kids_t :=
  fix go (m0 : list (str * fval)) : res kids_t :=
    match m0 with
    | [] => ROk []
    | (name, x) :: r =>
        match find_field (m_fields md) name with
        | None => RUnm (s "value names an undeclared field")
        | Some f =>
            if needs_gj sc ft md f
            then match gj_fval E sc (f_kind f) x with
                 | RUnm w => RUnm w
                 | rj => go r >>= (fun t => ROk ((name, rj) :: t))
                 end
            else go r
        end
    end.

Lemma gj_fval_owned tn md ft m :
  is_wkt_other tn = false -> lookup_message sc tn = Some md -> owner_of sc md = Own ft ->
  gj_fval E sc (KMessage tn) (FM m) = kids_loop ft md m >>= (fun ks => codec_body E sc ft tn md m ks).
Proof. intros H1 H2 H3. simpl. rewrite H1, H2, H3. reflexivity. Qed.

Lemma kids_nullable md m :
  forallb (fun e => match find_field (m_fields md) (fst e) with Some _ => true | None => false end) m = true ->
  kids_loop FtNullable md m = ROk [].
Proof.
  induction m as [|[name x] r IH]; simpl; [reflexivity|].
  destruct (find_field (m_fields md) name); [|discriminate]. simpl. exact IH.
Qed.

Lemma gj_un_nullable n tn md raw :
  is_wkt_other tn = false -> lookup_message sc tn = Some md -> owner_of sc md = Own FtNullable ->
  gj_un E sc (S n) (KMessage tn) (JObj raw) =
  pj_un E sc (KMessage tn) (JObj (dec_nullable md raw)) >>= (fun v => ROk (Some v)).
Proof. intros H1 H2 H3. simpl. rewrite H1, H2, H3. reflexivity. Qed.

Lemma m_msg_keys md m es : m_msg E sc md m = ROk es -> map fst es = map (fun e => json_name (fst e)) m.
Proof.
  revert es. induction m as [|[name x] r IH]; intros es H; simpl in H.
  - inversion H. reflexivity.
  - destruct (find_field (m_fields md) name); [|discriminate].
    apply rbind_ok in H. destruct H as [j [_ H]]. apply rbind_ok in H. destruct H as [t [Ht H]].
    inversion H; subst. simpl. rewrite (IH t Ht). reflexivity.
Qed.
Lemma m_msg_nonnull md m es : m_msg E sc md m = ROk es -> Forall (fun e => snd e <> JNull) es.
Proof.
  revert es. induction m as [|[name x] r IH]; intros es H; simpl in H.
  - inversion H. constructor.
  - destruct (find_field (m_fields md) name); [|discriminate].
    apply rbind_ok in H. destruct H as [j [Hj H]]. apply rbind_ok in H. destruct H as [t [Ht H]].
    inversion H; subst. constructor; [|apply IH; exact Ht]. simpl. eapply pj_not_null; eauto.
Qed.
Lemma m_msg_declared md m es : m_msg E sc md m = ROk es ->
  forallb (fun e => match find_field (m_fields md) (fst e) with Some _ => true | None => false end) m = true.
Proof.
  revert es. induction m as [|[name x] r IH]; intros es H; simpl in H; [reflexivity|].
  simpl. destruct (find_field (m_fields md) name); [|discriminate].
  apply rbind_ok in H. destruct H as [j [_ H]]. apply rbind_ok in H. destruct H as [t [Ht _]].
  simpl. eapply IH. exact Ht.
Qed.

Lemma mget_in (m : mval) name : In name (map fst m) -> mget m name <> None.
Proof.
  induction m as [|[k v] r IH]; simpl; [intros []|].
  intros [H|H].
  - subst. rewrite str_eqb_refl. discriminate.
  - destruct (str_eqb name k); [discriminate|]. apply IH. exact H.
Qed.
Lemma mget_some_in (m : mval) name v : mget m name = Some v -> In name (map fst m).
Proof.
  induction m as [|[k x] r IH]; simpl; [discriminate|].
  destruct (str_eqb name k) eqn:Eq; intros H.
  - left. apply str_eqb_eq in Eq. auto.
  - right. apply IH. exact H.
Qed.

(* C04 for the nullable codec, all values *)
Theorem nullable_roundtrip : forall tn md m j,
  str_eqb tn ts_name = false -> is_wkt_other tn = false ->
  find_message (all_messages sc) tn = Some md -> owner_of sc md = Own FtNullable ->
  nodup_str (map jn (m_fields md)) = true ->
  wt sc (KMessage tn) (FM m) = true ->
  encode E sc tn m = ROk j -> decode E sc tn j = ROk (norm sc tn m).
Proof.
  intros tn md m j Hts Hwk Hfm Hown Hnd Hwt Henc.
  assert (Hlk : lookup_message sc tn = Some md) by (unfold lookup_message; rewrite Hts; exact Hfm).
  assert (Howns : owns sc tn = true) by (unfold owns; rewrite Hlk, Hown; reflexivity).
  assert (Hnorm : norm sc tn m = m) by (unfold norm; rewrite Hlk, Hown; reflexivity).
  rewrite Hnorm. unfold encode in Henc. rewrite Howns in Henc.
  rewrite (gj_fval_owned tn md FtNullable m Hwk Hlk Hown) in Henc.
  (* the protojson base *)
  unfold codec_body in Henc.
  apply rbind_ok in Henc. destruct Henc as [ks [Hks Henc]].
  assert (Hb : buildable sc FtNullable md = true) by reflexivity. rewrite Hb in Henc. simpl negb in Henc. cbv iota in Henc.
  apply rbind_ok in Henc. destruct Henc as [raw [Hraw Henc]].
  apply rbind_ok in Hraw. destruct Hraw as [j0 [Hpj Hobj]].
  pose proof Hpj as Hpj'. unfold pj_marshal in Hpj'. rewrite pj_fval_FM, Hts, Hwk, Hfm in Hpj'.
  apply rbind_ok in Hpj'. destruct Hpj' as [es [Hes Hj0]]. inversion Hj0; subst j0.
  simpl in Hobj. inversion Hobj; subst raw. inversion Henc; subst j. clear Hobj Henc Hj0.
  (* shape of the output *)
  pose proof (m_msg_keys md m es Hes) as Hkeys.
  pose proof (m_msg_nonnull md m es Hes) as Hnn.
  pose proof (m_msg_declared md m es Hes) as Hdecl.
  assert (Hfree : forall f, In f (m_fields md) -> nulls_of m f <> [] -> raw_has (jn f) es = false).
  { intros f Hin Hne. destruct (raw_has (jn f) es) eqn:Eh; [|reflexivity]. exfalso.
    apply raw_has_keys in Eh. rewrite Hkeys in Eh. apply in_map_iff in Eh. destruct Eh as [[name x] [Hn Hinm]]. simpl in Hn.
    rewrite forallb_forall in Hdecl. specialize (Hdecl _ Hinm). simpl in Hdecl.
    destruct (find_field (m_fields md) name) as [g|] eqn:Eg; [|discriminate].
    destruct (find_field_spec _ _ _ Eg) as [Hing Hname].
    assert (g = f). { eapply nodup_jn_inj; eauto. unfold jn. rewrite Hname. exact Hn. }
    subst g. unfold nulls_of in Hne. destruct (is_nullable f); [|apply Hne; reflexivity].
    destruct (mget m (f_name f)) eqn:Em; [apply Hne; reflexivity|].
    apply (mget_in m (f_name f)); [|exact Em]. rewrite Hname. apply (in_map fst) in Hinm. exact Hinm. }
  assert (Hval : forall f v, In f (m_fields md) -> raw_get (jn f) es = Some v -> v <> JNull).
  { intros f v _ Hg. apply raw_get_in in Hg. rewrite Forall_forall in Hnn. apply (Hnn _ Hg). }
  rewrite enc_nullable_fold, (enc_append m (m_fields md) es Hnd Hfree).
  (* decoding *)
  unfold decode. rewrite Howns.
  cbv beta iota. rewrite (gj_un_nullable _ tn md _ Hwk Hlk Hown).
  rewrite dec_nullable_fold, (dec_remove m (m_fields md) es Hnd Hfree Hval).
  assert (Hrt : pj_un E sc (KMessage tn) (JObj es) = ROk (FM m)).
  { apply (Q_of_PP E sc _ (pj_roundtrip_fval E EL sc (FM m)) (KMessage tn) (JObj es) Hwt).
    rewrite pj_fval_FM, Hts, Hwk, Hfm, Hes. reflexivity. }
  rewrite Hrt. reflexivity.
Qed.
End Codec.
Close Scope Z_scope.
