(* EmitFacts.v — facts about the build model (Emit.v) used by props/C13.v *)
From Sebuf Require Import Text Json Schema Emit.
From SebufProofs Require Import TextFacts.

(* ================================================================================================ *)
(* 1. the string theorem: snakeToUpperCamel vs protobuf-go's GoCamelCase                             *)
(* ================================================================================================ *)

Lemma upper_first_snoc l c : l <> [] -> upper_first (l ++ [c]) = upper_first l ++ [c].
Proof. destruct l; [congruence|reflexivity]. Qed.

(* snakeToUpperCamel, for EVERY byte string, is "drop the underscores, upper-case what follows one
   (and the first byte)" *)
Lemma split_concat_char acc x :
  List.concat (map upper_first (split_on_aux underscore acc x)) =
  match acc with
  | [] => json_name_aux true x
  | _ => upper_first (rev acc) ++ json_name_aux false x
  end.
Proof.
  revert acc; induction x as [|c r IH]; intros acc.
  - cbn. destruct acc; cbn; [reflexivity|]. now rewrite app_nil_r.
  - cbn [split_on_aux json_name_aux]. destruct (Ascii.eqb c underscore) eqn:E.
    + cbn [map List.concat]. rewrite (IH []). destruct acc; reflexivity.
    + rewrite (IH (c :: acc)). cbn [rev].
      destruct acc as [|a acc'].
      * reflexivity.
      * rewrite upper_first_snoc.
        -- now rewrite <- app_assoc.
        -- cbn. destruct (rev acc'); discriminate.
Qed.

Theorem snake_to_upper_camel_char : forall x, snake_to_upper_camel x = json_name_aux true x.
Proof. intros x. unfold snake_to_upper_camel, split_on. apply (split_concat_char [] x). Qed.

Lemma lower_not c : is_lower c = true ->
  Ascii.eqb c dot = false /\ Ascii.eqb c underscore = false /\ is_digit c = false.
Proof.
  intros H. repeat split.
  - destruct (Ascii.eqb c dot) eqn:E; [|reflexivity]. apply Ascii.eqb_eq in E. subst. discriminate.
  - destruct (Ascii.eqb c underscore) eqn:E; [|reflexivity]. apply Ascii.eqb_eq in E. subst. discriminate.
  - unfold is_lower, is_digit in *. apply andb_true_iff in H as [H1 H2].
    apply N.leb_le in H1. apply andb_false_iff. right. apply N.leb_gt. lia.
Qed.

Lemma underscore_facts : Ascii.eqb underscore dot = false /\ is_lower underscore = false.
Proof. split; reflexivity. Qed.

Lemma go_camel_plain : forall x,
  (plain_snake_aux true x = true -> forall st, go_camel_aux false st x = json_name_aux true x) /\
  (plain_snake_aux false x = true -> go_camel_aux true false x = json_name_aux false x).
Proof.
  induction x as [|c r [IH1 IH2]]; split.
  - cbn. discriminate.
  - reflexivity.
  - cbn [plain_snake_aux]. destruct (Ascii.eqb c underscore) eqn:E; [cbn; discriminate|].
    intros H st. apply andb_true_iff in H as [Hl Hr].
    destruct (lower_not c Hl) as (Hd & _ & Hg).
    cbn [go_camel_aux json_name_aux]. rewrite E, Hd, Hg. cbn [andb].
    now rewrite (IH2 Hr).
  - cbn [plain_snake_aux]. destruct (Ascii.eqb c underscore) eqn:E.
    + apply Ascii.eqb_eq in E. subst c. cbn [negb andb]. intros H.
      cbn [go_camel_aux json_name_aux].
      assert (Hn : match r with d :: _ => is_lower d | [] => false end = true).
      { destruct r as [|d r']; [cbn in H; discriminate|]. cbn [plain_snake_aux] in H.
        destruct (Ascii.eqb d underscore); [cbn in H; discriminate|]. now apply andb_true_iff in H as [H _]. }
      rewrite Hn. cbn. now apply IH1.
    + intros H. apply andb_true_iff in H as [Hl Hr].
      cbn [go_camel_aux json_name_aux]. rewrite Hl, E. cbn [andb]. now rewrite (IH2 Hr).
Qed.

(* for proto field names of the shape [a-z]+(_[a-z]+)* the identifier the client prints
   (clientgen snakeToUpperCamel) is the identifier protoc-gen-go declares (GoCamelCase) *)
Theorem snake_upper_camel_eq_go_camel : forall x,
  plain_snake x = true -> snake_to_upper_camel x = go_camel x.
Proof.
  intros x H. rewrite snake_to_upper_camel_char. unfold go_camel, plain_snake in *.
  destruct x; [discriminate|]. symmetry. now apply (proj1 (go_camel_plain _)).
Qed.

(* ... and outside that shape they differ: a digit after an underscore, a letter after a digit,
   a doubled underscore *)
Example snake_ne_go_camel_digit_word : snake_to_upper_camel (s "field_1") = s "Field1" /\ go_camel (s "field_1") = s "Field_1".
Proof. split; reflexivity. Qed.
Example snake_ne_go_camel_letter_after_digit : snake_to_upper_camel (s "a1b") = s "A1b" /\ go_camel (s "a1b") = s "A1B".
Proof. split; reflexivity. Qed.
Example snake_ne_go_camel_double_underscore : snake_to_upper_camel (s "x__y") = s "XY" /\ go_camel (s "x__y") = s "X_Y".
Proof. split; reflexivity. Qed.
Example snake_ne_go_camel_trailing_underscore : snake_to_upper_camel (s "tail_") = s "Tail" /\ go_camel (s "tail_") = s "Tail_".
Proof. split; reflexivity. Qed.

(* protogen's uniquing leaves a name alone exactly when neither it nor its getter is taken *)
Lemma make_unique_free fuel u n g :
  used_get u n = false -> (g = true -> used_get u (s "Get" ++ n) = false) ->
  fst (make_unique (S fuel) u n g) = n.
Proof.
  intros H1 H2. cbn [make_unique]. rewrite H1. destruct g; cbn [orb andb]; [rewrite (H2 eq_refl)|]; reflexivity.
Qed.
Example uniquing_renames_reserved :
  go_field_names [ {| f_name := s "string"; f_number := 1; f_kind := KString; f_card := Singular; f_oneof := None; f_query := None;
                      f_unwrap := false; f_int64 := None; f_enumenc := None; f_nullable := None; f_empty := None; f_tsfmt := None;
                      f_bytesenc := None; f_oneof_value := None; f_flatten := None; f_flatten_prefix := None |} ] = [s "String_"].
Proof. reflexivity. Qed.

(* ================================================================================================ *)
(* 2. list plumbing                                                                                  *)
(* ================================================================================================ *)

Lemma all_ok_app a b : all_ok (a ++ b) = all_ok a && all_ok b.
Proof. unfold all_ok. apply forallb_app. Qed.

Lemma all_ok_flat_map {A} (g : A -> list check) l :
  all_ok (flat_map g l) = forallb (fun x => all_ok (g x)) l.
Proof. induction l; cbn; [reflexivity|]. now rewrite all_ok_app, IHl. Qed.

Lemma all_ok_filter P l : all_ok l = true -> all_ok (filter P l) = true.
Proof.
  unfold all_ok. intros H. apply forallb_forall. intros x Hx. apply filter_In in Hx as [Hx _].
  now apply (proj1 (forallb_forall _ _) H).
Qed.

Lemma flat_map_nil {A B} (f : A -> list B) l : flat_map f l = [] -> forall x, In x l -> f x = [].
Proof.
  induction l; cbn; intros H x Hx; [contradiction|].
  apply app_eq_nil in H as [H1 H2]. destruct Hx as [->|Hx]; auto.
Qed.

Lemma dedup_nil l : dedup l = [] -> l = [].
Proof.
  induction l as [|x r IH]; [reflexivity|]. cbn. destruct (mem_str x r) eqn:E; [|discriminate].
  intros H. specialize (IH H). subst r. cbn in E. discriminate.
Qed.

Lemma tag_if_nil b t : tag_if b t = [] -> b = false.
Proof. destruct b; cbn; [discriminate|reflexivity]. Qed.

Lemma existsb_false {A} (P : A -> bool) l : existsb P l = false -> forall x, In x l -> P x = false.
Proof.
  intros H x Hx. destruct (P x) eqn:E; [|reflexivity].
  assert (existsb P l = true) by (apply existsb_exists; eauto). congruence.
Qed.

Lemma forallb_in {A} (P : A -> bool) l : (forall x, In x l -> P x = true) -> forallb P l = true.
Proof. intros H. now apply forallb_forall. Qed.

Lemma find_in {A} (P : A -> bool) l x : find P l = Some x -> In x l /\ P x = true.
Proof. apply find_some. Qed.

Lemma nodup_const (c : str) {A} (l : list A) :
  Nat.ltb 1 (List.length l) = false -> nodup_strb (map (fun _ => c) l) = true.
Proof. destruct l as [|a [|b l]]; cbn; try reflexivity. discriminate. Qed.

(* ================================================================================================ *)
(* 3. per-emitter lemmas: the schema-shape conditions imply the typing obligations                   *)
(* ================================================================================================ *)

Ltac shape f :=
  unfold all_ok, expr_check, go_field_type, is_singular_plain, is_list, is_optional, is_map, in_real_oneof,
         is_msg_kind, is_int64_kind, is_timestamp, str_key in *;
  repeat match goal with [ H : _ = _ |- _ ] => revert H end;
  destruct (f_card f) as [| | |kk]; destruct (f_kind f); destruct (f_oneof f);
  cbn; intros; try discriminate; try reflexivity; auto.

Lemma andb_false_l_true a b : a && b = false -> a = true -> b = false.
Proof. now intros H ->. Qed.

Lemma int64_field_ok f :
  f_int64num f && is_optional f = false -> f_int64num f && in_real_oneof f = false ->
  all_ok (int64_checks f) = true.
Proof.
  unfold int64_checks. destruct (f_int64num f) eqn:E; [|reflexivity]. cbn [andb]. intros Ho Hn.
  unfold f_int64num in E. apply andb_true_iff in E as [E _]. apply andb_true_iff in E as [Em Ek].
  shape f.
Qed.

Lemma nullable_field_ok f : field_accepted f = true -> all_ok (nullable_checks f) = true.
Proof.
  unfold nullable_checks, field_accepted. destruct (f_nullable_on f); [|reflexivity]. cbn [negb orb].
  intros H. repeat (apply andb_true_iff in H as [H ?]). shape f.
Qed.

Lemma empty_field_ok f :
  field_accepted f = true -> f_empty_on f && in_real_oneof f = false -> all_ok (empty_checks f) = true.
Proof.
  unfold empty_checks, field_accepted. destruct (f_empty_on f); [|reflexivity]. cbn [negb orb andb].
  intros H Hn. apply andb_true_iff in H as [H _]. apply andb_true_iff in H as [H _]. apply andb_true_iff in H as [_ H].
  shape f.
Qed.

Lemma ts_field_ok f :
  f_tsfmt_on f && is_list f = false -> f_tsfmt_on f && in_real_oneof f = false -> all_ok (ts_checks f) = true.
Proof.
  unfold ts_checks. destruct (f_tsfmt_on f) eqn:E; [|reflexivity]. cbn [andb]. intros Hl Hn.
  unfold f_tsfmt_on in E. apply andb_true_iff in E as [E _]. apply andb_true_iff in E as [Em Ek].
  shape f; now rewrite Ek.
Qed.

Lemma bytes_field_ok f :
  f_bytesenc_on f && is_list f = false -> f_bytesenc_on f && in_real_oneof f = false -> all_ok (bytes_checks f) = true.
Proof.
  unfold bytes_checks. destruct (f_bytesenc_on f) eqn:E; [|reflexivity]. cbn [andb]. intros Hl Hn.
  unfold f_bytesenc_on in E. apply andb_true_iff in E as [E _]. apply andb_true_iff in E as [Em Ek].
  shape f.
Qed.

Lemma flatten_field_ok sc fl f :
  field_accepted f = true -> f_flatten_on f && foreign_msg sc fl (f_kind f) = false ->
  all_ok (flatten_checks sc fl f) = true.
Proof.
  unfold flatten_checks, field_accepted. destruct (f_flatten_on f); [|reflexivity]. cbn [negb orb andb].
  intros H Hf. apply andb_true_iff in H as [H _]. apply andb_true_iff in H as [_ H].
  unfold foreign_msg in Hf. shape f. rewrite andb_true_r. now apply negb_false_iff.
Qed.

(* scalar sibling of an unwrap map: getZeroValueCheck's expression fits a plain singular field of every kind *)
Lemma zero_check_plain f :
  f_card f = Singular -> f_oneof f = None -> is_msg_kind (f_kind f) = false ->
  ck_ok (expr_check (zero_check_req (f_kind f)) f) = true.
Proof. intros Hc Ho Hk. unfold expr_check, go_field_type. rewrite Hc, Ho. destruct (f_kind f); cbn in *; try reflexivity; discriminate. Qed.

Lemma container_field_ok sc fl f :
  in_real_oneof f = false ->
  plain_unwrap_map sc f && negb (str_key f) = false ->
  match unwrap_map_field sc f with Some u => negb (is_list u) | None => false end = false ->
  is_optional f && match f_kind f with KBytes | KMessage _ => false | _ => true end = false ->
  negb (plain_unwrap_map sc f) && negb (is_map f) && negb (is_list f) && foreign_msg sc fl (f_kind f) = false ->
  all_ok (container_field_checks sc fl f) = true.
Proof.
  intros Ho Hk Hu Hopt Hf. unfold container_field_checks, plain_unwrap_map in *.
  destruct (unwrap_map_field sc f) as [u|] eqn:Eu.
  - cbn [negb andb] in Hk. apply negb_false_iff in Hk. apply negb_false_iff in Hu.
    unfold all_ok. cbn [forallb ck_ok mk]. rewrite Hu.
    unfold str_key in Hk. unfold expr_check, go_field_type.
    destruct (f_card f) as [| | |kk]; try discriminate. destruct kk; try discriminate. reflexivity.
  - cbn [negb andb] in Hf.
    destruct (is_map f) eqn:Em; [clear Hf; shape f|].
    destruct (is_list f) eqn:El; [clear Hf; shape f|]. cbn [negb andb] in Hf.
    destruct (is_msg_kind (f_kind f)) eqn:Emk.
    + destruct (f_kind f) eqn:Ekd; try discriminate.
      unfold foreign_msg in Hf. apply negb_false_iff in Hf.
      unfold all_ok. cbn [forallb ck_ok mk]. rewrite Hf.
      unfold expr_check, go_field_type, in_real_oneof, is_list, is_map in *. rewrite Ekd.
      destruct (f_card f); try discriminate; destruct (f_oneof f); try discriminate; reflexivity.
    + assert (Hz : ck_ok (expr_check (zero_check_req (f_kind f)) f) = true).
      { unfold in_real_oneof, is_optional, is_list, is_map in *.
        destruct (f_card f) eqn:Ec; try discriminate.
        - apply zero_check_plain; [assumption| destruct (f_oneof f); [discriminate|reflexivity] | assumption].
        - unfold expr_check, go_field_type. rewrite Ec.
          destruct (f_kind f); cbn in *; try discriminate; reflexivity. }
      destruct (f_kind f) eqn:Ekd; try discriminate; unfold all_ok; cbn [forallb]; now rewrite Hz.
Qed.

(* ================================================================================================ *)
(* 4. message, file, package                                                                         *)
(* ================================================================================================ *)

Ltac split_tags H :=
  repeat match type of H with
         | _ ++ _ = [] => let H1 := fresh "T" in apply app_eq_nil in H as [H1 H]; try apply tag_if_nil in H1
         end; try apply tag_if_nil in H.

Lemma all_ok_cons c l : all_ok (c :: l) = ck_ok c && all_ok l.
Proof. reflexivity. Qed.

Lemma feature_ok sc fl m ft :
  msg_accepted m = true -> feature_tags sc fl m ft = [] -> all_ok (feature_checks sc fl m ft) = true.
Proof.
  intros Hacc Ht. unfold msg_accepted in Hacc.
  apply andb_true_iff in Hacc as [Hacc Huw]. apply andb_true_iff in Hacc as [Hfa _].
  assert (Hfield : forall f, In f (m_fields m) -> field_accepted f = true)
    by (intros f Hf; now apply (proj1 (forallb_forall _ _) Hfa)).
  destruct ft; cbn [feature_tags feature_checks] in *.
  - split_tags Ht. rewrite all_ok_flat_map. apply forallb_in. intros f Hf.
    apply int64_field_ok; [now apply (existsb_false _ _ T)|now apply (existsb_false _ _ Ht)].
  - rewrite all_ok_flat_map. apply forallb_in. intros f Hf. apply nullable_field_ok; auto.
  - split_tags Ht. rewrite all_ok_flat_map. apply forallb_in. intros f Hf.
    apply empty_field_ok; [auto|now apply (existsb_false _ _ Ht)].
  - split_tags Ht. rewrite all_ok_flat_map. apply forallb_in. intros f Hf.
    apply ts_field_ok; [now apply (existsb_false _ _ T)|now apply (existsb_false _ _ Ht)].
  - split_tags Ht. rewrite all_ok_flat_map. apply forallb_in. intros f Hf.
    apply bytes_field_ok; [now apply (existsb_false _ _ T)|now apply (existsb_false _ _ Ht)].
  - split_tags Ht. rewrite all_ok_flat_map. apply forallb_in. intros f Hf.
    apply flatten_field_ok; [auto|now apply (existsb_false _ _ Ht)].
  - split_tags Ht. rewrite all_ok_flat_map. apply forallb_in. intros o Ho.
    pose proof (existsb_false _ _ T o Ho) as Hdup. cbn beta in Hdup. apply negb_false_iff in Hdup.
    pose proof (existsb_false _ _ Ht o Ho) as Hfor. cbn beta in Hfor.
    unfold oneof_checks. rewrite !all_ok_cons. cbn [ck_ok mk mkvet]. rewrite Hdup.
    change (printf_ok (s "invalid discriminator %q: %w") 2) with true. cbn [andb].
    rewrite all_ok_flat_map. apply forallb_in. intros f Hf.
    pose proof (existsb_false _ _ Hfor f Hf) as Hff. cbn beta in Hff.
    destruct (f_kind f) eqn:Ek; try reflexivity.
    unfold foreign_msg in Hff. apply negb_false_iff in Hff.
    unfold all_ok. cbn [forallb ck_ok mk mkvet]. rewrite Hff. reflexivity.
  - unfold unwrap_checks. destruct (is_root_unwrap m) eqn:Er.
    + destruct (unwrap_field m) as [f|] eqn:Ef; [|reflexivity].
      split_tags Ht. unfold unwrap_field in Ef. apply find_in in Ef as [Hin Hun].
      specialize (Hfield f Hin). unfold field_accepted in Hfield.
      apply andb_true_iff in Hfield as [_ Hfield]. rewrite Hun in Hfield. cbn [negb orb] in Hfield.
      unfold root_unwrap_checks. destruct (is_map f) eqn:Em.
      * cbn [andb] in *. rewrite all_ok_app. apply andb_true_iff. split.
        -- destruct (is_msg_kind (f_kind f)) eqn:Ek.
           ++ cbn [andb] in T. apply negb_false_iff in T. unfold str_key in T.
              unfold all_ok, expr_check, go_field_type. cbn [forallb]. rewrite andb_true_r.
              destruct (f_card f) as [| | |kk]; try discriminate. destruct kk; try discriminate. reflexivity.
           ++ clear T Ht. shape f.
        -- destruct (value_msg sc f) as [v|]; [|reflexivity].
           destruct (unwrap_field v) as [u|]; [|reflexivity].
           apply negb_false_iff in Ht. unfold all_ok. cbn [forallb ck_ok mk]. now rewrite Ht.
      * rewrite orb_false_r in Hfield. clear T Ht. shape f.
    + destruct (is_unwrap_container sc m) eqn:Ec; [|reflexivity].
      split_tags Ht. rewrite all_ok_flat_map. apply forallb_in. intros f Hf.
      apply container_field_ok.
      * now apply (existsb_false _ _ T).
      * now apply (existsb_false _ _ T0).
      * now apply (existsb_false _ _ T1).
      * now apply (existsb_false _ _ T2).
      * now apply (existsb_false _ _ Ht).
Qed.

Lemma msg_ok p sc fl m :
  msg_accepted m = true -> msg_tags p sc fl m = [] -> all_ok (msg_checks p sc fl m) = true.
Proof.
  intros Hacc Ht. unfold msg_tags in Ht. apply app_eq_nil in Ht as [Hdup Hfe]. apply tag_if_nil in Hdup.
  apply app_eq_nil in Hfe as [Hcl Hfe]. apply tag_if_nil in Hcl.
  unfold msg_checks. rewrite !all_ok_cons. apply andb_true_iff. split; [|apply andb_true_iff; split].
  - cbn [ck_ok mk]. unfold marshal_methods. now apply nodup_const.
  - cbn [ck_ok mk]. now rewrite Hcl.
  - rewrite all_ok_flat_map. apply forallb_in. intros ft Hft.
    pose proof (flat_map_nil _ _ Hfe ft Hft) as Hn. cbn beta in Hn.
    destruct (plugin_emits p fl ft); [now apply feature_ok|reflexivity].
Qed.

Lemma enum_ok p fl e : enum_tags p fl e = [] -> all_ok (enum_checks p fl e) = true.
Proof.
  unfold enum_tags, enum_checks. intros H. apply tag_if_nil in H.
  destruct (enum_has_custom e && match p with PHttp => true | PClient => has_services fl end); [|reflexivity].
  cbn [andb] in H. apply negb_false_iff in H. unfold all_ok. cbn [forallb ck_ok mk]. now rewrite H.
Qed.

Lemma client_query_ok f : client_query_tags f = [] -> all_ok (client_query_checks f) = true.
Proof.
  unfold client_query_tags, client_query_checks. intros H. split_tags H.
  apply orb_false_iff in T as [Tm Tk]. rewrite Tm in *. cbn [negb andb] in H.
  apply negb_false_iff in Tk. rewrite Tk in H. cbn [andb] in H. apply negb_false_iff in H.
  unfold url_scalar in Tk. clear Tm. shape f.
Qed.

Lemma client_path_ok m p : client_path_tags m p = [] -> all_ok (client_path_checks m p) = true.
Proof.
  unfold client_path_tags, client_path_checks. intros H. split_tags H.
  destruct (mem_str (snake_to_upper_camel p) (struct_fields m)); [reflexivity|].
  destruct (mem_str (snake_to_upper_camel p) (msg_methods m)); discriminate.
Qed.

Lemma client_method_ok sc md : client_method_tags sc md = [] -> all_ok (client_method_checks sc md) = true.
Proof.
  unfold client_method_tags, client_method_checks. destruct (input_msg sc md) as [m|]; [|reflexivity].
  intros H. apply app_eq_nil in H as [H1 H2]. rewrite all_ok_app. apply andb_true_iff. split.
  - rewrite all_ok_flat_map. apply forallb_in. intros p Hp. apply client_path_ok. now apply (flat_map_nil _ _ H1).
  - destruct (has_body md); [reflexivity|]. rewrite all_ok_flat_map. apply forallb_in. intros f Hf.
    apply client_query_ok. now apply (flat_map_nil _ _ H2).
Qed.

Lemma file_ok p sc fl :
  forallb msg_accepted (fl_messages fl) = true -> file_tags p sc fl = [] -> all_ok (file_checks p sc fl) = true.
Proof.
  intros Hacc Ht. unfold file_tags in Ht. unfold file_checks.
  apply app_eq_nil in Ht as [Hm Ht]. apply app_eq_nil in Ht as [He Ht]. apply app_eq_nil in Ht as [Hp Hi].
  apply tag_if_nil in Hi. apply negb_false_iff in Hi.
  repeat rewrite all_ok_app. repeat (apply andb_true_iff; split).
  - rewrite all_ok_flat_map. apply forallb_in. intros m Hin. apply msg_ok.
    + now apply (proj1 (forallb_forall _ _) Hacc).
    + now apply (flat_map_nil _ _ Hm).
  - rewrite all_ok_flat_map. apply forallb_in. intros e Hin. apply enum_ok. now apply (flat_map_nil _ _ He).
  - destruct p.
    + apply app_eq_nil in Hp as [Hp1 Hp2]. apply app_eq_nil in Hp2 as [Hp2 Hp3].
      apply tag_if_nil in Hp2. apply negb_false_iff in Hp2. apply tag_if_nil in Hp3.
      rewrite !all_ok_app. apply andb_true_iff. split; [|apply andb_true_iff; split].
      * rewrite all_ok_flat_map. apply forallb_in. intros m Hin.
        pose proof (flat_map_nil _ _ Hp1 m Hin) as Hn. cbn beta in Hn. apply tag_if_nil in Hn.
        unfold error_impl_checks. destruct (is_error_msg m); [|reflexivity].
        cbn [andb] in Hn. unfold all_ok. cbn [forallb ck_ok mk]. now rewrite Hn.
      * unfold all_ok. cbn [forallb ck_ok mk]. now rewrite Hp2.
      * rewrite all_ok_flat_map. apply forallb_in. intros sv Hsv.
        pose proof (existsb_false _ _ Hp3 sv Hsv) as Hg. cbn beta in Hg.
        unfold service_checks, all_ok. cbn [forallb ck_ok mk]. now rewrite Hg.
    + rewrite all_ok_flat_map. apply forallb_in. intros md Hin. apply client_method_ok. now apply (flat_map_nil _ _ Hp).
  - unfold all_ok. cbn [forallb ck_ok mk]. now rewrite Hi.
  - reflexivity.
Qed.

Lemma decl_ok ps sc : decl_tags ps sc = [] -> nodup_strb (pkg_decls ps sc) = true.
Proof.
  unfold decl_tags. destruct (nodup_strb (pkg_decls ps sc)); [reflexivity|]. intros H. exfalso.
  repeat match type of H with context [tag_if ?b _] => destruct b; cbn in H; try discriminate end.
Qed.

Lemma gen_files_in sc fl : In fl (gen_files sc) -> In fl sc.
Proof. unfold gen_files. intros H. now apply filter_In in H as [H _]. Qed.

Theorem all_checks_ok sc ps :
  accepted sc = true -> go_tags ps sc = [] -> all_ok (pkg_checks ps sc) = true.
Proof.
  intros Hacc Ht. unfold go_tags in Ht. apply app_eq_nil in Ht as [Hd Hf].
  unfold pkg_checks. rewrite all_ok_cons. apply andb_true_iff. split.
  - cbn [ck_ok mk]. now apply decl_ok.
  - rewrite all_ok_flat_map. apply forallb_in. intros p Hp.
    rewrite all_ok_flat_map. apply forallb_in. intros fl Hfl.
    apply file_ok.
    + unfold accepted in Hacc. pose proof (proj1 (forallb_forall _ _) Hacc fl (gen_files_in _ _ Hfl)) as H.
      now apply andb_true_iff in H as [H _].
    + pose proof (flat_map_nil _ _ Hf p Hp) as Hn. cbn beta in Hn. now apply (flat_map_nil _ _ Hn).
Qed.

Theorem go_builds_and_vets sc ps :
  accepted sc = true -> defects_go sc ps = [] -> go_builds sc ps = true /\ go_vets sc ps = true.
Proof.
  intros Hacc Hd. apply dedup_nil in Hd. pose proof (all_checks_ok sc ps Hacc Hd) as H.
  assert (Hb : go_builds sc ps = true) by (unfold go_builds, build_checks; now apply all_ok_filter).
  split; [exact Hb|]. unfold go_vets. rewrite Hb. cbn [andb]. unfold vet_checks. now apply all_ok_filter.
Qed.

(* after cbe68e9 no route handler of the TS server declares a const twice, whatever the verb, the
   path variables, the query parameters and the headers ... *)
Theorem ts_route_never_redeclares sc sv md : nodup_strb (ts_route_consts sc sv md) = true.
Proof.
  unfold ts_route_consts.
  destruct (sv_headers sv ++ md_headers md); destruct (path_params md); destruct (has_body md);
    destruct (input_msg sc md) as [m|]; try destruct (query_fields_of m); reflexivity.
Qed.

(* ... and the query parser, which reads url.searchParams, always has `url` in scope: declared by the
   path extraction when the route has path variables, by itself otherwise *)
Theorem ts_query_parser_has_url sc sv md :
  mem_str (s "params") (ts_route_consts sc sv md) = true -> mem_str (s "url") (ts_route_consts sc sv md) = true.
Proof.
  unfold ts_route_consts.
  destruct (sv_headers sv ++ md_headers md); destruct (path_params md); destruct (has_body md);
    destruct (input_msg sc md) as [m|]; try destruct (query_fields_of m); cbn; intros H; try discriminate; reflexivity.
Qed.

Theorem ts_routes_ok_always sc fl : ts_routes_ok sc fl = true.
Proof.
  unfold ts_routes_ok. apply forallb_in. intros sv _. apply forallb_in. intros md _. apply ts_route_never_redeclares.
Qed.

(* so the TS server module loads exactly when the annotation texts it prints as bare property names
   (discriminators, flatten_prefix ++ child name) are identifier names *)
Theorem ts_server_loads_iff_types sc fl : ts_server_loads sc fl = ts_types_ok sc fl.
Proof. unfold ts_server_loads. now rewrite ts_routes_ok_always. Qed.

(* an identifier-like prefix keeps every child name an identifier; a prefix that is not one breaks all of them *)
Lemma ts_prop_ok_app p n :
  ts_prop_ok p = true -> forallb ts_prop_char n = true -> ts_prop_ok (p ++ n) = true.
Proof.
  destruct p as [|c r]; [discriminate|]. cbn [ts_prop_ok app]. intros H Hn.
  apply andb_true_iff in H as [Hd Hall]. rewrite Hd. cbn [andb].
  change (c :: r ++ n) with ((c :: r) ++ n). rewrite forallb_app, Hall, Hn. reflexivity.
Qed.
Lemma ts_prop_bad_prefix p n :
  p <> [] -> ts_prop_ok p = false -> ts_prop_ok (p ++ n) = false.
Proof.
  destruct p as [|c r]; [congruence|]. intros _. cbn [ts_prop_ok app]. intros H.
  apply andb_false_iff in H as [H|H]; [now rewrite H|].
  change (c :: r ++ n) with ((c :: r) ++ n). rewrite forallb_app, H. cbn [andb]. apply andb_false_r.
Qed.

Lemma ts_client_consts_nodup sc md : nodup_strb (ts_client_consts sc md) = true.
Proof.
  unfold ts_client_consts. destruct (has_body md); [reflexivity|]. destruct (input_msg sc md) as [m|]; [|reflexivity].
  destruct (query_fields_of m); reflexivity.
Qed.

(* what is left on the TS side is name-driven: a method called Constructor, a header whose property
   name is not an identifier, an annotation text printed as a bare property name *)
Theorem ts_loads_of_tags sc : ts_tags sc = [] -> ts_loads sc = true.
Proof.
  unfold ts_tags. intros H. apply app_eq_nil in H as [H1 H2]. apply app_eq_nil in H2 as [H2 H3].
  apply tag_if_nil in H1. apply tag_if_nil in H2. apply tag_if_nil in H3.
  unfold ts_loads. apply forallb_in. intros fl Hfl.
  pose proof (existsb_false _ _ H3 fl Hfl) as Ety. cbn beta in Ety. apply negb_false_iff in Ety.
  rewrite ts_server_loads_iff_types, Ety. cbn [andb].
  unfold ts_client_loads. rewrite Ety, andb_true_r. apply andb_true_iff. split.
  - apply forallb_in. intros md Hmd. rewrite ts_client_consts_nodup. cbn [andb].
    pose proof (existsb_false _ _ H1 fl Hfl) as E. cbn beta in E.
    pose proof (existsb_false _ _ E md Hmd) as E2. cbn beta in E2. now apply negb_false_iff in E2.
  - apply forallb_in. intros sv Hsv. apply forallb_in. intros h Hh.
    pose proof (existsb_false _ _ H2 fl Hfl) as E. cbn beta in E.
    pose proof (existsb_false _ _ E sv Hsv) as E2. cbn beta in E2.
    pose proof (existsb_false _ _ E2 h Hh) as E3. cbn beta in E3. now apply negb_false_iff in E3.
Qed.

Theorem C13_builds_lemma : forall sc, accepted sc = true -> defects_C13 sc = [] ->
  (forall ps, go_builds sc ps = true /\ go_vets sc ps = true) /\ ts_loads sc = true.
Proof.
  intros sc Hacc Hd. unfold defects_C13 in Hd. apply dedup_nil in Hd.
  apply app_eq_nil in Hd as [H1 Hd]. apply app_eq_nil in Hd as [H2 Hd]. apply app_eq_nil in Hd as [H3 H4].
  split.
  - intros ps. apply go_builds_and_vets; [assumption|]. unfold defects_go.
    destruct ps; [rewrite H1|rewrite H2|rewrite H3]; reflexivity.
  - now apply ts_loads_of_tags.
Qed.

(* ================================================================================================ *)
(* 5. witnesses                                                                                      *)
(* ================================================================================================ *)

Local Open Scope string_scope.
Inductive ann := AI64 | ANull | AEmpty | ATs | ABytes | AFlat | AUnwrap | AQuery | AVal (v : string).
Definition ann_is (a b : ann) : bool :=
  match a, b with
  | AI64, AI64 | ANull, ANull | AEmpty, AEmpty | ATs, ATs | ABytes, ABytes | AFlat, AFlat | AUnwrap, AUnwrap | AQuery, AQuery => true
  | _, _ => false
  end.
Definition has (a : ann) (l : list ann) : bool := existsb (ann_is a) l.
Definition fld (name : string) (k : kind) (c : card) (o : option string) (l : list ann) : field :=
  {| f_name := s name; f_number := 1; f_kind := k; f_card := c;
     f_oneof := match o with Some x => Some (s x) | None => None end;
     f_query := if has AQuery l then Some {| q_name := s name; q_required := false |} else None;
     f_unwrap := has AUnwrap l;
     f_int64 := if has AI64 l then Some I64Number else None; f_enumenc := None;
     f_nullable := if has ANull l then Some true else None;
     f_empty := if has AEmpty l then Some EBNull else None;
     f_tsfmt := if has ATs l then Some TFUnixMillis else None;
     f_bytesenc := if has ABytes l then Some BEHex else None;
     f_oneof_value := (fix go l := match l with AVal v :: _ => Some (s v) | _ :: r => go r | [] => None end) l;
     f_flatten := if has AFlat l then Some true else None; f_flatten_prefix := None |}.
Definition msg (name : string) (fs : list field) (os : list oneof) : message :=
  {| m_name := s ("p.v1." ++ name); m_path := [s name]; m_fields := fs; m_oneofs := os |}.
Definition plain_oneof (n : string) : oneof := {| o_name := s n; o_has_cfg := false; o_discriminator := []; o_flatten := false |}.
Definition disc_oneof (n d : string) : oneof := {| o_name := s n; o_has_cfg := true; o_discriminator := s d; o_flatten := false |}.
Definition rpc (name inp out : string) (verb : nat) (path : string) (hs : list string) : method :=
  {| md_name := s name; md_in := s ("p.v1." ++ inp); md_out := s ("p.v1." ++ out); md_has_cfg := true;
     md_path := s path; md_verb := Some verb;
     md_headers := map (fun h => {| h_name := s h; h_type := s "string"; h_required := false; h_format := [] |}) hs |}.
Definition svc (name : string) (hs : list string) (ms : list method) : service :=
  {| sv_name := s name; sv_base := s "/b";
     sv_headers := map (fun h => {| h_name := s h; h_type := s "string"; h_required := false; h_format := [] |}) hs;
     sv_methods := ms |}.
Definition file_of (path : string) (ms : list message) (es : list enum) (ss : list service) : file :=
  {| fl_path := s path; fl_package := s "p.v1"; fl_gopkg := s "p"; fl_generate := true;
     fl_messages := ms; fl_enums := es; fl_services := ss |}.
Definition echo (t : string) : service := svc "Echo" [] [rpc "Do" t t 2 "/do" []].
Definition one (ms : list message) : schema := [file_of "a.proto" ms [] [echo "A"]].
Definition ts_kind := KMessage (s "google.protobuf.Timestamp").
Definition M n := KMessage (s ("p.v1." ++ n)).

(* a schema inside Good: nested message, repeated, map, plain oneof, optional, every feature on the
   placement it supports, header helpers, GET with path variable, DELETE with query parameters *)
Definition good_schema : schema :=
  [file_of "a.proto"
    [msg "Inner" [fld "a" KString Singular None []; fld "big" KInt64 Singular None [AI64]] [];
     msg "A" [fld "id" KString Singular None []; fld "inner" (M "Inner") Singular None [];
              fld "items" (M "Inner") Repeated None []; fld "by_key" (M "Inner") (MapOf KString) None [];
              fld "c_a" KString Singular (Some "c") []; fld "c_b" (M "Inner") Singular (Some "c") [];
              fld "nick" KString Optional None []] [plain_oneof "c"];
     msg "Nums" [fld "xs" KInt64 Repeated None [AI64]; fld "u" KFixed64 Singular None [AI64]] [];
     msg "Nul" [fld "nick" KString Optional None [ANull]; fld "raw" KBytes Optional None [ANull]] [];
     msg "Emp" [fld "m" (M "Inner") Singular None [AEmpty]] [];
     msg "Tim" [fld "at" ts_kind Singular None [ATs]; fld "maybe" ts_kind Optional None [ATs]] [];
     msg "Blob" [fld "h" KBytes Singular None [ABytes]; fld "o" KBytes Optional None [ABytes]] [];
     msg "Flat" [fld "id" KString Singular None []; fld "inner" (M "Inner") Singular None [AFlat]] [];
     msg "BarList" [fld "bars" (M "Inner") Repeated None [AUnwrap]; fld "n" KInt32 Singular None []] [];
     msg "Series" [fld "by_sym" (M "BarList") (MapOf KString) None []; fld "label" KString Singular None [];
                   fld "one" (M "Inner") Singular None []; fld "raw" KBytes Optional None []] [];
     msg "Ev" [fld "id" KString Singular None []; fld "text" (M "Inner") Singular (Some "payload") []; fld "note" KString Singular (Some "payload") [AVal "n"]]
              [disc_oneof "payload" "type"];
     msg "GetReq" [fld "user_id" KString Singular None []; fld "page" KInt32 Singular None [AQuery]] [];
     msg "DelReq" [fld "q" KString Singular None [AQuery]; fld "n" KSint64 Singular None [AQuery]; fld "b" KBool Singular None [AQuery]] []]
    []
    [svc "Users" ["X-API-Key"] [rpc "Get" "GetReq" "A" 1 "/u/{user_id}" ["X-Request-ID"];
                                rpc "Drop" "DelReq" "Series" 4 "/u" [];
                                rpc "Put" "Flat" "Tim" 3 "/f" ["X-API-Key"; "X-Request-ID"];
                                rpc "Post" "Ev" "Ev" 2 "/e" []]]].

Lemma good_schema_builds :
  accepted good_schema = true /\ defects_C13 good_schema = [] /\
  go_builds good_schema Both = true /\ go_vets good_schema OnlyHttp = true /\ ts_loads good_schema = true.
Proof. vm_compute. repeat split; reflexivity. Qed.

(* one witness per defect class: accepted, classified, and the model's verdict is "does not build"
   (or "does not vet" / "does not load") *)
Definition refuted (sc : schema) (tags : list string) (ps : subset) (classes : list string) : Prop :=
  accepted sc = true /\ defects_C13 sc = map s tags /\ go_vets sc ps = false /\ failing_classes sc ps = map s classes.

Ltac refute := unfold refuted; vm_compute; repeat split; reflexivity.

Lemma w_int64_optional : refuted (one [msg "A" [fld "x" KInt64 Optional None [AI64]] []]) ["int64-number-on-optional"] OnlyHttp ["type"].
Proof. refute. Qed.
Lemma w_oneof_member : refuted (one [msg "A" [fld "n" KInt64 Singular (Some "c") [AI64]; fld "t" KString Singular (Some "c") []] [plain_oneof "c"]])
  ["annotated-oneof-member"] OnlyClient ["selector"].
Proof. refute. Qed.
Lemma w_ts_repeated : refuted (one [msg "A" [fld "xs" ts_kind Repeated None [ATs]] []]) ["timestamp-format-on-repeated"] Both ["selector"].
Proof. refute. Qed.
Lemma w_bytes_repeated : refuted (one [msg "A" [fld "xs" KBytes Repeated None [ABytes]] []]) ["bytes-encoding-on-repeated"] OnlyHttp ["type"].
Proof. refute. Qed.
Lemma w_two_features : refuted (one [msg "A" [fld "big" KInt64 Singular None [AI64]; fld "nick" KString Optional None [ANull]] []])
  ["two-marshaljson-features"] OnlyHttp ["redeclared"].
Proof. refute. Qed.
Lemma w_flatten_plus_empty : refuted (one [msg "Addr" [fld "street" KString Singular None []] [];
                                          msg "A" [fld "home" (M "Addr") Singular None [AFlat; AEmpty]] []])
  ["two-marshaljson-features"] OnlyClient ["redeclared"].
Proof. refute. Qed.
(* repaired by ffb4b75 (%w): a message with a discriminated oneof builds AND vets, for every plugin subset *)
Definition disc_schema : schema :=
  one [msg "T" [fld "body" KString Singular None []] [];
       msg "A" [fld "id" KString Singular None []; fld "text" (M "T") Singular (Some "p") []; fld "note" KString Singular (Some "p") [AVal "n"]]
               [disc_oneof "p" "kind"]].
Lemma discriminated_oneof_vets :
  accepted disc_schema = true /\ defects_C13 disc_schema = [] /\ go_vets disc_schema OnlyHttp = true /\ go_vets disc_schema OnlyClient = true /\ go_vets disc_schema Both = true.
Proof. vm_compute. repeat split; reflexivity. Qed.
Lemma w_dup_discriminator : refuted (one [msg "T" [fld "body" KString Singular None []] [];
                               msg "A" [fld "text" (M "T") Singular (Some "p") [AVal "image"]; fld "image" (M "T") Singular (Some "p") []] [disc_oneof "p" "kind"]])
  ["oneof-duplicate-discriminator-value"] OnlyHttp ["duplicate"].
Proof. refute. Qed.
Lemma w_foreign_flatten : refuted (one [msg "A" [fld "id" KString Singular None []; fld "at" ts_kind Singular None [AFlat]] []])
  ["unqualified-foreign-type"] OnlyHttp ["undefined"].
Proof. refute. Qed.
Definition bars := [msg "Bar" [fld "t" KInt64 Singular None []] []; msg "BarList" [fld "bars" (M "Bar") Repeated None [AUnwrap]; fld "n" KInt32 Singular None []] []].
Lemma w_unwrap_oneof : refuted (one (List.app bars [msg "A" [fld "series" (M "BarList") (MapOf KString) None []; fld "a" KString Singular (Some "c") []] [plain_oneof "c"]]))
  ["unwrap-container-with-oneof"] OnlyHttp ["selector"].
Proof. refute. Qed.
Lemma w_unwrap_key : refuted (one (List.app bars [msg "A" [fld "series" (M "BarList") (MapOf KInt32) None []] []]))
  ["unwrap-non-string-key"] OnlyHttp ["type"].
Proof. refute. Qed.
Lemma w_unwrap_optional : refuted (one (List.app bars [msg "A" [fld "series" (M "BarList") (MapOf KString) None []; fld "label" KString Optional None []] []]))
  ["unwrap-container-optional-scalar"] Both ["type"].
Proof. refute. Qed.
Lemma w_unwrap_foreign : refuted (one (List.app bars [msg "A" [fld "series" (M "BarList") (MapOf KString) None []; fld "at" ts_kind Singular None []] []]))
  ["unqualified-foreign-type"] OnlyHttp ["undefined"].
Proof. refute. Qed.
Lemma w_unwrap_of_map : refuted (one [msg "Bar" [fld "t" KInt64 Singular None []] []; msg "RootMap" [fld "by" (M "Bar") (MapOf KString) None [AUnwrap]] [];
                                     msg "A" [fld "series" (M "RootMap") (MapOf KString) None []] []])
  ["unwrap-of-map-unwrap"] OnlyHttp ["type"].
Proof. refute. Qed.
Lemma w_unwrap_protojson : refuted (one [msg "A" [fld "vals" KString Repeated None [AUnwrap]] []])
  ["unwrap-file-unused-protojson"] OnlyHttp ["unused"].
Proof. refute. Qed.
Lemma w_unwrap_only_http_fails :
  let sc := one (List.app bars [msg "A" [fld "series" (M "BarList") (MapOf KInt32) None []] []]) in
  go_builds sc OnlyHttp = false /\ go_vets sc OnlyClient = true.
Proof. vm_compute. split; reflexivity. Qed.
Definition enum_dup : enum := {| e_name := s "p.v1.St"; e_values := [ {| ev_name := s "ST_A"; ev_number := 0; ev_custom := None |};
   {| ev_name := s "ST_ON"; ev_number := 1; ev_custom := Some (s "ST_OFF") |}; {| ev_name := s "ST_OFF"; ev_number := 2; ev_custom := None |} ] |}.
Lemma w_enum_dup : refuted [file_of "a.proto" [msg "A" [fld "st" (KEnum (s "p.v1.St")) Singular None []] []] [enum_dup] [echo "A"]]
  ["enum-fromjson-duplicate-key"] OnlyHttp ["duplicate"].
Proof. refute. Qed.
Lemma w_error_field : refuted (one [msg "A" [fld "id" KString Singular None []] []; msg "ApiError" [fld "error" KString Singular None []] []])
  ["error-message-with-error-field"] OnlyHttp ["redeclared"].
Proof. refute. Qed.
Definition get_schema (req : message) (path : string) : schema :=
  [file_of "a.proto" [req; msg "R" [fld "ok" KBool Singular None []] []] [] [svc "S" [] [rpc "Get" "Q" "R" 1 path []]]].
Lemma w_path_ident : refuted (get_schema (msg "Q" [fld "field_1" KString Singular None []] []) "/x/{field_1}")
  ["client-path-ident-mismatch"] OnlyClient ["selector"].
Proof. refute. Qed.
Lemma w_path_method : refuted (get_schema (msg "Q" [fld "string" KString Singular None []] []) "/x/{string}")
  ["client-path-ident-is-method"] OnlyClient ["vet-printf"].
Proof. refute. Qed.
Lemma w_query_optional : refuted (get_schema (msg "Q" [fld "v" KString Optional None [AQuery]] []) "/x")
  ["client-query-on-non-singular"] OnlyClient ["type"].
Proof. refute. Qed.
Lemma w_query_bytes : refuted (get_schema (msg "Q" [fld "v" KBytes Singular None [AQuery]] []) "/x")
  ["client-query-on-enum-bytes-message"] Both ["type"].
Proof. refute. Qed.
Definition hdr_schema (sh m1 m2 : list string) : schema :=
  [file_of "a.proto" [msg "P" [fld "m" KString Singular None []] []] []
     [svc "Echo" sh [rpc "One" "P" "P" 2 "/one" m1; rpc "Two" "P" "P" 3 "/two" m2]]].
(* repaired by e425100: a header declared by the service and by methods, by two methods, or two
   headers with one helper name (X-Trace / Trace) get ONE helper; the package builds *)
Lemma header_declared_twice_builds :
  let sc := hdr_schema ["X-Trace"; "X-Tenant"] ["X-Tenant"; "Trace"] ["X-Tenant"; "X-Req"] in
  accepted sc = true /\ defects_C13 sc = [] /\ go_vets sc OnlyClient = true /\ go_vets sc Both = true /\
  client_decls (hd (file_of "" [] [] []) sc) =
    map s ["<client_constants>"; "ContentTypeJSON"; "ContentTypeProto"; "EchoClient"; "echoClient"; "EchoClientOption"; "WithEchoHTTPClient"; "WithEchoContentType";
           "WithEchoDefaultHeader"; "EchoCallOption"; "echoCallOptions"; "WithEchoHeader"; "WithEchoCallContentType"; "NewEchoClient";
           "WithEchoTrace"; "WithEchoTenant"; "WithEchoCallTrace"; "WithEchoCallTenant"; "WithEchoCallReq"].
Proof. vm_compute. repeat split; reflexivity. Qed.
(* still possible: a service header whose helper name starts with "Call" against a method header *)
Lemma w_header_call_prefix : refuted (hdr_schema ["X-CallTrace"] ["X-Trace"] []) ["package-declaration-clash"] OnlyClient ["redeclared"].
Proof. refute. Qed.
Lemma w_header_builtin : refuted (hdr_schema ["Content-Type"] [] []) ["package-declaration-clash"] OnlyClient ["redeclared"].
Proof. refute. Qed.
Lemma w_same_method : refuted [file_of "a.proto" [msg "P" [fld "m" KString Singular None []] []] []
     [svc "Alpha" [] [rpc "Get" "P" "P" 2 "/g" []]; svc "Beta" [] [rpc "Get" "P" "P" 2 "/g" []]]]
  ["same-method-name-two-services"] OnlyHttp ["redeclared"].
Proof. refute. Qed.
Lemma w_service_like_method : refuted [file_of "a.proto" [msg "P" [fld "m" KString Singular None []] []] [] [svc "Ping" [] [rpc "Ping" "P" "P" 2 "/g" []]]]
  ["service-named-like-method"] OnlyHttp ["redeclared"].
Proof. refute. Qed.
Lemma w_two_files : refuted [file_of "a.proto" [msg "P" [fld "m" KString Singular None []] []] [] [svc "Alpha" [] [rpc "GetA" "P" "P" 2 "/g" []]];
                             file_of "b.proto" [] [] [svc "Beta" [] [rpc "GetB" "P" "P" 2 "/g" []]]]
  ["two-service-files-one-package"] OnlyClient ["redeclared"].
Proof. refute. Qed.
Lemma w_no_methods : refuted [file_of "a.proto" [msg "P" [fld "m" KString Singular None []] []] [] [svc "Idle" [] []]]
  ["service-without-methods"] OnlyHttp ["unused"].
Proof. refute. Qed.
(* repaired by cbe68e9: GET with a path variable and a query parameter; `url` is declared once *)
Lemma ts_get_with_path_and_query_loads :
  let sc := get_schema (msg "Q" [fld "id" KString Singular None []; fld "v" KString Singular None [AQuery]] []) "/x/{id}" in
  accepted sc = true /\ defects_C13 sc = [] /\ ts_loads sc = true /\ go_vets sc Both = true /\
  ts_route_consts sc (svc "S" [] []) (rpc "Get" "Q" "R" 1 "/x/{id}" []) =
    map s ["pathParams"; "url"; "pathSegments"; "params"; "body"; "ctx"; "result"].
Proof. vm_compute. repeat split; reflexivity. Qed.

(* ---- hostile identifiers: proto names that are reserved words, predeclared identifiers, locals of
        the emitted functions or names the generators declare themselves ---------------------------- *)
Definition verbs_schema (names : list string) : schema :=
  [file_of "a.proto" [msg "P" [fld "m" KString Singular None []] []] []
     [svc "Verbs" [] (map (fun n => rpc n "P" "P" 2 (String "/"%char n) []) names)]].

(* harmless on this tree: field / path / query names go through req.<X> (Go: capitalised, TS: property
   access), method names become class members and capitalised Go methods *)
Definition hostile_harmless : schema :=
  [file_of "a.proto"
     [msg "R" [fld "ok" KBool Singular None []] [];
      msg "Q1" [fld "package" KString Singular None []; fld "class" KString Singular None [AQuery]; fld "path" KString Singular None [AQuery];
                fld "url" KInt32 Singular None [AQuery]; fld "type" KString Singular None [AQuery]; fld "func" KBool Singular None [AQuery];
                fld "err" KString Singular None [AQuery]; fld "req" KString Singular None [AQuery]; fld "default" KString Singular None [AQuery]] [];
      msg "Q2" [fld "path" KString Singular None []; fld "new" KString Singular None []] [];
      msg "Enc" [fld "range" KInt64 Singular None [AI64]; fld "select" KInt64 Optional None []; fld "x" KInt64 Singular None [AI64]; fld "raw" KInt64 Singular None [AI64];
                 fld "data" KInt64 Repeated None [AI64]; fld "len" KString Singular None []; fld "nil" KString Singular None []] []]
     []
     [svc "Http" ["X-Type"; "X-Default"; "constructor"]
        [rpc "Delete" "Q1" "R" 4 "/a/{package}" []; rpc "New" "Q2" "R" 1 "/b/{path}/{new}" ["X-Class"]; rpc "Default" "Enc" "Enc" 2 "/c" [];
         rpc "Function" "Enc" "R" 3 "/d" []; rpc "Generic" "Enc" "R" 5 "/e" []]]].
Lemma hostile_harmless_builds :
  accepted hostile_harmless = true /\ defects_C13 hostile_harmless = [] /\
  go_vets hostile_harmless OnlyHttp = true /\ go_vets hostile_harmless OnlyClient = true /\ go_vets hostile_harmless Both = true /\
  ts_loads hostile_harmless = true.
Proof. vm_compute. repeat split; reflexivity. Qed.

Lemma w_ts_constructor :
  let sc := verbs_schema ["Get"; "Constructor"] in
  accepted sc = true /\ defects_C13 sc = [s "ts-client-method-named-constructor"] /\ ts_loads sc = false /\
  ts_server_loads sc (hd (file_of "" [] [] []) sc) = true /\ go_vets sc Both = true.
Proof. vm_compute. repeat split; reflexivity. Qed.
Lemma w_ts_header_prop :
  let sc := hdr_schema [] ["X-1st"] [] in
  accepted sc = true /\ defects_C13 sc = [s "ts-client-header-property-not-identifier"] /\ ts_loads sc = false /\ go_vets sc Both = true.
Proof. vm_compute. repeat split; reflexivity. Qed.
(* annotation texts printed as bare TS property names: a discriminator "@type", a flatten prefix "home-" *)
Definition ts_disc_schema (d : string) : schema :=
  one [msg "T" [fld "body" KString Singular None []] [];
       msg "A" [fld "id" KString Singular None []; fld "text" (M "T") Singular (Some "p") []; fld "note" KString Singular (Some "p") []]
               [disc_oneof "p" d]].
Definition with_prefix (p : string) (f : field) : field :=
  {| f_name := f_name f; f_number := f_number f; f_kind := f_kind f; f_card := f_card f; f_oneof := f_oneof f; f_query := f_query f;
     f_unwrap := f_unwrap f; f_int64 := f_int64 f; f_enumenc := f_enumenc f; f_nullable := f_nullable f; f_empty := f_empty f;
     f_tsfmt := f_tsfmt f; f_bytesenc := f_bytesenc f; f_oneof_value := f_oneof_value f; f_flatten := f_flatten f;
     f_flatten_prefix := Some (s p) |}.
Definition ts_prefix_schema (p : string) : schema :=
  one [msg "Addr" [fld "street" KString Singular None []; fld "zip_code" KString Singular None []] [];
       msg "A" [fld "id" KString Singular None []; with_prefix p (fld "home" (M "Addr") Singular None [AFlat])] []].
Lemma w_ts_discriminator_prop :
  let sc := ts_disc_schema "@type" in
  accepted sc = true /\ defects_C13 sc = [s "ts-property-name-not-identifier"] /\ ts_loads sc = false /\
  ts_server_loads sc (hd (file_of "" [] [] []) sc) = false /\ go_vets sc Both = true.
Proof. vm_compute. repeat split; reflexivity. Qed.
Lemma w_ts_prefix_prop :
  let sc := ts_prefix_schema "home-" in
  accepted sc = true /\ defects_C13 sc = [s "ts-property-name-not-identifier"] /\ ts_loads sc = false /\ go_vets sc Both = true.
Proof. vm_compute. repeat split; reflexivity. Qed.
Lemma ts_identifier_texts_load :
  (let sc := ts_disc_schema "$kind_of" in accepted sc = true /\ defects_C13 sc = [] /\ ts_loads sc = true) /\
  (let sc := ts_prefix_schema "home_" in accepted sc = true /\ defects_C13 sc = [] /\ ts_loads sc = true) /\
  (* a message no RPC reaches is not printed: its texts do not matter *)
  (let sc := [file_of "a.proto" [msg "T" [fld "body" KString Singular None []] [];
                                  msg "Unused" [fld "text" (M "T") Singular (Some "p") []] [disc_oneof "p" "@type"];
                                  msg "A" [fld "id" KString Singular None []] []] [] [echo "A"]] in
   accepted sc = true /\ defects_C13 sc = [] /\ ts_loads sc = true).
Proof. vm_compute. repeat split; reflexivity. Qed.
Lemma w_method_generic : refuted (verbs_schema ["Generic"; "Other"]) ["method-named-generic"] OnlyHttp ["type"].
Proof. refute. Qed.
Lemma method_generic_last_builds :
  let sc := verbs_schema ["Other"; "Generic"] in defects_C13 sc = [] /\ go_vets sc Both = true.
Proof. vm_compute. split; reflexivity. Qed.
Lemma w_method_bind : refuted (verbs_schema ["Bind"]) ["package-declaration-clash"] OnlyHttp ["redeclared"].
Proof. refute. Qed.
Lemma w_message_named_like_helper :
  refuted [file_of "a.proto" [msg "ServerOption" [fld "m" KString Singular None []] []; msg "A" [fld "m" KString Singular None []] []] [] [echo "A"]]
          ["package-declaration-clash"] OnlyHttp ["redeclared"].
Proof. refute. Qed.
Lemma w_field_named_marshaljson :
  refuted (one [msg "A" [fld "marshal_j_s_o_n" KString Singular None []; fld "big" KInt64 Singular None [AI64]] []])
          ["field-named-like-codec-method"] OnlyClient ["redeclared"].
Proof. refute. Qed.

(* ================================================================================================ *)
(* several annotated things of one kind in one scope                                                 *)
(* ================================================================================================ *)

(* The emitters print one block per discriminated oneof / annotated field into ONE MarshalJSON and one
   UnmarshalJSON body of the message.  In the model no obligation couples two such blocks: a message
   with k discriminated oneofs meets its obligations iff each of them does alone, and it declares
   ONE MarshalJSON for them however many there are. *)
Lemma forallb_all_ok_flat_map {A} (g : A -> list check) l :
  all_ok (flat_map g l) = forallb (fun x => all_ok (g x)) l.
Proof. induction l as [|x r IH]; simpl; [reflexivity|]. rewrite all_ok_app, IH. reflexivity. Qed.

Theorem discriminated_oneofs_independent sc fl m :
  all_ok (feature_checks sc fl m FOneof) = forallb (fun o => all_ok (oneof_checks sc fl m o)) (disc_oneofs m).
Proof. unfold feature_checks. apply forallb_all_ok_flat_map. Qed.

Lemma count_occ_filter_feature (P : feature -> bool) (ft : feature) (l : list feature)
      (dec : forall a b : feature, {a = b} + {a <> b}) :
  count_occ dec (filter P l) ft <= count_occ dec l ft.
Proof.
  induction l as [|x r IH]; simpl; [lia|].
  destruct (P x); simpl; destruct (dec x ft); lia.
Qed.

Definition feature_dec : forall a b : feature, {a = b} + {a <> b}.
Proof. decide equality. Defined.

(* each feature contributes at most one MarshalJSON to a message, whatever the number of annotated
   oneofs / fields of that feature *)
Theorem one_marshaljson_per_feature p sc fl m ft :
  count_occ feature_dec (emitted_features p sc fl m) ft <= 1.
Proof.
  unfold emitted_features.
  eapply Nat.le_trans; [apply count_occ_filter_feature|].
  destruct ft; vm_compute; lia.
Qed.

(* hence a message whose only codec feature is the discriminated oneof declares exactly one method,
   for any number k >= 1 of annotated oneofs *)
Theorem only_oneofs_one_method p sc fl m :
  emitted_features p sc fl m = [FOneof] -> marshal_methods p sc fl m = [s "MarshalJSON"] /\ nodup_strb (marshal_methods p sc fl m) = true.
Proof. unfold marshal_methods. intros ->. split; reflexivity. Qed.

Definition flat_oneof (n d : string) : oneof := {| o_name := s n; o_has_cfg := true; o_discriminator := s d; o_flatten := true |}.
(* k = 2 and k = 3 discriminated oneofs in one message (flattened and not), the same variant types and
   discriminator values in two of them, next to a plain oneof: accepted, no defect, builds and vets for
   every plugin subset *)
Definition multi_oneof_schema : schema :=
  one [msg "Va" [fld "va_text" KString Singular None []] []; msg "Vb" [fld "vb_text" KString Singular None []] [];
       msg "Vc" [fld "vc_text" KString Singular None []] [];
       msg "A" [fld "id" KString Singular None [];
                fld "shape_a" (M "Va") Singular (Some "shape") []; fld "shape_b" (M "Vb") Singular (Some "shape") [AVal "second"]; fld "shape_s" KString Singular (Some "shape") [];
                fld "paint_a" (M "Va") Singular (Some "paint") []; fld "paint_b" (M "Vb") Singular (Some "paint") [AVal "second"];
                fld "p_a" KString Singular (Some "plain") []; fld "p_b" KInt32 Singular (Some "plain") []]
               [disc_oneof "shape" "shapeKind"; disc_oneof "paint" "paintKind"; plain_oneof "plain"];
       msg "B" [fld "id" KString Singular None [];
                fld "x_a" (M "Va") Singular (Some "x") []; fld "y_a" (M "Vb") Singular (Some "y") []; fld "z_a" (M "Vc") Singular (Some "z") []; fld "z_s" KBool Singular (Some "z") []]
               [flat_oneof "x" "xKind"; disc_oneof "y" "yKind"; flat_oneof "z" "zKind"]].
Lemma multi_oneof_vets :
  accepted multi_oneof_schema = true /\ defects_C13 multi_oneof_schema = [] /\
  go_vets multi_oneof_schema OnlyHttp = true /\ go_vets multi_oneof_schema OnlyClient = true /\ go_vets multi_oneof_schema Both = true /\
  ts_loads multi_oneof_schema = true.
Proof. vm_compute. repeat split; reflexivity. Qed.

(* several services in one file.  Distinct rpc names, shared request / response messages, the same
   header names at service and method level, several methods of one service with the same messages:
   everything builds, vets and loads *)
Definition shared_services (users orders : list string) : schema :=
  [file_of "a.proto" [msg "Q" [fld "id" KString Singular None []; fld "page" KInt32 Singular None [AQuery]] []; msg "Item" [fld "id" KString Singular None []] []] []
     [svc "UserService" ["X-API-Key"; "X-Trace-ID"]
          [rpc (nth 0 users "") "Q" "Item" 1 "/u/{id}" ["X-Request-ID"]; rpc (nth 1 users "") "Q" "Item" 1 "/f/{id}" ["X-Request-ID"]; rpc (nth 2 users "") "Item" "Item" 3 "/p" ["X-Request-ID"; "X-Trace-ID"]];
      svc "OrderService" ["X-API-Key"; "X-Trace-ID"]
          [rpc (nth 0 orders "") "Q" "Item" 1 "/o/{id}" ["X-Request-ID"]; rpc (nth 1 orders "") "Item" "Item" 3 "/p" ["X-Request-ID"; "X-Trace-ID"]]]].
Lemma shared_services_build :
  let sc := shared_services ["GetUser"; "FindUser"; "PutUser"] ["GetOrder"; "PutOrder"] in
  accepted sc = true /\ defects_C13 sc = [] /\ go_vets sc OnlyHttp = true /\ go_vets sc OnlyClient = true /\ go_vets sc Both = true /\ ts_loads sc = true.
Proof. vm_compute. repeat split; reflexivity. Qed.
(* the same with equal rpc names in both services: the Go server's package-level get<Method>Headers /
   <method>PathParams / <method>QueryParams clash (the known class), and NOTHING else does: the Go client
   builds and vets, both TypeScript modules load *)
Lemma same_rpc_names_only_go_server_clashes :
  let sc := shared_services ["Get"; "Find"; "Put"] ["Get"; "Put"] in
  accepted sc = true /\ defects_C13 sc = [s "same-method-name-two-services"] /\
  go_vets sc OnlyHttp = false /\ failing_classes sc OnlyHttp = [s "redeclared"] /\
  go_vets sc OnlyClient = true /\ ts_loads sc = true.
Proof. vm_compute. repeat split; reflexivity. Qed.
