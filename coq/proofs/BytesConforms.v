(* C05_conforms for the bytes_encoding codec: a top-level message whose only annotations are
   bytes_encoding on (singular / optional, non-map) bytes fields, with un-annotated children: the server's
   JSON IS the documented mapping.  Side conditions that cannot be dropped are refuted at the end. *)
From Sebuf Require Import CodecCases.
From SebufProofs Require Import TextFacts CodecTextFacts ProtoJsonFacts NullableFacts.
From SebufProofs Require Import MappingFacts NullableConforms BytesFacts CodecExamples.
From Coq Require Import Lia ZArith.

Open Scope Z_scope.

(* no annotation other than bytes_encoding, and bytes_encoding only where the generator accepts it
   (annotations.ValidateBytesEncodingAnnotation: the descriptor kind must be bytes, which excludes
   map<_, bytes> whose descriptor kind is message) *)
Definition bytesplain_field (f : field) : bool :=
  negb (f_unwrap f) && is_none (f_int64 f) && is_none (f_enumenc f) && is_none (f_nullable f) && is_none (f_empty f) &&
  is_none (f_tsfmt f) && is_none (f_oneof_value f) && is_none (f_flatten f) && is_none (f_flatten_prefix f) &&
  (is_none (f_bytesenc f) || (kind_eqb (f_kind f) KBytes && negb (is_map f))).
Definition bytesplain_msg (md : message) : bool :=
  forallb bytesplain_field (m_fields md) && forallb (fun o => negb (o_has_cfg o)) (m_oneofs md).

(* the value: children of un-annotated fields are un-annotated; an annotated field holds a byte string *)
Definition bytes_value_ok (sc : schema) (md : message) (e : str * fval) : bool :=
  match find_field (m_fields md) (fst e) with
  | Some f => if is_none (f_bytesenc f) then plain_in sc (f_kind f) (snd e)
              else match snd e with FS (VBytes _) => true | _ => false end
  | None => false
  end.

Lemma bytesplain_facts f : bytesplain_field f = true ->
  f_unwrap f = false /\ f_int64 f = None /\ f_enumenc f = None /\ f_nullable f = None /\ f_empty f = None /\
  f_tsfmt f = None /\ f_flatten f = None /\
  (f_bytesenc f = None \/ (f_kind f = KBytes /\ is_map f = false)).
Proof.
  unfold bytesplain_field. intros H. repeat (apply andb_prop in H; destruct H as [H ?]).
  apply Bool.negb_true_iff in H.
  repeat match goal with
         | Hx : is_none ?o = true |- _ => destruct o; [discriminate Hx|clear Hx]
         end.
  repeat split; auto.
  match goal with Hx : (_ || _) = true |- _ => rename Hx into Hor end.
  apply Bool.orb_true_iff in Hor. destruct Hor as [Hor|Hor].
  - left. destruct (f_bytesenc f); [discriminate|reflexivity].
  - right. apply andb_prop in Hor. destruct Hor as [Hk Hm]. apply Bool.negb_true_iff in Hm. split; [|exact Hm].
    destruct (f_kind f); try discriminate. reflexivity.
Qed.

Section Conforms.
Variable E : ExtLib.
Variable sc : schema.

Lemma bytesenc_of_none f : f_bytesenc f = None -> bytesenc_of f = None.
Proof. intros H. unfold bytesenc_of. rewrite H. destruct (f_kind f); try reflexivity. destruct (is_map f); reflexivity. Qed.

(* Spec on an annotated bytes field = protojson's text re-written by the annotation *)
Lemma spec_bytes_scalar f b :
  f_kind f = KBytes -> is_map f = false ->
  mp_scalar E sc (Some f) KBytes (VBytes b) =
  ROk (match bytesenc_of f with Some e => JStr (bytes_enc_text e b) | None => JStr (b64_enc false true b) end).
Proof.
  intros Hk Hm. unfold bytesenc_of, mp_scalar. rewrite Hk, Hm.
  destruct (f_bytesenc f) as [[| | | | |]|]; reflexivity.
Qed.

Lemma bytesplain_no_unwrap md : bytesplain_msg md = true -> mp_root_unwrap md = None.
Proof.
  intros Hmd. unfold bytesplain_msg in Hmd. apply andb_prop in Hmd. destruct Hmd as [Hf _].
  rewrite forallb_forall in Hf. unfold mp_root_unwrap, mp_unwrap_field.
  assert (Hnil : filter (fun f => f_unwrap f) (m_fields md) = []).
  { induction (m_fields md) as [|a r IH]; [reflexivity|]. cbn [filter].
    destruct (bytesplain_facts a (Hf a (or_introl eq_refl))) as [Hu _]. rewrite Hu. apply IH.
    intros f Hin. apply Hf. right. exact Hin. }
  rewrite Hnil. destruct (m_fields md) as [|? [|? ?]]; reflexivity.
Qed.

Lemma bytesplain_no_nulls md (m : mval) : bytesplain_msg md = true ->
  flat_map (fun f => match f_nullable f, mget m (f_name f) with
                     | Some true, None => [(json_name (f_name f), JNull)]
                     | _, _ => []
                     end) (m_fields md) = [].
Proof.
  intros Hmd. unfold bytesplain_msg in Hmd. apply andb_prop in Hmd. destruct Hmd as [Hf _].
  rewrite forallb_forall in Hf.
  induction (m_fields md) as [|a r IH]; [reflexivity|]. cbn [flat_map].
  destruct (bytesplain_facts a (Hf a (or_introl eq_refl))) as [_ [_ [_ [Hn _]]]]. rewrite Hn. cbn [app].
  apply IH. intros f Hin. apply Hf. right. exact Hin.
Qed.

(* Spec, entry by entry: protojson's entries re-written by [Genc] *)
Lemma mp_msg_bytes md (m : mval) :
  nodup_str (map jn (m_fields md)) = true -> bytesplain_msg md = true ->
  forall r,
  (forall name x, In (name, x) r -> mget m name = Some x) ->
  forallb (bytes_value_ok sc md) r = true ->
  mp_msg E sc md r =
  m_msg E sc md r >>= (fun es => ROk (map (fun e => PField (fst e) (snd e)) (map (entry (Genc m) (m_fields md)) es))).
Proof.
  intros Hnd Hmd. pose proof Hmd as Hmd'. unfold bytesplain_msg in Hmd'. apply andb_prop in Hmd'. destruct Hmd' as [Hf Ho].
  rewrite forallb_forall in Hf.
  induction r as [|[name x] r IH]; intros Hget Hch; [reflexivity|].
  cbn [forallb] in Hch. apply andb_prop in Hch. destruct Hch as [Hpx Hr].
  unfold bytes_value_ok in Hpx. cbn [fst snd] in Hpx.
  cbn [mp_msg m_msg].
  destruct (find_field (m_fields md) name) as [f|] eqn:Ef; [|discriminate].
  destruct (find_field_spec _ _ _ Ef) as [Hinf Hname].
  destruct (bytesplain_facts f (Hf f Hinf)) as [_ [Hi64 [Hee [_ [Hem [Hts [Hfl Hby]]]]]]].
  unfold mp_entry. rewrite Hem, Hfl, (no_cfg_oneof md f Ho).
  (* the key fact for this entry *)
  assert (Hkey : mp_fval E sc (Some f) (f_kind f) x = pj_fval E sc (f_kind f) x >>= (fun j => ROk (Genc m f j))).
  { destruct (f_bytesenc f) as [be|] eqn:Eb.
    - cbn [is_none] in Hpx. destruct Hby as [Hby|[Hk Hm]]; [discriminate|].
      destruct x as [[z|b0|y|b|b0|n]|cm|l|kv]; try discriminate.
      rewrite Hk, mp_fval_FS, pj_fval_FS, (spec_bytes_scalar f b Hk Hm). cbn [pj_scalar rbind]. f_equal.
      unfold Genc. rewrite Hname, (Hget name (FS (VBytes b)) (or_introl eq_refl)).
      destruct (bytesenc_of f) as [e|]; [|reflexivity].
      destruct b as [|c b]; [|reflexivity]. rewrite bytes_enc_text_nil. reflexivity.
    - cbn [is_none] in Hpx.
      assert (Hctx : ctx_field_ok f = true) by (unfold ctx_field_ok; rewrite Hi64, Hee, Eb, Hts; reflexivity).
      rewrite (mapping_plain_fval E sc x (Some f) (f_kind f) Hctx Hpx).
      assert (HG : forall j, Genc m f j = j) by (intros j; unfold Genc; rewrite (bytesenc_of_none f Eb); reflexivity).
      destruct (pj_fval E sc (f_kind f) x) as [j|e|w]; cbn [rbind]; rewrite ?HG; reflexivity. }
  rewrite Hkey.
  destruct (pj_fval E sc (f_kind f) x) as [j|e|w]; cbn [rbind]; try reflexivity.
  rewrite (IH (fun n y Hin => Hget n y (or_intror Hin)) Hr).
  destruct (m_msg E sc md r) as [t|e|w]; cbn [rbind]; try reflexivity.
  cbn [map app]. do 2 f_equal.
  unfold entry. cbn [fst snd].
  assert (Hjn : json_name name = jn f) by (unfold jn; rewrite Hname; reflexivity).
  rewrite Hjn, (field_by_json_complete (m_fields md) f Hnd Hinf). reflexivity.
Qed.

Lemma nodup_names_mget (m : mval) name x : nodup_str (map fst m) = true -> In (name, x) m -> mget m name = Some x.
Proof.
  induction m as [|[n0 x0] r IH]; intros Hnd Hin; [destruct Hin|].
  cbn [map fst] in Hnd. pose proof (nodup_head_notin n0 (map fst r) Hnd) as Hnot.
  cbn [nodup_str] in Hnd. apply andb_prop in Hnd. destruct Hnd as [_ Hnd].
  cbn [mget]. destruct Hin as [Hin|Hin].
  - inversion Hin; subst. rewrite str_eqb_refl. reflexivity.
  - destruct (str_eqb name n0) eqn:Ek; [|apply IH; assumption].
    exfalso. apply str_eqb_eq in Ek. subst n0. apply Hnot. apply (in_map fst) in Hin. exact Hin.
Qed.

Theorem conforms_bytes : forall tn md m,
  str_eqb tn ts_name = false -> is_wkt_other tn = false ->
  find_message (all_messages sc) tn = Some md -> owner_of sc md = Own FtBytes ->
  buildable sc FtBytes md = true ->
  nodup_str (map jn (m_fields md)) = true ->
  bytesplain_msg md = true ->
  nodup_str (map fst m) = true ->
  forallb (bytes_value_ok sc md) m = true ->
  encode E sc tn m = to_json E sc tn m.
Proof.
  intros tn md m Hts Hwk Hfm Hown Hb Hnd Hmd Hnames Hch.
  assert (Hlk : lookup_message sc tn = Some md) by (unfold lookup_message; rewrite Hts; exact Hfm).
  assert (Howns : owns sc tn = true) by (unfold owns; rewrite Hlk, Hown; reflexivity).
  assert (Hdecl : declared md m = true).
  { unfold declared. clear -Hch. induction m as [|e r IH]; [reflexivity|]. cbn [forallb] in *.
    apply andb_prop in Hch. destruct Hch as [H1 H2]. unfold bytes_value_ok in H1.
    destruct (find_field (m_fields md) (fst e)); [|discriminate]. cbn [andb]. apply IH. exact H2. }
  (* Impl *)
  unfold encode. rewrite Howns.
  rewrite (gj_fval_owned E sc tn md FtBytes m Hwk Hlk Hown), (kids_bytes E sc md m Hdecl). rewrite rbind_ROk.
  unfold codec_body. rewrite Hb. cbn [negb]. cbv iota.
  unfold pj_marshal. rewrite pj_fval_FM, Hts, Hwk, Hfm.
  (* Spec *)
  unfold to_json. rewrite mp_fval_FM, Hts, Hwk, Hfm.
  rewrite (mp_msg_bytes md m Hnd Hmd m (fun n x Hin => nodup_names_mget m n x Hnames Hin) Hch).
  destruct (m_msg E sc md m) as [es|e|w] eqn:Hes; cbn [rbind as_obj]; try reflexivity.
  unfold mp_finish. rewrite (bytesplain_no_unwrap md Hmd), fields_of_pieces, (bytesplain_no_nulls md m Hmd), app_nil_r.
  rewrite enc_bytes_fold, (benc_fold m (m_fields md) es Hnd); [reflexivity|].
  intros f Hin Hm. apply raw_has_keys. rewrite (m_msg_keys E sc md m es Hes).
  destruct (mget m (f_name f)) as [x|] eqn:Eg; [|exfalso; apply Hm; reflexivity].
  apply mget_some_in in Eg. apply in_map_iff in Eg. destruct Eg as [[n x'] [Hn Hinm]]. cbn [fst] in Hn. subst n.
  apply in_map_iff. exists (f_name f, x'). split; [reflexivity|exact Hinm].
Qed.
End Conforms.
Close Scope Z_scope.

(* ---- non-vacuity and the side conditions that cannot be dropped ------------------------------------------------------ *)
Open Scope Z_scope.
(* all four encodings, singular and optional, empty and non-empty, beside un-annotated fields *)
Definition bxs : schema :=
  [ {| fl_path := s "b/b.proto"; fl_package := s "x.v1"; fl_gopkg := s "b"; fl_generate := true;
       fl_messages :=
         [ msg "B" [set_bytes BEHex (fld "h" 1 KBytes Singular);
                    set_bytes BEBase64Raw (fld "raw_b" 2 KBytes Optional);
                    set_bytes BEBase64Url (fld "url_b" 3 KBytes Singular);
                    set_bytes BEBase64UrlRaw (fld "url_raw" 4 KBytes Optional);
                    fld "id" 5 KString Singular; fld "plain_b" 6 KBytes Singular;
                    fld "leaf" 7 (T "Leaf") Singular; fld "blobs" 8 KBytes Repeated] [];
           msg "Leaf" [fld "a" 1 KString Singular; fld "n" 2 KInt64 Singular] [];
           msg "BRep" [set_bytes BEHex (fld "hs" 1 KBytes Repeated)] [];
           msg "BMap" [set_bytes BEHex (fld "h" 1 KBytes Singular); set_bytes BEHex (fld "by_k" 2 KBytes (MapOf KString))] [] ];
       fl_enums := []; fl_services := [] |} ].
Definition bval : mval :=
  [(s "h", FS (VBytes [ch 105; ch 183])); (s "raw_b", FS (VBytes []));
   (s "url_b", FS (VBytes [ch 251; ch 255; ch 254])); (s "url_raw", FS (VBytes [ch 251]));
   (s "id", vstr "line1"); (s "plain_b", FS (VBytes [ch 255]));
   (s "leaf", FM [(s "a", vstr "x"); (s "n", vint 7)]); (s "blobs", FL [FS (VBytes [ch 1])])].
Definition bjson : json :=
  JObj [(s "h", JStr (s "69b7")); (s "rawB", JStr []); (s "urlB", JStr (s "-__-")); (s "urlRaw", JStr (s "-w"));
        (s "id", JStr (s "line1")); (s "plainB", JStr (s "/w=="));
        (s "leaf", JObj [(s "a", JStr (s "x")); (s "n", JStr (s "7"))]); (s "blobs", JArr [JStr (s "AQ==")])].

Example bytes_nonvacuous :
  exists md,
    str_eqb (q "B") ts_name = false /\ is_wkt_other (q "B") = false /\
    find_message (all_messages bxs) (q "B") = Some md /\ owner_of bxs md = Own FtBytes /\
    buildable bxs FtBytes md = true /\ nodup_str (map jn (m_fields md)) = true /\ bytesplain_msg md = true /\
    wt bxs (KMessage (q "B")) (FM bval) = true /\
    nodup_str (map fst bval) = true /\ forallb (bytes_value_ok bxs md) bval = true /\
    encode Ex bxs (q "B") bval = ROk bjson /\ to_json Ex bxs (q "B") bval = ROk bjson /\
    decode Ex bxs (q "B") bjson = ROk bval.
Proof. eexists. vm_compute. repeat split; reflexivity. Qed.

(* the same on the witness schema of theories/CodecCases.v / proofs/CodecExamples.v *)
Example bytes_nonvacuous_xs :
  let m := [(s "h", FS (VBytes [ch 105; ch 183])); (s "id", vstr "x")] in
  let j := JObj [(s "h", JStr (s "69b7")); (s "id", JStr (s "x"))] in
  exists md,
    find_message (all_messages xs) (q "Blob") = Some md /\ owner_of xs md = Own FtBytes /\
    buildable xs FtBytes md = true /\ nodup_str (map jn (m_fields md)) = true /\ bytesplain_msg md = true /\
    wt xs (KMessage (q "Blob")) (FM m) = true /\
    nodup_str (map fst m) = true /\ forallb (bytes_value_ok xs md) m = true /\
    encode Ex xs (q "Blob") m = ROk j /\ to_json Ex xs (q "Blob") m = ROk j /\ decode Ex xs (q "Blob") j = ROk m.
Proof. eexists. vm_compute. repeat split; reflexivity. Qed.

(* conforms_bytes needs [buildable]: bytes_encoding on a REPEATED bytes field passes the generator's
   validation, but the emitted MarshalJSON calls hex.EncodeToString on a [][]byte and does not compile
   (C13); the documented mapping encodes every element.  Every other hypothesis holds for the empty value. *)
Example conforms_bytes_needs_buildable :
  exists md,
    find_message (all_messages bxs) (q "BRep") = Some md /\ owner_of bxs md = Own FtBytes /\
    buildable bxs FtBytes md = false /\
    nodup_str (map jn (m_fields md)) = true /\ bytesplain_msg md = true /\
    nodup_str (map fst (@nil (str * fval))) = true /\ forallb (bytes_value_ok bxs md) [] = true /\
    encode Ex bxs (q "BRep") [] <> to_json Ex bxs (q "BRep") [] /\
    (let m := [(s "hs", FL [FS (VBytes [ch 1])])] in
     wt bxs (KMessage (q "BRep")) (FM m) = true /\
     to_json Ex bxs (q "BRep") m = ROk (JObj [(s "hs", JArr [JStr (s "01")])]) /\
     exists w, encode Ex bxs (q "BRep") m = RUnm w).
Proof.
  eexists. vm_compute. repeat split; try reflexivity; try discriminate. eexists. reflexivity.
Qed.

(* conforms_bytes needs "not a map" (inside bytesplain_msg): on map<string, bytes> the documented mapping
   encodes the values, the emitted codec leaves them in base64.  (The generator itself refuses this
   schema: the descriptor kind of a map field is message, not bytes.) *)
Example conforms_bytes_needs_nonmap :
  let m := [(s "h", FS (VBytes [ch 1])); (s "by_k", FMap [(VStr (s "k"), FS (VBytes [ch 1]))])] in
  exists md,
    find_message (all_messages bxs) (q "BMap") = Some md /\ owner_of bxs md = Own FtBytes /\
    buildable bxs FtBytes md = true /\ nodup_str (map jn (m_fields md)) = true /\
    bytesplain_msg md = false /\
    wt bxs (KMessage (q "BMap")) (FM m) = true /\ nodup_str (map fst m) = true /\
    encode Ex bxs (q "BMap") m = ROk (JObj [(s "h", JStr (s "01")); (s "byK", JObj [(s "k", JStr (s "AQ=="))])]) /\
    to_json Ex bxs (q "BMap") m = ROk (JObj [(s "h", JStr (s "01")); (s "byK", JObj [(s "k", JStr (s "01"))])]).
Proof. eexists. vm_compute. repeat split; reflexivity. Qed.

(* conforms_bytes needs distinct field names in the value (a Go struct cannot repeat a field; the term
   language of values can): raw["h"] is written once, from the first entry *)
Example conforms_bytes_needs_distinct_names :
  let m := [(s "h", FS (VBytes [ch 1])); (s "h", FS (VBytes [ch 2]))] in
  exists md,
    find_message (all_messages xs) (q "Blob") = Some md /\ owner_of xs md = Own FtBytes /\
    buildable xs FtBytes md = true /\ nodup_str (map jn (m_fields md)) = true /\ bytesplain_msg md = true /\
    nodup_str (map fst m) = false /\ forallb (bytes_value_ok xs md) m = true /\
    encode Ex xs (q "Blob") m <> to_json Ex xs (q "Blob") m.
Proof. eexists. vm_compute. repeat split; try reflexivity. discriminate. Qed.

(* conforms_bytes needs the annotated field to hold a byte string (an ill-typed list is encoded element
   by element by the mapping and left alone by the codec) *)
Example conforms_bytes_needs_bytes_value :
  let m := [(s "h", FL [FS (VBytes [ch 1])])] in
  exists md,
    find_message (all_messages xs) (q "Blob") = Some md /\ owner_of xs md = Own FtBytes /\
    buildable xs FtBytes md = true /\ nodup_str (map jn (m_fields md)) = true /\ bytesplain_msg md = true /\
    nodup_str (map fst m) = true /\ forallb (bytes_value_ok xs md) m = false /\
    encode Ex xs (q "Blob") m <> to_json Ex xs (q "Blob") m.
Proof. eexists. vm_compute. repeat split; try reflexivity. discriminate. Qed.
Close Scope Z_scope.
