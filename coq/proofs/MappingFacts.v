(* MappingFacts.v — C05: the server's JSON against the documented mapping.
   - C05_unannotated_is_proto3: where no annotation is reachable from the value, both the server's
     JSON (Codec.encode) and the documented mapping (Mapping.to_json) ARE ProtoJson.marshal;
   - C05_context_free: the mapping of a message value does not depend on where it occurs;
   - C05_conforms_nullable (partial C05_conforms): a top-level message whose only annotations are
     nullable fields, with un-annotated children;
   - one refutation per defect class. *)
From Sebuf Require Import CodecCases.
From SebufProofs Require Import TextFacts CodecTextFacts ProtoJsonFacts CodecExamples.

Open Scope Z_scope.

(* ---- "no annotation" ------------------------------------------------------------------------------------ *)
Definition is_none {A} (o : option A) : bool := match o with None => true | Some _ => false end.

Definition plain_field (f : field) : bool :=
  negb (f_unwrap f) && is_none (f_int64 f) && is_none (f_enumenc f) && is_none (f_nullable f) && is_none (f_empty f) &&
  is_none (f_tsfmt f) && is_none (f_bytesenc f) && is_none (f_oneof_value f) && is_none (f_flatten f) && is_none (f_flatten_prefix f).

Definition plain_msg (md : message) : bool :=
  forallb plain_field (m_fields md) && forallb (fun o => negb (o_has_cfg o)) (m_oneofs md).

Definition plain_enum (sc : schema) (k : kind) : bool :=
  match k with
  | KEnum tn => match find_enum (all_enums sc) tn with
                | Some e => forallb (fun v => is_none (ev_custom v)) (e_values e)
                | None => true
                end
  | _ => true
  end.

(* every message and enum type that occurs in the value is un-annotated *)
Fixpoint plain_in (sc : schema) (k : kind) (v : fval) {struct v} : bool :=
  match v with
  | FS _ => plain_enum sc k
  | FL l => (fix go (l : list fval) : bool := match l with [] => true | x :: r => plain_in sc k x && go r end) l
  | FMap kv => (fix go (kv : list (sval * fval)) : bool := match kv with [] => true | (_, x) :: r => plain_in sc k x && go r end) kv
  | FM m =>
      match k with
      | KMessage tn =>
          if str_eqb tn ts_name then true else
          match find_message (all_messages sc) tn with
          | None => true
          | Some md =>
              plain_msg md &&
              (fix go (m : list (str * fval)) : bool :=
                 match m with
                 | [] => true
                 | (name, x) :: r =>
                     match find_field (m_fields md) name with
                     | Some f => plain_in sc (f_kind f) x && go r
                     | None => go r
                     end
                 end) m
          end
      | _ => true
      end
  end.

(* the top-level message: additionally none of its map fields has unwrap-wrapper values (that alone
   makes the generator emit a codec for it, whatever the value) *)
Definition plain_top (sc : schema) (tn : str) : bool :=
  match lookup_message sc tn with
  | Some md => plain_msg md && forallb (fun f => is_none (value_unwrap sc f)) (m_fields md)
  | None => true
  end.

(* ---- Impl side: an un-annotated message has no codec ---------------------------------------------------- *)
Lemma existsb_none {A} (p : A -> bool) l : (forall a, In a l -> p a = false) -> existsb p l = false.
Proof.
  induction l as [|a r IH]; simpl; [reflexivity|]. intros H.
  rewrite (H a (or_introl eq_refl)), IH; [reflexivity|]. intros b Hb. apply H. right. exact Hb.
Qed.

Lemma plain_field_facts f : plain_field f = true ->
  f_unwrap f = false /\ f_int64 f = None /\ f_enumenc f = None /\ f_nullable f = None /\ f_empty f = None /\
  f_tsfmt f = None /\ f_bytesenc f = None /\ f_oneof_value f = None /\ f_flatten f = None /\ f_flatten_prefix f = None.
Proof.
  unfold plain_field. intros H.
  repeat (apply andb_prop in H; destruct H as [H ?]).
  apply Bool.negb_true_iff in H.
  repeat match goal with
         | Hx : is_none ?o = true |- _ => destruct o; [discriminate Hx|clear Hx]
         end.
  repeat split; auto.
Qed.

Lemma plain_no_features sc md :
  plain_msg md = true -> forallb (fun f => is_none (value_unwrap sc f)) (m_fields md) = true -> features sc md = [].
Proof.
  intros Hp Hv. unfold plain_msg in Hp. apply andb_prop in Hp. destruct Hp as [Hf Ho].
  rewrite forallb_forall in Hf, Ho, Hv.
  assert (HF : forall f, In f (m_fields md) -> plain_field f = true) by exact Hf.
  unfold features.
  assert (H1 : is_root_unwrap md = false).
  { unfold is_root_unwrap, unwrap_field, unwrap_fields.
    assert (Hnil : filter (fun f => f_unwrap f) (m_fields md) = []).
    { clear -HF. induction (m_fields md) as [|a r IH]; [reflexivity|]. simpl.
      destruct (plain_field_facts a (HF a (or_introl eq_refl))) as [Hu _]. rewrite Hu. apply IH.
      intros f Hin. apply HF. right. exact Hin. }
    rewrite Hnil. reflexivity. }
  rewrite H1.
  rewrite (existsb_none (fun f => match value_unwrap sc f with Some _ => true | None => false end)).
  2:{ intros f Hin. specialize (Hv f Hin). destruct (value_unwrap sc f); [discriminate|reflexivity]. }
  rewrite (existsb_none is_number_i64).
  2:{ intros f Hin. destruct (plain_field_facts f (HF f Hin)) as [_ [H _]]. unfold is_number_i64. rewrite H.
      rewrite Bool.andb_false_r. reflexivity. }
  rewrite (existsb_none is_nullable).
  2:{ intros f Hin. destruct (plain_field_facts f (HF f Hin)) as [_ [_ [_ [H _]]]]. unfold is_nullable. rewrite H. reflexivity. }
  rewrite (existsb_none (fun f => match empty_of f with Some _ => true | None => false end)).
  2:{ intros f Hin. destruct (plain_field_facts f (HF f Hin)) as [_ [_ [_ [_ [H _]]]]]. unfold empty_of. rewrite H. reflexivity. }
  rewrite (existsb_none (fun f => match tsfmt_of f with Some _ => true | None => false end)).
  2:{ intros f Hin. destruct (plain_field_facts f (HF f Hin)) as [_ [_ [_ [_ [_ [H _]]]]]]. unfold tsfmt_of. rewrite H.
      destruct (is_timestamp (f_kind f) && negb (is_map f)); reflexivity. }
  rewrite (existsb_none (fun f => match bytesenc_of f with Some _ => true | None => false end)).
  2:{ intros f Hin. destruct (plain_field_facts f (HF f Hin)) as [_ [_ [_ [_ [_ [_ [H _]]]]]]]. unfold bytesenc_of. rewrite H.
      destruct (f_kind f); try reflexivity. destruct (is_map f); reflexivity. }
  rewrite (existsb_none is_flatten).
  2:{ intros f Hin. destruct (plain_field_facts f (HF f Hin)) as [_ [_ [_ [_ [_ [_ [_ [_ [H _]]]]]]]]]. unfold is_flatten. rewrite H. reflexivity. }
  rewrite (existsb_none oneof_cfg).
  2:{ intros o Hin. specialize (Ho o Hin). apply Bool.negb_true_iff in Ho. unfold oneof_cfg. rewrite Ho. reflexivity. }
  reflexivity.
Qed.

Lemma plain_top_not_owned sc tn : plain_top sc tn = true -> owns sc tn = false.
Proof.
  unfold plain_top, owns. destruct (lookup_message sc tn) as [md|]; [|reflexivity].
  intros H. apply andb_prop in H. destruct H as [H1 H2].
  unfold owner_of. rewrite (plain_no_features sc md H1 H2). reflexivity.
Qed.

(* ---- Spec side: the mapping of an un-annotated value is proto3 JSON ---------------------------------------- *)
Section MapLoops.
Variable E : ExtLib.
Variable sc : schema.

Definition mp_list (ctx : option field) (k : kind) : list fval -> res (list json) :=
  fix go (l : list fval) : res (list json) :=
    match l with
    | [] => ROk []
    | x :: r => mp_fval E sc ctx k x >>= (fun j => go r >>= (fun t => ROk (j :: t)))
    end.
Definition mp_pick (uf : field) : list (str * fval) -> res json :=
  fix pick (wm : list (str * fval)) : res json :=
    match wm with
    | [] => ROk (JArr [])
    | (n, y) :: t => if str_eqb n (f_name uf) then mp_fval E sc (Some uf) (f_kind uf) y else pick t
    end.
Definition mp_uw (k : kind) : option field :=
  match k with
  | KMessage vtn => match lookup_message sc vtn with Some vmd => mp_value_list vmd | None => None end
  | _ => None
  end.
Definition mp_map (ctx : option field) (k : kind) : list (sval * fval) -> res (list (str * json)) :=
  fix go (kv : list (sval * fval)) : res (list (str * json)) :=
    match kv with
    | [] => ROk []
    | (key, x) :: r =>
        key_text key >>= (fun kt =>
        (match mp_uw k, x with
         | Some uf, FM wm => mp_pick uf wm
         | _, _ => mp_fval E sc ctx k x
         end) >>= (fun j => go r >>= (fun t => ROk ((kt, j) :: t))))
    end.
Definition mp_entry (md : message) (name : str) (f : field) (x : fval) : res (list piece) :=
  match f_empty f, x with
  | Some EBNull, FM [] => ROk [PField (json_name name) JNull]
  | Some EBOmit, FM [] => ROk []
  | _, _ =>
      mp_fval E sc (Some f) (f_kind f) x >>= (fun j =>
      match f_flatten f with
      | Some true => spread_of (match f_flatten_prefix f with Some p => p | None => [] end) j >>= (fun p => ROk [p])
      | _ =>
          match mp_oneof_of md f with
          | Some o =>
              if o_flatten o && match f_kind f with KMessage _ => true | _ => false end
              then spread_of [] j >>= (fun p => ROk [PDisc (o_discriminator o) (mp_disc_value f); p])
              else ROk [PDisc (o_discriminator o) (mp_disc_value f); PField (json_name name) j]
          | None => ROk [PField (json_name name) j]
          end
      end)
  end.
Definition mp_msg (md : message) : list (str * fval) -> res (list piece) :=
  fix go (m : list (str * fval)) : res (list piece) :=
    match m with
    | [] => ROk []
    | (name, x) :: r =>
        match find_field (m_fields md) name with
        | None => RUnm (s "value names an undeclared field")
        | Some f => mp_entry md name f x >>= (fun ps => go r >>= (fun t => ROk (ps ++ t)))
        end
    end.
Definition mp_finish (md : message) (m : mval) (ps : list piece) : res json :=
  match mp_root_unwrap md with
  | Some f =>
      match ps with
      | [PField _ j] => ROk j
      | [] => ROk (match f_card f with Repeated => JArr [] | _ => JObj [] end)
      | _ => RUnm (s "root unwrap with unexpected content")
      end
  | None =>
      let entries := flat_map (fun p => match p with
                                        | PField k j => [(k, j)]
                                        | PSpread pre kv => map (fun e => (pre ++ fst e, snd e)) kv
                                        | PDisc k v => [(k, JStr v)]
                                        end) ps in
      let nulls := flat_map (fun f => match f_nullable f, mget m (f_name f) with
                                      | Some true, None => [(json_name (f_name f), JNull)]
                                      | _, _ => []
                                      end) (m_fields md) in
      ROk (JObj (entries ++ nulls))
  end.

Lemma mp_fval_FS ctx k x : mp_fval E sc ctx k (FS x) = mp_scalar E sc ctx k x.
Proof. reflexivity. Qed.
Lemma mp_fval_FL ctx k l : mp_fval E sc ctx k (FL l) = mp_list ctx k l >>= (fun js => ROk (JArr js)).
Proof. reflexivity. Qed.
Lemma mp_fval_FMap ctx k kv : mp_fval E sc ctx k (FMap kv) = mp_map ctx k kv >>= (fun es => ROk (JObj es)).
Proof. reflexivity. Qed.
Lemma mp_fval_FM ctx tn m :
  mp_fval E sc ctx (KMessage tn) (FM m) =
  if str_eqb tn ts_name then mp_timestamp E ctx m
  else if is_wkt_other tn then RUnm (s "well-known type other than Timestamp")
  else match find_message (all_messages sc) tn with
       | None => RUnm (s "unknown message type")
       | Some md => mp_msg md m >>= mp_finish md m
       end.
Proof. reflexivity. Qed.
End MapLoops.

Theorem C05_context_free : forall E sc c1 c2 tn m,
  str_eqb tn ts_name = false ->
  mp_fval E sc c1 (KMessage tn) (FM m) = mp_fval E sc c2 (KMessage tn) (FM m).
Proof. intros. rewrite !mp_fval_FM, H. reflexivity. Qed.

Section Unannotated.
Variable E : ExtLib.
Variable sc : schema.

(* the annotations of the enclosing field that can change the rendering of a scalar / Timestamp *)
Definition ctx_field_ok (f : field) : bool :=
  is_none (f_int64 f) && is_none (f_enumenc f) && is_none (f_bytesenc f) && is_none (f_tsfmt f).
Definition ctx_plain (ctx : option field) : Prop :=
  match ctx with Some f => ctx_field_ok f = true | None => True end.
Lemma ctx_field_ok_facts f : ctx_field_ok f = true ->
  f_int64 f = None /\ f_enumenc f = None /\ f_bytesenc f = None /\ f_tsfmt f = None.
Proof.
  unfold ctx_field_ok. intros H. repeat (apply andb_prop in H; destruct H as [H ?]).
  repeat match goal with
         | Hx : is_none ?o = true |- _ => destruct o; [discriminate Hx|clear Hx]
         end.
  repeat split; auto.
Qed.
Lemma plain_ctx_ok f : plain_field f = true -> ctx_field_ok f = true.
Proof.
  intros H. destruct (plain_field_facts f H) as [_ [H1 [H2 [_ [_ [H3 [H4 _]]]]]]].
  unfold ctx_field_ok. rewrite H1, H2, H3, H4. reflexivity.
Qed.

Lemma plain_enum_names tn e n v :
  find_enum (all_enums sc) tn = Some e -> plain_enum sc (KEnum tn) = true ->
  ev_by_number (e_values e) n = Some v -> mp_custom v = ev_name v.
Proof.
  intros He Hp Hv. simpl in Hp. rewrite He in Hp. rewrite forallb_forall in Hp.
  assert (Hin : In v (e_values e)).
  { clear -Hv. induction (e_values e) as [|a r IH]; simpl in Hv; [discriminate|].
    destruct (ev_number a =? n); [inversion Hv; left; reflexivity|right; auto]. }
  specialize (Hp v Hin). unfold mp_custom. destruct (ev_custom v); [discriminate|reflexivity].
Qed.

Lemma scalar_plain ctx k x :
  ctx_plain ctx -> plain_enum sc k = true -> mp_scalar E sc ctx k x = pj_scalar E sc k x.
Proof.
  intros Hc Hp. unfold mp_scalar.
  assert (Henum : forall tn n,
            k = KEnum tn ->
            match find_enum (all_enums sc) tn with
            | None => RUnm (s "unknown enum type")
            | Some e => match ev_by_number (e_values e) n with
                        | Some v => ROk (JStr (mp_custom v))
                        | None => ROk (JNum n)
                        end
            end = pj_scalar E sc (KEnum tn) (VEnum n)).
  { intros tn n Hk. subst k. simpl. unfold enum_json.
    destruct (find_enum (all_enums sc) tn) as [e|] eqn:He; [|reflexivity].
    destruct (ev_by_number (e_values e) n) as [v|] eqn:Hv; [|reflexivity].
    rewrite (plain_enum_names tn e n v He Hp Hv). reflexivity. }
  destruct ctx as [f|].
  - destruct (ctx_field_ok_facts f Hc) as [Hi [He [Hb _]]].
    destruct x as [z|b|x|x|b|n]; destruct k; simpl;
      rewrite ?Hi, ?He, ?Hb, ?Bool.andb_false_r; try reflexivity.
    apply (Henum tn n eq_refl).
  - destruct x as [z|b|x|x|b|n]; destruct k; try reflexivity. apply (Henum tn n eq_refl).
Qed.

Lemma ts_plain ctx m : ctx_plain ctx -> mp_timestamp E ctx m = pj_timestamp E m.
Proof.
  intros Hc. unfold mp_timestamp, pj_timestamp.
  destruct (ts_in_range (mget_int m (s "seconds")) (mget_int m (s "nanos"))); simpl; [|reflexivity].
  destruct ctx as [f|]; [|reflexivity].
  destruct (ctx_field_ok_facts f Hc) as [_ [_ [_ Ht]]]. rewrite Ht. reflexivity.
Qed.

Definition R (v : fval) : Prop :=
  forall ctx k, ctx_plain ctx -> plain_in sc k v = true -> mp_fval E sc ctx k v = pj_fval E sc k v.

Lemma plain_msg_fields md f : plain_msg md = true -> In f (m_fields md) -> plain_field f = true.
Proof.
  unfold plain_msg. intros H Hin. apply andb_prop in H. destruct H as [H _].
  rewrite forallb_forall in H. auto.
Qed.

Lemma plain_msg_no_unwrap md : plain_msg md = true -> mp_unwrap_field md = None.
Proof.
  intros Hp. unfold mp_unwrap_field.
  assert (Hnil : filter (fun f => f_unwrap f) (m_fields md) = []).
  { assert (HF : forall f, In f (m_fields md) -> plain_field f = true) by (intros; eapply plain_msg_fields; eauto).
    clear Hp. induction (m_fields md) as [|a r IH]; [reflexivity|]. simpl.
    destruct (plain_field_facts a (HF a (or_introl eq_refl))) as [Hu _]. rewrite Hu. apply IH.
    intros f Hin. apply HF. right. exact Hin. }
  rewrite Hnil. reflexivity.
Qed.

Lemma plain_msg_no_oneof_cfg md f : plain_msg md = true -> mp_oneof_of md f = None.
Proof.
  unfold plain_msg, mp_oneof_of. intros H. apply andb_prop in H. destruct H as [_ H].
  destruct (f_oneof f) as [n|]; [|reflexivity].
  rewrite forallb_forall in H.
  induction (m_oneofs md) as [|o r IH]; [reflexivity|]. simpl.
  assert (Ho : o_has_cfg o = false).
  { specialize (H o (or_introl eq_refl)). apply Bool.negb_true_iff in H. exact H. }
  rewrite Ho, Bool.andb_false_r. simpl. apply IH. intros x Hx. apply H. right. exact Hx.
Qed.

Lemma plain_msg_no_nulls md (m : mval) : plain_msg md = true ->
  flat_map (fun f => match f_nullable f, mget m (f_name f) with
                     | Some true, None => [(json_name (f_name f), JNull)]
                     | _, _ => []
                     end) (m_fields md) = [].
Proof.
  intros Hp.
  assert (HF : forall f, In f (m_fields md) -> plain_field f = true) by (intros; eapply plain_msg_fields; eauto).
  clear Hp. induction (m_fields md) as [|a r IH]; [reflexivity|]. simpl.
  destruct (plain_field_facts a (HF a (or_introl eq_refl))) as [_ [_ [_ [Hn _]]]]. rewrite Hn. simpl.
  apply IH. intros f Hin. apply HF. right. exact Hin.
Qed.

Lemma fields_of_pieces (es : list (str * json)) :
  flat_map (fun p => match p with
                     | PField k j => [(k, j)]
                     | PSpread pre kv => map (fun e => (pre ++ fst e, snd e)) kv
                     | PDisc k v => [(k, JStr v)]
                     end) (map (fun e => PField (fst e) (snd e)) es) = es.
Proof. induction es as [|[k j] r IH]; simpl; [reflexivity|]. rewrite IH. reflexivity. Qed.

Lemma find_field_in fs n f : find_field fs n = Some f -> In f fs.
Proof. intros H. apply (find_field_spec fs n f H). Qed.

Theorem mapping_plain_fval : forall v, R v.
Proof.
  apply fval_ind'.
  - intros x ctx k Hc Hp. simpl in Hp. rewrite mp_fval_FS, pj_fval_FS. apply scalar_plain; assumption.
  - (* message *)
    intros m IH ctx k Hc Hp.
    destruct k as [| | | | | | | | | | | | | | | tn0 | tn]; try reflexivity.
    rewrite mp_fval_FM, pj_fval_FM.
    destruct (str_eqb tn ts_name) eqn:Ets; [apply ts_plain; exact Hc|].
    destruct (is_wkt_other tn); [reflexivity|].
    simpl in Hp. rewrite Ets in Hp.
    destruct (find_message (all_messages sc) tn) as [md|]; [|reflexivity].
    apply andb_prop in Hp. destruct Hp as [Hmd Hgo].
    assert (Hloop : mp_msg E sc md m = m_msg E sc md m >>= (fun es => ROk (map (fun e => PField (fst e) (snd e)) es))).
    { clear Hc ctx. induction IH as [|[name x] r Hx Hr IHr]; [reflexivity|].
      simpl in Hgo. simpl mp_msg. simpl m_msg.
      destruct (find_field (m_fields md) name) as [f|] eqn:Ef; [|reflexivity].
      apply andb_prop in Hgo. destruct Hgo as [Hpx Hgr].
      pose proof (plain_msg_fields md f Hmd (find_field_in _ _ _ Ef)) as Hpf.
      destruct (plain_field_facts f Hpf) as [_ [_ [_ [_ [Hem [_ [_ [_ [Hfl _]]]]]]]]].
      unfold mp_entry. rewrite Hem, Hfl, (plain_msg_no_oneof_cfg md f Hmd).
      simpl in Hx. rewrite (Hx (Some f) (f_kind f) (plain_ctx_ok f Hpf) Hpx).
      destruct (pj_fval E sc (f_kind f) x) as [j|e|w]; simpl; try reflexivity.
      rewrite (IHr Hgr). destruct (m_msg E sc md r) as [t|e|w]; reflexivity. }
    rewrite Hloop. destruct (m_msg E sc md m) as [es|e|w]; simpl; try reflexivity.
    unfold mp_finish, mp_root_unwrap.
    rewrite (plain_msg_no_unwrap md Hmd).
    assert (Hru : match m_fields md with [_] => None (A:=field) | _ => None end = None) by (destruct (m_fields md) as [|? [|? ?]]; reflexivity).
    rewrite Hru. rewrite fields_of_pieces, (plain_msg_no_nulls md m Hmd), app_nil_r. reflexivity.
  - (* list *)
    intros l IH ctx k Hc Hp. rewrite mp_fval_FL, pj_fval_FL.
    assert (Hloop : mp_list E sc ctx k l = m_list E sc k l).
    { induction IH as [|x r Hx Hr IHr]; [reflexivity|].
      simpl in Hp. apply andb_prop in Hp. destruct Hp as [Hpx Hpr].
      simpl. rewrite (Hx ctx k Hc Hpx), (IHr Hpr). reflexivity. }
    rewrite Hloop. reflexivity.
  - (* map *)
    intros kv IH ctx k Hc Hp. rewrite mp_fval_FMap, pj_fval_FMap.
    assert (Hloop : mp_map E sc ctx k kv = m_map E sc k kv).
    { induction IH as [|[key x] r Hx Hr IHr]; [reflexivity|].
      simpl in Hp. apply andb_prop in Hp. destruct Hp as [Hpx Hpr].
      simpl mp_map. simpl m_map.
      assert (Hsel : match mp_uw sc k, x with
                     | Some uf, FM wm => mp_pick E sc uf wm
                     | _, _ => mp_fval E sc ctx k x
                     end = pj_fval E sc k x).
      { simpl in Hx. destruct (mp_uw sc k) as [uf|] eqn:Eu; [|apply Hx; assumption].
        destruct x as [sx|wm|l|kv']; try (apply Hx; assumption).
        exfalso. unfold mp_uw in Eu. destruct k as [| | | | | | | | | | | | | | | tn0 | vtn]; try discriminate.
        unfold lookup_message in Eu. simpl in Hpx.
        destruct (str_eqb vtn ts_name).
        - vm_compute in Eu. discriminate.
        - destruct (find_message (all_messages sc) vtn) as [vmd|]; [|discriminate].
          apply andb_prop in Hpx. destruct Hpx as [Hvm _].
          unfold mp_value_list in Eu. rewrite (plain_msg_no_unwrap vmd Hvm) in Eu. discriminate. }
      rewrite Hsel, (IHr Hpr). reflexivity. }
    rewrite Hloop. reflexivity.
Qed.

Theorem C05_unannotated_is_proto3 : forall tn m,
  plain_top sc tn = true -> plain_in sc (KMessage tn) (FM m) = true ->
  encode E sc tn m = pj_marshal E sc tn m /\ to_json E sc tn m = pj_marshal E sc tn m.
Proof.
  intros tn m Ht Hp. split.
  - unfold encode. rewrite (plain_top_not_owned sc tn Ht). reflexivity.
  - unfold to_json, pj_marshal. apply (mapping_plain_fval (FM m) None (KMessage tn) I Hp).
Qed.
End Unannotated.

(* ---- refutations: one witness per (annotation x context) class ------------------------------------------------ *)
Definition refuted5 (d : c05_defect) (tn : str) (m : mval) : Prop :=
  defects_C05 xs tn m = [d] /\
  exists j, to_json Ex xs tn m = ROk j /\ encode Ex xs tn m <> ROk j.
Ltac refute5 := split; [vm_compute; reflexivity | eexists; split; [vm_compute; reflexivity | vm_compute; discriminate]].

Theorem C05_refuted_nested_int64 : refuted5 (D5Pj AInt64) (q "NumsHolder") [(s "inner", FM [(s "big", vint 5)])].
Proof. refute5. Qed.
Theorem C05_refuted_nested_nullable : refuted5 (D5Pj ANullable) (q "NulHolder") [(s "n", FM [(s "id", vstr "x")])].
Proof. refute5. Qed.
Theorem C05_refuted_nested_empty : refuted5 (D5Pj AEmpty) (q "EmpHolder") [(s "e", FM [(s "nul_it", FM [])])].
Proof. refute5. Qed.
Theorem C05_refuted_nested_ts : refuted5 (D5Pj ATs) (q "TimesHolder") [(s "t", FM [(s "secs", tsv 5 0)])].
Proof. refute5. Qed.
Theorem C05_refuted_nested_bytes : refuted5 (D5Pj ABytes) (q "BlobHolder") [(s "b", FM [(s "h", FS (VBytes [ch 105; ch 183]))])].
Proof. refute5. Qed.
Theorem C05_refuted_nested_flatten : refuted5 (D5Pj AFlatten) (q "PostHolder") [(s "p", FM [(s "detail", FM [(s "n", vint 1)])])].
Proof. refute5. Qed.
Theorem C05_refuted_nested_oneof : refuted5 (D5Pj AOneof) (q "EventHolder") [(s "ev", FM [(s "image", FM [(s "url", vstr "u")])])].
Proof. refute5. Qed.
Theorem C05_refuted_nested_unwrap : refuted5 (D5Pj AUnwrap) (q "BarHolder") [(s "bl", FM [(s "bars", FL [FM []])])].
Proof. refute5. Qed.
Theorem C05_refuted_map_int64 : refuted5 (D5MapSkipped AInt64) (q "NumMap") [(s "by_k", FMap [(VStr (s "k"), vint 5)])].
Proof. refute5. Qed.
Theorem C05_refuted_enum_value : refuted5 D5EnumValue (q "WithEnum") [(s "status", FS (VEnum 1))].
Proof. refute5. Qed.
Theorem C05_refuted_enum_number : refuted5 D5EnumNumber (q "WithEnum") [(s "level", FS (VEnum 1))].
Proof. refute5. Qed.
Theorem C05_refuted_reflected_child : refuted5 D5FlattenChild (q "Post") [(s "detail", FM [(s "body_text", vstr "b")])].
Proof. refute5. Qed.
Theorem C05_refuted_flat_oneof_child :
  defects_C05 xs (q "FlatEvent") [(s "wide", FM [(s "alt_text", vstr "a")])] = [D5FlatOneofChild; D5FlattenChild] /\
  exists j, to_json Ex xs (q "FlatEvent") [(s "wide", FM [(s "alt_text", vstr "a")])] = ROk j /\
            encode Ex xs (q "FlatEvent") [(s "wide", FM [(s "alt_text", vstr "a")])] <> ROk j.
Proof. refute5. Qed.
Theorem C05_refuted_unwrap_sibling : refuted5 D5UnwrapSibling (q "Series") [(s "total_count", vint 4)].
Proof. refute5. Qed.
Theorem C05_refuted_root_null : refuted5 D5RootNull (q "Strs") [].
Proof. refute5. Qed.

(* {"h":"abc"} on a HEX field: the hex error is swallowed, protojson reads base64 -> bytes 69 b7 *)
Theorem C05_refuted_bytes_error_swallowed :
  hex_swallowed xs (q "Blob") (JObj [(s "h", JStr (s "abc"))]) = true /\
  hex_dec (s "abc") = None /\
  decode Ex xs (q "Blob") (JObj [(s "h", JStr (s "abc"))]) = ROk [(s "h", FS (VBytes [ch 105; ch 183]))].
Proof. vm_compute. auto. Qed.

(* non-vacuity of the unannotated theorem and of the defect-free region *)
Example C05_nonvacuous_plain :
  let m := [(s "id", vstr "i"); (s "big_num", vint (-5)); (s "tags", FL [vstr "a"]);
            (s "by_key", FMap [(VStr (s "k"), FM [(s "a", vstr "x")])]); (s "leaf", FM []); (s "at", tsv 5 0)] in
  plain_top xs (q "Plain") = true /\ plain_in xs (KMessage (q "Plain")) (FM m) = true /\ defects_C05 xs (q "Plain") m = [].
Proof. vm_compute. auto. Qed.
Example C05_nonvacuous_conforms :
  let m := [(s "secs", tsv 5 123); (s "day", tsv 90000 0); (s "id", vstr "x")] in
  owns xs (q "Times") = true /\ defects_C05 xs (q "Times") m = [] /\ encode Ex xs (q "Times") m = to_json Ex xs (q "Times") m.
Proof. vm_compute. auto. Qed.
Close Scope Z_scope.
