(* OneofExamples.v — witnesses for OneofFacts.oneof_roundtrip: non-vacuity (shared schema xs and a schema with richer
   variants), and for every side condition a value on which all the other hypotheses hold and the round trip fails. *)
From Coq Require Import Lia ZArith List String.
From Sebuf Require Import CodecCases.
From Sebuf Require Validate.
From SebufProofs Require Import TextFacts CodecTextFacts ProtoJsonFacts CodecExamples CodecFacts.
From SebufProofs Require NullableFacts.
From SebufProofs Require Import OneofPj OneofReflect OneofFacts.
Import ListNotations.

Open Scope Z_scope.

(* the hypotheses of oneof_roundtrip, in the order of its statement:
   owner = discriminated oneof; wt1; defects_C04 = []; distinct oneof names; oneof_keys_ok; disc_values_ok;
   variant_types_plain; variant_no_gap *)
Definition oneof_hyps (sc : schema) (tn : str) (m : mval) : list bool :=
  match find_message (all_messages sc) tn with
  | Some md => [match owner_of sc md with Own FtOneof => true | _ => false end; wt1 sc tn m;
                match defects_C04 sc tn m with [] => true | _ => false end;
                NullableFacts.nodup_str (map o_name (m_oneofs md)); oneof_keys_ok sc md m; disc_values_ok md;
                variant_types_plain sc md m; variant_no_gap sc md m]
  | None => []
  end.

(* oneof_roundtrip with its hypotheses as one computed list *)
Theorem oneof_roundtrip_b : forall E, ExtLaws E -> forall sc tn m j,
  oneof_hyps sc tn m = [true; true; true; true; true; true; true; true] ->
  encode E sc tn m = ROk j -> decode E sc tn j = ROk (norm sc tn m).
Proof.
  intros E EL sc tn m j Hh Henc. unfold oneof_hyps in Hh.
  destruct (find_message (all_messages sc) tn) as [md|] eqn:Hfm; [|discriminate Hh].
  destruct (owner_of sc md) as [|ft|] eqn:Hown; try discriminate Hh. destruct ft; try discriminate Hh.
  destruct (defects_C04 sc tn m) eqn:Hd; [|discriminate Hh].
  injection Hh as H2 H4 H5 H6 H7 H8.
  exact (oneof_roundtrip E EL sc tn md m j Hfm Hown H2 Hd H4 H5 H6 H7 H8 Henc).
Qed.

Definition all_true : list bool := [true; true; true; true; true; true; true; true].

(* every hypothesis holds, the encoder answers [j], and the decoder gives the value back *)
Definition oneof_case_ok (sc : schema) (tn : str) (m : mval) (j : json) : Prop :=
  oneof_hyps sc tn m = all_true /\ encode Ex sc tn m = ROk j /\ decode Ex sc tn j = ROk m /\ norm sc tn m = m.
(* every hypothesis but the n-th holds, and the round trip fails *)
Definition oneof_case_needs (n : nat) (sc : schema) (tn : str) (m : mval) : Prop :=
  oneof_hyps sc tn m = map (fun i => negb (Nat.eqb i n)) (seq 0 8) /\ rt_holds Ex sc tn m = false.

Definition oo (n d : string) (fl : bool) : oneof :=
  {| o_name := s n; o_has_cfg := true; o_discriminator := s d; o_flatten := fl |}.
Definition set_oval (v : string) (f : field) : field :=
  {| f_name := f_name f; f_number := f_number f; f_kind := f_kind f; f_card := f_card f; f_oneof := f_oneof f; f_query := f_query f;
     f_unwrap := f_unwrap f; f_int64 := f_int64 f; f_enumenc := f_enumenc f; f_nullable := f_nullable f; f_empty := f_empty f;
     f_tsfmt := f_tsfmt f; f_bytesenc := f_bytesenc f; f_oneof_value := Some (s v); f_flatten := f_flatten f; f_flatten_prefix := f_flatten_prefix f |}.

Definition os : schema :=
  [ {| fl_path := s "x/o.proto"; fl_package := s "x.v1"; fl_gopkg := s "x"; fl_generate := true;
       fl_messages :=
  [ msg "Pic" [fld "url" 1 KString Singular; fld "w" 2 KInt32 Singular; fld "n" 3 KInt64 Singular; fld "tags" 4 KString Repeated;
               fld "by" 5 KInt64 (MapOf KString); fld "ob" 6 KBytes Optional; fld "bm" 7 KString (MapOf KBool);
               fld "ratio" 8 KDouble Singular] [];
    msg "Note" [fld "body_text" 1 KString Singular; fld "w" 2 KInt32 Singular; fld "fs" 3 KDouble Repeated;
                fld "bm" 4 KString (MapOf KBool)] [];
    msg "Fold" [fld "alt_text" 1 KString Singular; fld "alttext" 2 KInt32 Singular] [];
    msg "Self" [fld "self" 1 KString Singular] [];
    msg "Leaf" [fld "a" 1 KString Singular] [];
    msg "EmpC" [set_empty EBNull (fld "nul_it" 1 (T "Leaf") Singular); fld "id" 2 KString Singular] [];
    (* one non-flattened oneof: scalar, message, Timestamp members; a member named like the discriminator *)
    msg "Ev" [fld "eid" 1 KString Singular; set_oneof "content" (fld "text" 2 KString Singular);
              set_oneof "content" (fld "note" 3 (T "Note") Singular); set_oneof "content" (fld "at" 4 TS Singular);
              set_oneof "content" (fld "fo" 5 (T "Fold") Singular); set_oneof "content" (fld "ctype" 6 KString Singular)]
       [oo "content" "ctype" false];
    (* one flattened oneof *)
    msg "Fl" [fld "eid" 1 KString Singular; set_oneof "content" (fld "pic" 3 (T "Pic") Singular);
              set_oneof "content" (fld "at" 4 TS Singular); set_oneof "content" (fld "ec" 5 (T "EmpC") Singular);
              set_oneof "content" (fld "self" 6 (T "Self") Singular)]
       [oo "content" "ctype" true];
    (* two configured oneofs, one flattened and one not *)
    msg "Two" [fld "eid" 1 KString Singular; set_oneof "a" (fld "pic" 2 (T "Pic") Singular); set_oneof "a" (fld "leaf" 3 (T "Leaf") Singular);
               set_oneof "b" (fld "note" 4 (T "Note") Singular); set_oneof "b" (fld "txt" 5 KString Singular)]
       [oo "a" "akind" true; oo "b" "bkind" false];
    (* two flattened oneofs sharing the discriminator *)
    msg "Dup" [fld "eid" 1 KString Singular; set_oneof "a" (fld "pic" 2 (T "Pic") Singular); set_oneof "b" (fld "leaf" 3 (T "Leaf") Singular)]
       [oo "a" "kind" true; oo "b" "kind" true];
    (* two variants with the same oneof_value *)
    msg "Dv" [set_oneof "a" (set_oval "x" (fld "leaf" 1 (T "Leaf") Singular)); set_oneof "a" (set_oval "x" (fld "pic" 2 (T "Pic") Singular))]
       [oo "a" "kind" true] ];
       fl_enums := []; fl_services := [] |} ].

Definition picv : fval :=
  FM [(s "url", vstr "u"); (s "w", vint 3); (s "n", vint 9007199254740993); (s "tags", FL [vstr "a"; vstr "b"]);
      (s "by", FMap [(VStr (s "k"), vint 5)]); (s "ratio", FS (VFloat 4609434218613702656))].
Definition picj : list (str * json) :=
  [(s "url", JStr (s "u")); (s "w", JNum 3); (s "n", JNum 9007199254740993); (s "tags", JArr [JStr (s "a"); JStr (s "b")]);
   (s "by", JObj [(s "k", JNum 5)]); (s "ratio", jflt 4609434218613702656)].

Ltac caseok := repeat split; vm_compute; reflexivity.

(* ---- non-vacuity ---------------------------------------------------------------------------------------------------------------- *)
(* the shared schema xs: Event (non-flattened, message member), FlatEvent (flattened, message member) *)
Example oneof_nonvacuous_xs :
  oneof_case_ok xs (q "Event") [(s "eid", vstr "e"); (s "image", FM [(s "url", vstr "u")])]
    (JObj [(s "eid", JStr (s "e")); (s "image", JObj [(s "url", JStr (s "u"))]); (s "ctype", JStr (s "image"))]) /\
  oneof_case_ok xs (q "FlatEvent") [(s "eid", vstr "e"); (s "wide", FM [])]
    (JObj [(s "eid", JStr (s "e")); (s "ctype", JStr (s "wide"))]).
Proof. split; caseok. Qed.

(* richer variants: no member; a scalar member; a non-flattened message member (multi-word field, repeated double);
   a flattened message member (int64, repeated, map, double); two configured oneofs at once *)
Example oneof_nonvacuous_os :
  oneof_case_ok os (q "Ev") [(s "eid", vstr "e")] (JObj [(s "eid", JStr (s "e"))]) /\
  oneof_case_ok os (q "Ev") [(s "eid", vstr "e"); (s "text", vstr "hi")]
    (JObj [(s "eid", JStr (s "e")); (s "text", JStr (s "hi")); (s "ctype", JStr (s "text"))]) /\
  oneof_case_ok os (q "Ev")
    [(s "eid", vstr "e"); (s "note", FM [(s "body_text", vstr "b"); (s "w", vint 3); (s "fs", FL [FS (VFloat 4609434218613702656)])])]
    (JObj [(s "eid", JStr (s "e"));
           (s "note", JObj [(s "bodyText", JStr (s "b")); (s "w", JNum 3); (s "fs", JArr [jflt 4609434218613702656])]);
           (s "ctype", JStr (s "note"))]) /\
  oneof_case_ok os (q "Fl") [(s "eid", vstr "e"); (s "pic", picv)]
    (JObj ([(s "eid", JStr (s "e")); (s "ctype", JStr (s "pic"))] ++ picj)) /\
  oneof_case_ok os (q "Two") [(s "eid", vstr "e"); (s "pic", picv); (s "note", FM [(s "w", vint 3)])]
    (JObj ([(s "eid", JStr (s "e")); (s "note", JObj [(s "w", JNum 3)]); (s "akind", JStr (s "pic"))] ++ picj ++
           [(s "bkind", JStr (s "note"))])).
Proof. do 4 (split; [caseok|]). caseok. Qed.

(* ---- every side condition is needed ------------------------------------------------------------------------------------------------ *)
(* oneof_keys_ok (hypothesis 4).  None of the three is caught by annotations.ValidateOneofDiscriminator:
   a variant named like its own discriminator (the discriminator overwrites the variant);
   two flattened oneofs with the same discriminator (the first decoder reads the other's value and leaves its child inlined) *)
Example oneof_needs_keys_ok :
  (* (since confirmed on the emitted code and tagged: defect class D4OneofMemberIsDiscriminator) *)
  defects_C04 os (q "Ev") [(s "eid", vstr "e"); (s "ctype", vstr "x")] = [D4OneofMemberIsDiscriminator] /\
  oneof_case_needs 4 os (q "Dup") [(s "eid", vstr "e"); (s "pic", FM [(s "url", vstr "u")]); (s "leaf", FM [(s "a", vstr "x")])] /\
  (* a flattened variant whose type has a field named like the variant: `delete(raw, "self")` removes the child's field *)
  (* (since confirmed on the emitted code and tagged: defect class D4FlatVariantFieldIsVariant) *)
  defects_C04 os (q "Fl") [(s "eid", vstr "e"); (s "self", FM [(s "self", vstr "x")])] = [D4FlatVariantFieldIsVariant].
Proof. repeat split; vm_compute; reflexivity. Qed.

(* the generators' own validation (annotations.ValidateOneofDiscriminator, checkMarshalJSONConflict) accepts these message types *)
Definition validator_accepts (sc : schema) (tn : str) : bool :=
  match find_message (all_messages sc) tn with
  | Some md => match Validate.oneof_msg_check sc md, Validate.oneof_conflict_check md with None, None => true | _, _ => false end
  | None => false
  end.
Example oneof_validator_accepts :
  validator_accepts os (q "Ev") = true /\ validator_accepts os (q "Fl") = true /\ validator_accepts os (q "Dup") = true /\
  validator_accepts os (q "Dv") = true /\ validator_accepts os (q "Two") = true.
Proof. repeat split; vm_compute; reflexivity. Qed.

(* disc_values_ok (hypothesis 5): two variants with the same oneof_value — the decoder takes the first *)
Example oneof_needs_disc_values :
  oneof_case_needs 5 os (q "Dv") [(s "pic", FM [(s "url", vstr "u")])].
Proof. repeat split; vm_compute; reflexivity. Qed.

(* variant_types_plain (hypothesis 6): a Timestamp member (non-flattened: json.Unmarshal of an RFC 3339 string into the
   struct; flattened: {"seconds":5} handed to protojson) and a member whose type owns a codec (empty_behavior = NULL:
   the null the child's MarshalJSON writes is dropped by the parent's protojson.Unmarshal).  No defect class fires. *)
Example oneof_needs_types_plain :
  oneof_case_needs 6 os (q "Ev") [(s "eid", vstr "e"); (s "at", FM [])] /\
  oneof_case_needs 6 os (q "Fl") [(s "eid", vstr "e"); (s "at", FM [(s "seconds", vint 5)])] /\
  oneof_case_needs 6 os (q "Fl") [(s "eid", vstr "e"); (s "ec", FM [(s "nul_it", FM [])])].
Proof. repeat split; vm_compute; reflexivity. Qed.

(* variant_no_gap (hypothesis 7) excludes a multi-word field of a non-flattened member whose lowerCamel key folds onto another
   field of the Go struct.  Every shape this condition was introduced for has been confirmed on the emitted code and is a
   defect class now (below); what it still excludes beyond them is [oneof_no_gap_remainder]. *)
Example oneof_needs_no_gap :
  (* flattened: an empty `optional bytes` is dropped by omitempty (class D4ReflectedEmptyOptBytes) *)
  defects_C04 os (q "Fl") [(s "eid", vstr "e"); (s "pic", FM [(s "ob", FS (VBytes []))])] = [D4ReflectedEmptyOptBytes] /\
  rt_holds Ex os (q "Fl") [(s "eid", vstr "e"); (s "pic", FM [(s "ob", FS (VBytes []))])] = false /\
  (* flattened: json.Marshal fails on map[bool]string, the error is swallowed, the variant is dropped (class D4FlatVariantBoolMap) *)
  defects_C04 os (q "Fl") [(s "eid", vstr "e"); (s "pic", FM [(s "bm", FMap [(VBool true, vstr "x")])])] = [D4FlatVariantBoolMap] /\
  (* non-flattened: "NaN" inside a repeated double is rejected by json.Unmarshal (class D4OneofVariantReflect) *)
  defects_C04 os (q "Ev") [(s "eid", vstr "e"); (s "note", FM [(s "fs", FL [FS (VFloat 9221120237041090561)])])] = [D4OneofVariantReflect] /\
  rt_holds Ex os (q "Ev") [(s "eid", vstr "e"); (s "note", FM [(s "fs", FL [FS (VFloat 9221120237041090561)])])] = false /\
  (* non-flattened: map[bool]string is no target for json.Unmarshal (class D4OneofVariantBoolMap) *)
  defects_C04 os (q "Ev") [(s "eid", vstr "e"); (s "note", FM [(s "bm", FMap [(VBool true, vstr "x")])])] = [D4OneofVariantBoolMap] /\
  rt_holds Ex os (q "Ev") [(s "eid", vstr "e"); (s "note", FM [(s "bm", FMap [(VBool true, vstr "x")])])] = false /\
  (* non-flattened: "altText" folds onto the int32 field alttext, which does not read a string (class D4OneofVariantFoldClash) *)
  defects_C04 os (q "Ev") [(s "eid", vstr "e"); (s "fo", FM [(s "alt_text", vstr "x")])] = [D4OneofVariantFoldClash] /\
  rt_holds Ex os (q "Ev") [(s "eid", vstr "e"); (s "fo", FM [(s "alt_text", vstr "x")])] = false.
Proof. repeat split; vm_compute; reflexivity. Qed.

(* defects_C04 = [] (hypothesis 2): the three classes of CodecCases.local_defects for this codec, on xs *)
Example oneof_needs_no_defects :
  oneof_case_needs 2 xs (q "Event") [(s "image", FM [(s "size", vint 7)])] /\
  oneof_case_needs 2 xs (q "FlatEvent") [(s "eid", vstr "e"); (s "wide", FM [(s "alt_text", vstr "a")])].
Proof. repeat split; vm_compute; reflexivity. Qed.

(* ---- the decoder on contract-form input: two corners of encoding/json the model follows ------------------------------------------ *)
Definition fs : schema :=
  [ {| fl_path := s "x/f.proto"; fl_package := s "x.v1"; fl_gopkg := s "x"; fl_generate := true;
       fl_messages :=
  [ msg "Fold2" [fld "foo_bar" 1 KString Singular; fld "foobar" 2 KString Singular] [];
    msg "Bm" [fld "flags" 1 KString (MapOf KBool); fld "name" 2 KString Singular] [];
    msg "Floats" [fld "xs" 1 KDouble Repeated; fld "name" 2 KString Singular] [];
    msg "FlatG" [fld "id" 1 KString Singular; set_oneof "c" (fld "fo" 2 (T "Fold2") Singular);
                 set_oneof "c" (fld "bm" 3 (T "Bm") Singular); set_oneof "c" (fld "fl" 4 (T "Floats") Singular)] [oo "c" "kind" true];
    msg "NestG" [fld "id" 1 KString Singular; set_oneof "c" (fld "fo" 2 (T "Fold2") Singular);
                 set_oneof "c" (fld "bm" 3 (T "Bm") Singular)] [oo "c" "kind" false] ];
       fl_enums := []; fl_services := [] |} ].

(* flattened: the decoder collects "fooBar" and "foobar" into variantMap, json.Marshal writes them in byte order, and
   json.Unmarshal matches "fooBar" case-insensitively onto the struct field foobar (no field is called fooBar or foo_bar
   up to case), then "foobar" exactly: the later key wins, foo_bar is lost and nothing is reported.  The order of the keys
   in the request does not matter (observed on the emitted code: {"fooBar":".","foobar":"..","kind":"fo"} -> fo:{foobar:".."}) *)
Example flat_decode_fold_clash :
  decode Ex fs (q "FlatG") (JObj [(s "fooBar", JStr (s ".")); (s "foobar", JStr (s "..")); (s "kind", JStr (s "fo"))])
    = ROk [(s "fo", FM [(s "foobar", vstr "..")])] /\
  decode Ex fs (q "FlatG") (JObj [(s "foobar", JStr (s "..")); (s "kind", JStr (s "fo")); (s "fooBar", JStr (s "."))])
    = ROk [(s "fo", FM [(s "foobar", vstr "..")])] /\
  (* non-flattened: the same folding happens while the variant is checked, then protojson reads the whole object *)
  decode Ex fs (q "NestG") (JObj [(s "fo", JObj [(s "fooBar", JStr (s ".")); (s "foobar", JStr (s ".."))]); (s "kind", JStr (s "fo"))])
    = ROk [(s "fo", FM [(s "foo_bar", vstr "."); (s "foobar", vstr "..")])].
Proof. repeat split; vm_compute; reflexivity. Qed.

(* map[bool]T is no target for json.Unmarshal: the contract form of a bool-keyed map inside a variant is refused, flattened
   or not (observed on the emitted code: {"flags":{"true":"x"},"kind":"bm","name":"n"} is answered 400) *)
Example variant_decode_bool_map_refused :
  (exists e, decode Ex fs (q "FlatG") (JObj [(s "flags", JObj [(s "true", JStr (s "x"))]); (s "kind", JStr (s "bm")); (s "name", JStr (s "n"))])
             = RErr e) /\
  (exists e, decode Ex fs (q "NestG") (JObj [(s "bm", JObj [(s "flags", JObj [(s "true", JStr (s "x"))])]); (s "kind", JStr (s "bm"))])
             = RErr e) /\
  (* null leaves the map alone (for encoding/json and for protojson), and a variant without the map is read *)
  decode Ex fs (q "NestG") (JObj [(s "bm", JObj [(s "flags", JNull); (s "name", JStr (s "n"))]); (s "kind", JStr (s "bm"))])
    = ROk [(s "bm", FM [(s "name", vstr "n")])] /\
  decode Ex fs (q "NestG") (JObj [(s "bm", JObj [(s "name", JStr (s "n"))]); (s "kind", JStr (s "bm"))])
    = ROk [(s "bm", FM [(s "name", vstr "n")])].
Proof. repeat split; try (eexists; vm_compute; reflexivity); vm_compute; reflexivity. Qed.

(* what variant_no_gap still excludes although no defect class fires: the key folds onto a field that READS the value (both
   are strings).  Not a failure of the round trip — every other hypothesis holds and so does the conclusion (json.Unmarshal
   puts "." into foobar, then ".." over it; its result is only a check, protojson reads the object afterwards) — but the
   proof does not follow encoding/json through a field that is assigned twice. *)
Example oneof_no_gap_remainder :
  let m := [(s "fo", FM [(s "foo_bar", vstr "."); (s "foobar", vstr "..")])] in
  oneof_hyps fs (q "NestG") m = map (fun i => negb (Nat.eqb i 7)) (seq 0 8) /\ rt_holds Ex fs (q "NestG") m = true.
Proof. split; vm_compute; reflexivity. Qed.

(* ---- one refutation per defect class of the discriminated-oneof codec found by the side conditions (all confirmed on the
   emitted code): the class fires alone, the encoder answers, and the decoder does not give the value back *)
Definition refuted4_on (sc : schema) (d : c04_defect) (tn : str) (m : mval) : Prop :=
  defects_C04 sc tn m = [d] /\
  exists j, encode Ex sc tn m = ROk j /\ decode Ex sc tn j <> ROk (norm sc tn m).
Ltac refute4on := split; [vm_compute; reflexivity | eexists; split; [vm_compute; reflexivity | vm_compute; discriminate]].

Theorem refuted_oneof_member_is_discriminator :
  refuted4_on os D4OneofMemberIsDiscriminator (q "Ev") [(s "eid", vstr "e"); (s "ctype", vstr "x")].
Proof. refute4on. Qed.
Theorem refuted_flat_variant_field_is_variant :
  refuted4_on os D4FlatVariantFieldIsVariant (q "Fl") [(s "eid", vstr "e"); (s "self", FM [(s "self", vstr "x")])].
Proof. refute4on. Qed.
Theorem refuted_flat_variant_bool_map :
  refuted4_on os D4FlatVariantBoolMap (q "Fl") [(s "eid", vstr "e"); (s "pic", FM [(s "bm", FMap [(VBool true, vstr "x")])])].
Proof. refute4on. Qed.
Theorem refuted_oneof_variant_bool_map :
  refuted4_on os D4OneofVariantBoolMap (q "Ev") [(s "eid", vstr "e"); (s "note", FM [(s "bm", FMap [(VBool true, vstr "x")])])].
Proof. refute4on. Qed.
Theorem refuted_reflected_empty_opt_bytes :
  refuted4_on os D4ReflectedEmptyOptBytes (q "Fl") [(s "eid", vstr "e"); (s "pic", FM [(s "ob", FS (VBytes []))])].
Proof. refute4on. Qed.
Theorem refuted_oneof_variant_fold_clash :
  refuted4_on os D4OneofVariantFoldClash (q "Ev") [(s "eid", vstr "e"); (s "fo", FM [(s "alt_text", vstr "x")])].
Proof. refute4on. Qed.
(* D4OneofVariantReflect, the extension: NaN as an ELEMENT of a repeated double *)
Theorem refuted_oneof_variant_reflect_nonfinite_element :
  refuted4_on os D4OneofVariantReflect (q "Ev") [(s "eid", vstr "e"); (s "note", FM [(s "fs", FL [FS (VFloat 9221120237041090561)])])].
Proof. refute4on. Qed.

(* C05, response direction: NaN inside a repeated double of a flattened variant makes json.Marshal(inner) fail, the error is
   swallowed and the server sends the discriminator only; the classes flat-oneof-child-encoding-json and reflected-child-encoding-json cover it
   (CodecCases.reflect_differs looks inside lists and maps) *)
Example c05_flat_variant_nonfinite_element :
  let m := [(s "fl", FM [(s "xs", FL [FS (VFloat 9221120237041090561)]); (s "name", vstr "n")])] in
  defects_C05 fs (q "FlatG") m = [D5FlatOneofChild; D5FlattenChild] /\
  encode Ex fs (q "FlatG") m = ROk (JObj [(s "kind", JStr (s "fl"))]) /\
  to_json Ex fs (q "FlatG") m = ROk (JObj [(s "kind", JStr (s "fl")); (s "xs", JArr [JStr (s "NaN")]); (s "name", JStr (s "n"))]).
Proof. repeat split; vm_compute; reflexivity. Qed.

(* wt1 accepts what wt rejects: a populated oneof member *)
Example wt1_beyond_wt :
  wt xs (KMessage (q "Event")) (FM [(s "eid", vstr "e"); (s "image", FM [(s "url", vstr "u")])]) = false /\
  wt1 xs (q "Event") [(s "eid", vstr "e"); (s "image", FM [(s "url", vstr "u")])] = true /\
  (* and two members of one oneof are not well-typed *)
  wt1 os (q "Ev") [(s "text", vstr "a"); (s "ctype", vstr "b")] = false.
Proof. repeat split; vm_compute; reflexivity. Qed.
Close Scope Z_scope.
