(* TsTypesFacts.v — C07: the proto3-JSON form of every well-typed, fully populated value of the plain
   fragment (scalars, bytes, enums, nested messages, repeated fields, maps; any depth, recursive types
   included) inhabits the TypeScript interface the generators declare for its message. *)
From Sebuf Require Import Text Json Schema Value Num TsTypes.
From SebufProofs Require Import TextFacts.

(* ---- the plain fragment -------------------------------------------------------------------------------- *)
Definition no_annot (f : field) : bool :=
  negb (f_unwrap f) &&
  match f_int64 f with Some I64Number => false | _ => true end &&
  match f_enumenc f with Some EENumber => false | _ => true end &&
  match f_nullable f with Some true => false | _ => true end &&
  match f_flatten f with Some true => false | _ => true end &&
  match f_tsfmt f with Some TFUnixSeconds | Some TFUnixMillis => false | _ => true end.

Fixpoint nodup_str (l : list str) : bool :=
  match l with [] => true | x :: r => negb (existsb (str_eqb x) r) && nodup_str r end.

Definition plain_message (sc : schema) (M : message) : bool :=
  forallb no_annot (m_fields M) &&
  forallb (fun f => negb (is_timestamp (f_kind f))) (m_fields M) &&
  match disc_oneofs M with [] => true | _ => false end &&
  nodup_str (map (fun f => json_name (f_name f)) (m_fields M)) &&
  nodup_str (map f_name (m_fields M)) &&
  (* no map value collapses to an array (unwrap in the value message) *)
  forallb (fun f => match f_kind f with
                    | KMessage tn => match find_unwrap_list sc tn with Some _ => false | None => true end
                    | _ => true end) (m_fields M).

Definition enum_plain (sc : schema) (tn : str) : bool :=
  match find_enum (all_enums sc) tn with
  | Some e => forallb (fun v => match ev_custom v with Some (_ :: _) => false | _ => true end) (e_values e)
  | None => false
  end.

Definition sval_ok (sc : schema) (k : kind) (x : sval) : bool :=
  match x, k with
  | VInt _, (KInt32 | KSint32 | KSfixed32 | KUint32 | KFixed32 | KInt64 | KSint64 | KSfixed64 | KUint64 | KFixed64) => true
  | VBool _, KBool => true
  | VStr _, KString => true
  | VBytes _, KBytes => true
  | VEnum n, KEnum tn => enum_named sc tn n && enum_plain sc tn
  | _, _ => false
  end.

Definition is_elem (v : fval) : bool := match v with FL _ | FMap _ => false | _ => true end.
Definition card_fits (c : card) (v : fval) : bool :=
  match c, v with
  | Repeated, FL _ => true
  | MapOf _, FMap _ => true
  | (Singular | Optional), (FS _ | FM _) => true
  | _, _ => false
  end.

(* well-typed and fully populated, to the same fuel discipline as pj_val: every implicit-presence field of
   every reachable message holds a value (the region outside implicit-presence-omitted) *)
Fixpoint wt (fuel : nat) (sc : schema) (k : kind) (v : fval) {struct fuel} : bool :=
  match fuel with
  | O => false
  | S f =>
      match v with
      | FS x => sval_ok sc k x
      | FM m =>
          match k with
          | KMessage tn =>
              negb (str_eqb tn timestamp_name) &&
              match find_message (all_messages sc) tn with
              | None => false
              | Some M =>
                  plain_message sc M &&
                  forallb (fun fd => is_optional fd || populated m fd) (m_fields M) &&
                  nodup_str (map fst m) &&
                  forallb (fun e => match find_field (m_fields M) (fst e) with
                                    | Some fd => card_fits (f_card fd) (snd e) && wt f sc (f_kind fd) (snd e)
                                    | None => false end) m
              end
          | _ => false
          end
      | FL l => forallb (fun x => is_elem x && wt f sc k x) l
      | FMap kv => forallb (fun e => is_elem (snd e) && wt f sc k (snd e)) kv && nodup_str (map (fun e => map_key_str (fst e)) kv)
      end
  end.

(* the TS type of a value of kind k, by the value's shape *)
Definition ety (k : kind) : tsty :=
  match k with
  | KMessage tn => YRef (last_seg tn)
  | KEnum tn => YRef (last_seg tn)
  | KString | KBytes => YString
  | KBool => YBoolean
  | KInt32 | KSint32 | KSfixed32 | KUint32 | KFixed32 | KFloat | KDouble => YNumber
  | KInt64 | KSint64 | KSfixed64 | KUint64 | KFixed64 => YString
  end.
Definition vty (k : kind) (v : fval) : tsty :=
  match v with FL _ => YArray (ety k) | FMap _ => YRecord (ety k) | _ => ety k end.

(* the declaration environment holds, for every message and enum of the schema, the declaration the
   generators emit for it (under the name references use) *)
Definition enum_ty (e : enum) : tsty :=
  match e_values e with
  | [] => YString
  | vs => union_ty (map (fun v => YLit (match ev_custom v with Some (c :: r) => c :: r | _ => ev_name v end)) vs)
  end.
Definition env_ok (sc : schema) (e : env) : Prop :=
  (forall tn M, find_message (all_messages sc) tn = Some M ->
     lookup e (last_seg tn) = Some (YObject (map (field_prop sc []) (m_fields M)))) /\
  (forall tn E, find_enum (all_enums sc) tn = Some E -> lookup e (last_seg tn) = Some (enum_ty E)).

(* ---- list plumbing ------------------------------------------------------------------------------------------ *)
Lemma all_ok_inv {A} : forall (l : list (result A)) (out : list A),
  all_ok l = Ok out -> Forall2 (fun r a => r = Ok a) l out.
Proof.
  induction l as [|r l IH]; intros out H.
  - cbn in H. inversion H. constructor.
  - cbn in H. destruct r as [a|w]; [|discriminate].
    destruct (all_ok l) as [t|w] eqn:E; [|discriminate]. inversion H; subst. constructor; [reflexivity|now apply IH].
Qed.

Lemma Forall2_map_l {A B C} (f : A -> B) (R : B -> C -> Prop) : forall l out,
  Forall2 R (map f l) out -> Forall2 (fun a c => R (f a) c) l out.
Proof.
  induction l as [|a l IH]; intros out H; inversion H; subst; constructor; [assumption|now apply IH].
Qed.

Lemma has_key_in kv k v : In (k, v) kv -> has_key kv k = true.
Proof.
  intros H. unfold has_key. apply existsb_exists. exists (k, v). split; [exact H|apply str_eqb_refl].
Qed.

Lemma mget_in : forall (m : list (str * fval)) k v, mget m k = Some v -> In (k, v) m.
Proof.
  induction m as [|[k' v'] m IH]; intros k v H; [discriminate|]. cbn in H.
  destruct (str_eqb k k') eqn:E.
  - apply str_eqb_eq in E. inversion H; subst. now left.
  - right. now apply IH.
Qed.

Lemma find_field_name : forall fs n f, find_field fs n = Some f -> f_name f = n /\ In f fs.
Proof.
  induction fs as [|g fs IH]; intros n f H; [discriminate|]. cbn in H.
  destruct (str_eqb (f_name g) n) eqn:E.
  - inversion H; subst. apply str_eqb_eq in E. split; [exact E|now left].
  - destruct (IH n f H) as [A B]. split; [exact A|now right].
Qed.

Lemma nodup_str_filter {A} (key : A -> str) : forall (l : list A) (a : A),
  nodup_str (map key l) = true -> In a l ->
  filter (fun x => str_eqb (key x) (key a)) l = [a].
Proof.
  induction l as [|x l IH]; intros a Hnd Hin; [contradiction|].
  cbn [map nodup_str] in Hnd. apply andb_true_iff in Hnd as [Hx Hnd]. apply negb_true_iff in Hx.
  cbn [filter]. destruct Hin as [->|Hin].
  - rewrite str_eqb_refl. f_equal.
    clear IH Hnd. induction l as [|y l IH]; [reflexivity|]. cbn [map existsb] in Hx.
    apply orb_false_iff in Hx as [H1 H2]. cbn [filter].
    destruct (str_eqb (key y) (key a)) eqn:E.
    + apply str_eqb_eq in E. rewrite E, str_eqb_refl in H1. discriminate.
    + now apply IH.
  - destruct (str_eqb (key x) (key a)) eqn:E.
    + apply str_eqb_eq in E. exfalso.
      assert (T : existsb (str_eqb (key x)) (map key l) = true).
      { apply existsb_exists. exists (key a). split; [now apply in_map|]. rewrite E. apply str_eqb_refl. }
      congruence.
    + now apply IH.
Qed.

(* ---- field types in the plain fragment ------------------------------------------------------------------------ *)
Lemma elem_ty_plain f : no_annot f = true -> is_timestamp (f_kind f) = false -> elem_ty f = ety (f_kind f).
Proof.
  unfold no_annot. intros H Hts. repeat (apply andb_true_iff in H as [H ?]).
  unfold elem_ty, scalar_ty, ety. destruct (f_kind f) eqn:K; try reflexivity.
  - destruct (f_int64 f) as [[]|]; try reflexivity; discriminate.
  - destruct (f_int64 f) as [[]|]; try reflexivity; discriminate.
  - destruct (f_int64 f) as [[]|]; try reflexivity; discriminate.
  - destruct (f_int64 f) as [[]|]; try reflexivity; discriminate.
  - destruct (f_int64 f) as [[]|]; try reflexivity; discriminate.
  - destruct (f_enumenc f) as [[]|]; try reflexivity; discriminate.
  - rewrite Hts. reflexivity.
Qed.

Lemma field_ty_plain sc f v :
  no_annot f = true -> is_timestamp (f_kind f) = false -> card_fits (f_card f) v = true ->
  match f_kind f with KMessage tn => find_unwrap_list sc tn = None | _ => True end ->
  field_ty sc f = vty (f_kind f) v.
Proof.
  intros Hn Hts Hc Hu. unfold field_ty, vty.
  destruct (f_card f) eqn:C; destruct v; try discriminate; try (now apply elem_ty_plain).
  - now rewrite elem_ty_plain.
  - unfold map_value_ty. f_equal.
    assert (Hv : elem_ty (value_field f) = ety (f_kind f)).
    { change (ety (f_kind f)) with (ety (f_kind (value_field f))). apply elem_ty_plain; [reflexivity|exact Hts]. }
    destruct (f_kind f) eqn:K; try exact Hv.
    rewrite Hts, Hu. exact Hv.
Qed.

Lemma field_prop_plain sc f : no_annot f = true ->
  field_prop sc [] f = (json_name (f_name f), (is_optional f, field_ty sc f)).
Proof.
  unfold no_annot, field_prop. intros H. repeat (apply andb_true_iff in H as [H ?]).
  cbn [app]. destruct (f_nullable f) as [[]|]; try reflexivity; discriminate.
Qed.

(* ---- scalars ------------------------------------------------------------------------------------------------------ *)
Lemma enum_lit_inhabits : forall (vs : list enum_value) (n : Z) (fu : nat) (e : env),
  forallb (fun v => match ev_custom v with Some (_ :: _) => false | _ => true end) vs = true ->
  forall v, find (fun v => Z.eqb (ev_number v) n) vs = Some v ->
  existsb (fun t => inhabits (S fu) e t (JStr (ev_name v)))
          (map (fun v => YLit (match ev_custom v with Some (c :: r) => c :: r | _ => ev_name v end)) vs) = true.
Proof.
  induction vs as [|x vs IH]; intros n fu e Hp v Hf; [discriminate|].
  cbn [forallb] in Hp. apply andb_true_iff in Hp as [Hx Hp].
  cbn [find] in Hf. cbn [map existsb].
  destruct (Z.eqb (ev_number x) n).
  - inversion Hf; subst. destruct (ev_custom v) as [[|c r]|]; try discriminate; cbn; now rewrite str_eqb_refl.
  - rewrite (IH n fu e Hp v Hf). apply orb_true_r.
Qed.

Lemma shapes_ref fu e n :
  shapes (S fu) e (YRef n) = match lookup e n with Some d => shapes fu e d | None => None end.
Proof. reflexivity. Qed.
Lemma shapes_lit fu e x : shapes fu e (YLit x) = None.
Proof. destruct fu; reflexivity. Qed.

Lemma shapes_union_lit_none fu e x l : shapes fu e (YUnion (YLit x :: l)) = None.
Proof.
  destruct fu as [|fu]; [reflexivity|]. cbn [shapes fold_right]. destruct fu; reflexivity.
Qed.

Lemma inhabits_union_lits fu e x l j :
  inhabits (S fu) e (YUnion (YLit x :: l)) j = existsb (fun m => inhabits fu e m j) (YLit x :: l).
Proof.
  change (inhabits (S fu) e (YUnion (YLit x :: l)) j)
    with (match shapes (S fu) e (YUnion (YLit x :: l)) with
          | Some shs => match j with JObj kv => existsb (fun ps =>
               forallb (fun p => p_opt p || has_key kv (p_name p)) ps &&
               forallb (fun kvp => match filter (fun p => str_eqb (p_name p) (fst kvp)) ps with
                                   | [] => false
                                   | decls => forallb (fun p => inhabits fu e (p_ty p) (snd kvp)) decls
                                   end) kv) shs | _ => false end
          | None => existsb (fun m => inhabits fu e m j) (YLit x :: l)
          end).
  now rewrite shapes_union_lit_none.
Qed.

Lemma scalar_inhabits sc e k x j fu :
  env_ok sc e -> sval_ok sc k x = true -> pj_scalar sc k x = Ok j -> inhabits (S (S (S fu))) e (ety k) j = true.
Proof.
  intros [_ Henum] Hok Hpj.
  destruct x as [z|b|y|y|bits|n]; destruct k; cbn in Hok; try discriminate;
    cbn in Hpj; inversion Hpj; subst; try reflexivity.
  apply andb_true_iff in Hok as [Hnamed Hplain].
  unfold enum_named in Hnamed. unfold enum_plain in Hplain. unfold enum_json.
  destruct (find_enum (all_enums sc) tn) as [E|] eqn:HE; [|discriminate].
  destruct (find (fun v => Z.eqb (ev_number v) n) (e_values E)) as [v|] eqn:Hv.
  2: { exfalso. apply existsb_exists in Hnamed as [w [Hw1 Hw2]].
       pose proof (find_none _ _ Hv w Hw1) as F. cbv beta in F. congruence. }
  specialize (Henum tn E HE).
  pose proof (enum_lit_inhabits (e_values E) n fu e Hplain v Hv) as Hall.
  cbn [ety].
  (* the reference resolves to the union of literals, which is not object-like *)
  change (inhabits (S (S (S fu))) e (YRef (last_seg tn)) (JStr (ev_name v)))
    with (match shapes (S (S (S fu))) e (YRef (last_seg tn)) with
          | Some shs => false
          | None => match lookup e (last_seg tn) with
                    | Some d => inhabits (S (S fu)) e d (JStr (ev_name v)) | None => false end
          end).
  rewrite shapes_ref, Henum. unfold enum_ty in *.
  destruct (e_values E) as [|v0 vs] eqn:EV; [discriminate|].
  unfold union_ty. destruct vs as [|v1 vs].
  - cbn [map] in *. cbn [existsb] in Hall. rewrite orb_false_r in Hall.
    rewrite shapes_lit. cbn [inhabits] in Hall |- *. exact Hall.
  - cbn [map]. rewrite shapes_union_lit_none. rewrite inhabits_union_lits. exact Hall.
Qed.

(* ---- objects --------------------------------------------------------------------------------------------------------- *)
Definition shape_okF (fu : nat) (e : env) (ps : list prop) (kv : list (str * json)) : bool :=
  forallb (fun p => p_opt p || has_key kv (p_name p)) ps &&
  forallb (fun kvp => match filter (fun p => str_eqb (p_name p) (fst kvp)) ps with
                      | [] => false
                      | decls => forallb (fun p => inhabits fu e (p_ty p) (snd kvp)) decls
                      end) kv.

Lemma inhabits_ref_obj fu e n ps kv : lookup e n = Some (YObject ps) ->
  inhabits (S (S fu)) e (YRef n) (JObj kv) = shape_okF (S fu) e ps kv.
Proof.
  intros H.
  change (inhabits (S (S fu)) e (YRef n) (JObj kv))
    with (match shapes (S (S fu)) e (YRef n) with
          | Some shs => existsb (fun ps => shape_okF (S fu) e ps kv) shs
          | None => match lookup e n with Some d => inhabits (S fu) e d (JObj kv) | None => false end
          end).
  rewrite shapes_ref, H. cbn [shapes existsb]. apply orb_false_r.
Qed.

Lemma inhabits_array fu e el l : inhabits (S fu) e (YArray el) (JArr l) = forallb (inhabits fu e el) l.
Proof. reflexivity. Qed.
Lemma inhabits_record fu e el kv :
  inhabits (S fu) e (YRecord el) (JObj kv) = forallb (fun kvp => inhabits fu e el (snd kvp)) kv.
Proof. reflexivity. Qed.

Lemma pj_val_unfold f sc k v :
  pj_val (S f) sc k v =
  match v with
  | FS x => pj_scalar sc k x
  | FM m =>
      match k with
      | KMessage tn =>
          if str_eqb tn timestamp_name then Unmodelled (s "Timestamp value (RFC 3339 text not modelled)") else
          match find_message (all_messages sc) tn with
          | None => Unmodelled (s "message outside the schema")
          | Some md =>
              match all_ok (map (fun e => match find_field (m_fields md) (fst e) with
                                          | Some fd => match pj_val f sc (f_kind fd) (snd e) with
                                                       | Ok j => Ok (json_name (f_name fd), j)
                                                       | Unmodelled w => Unmodelled w end
                                          | None => Unmodelled (s "value names an undeclared field") end) m) with
              | Ok kv => Ok (JObj kv)
              | Unmodelled w => Unmodelled w
              end
          end
      | _ => Unmodelled (s "message value in a scalar field")
      end
  | FL l => match all_ok (map (pj_val f sc k) l) with Ok js => Ok (JArr js) | Unmodelled w => Unmodelled w end
  | FMap kv =>
      match all_ok (map (fun e => match pj_val f sc k (snd e) with
                                  | Ok j => Ok (map_key_str (fst e), j) | Unmodelled w => Unmodelled w end) kv) with
      | Ok o => Ok (JObj o)
      | Unmodelled w => Unmodelled w
      end
  end.
Proof. reflexivity. Qed.

Lemma vty_elem k v : is_elem v = true -> vty k v = ety k.
Proof. destruct v; try discriminate; reflexivity. Qed.

(* ---- the main induction ------------------------------------------------------------------------------------------------ *)
Theorem val_inhabits sc e : env_ok sc e -> forall f k v j,
  wt f sc k v = true -> pj_val f sc k v = Ok j -> inhabits (S (S f)) e (vty k v) j = true.
Proof.
  intros Henv. induction f as [|f IH]; intros k v j Hwt Hpj; [discriminate|].
  rewrite pj_val_unfold in Hpj. destruct v as [x|m|l|kvs].
  - (* scalar *) cbn [wt] in Hwt. cbn [vty]. now apply (scalar_inhabits sc e k x j f).
  - (* message *)
    cbn [wt] in Hwt. destruct k; try discriminate.
    apply andb_true_iff in Hwt as [Hts Hwt]. apply negb_true_iff in Hts. rewrite Hts in Hpj.
    destruct (find_message (all_messages sc) tn) as [M|] eqn:HM; [|discriminate].
    apply andb_true_iff in Hwt as [Hwt Hent]. apply andb_true_iff in Hwt as [Hwt Hkeys].
    apply andb_true_iff in Hwt as [Hplain Hpop].
    destruct (all_ok _) as [kv|] eqn:Hall in Hpj; [|discriminate]. inversion Hpj; subst j. clear Hpj.
    apply all_ok_inv in Hall. apply Forall2_map_l in Hall.
    destruct Henv as [Hmsg Henum].
    cbn [vty ety]. rewrite (inhabits_ref_obj (S f) e (last_seg tn) _ kv (Hmsg tn M HM)).
    unfold plain_message in Hplain.
    apply andb_true_iff in Hplain as [Hplain Hunwrap]. apply andb_true_iff in Hplain as [Hplain Hfn].
    apply andb_true_iff in Hplain as [Hplain Hjn]. apply andb_true_iff in Hplain as [Hplain Hdisc].
    apply andb_true_iff in Hplain as [Hannot Hnots].
    rewrite forallb_forall in Hannot, Hnots, Hunwrap, Hpop, Hent.
    unfold shape_okF. apply andb_true_iff. split.
    + (* every required property is on the wire *)
      apply forallb_forall. intros p Hp. apply in_map_iff in Hp as [fd [<- Hfd]].
      rewrite (field_prop_plain sc fd (Hannot fd Hfd)). unfold p_opt, p_name. cbn [fst snd].
      specialize (Hpop fd Hfd). apply orb_true_iff in Hpop as [Hopt|Hpopd]; [now rewrite Hopt|].
      apply orb_true_iff. right. unfold populated in Hpopd.
      destruct (mget m (f_name fd)) as [v|] eqn:Hg; [|discriminate]. apply mget_in in Hg.
      clear - Hall Hg. induction Hall as [|a c l1 l2 Hac Hall IHl]; [contradiction|].
      destruct Hg as [->|Hg].
      * cbn [fst snd] in Hac. destruct (find_field (m_fields M) (f_name fd)) as [fd'|] eqn:Hff; [|discriminate].
        destruct (pj_val f sc (f_kind fd') v); [|discriminate]. inversion Hac; subst c.
        apply find_field_name in Hff as [Hn _]. rewrite Hn. cbn. now rewrite str_eqb_refl.
      * cbn [has_key existsb]. apply orb_true_iff. right. now apply IHl.
    + (* every property on the wire is declared, once, with a type the value has *)
      apply forallb_forall. intros [jn jv] Hin.
      assert (Hsrc : exists k0 v0 fd, In (k0, v0) m /\ find_field (m_fields M) k0 = Some fd /\ jn = json_name (f_name fd) /\ pj_val f sc (f_kind fd) v0 = Ok jv).
      { clear - Hall Hin. induction Hall as [|a c l1 l2 Hac Hall IHl]; [contradiction|].
        destruct Hin as [->|Hin].
        - destruct a as [k0 v0]. cbn [fst snd] in Hac.
          destruct (find_field (m_fields M) k0) as [fd|] eqn:Hff; [|discriminate].
          destruct (pj_val f sc (f_kind fd) v0) as [j0|] eqn:Hp; [|discriminate]. inversion Hac; subst.
          exists k0, v0, fd. repeat split; try assumption. now left.
        - destruct (IHl Hin) as [k0 [v0 [fd [A B]]]]. exists k0, v0, fd. split; [now right|exact B]. }
      destruct Hsrc as [k0 [v0 [fd [Hin0 [Hff [-> Hpj0]]]]]].
      specialize (Hent (k0, v0) Hin0). cbn [fst snd] in Hent. rewrite Hff in Hent.
      apply andb_true_iff in Hent as [Hcard Hwt0].
      destruct (find_field_name _ _ _ Hff) as [_ Hfd].
      cbn [fst snd].
      assert (Hfilter : filter (fun p => str_eqb (p_name p) (json_name (f_name fd))) (map (field_prop sc []) (m_fields M))
                        = [field_prop sc [] fd]).
      { assert (Hext : forall l, (forall x, In x l -> no_annot x = true) ->
                  filter (fun p => str_eqb (p_name p) (json_name (f_name fd))) (map (field_prop sc []) l)
                  = map (field_prop sc []) (filter (fun x => str_eqb (json_name (f_name x)) (json_name (f_name fd))) l)).
        { induction l as [|x l IHl]; intros Hl; [reflexivity|]. cbn [map filter].
          rewrite (field_prop_plain sc x (Hl x (or_introl eq_refl))). unfold p_name at 1. cbn [fst].
          rewrite <- (field_prop_plain sc x (Hl x (or_introl eq_refl))).
          destruct (str_eqb (json_name (f_name x)) (json_name (f_name fd))).
          - cbn [map]. f_equal. apply IHl. intros y Hy. apply Hl. now right.
          - apply IHl. intros y Hy. apply Hl. now right. }
        rewrite (Hext (m_fields M) Hannot).
        now rewrite (nodup_str_filter (fun x => json_name (f_name x)) (m_fields M) fd Hjn Hfd). }
      rewrite Hfilter. cbn [forallb]. rewrite andb_true_r.
      rewrite (field_prop_plain sc fd (Hannot fd Hfd)). unfold p_ty. cbn [snd].
      rewrite (field_ty_plain sc fd v0 (Hannot fd Hfd)).
      * now apply IH.
      * specialize (Hnots fd Hfd). now apply negb_true_iff in Hnots.
      * exact Hcard.
      * specialize (Hunwrap fd Hfd). destruct (f_kind fd); try exact I.
        destruct (find_unwrap_list sc tn0); [discriminate|reflexivity].
  - (* repeated *)
    cbn [wt] in Hwt. destruct (all_ok (map (pj_val f sc k) l)) as [js|] eqn:Hall; [|discriminate].
    inversion Hpj; subst j. cbn [vty]. rewrite inhabits_array.
    apply all_ok_inv in Hall. apply Forall2_map_l in Hall.
    rewrite forallb_forall in Hwt. apply forallb_forall. intros jx Hjx.
    clear - Hall Hjx Hwt IH. induction Hall as [|a c l1 l2 Hac Hall IHl]; [contradiction|].
    destruct Hjx as [->|Hjx].
    + specialize (Hwt a (or_introl eq_refl)). apply andb_true_iff in Hwt as [He Hw].
      rewrite <- (vty_elem k a He). now apply IH.
    + apply IHl; [|exact Hjx]. intros x Hx. apply Hwt. now right.
  - (* map *)
    cbn [wt] in Hwt. apply andb_true_iff in Hwt as [Hwt _].
    destruct (all_ok _) as [o|] eqn:Hall in Hpj; [|discriminate].
    inversion Hpj; subst j. cbn [vty]. rewrite inhabits_record.
    apply all_ok_inv in Hall. apply Forall2_map_l in Hall.
    rewrite forallb_forall in Hwt. apply forallb_forall. intros jx Hjx.
    clear - Hall Hjx Hwt IH. induction Hall as [|a c l1 l2 Hac Hall IHl]; [contradiction|].
    destruct Hjx as [->|Hjx].
    + specialize (Hwt a (or_introl eq_refl)). apply andb_true_iff in Hwt as [He Hw].
      destruct (pj_val f sc k (snd a)) as [j0|] eqn:Hp; [|discriminate]. inversion Hac; subst. cbn [snd].
      rewrite <- (vty_elem k (snd a) He). now apply IH.
    + apply IHl; [|exact Hjx]. intros x Hx. apply Hwt. now right.
Qed.

(* C07, responses and requests of the plain fragment: the proto3-JSON form of a well-typed, fully populated
   message value is a value of the interface declared for its message *)
Theorem message_inhabits sc e f tn m j :
  env_ok sc e -> wt f sc (KMessage tn) (FM m) = true -> pj_val f sc (KMessage tn) (FM m) = Ok j ->
  inhabits (S (S f)) e (YRef (last_seg tn)) j = true.
Proof.
  intros He Hw Hp. change (YRef (last_seg tn)) with (vty (KMessage tn) (FM m)).
  now apply val_inhabits with (sc := sc).
Qed.

Definition pj_fuel : nat := 32.
Lemma pj_of_mval_fuel sc tn m : pj_of_mval sc tn m = pj_val pj_fuel sc (KMessage tn) (FM m).
Proof. reflexivity. Qed.

Theorem response_inhabits sc e tn m j :
  env_ok sc e -> wt pj_fuel sc (KMessage tn) (FM m) = true -> pj_of_mval sc tn m = Ok j ->
  inhabits (S (S pj_fuel)) e (YRef (last_seg tn)) j = true.
Proof.
  intros He Hw Hp. rewrite pj_of_mval_fuel in Hp. generalize dependent pj_fuel. intros f Hw Hp.
  now apply message_inhabits with (sc := sc) (m := m).
Qed.

Theorem same_decls : forall sc fl, ts_client_decls sc fl = ts_server_decls sc fl.
Proof. reflexivity. Qed.

(* ---- an environment that satisfies env_ok -------------------------------------------------------------------------------- *)
(* every message and enum of the schema under its short name, with the declaration the generators emit *)
Definition declared_env (sc : schema) : env :=
  map (fun M => (last_seg (m_name M), YObject (map (field_prop sc []) (m_fields M)))) (all_messages sc) ++
  map (fun E => (last_seg (e_name E), enum_ty E)) (all_enums sc).

Lemma lookup_unique : forall (l : env) k t, nodup_str (map fst l) = true -> In (k, t) l -> lookup l k = Some t.
Proof.
  induction l as [|[k' t'] l IH]; intros k t Hnd Hin; [contradiction|].
  cbn [map fst nodup_str] in Hnd. apply andb_true_iff in Hnd as [Hk Hnd]. apply negb_true_iff in Hk.
  cbn [lookup]. destruct Hin as [Heq|Hin].
  - inversion Heq; subst. now rewrite str_eqb_refl.
  - destruct (str_eqb k' k) eqn:E.
    + apply str_eqb_eq in E. subst. exfalso.
      assert (T : existsb (str_eqb k) (map fst l) = true).
      { apply existsb_exists. exists k. split; [|apply str_eqb_refl]. change k with (fst (k, t)). now apply in_map. }
      congruence.
    + now apply IH.
Qed.

Lemma find_message_in : forall ms tn M, find_message ms tn = Some M -> In M ms /\ m_name M = tn.
Proof.
  induction ms as [|x ms IH]; intros tn M H; [discriminate|]. cbn in H.
  destruct (str_eqb (m_name x) tn) eqn:E.
  - inversion H; subst. apply str_eqb_eq in E. split; [now left|exact E].
  - destruct (IH tn M H) as [A B]. split; [now right|exact B].
Qed.
Lemma find_enum_in : forall es tn E, find_enum es tn = Some E -> In E es /\ e_name E = tn.
Proof.
  induction es as [|x es IH]; intros tn E H; [discriminate|]. cbn in H.
  destruct (str_eqb (e_name x) tn) eqn:Eq.
  - inversion H; subst. apply str_eqb_eq in Eq. split; [now left|exact Eq].
  - destruct (IH tn E H) as [A B]. split; [now right|exact B].
Qed.

(* when no two messages/enums of the schema share a short name *)
Theorem declared_env_ok sc : nodup_str (map fst (declared_env sc)) = true -> env_ok sc (declared_env sc).
Proof.
  intros Hnd. split.
  - intros tn M H. apply find_message_in in H as [Hin <-]. apply lookup_unique; [exact Hnd|].
    unfold declared_env. apply in_or_app. left.
    apply in_map_iff. exists M. split; [reflexivity|exact Hin].
  - intros tn E H. apply find_enum_in in H as [Hin <-]. apply lookup_unique; [exact Hnd|].
    unfold declared_env. apply in_or_app. right.
    apply in_map_iff. exists E. split; [reflexivity|exact Hin].
Qed.
