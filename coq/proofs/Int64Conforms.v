(* C05_conforms for the int64 NUMBER codec: a top-level message whose only annotations are
   int64_encoding options (NUMBER on singular / repeated 64-bit fields; STRING, UNSPECIFIED, or an option
   on a field it does not apply to, anywhere), with un-annotated children, is sent exactly as the
   documented mapping says, for all well-typed values.  NUMBER on a map with 64-bit values is excluded:
   the emitter skips map fields (encoding.go:21-52) — refutation at the end. *)
From Sebuf Require Import CodecCases.
From SebufProofs Require Import TextFacts CodecTextFacts ProtoJsonFacts NullableFacts.
From SebufProofs Require Import MappingFacts NullableConforms Int64Facts.
From Coq Require Import Lia ZArith List.
Import ListNotations.

Open Scope Z_scope.

Local Arguments buildable : simpl never.

(* the option asks for numbers and the field holds 64-bit integers *)
Definition i64_effective (f : field) : bool :=
  is_int64_kind (f_kind f) && match f_int64 f with Some I64Number => true | _ => false end.

(* no annotation other than int64_encoding, and NUMBER is not put on a map *)
Definition i64plain_field (f : field) : bool :=
  negb (f_unwrap f) && is_none (f_enumenc f) && is_none (f_nullable f) && is_none (f_empty f) &&
  is_none (f_tsfmt f) && is_none (f_bytesenc f) && is_none (f_oneof_value f) && is_none (f_flatten f) &&
  is_none (f_flatten_prefix f) && (negb (i64_effective f) || negb (is_map f)).
Definition i64plain_msg (md : message) : bool :=
  forallb i64plain_field (m_fields md) && forallb (fun o => negb (o_has_cfg o)) (m_oneofs md).

Lemma i64plain_facts f : i64plain_field f = true ->
  f_unwrap f = false /\ f_enumenc f = None /\ f_nullable f = None /\ f_empty f = None /\
  f_tsfmt f = None /\ f_bytesenc f = None /\ f_flatten f = None /\ is_number_i64 f = i64_effective f.
Proof.
  unfold i64plain_field. intros H. apply andb_prop in H. destruct H as [H Hlast].
  repeat (apply andb_prop in H; destruct H as [H ?]).
  apply Bool.negb_true_iff in H.
  repeat match goal with
         | Hx : is_none ?o = true |- _ => destruct o; [discriminate Hx|clear Hx]
         end.
  repeat split; auto.
  unfold is_number_i64, i64_effective in *.
  destruct (is_int64_kind (f_kind f)); [|reflexivity].
  destruct (is_map f); [|destruct (f_int64 f) as [[| |]|]; reflexivity].
  destruct (f_int64 f) as [[| |]|]; try reflexivity. discriminate Hlast.
Qed.

(* ---- Spec side: a value under a field whose int64_encoding option has no effect is proto3 JSON ------------- *)
Section Plain64.
Variable E : ExtLib.
Variable sc : schema.

Definition ctx_ok64 (ctx : option field) (k : kind) : Prop :=
  match ctx with
  | Some f => f_enumenc f = None /\ f_bytesenc f = None /\ f_tsfmt f = None /\
              (is_int64_kind k && match f_int64 f with Some I64Number => true | _ => false end) = false
  | None => True
  end.

Lemma scalar_plain64 ctx k x :
  ctx_ok64 ctx k -> plain_enum sc k = true -> mp_scalar E sc ctx k x = pj_scalar E sc k x.
Proof.
  intros Hc Hp. destruct ctx as [f|]; [|apply (scalar_plain E sc None k x I Hp)].
  destruct Hc as [He [Hb [_ Hi]]].
  destruct x as [z|b|x|x|b|n].
  - destruct k; simpl in Hi |- *; try rewrite Hi; reflexivity.
  - destruct k; reflexivity.
  - destruct k; reflexivity.
  - rewrite <- (scalar_plain E sc None k (VBytes x) I Hp). destruct k; simpl; try rewrite Hb; reflexivity.
  - destruct k; reflexivity.
  - rewrite <- (scalar_plain E sc None k (VEnum n) I Hp). destruct k; simpl; try rewrite He; reflexivity.
Qed.

Definition R64 (v : fval) : Prop :=
  forall ctx k, ctx_ok64 ctx k -> plain_in sc k v = true -> mp_fval E sc ctx k v = pj_fval E sc k v.

Theorem mapping_plain64 : forall v, R64 v.
Proof.
  apply fval_ind'.
  - intros x ctx k Hc Hp. simpl in Hp. rewrite mp_fval_FS, pj_fval_FS. apply scalar_plain64; assumption.
  - (* message: Timestamp looks at timestamp_format only, any other message at nothing of the context *)
    intros m _ ctx k Hc Hp.
    destruct k as [| | | | | | | | | | | | | | | tn0 | tn]; try reflexivity.
    destruct (str_eqb tn ts_name) eqn:Ets.
    + rewrite mp_fval_FM, pj_fval_FM, Ets. unfold mp_timestamp, pj_timestamp.
      destruct (ts_in_range (mget_int m (s "seconds")) (mget_int m (s "nanos"))); simpl; [|reflexivity].
      destruct ctx as [f|]; [|reflexivity]. destruct Hc as [_ [_ [Ht _]]]. rewrite Ht. reflexivity.
    + rewrite (C05_context_free E sc ctx None tn m Ets).
      apply (mapping_plain_fval E sc (FM m) None (KMessage tn) I Hp).
  - (* list *)
    intros l IH ctx k Hc Hp. rewrite mp_fval_FL, pj_fval_FL.
    assert (Hloop : mp_list E sc ctx k l = m_list E sc k l).
    { induction IH as [|x r Hx Hr IHr]; [reflexivity|].
      simpl in Hp. apply andb_prop in Hp. destruct Hp as [Hpx Hpr].
      simpl. rewrite (Hx ctx k Hc Hpx), (IHr Hpr). reflexivity. }
    rewrite Hloop. reflexivity.
  - (* map *)
    intros kv IH ctx k Hc Hp. rewrite mp_fval_FMap, pj_fval_FMap.
    assert (Hloop : mp_map E sc ctx k kv = m_map E sc k kv).
    { induction IH as [|[key x] r Hx Hr IHr]; [reflexivity|].
      simpl in Hp. apply andb_prop in Hp. destruct Hp as [Hpx Hpr].
      simpl mp_map. simpl m_map.
      assert (Hsel : match mp_uw sc k, x with
                     | Some uf, FM wm => mp_pick E sc uf wm
                     | _, _ => mp_fval E sc ctx k x
                     end = pj_fval E sc k x).
      { simpl in Hx. destruct (mp_uw sc k) as [uf|] eqn:Eu; [|apply Hx; assumption].
        destruct x as [sx|wm|l|kv']; try (apply Hx; assumption).
        exfalso. unfold mp_uw in Eu. destruct k as [| | | | | | | | | | | | | | | tn0 | vtn]; try discriminate.
        unfold lookup_message in Eu. simpl in Hpx.
        destruct (str_eqb vtn ts_name).
        - vm_compute in Eu. discriminate.
        - destruct (find_message (all_messages sc) vtn) as [vmd|]; [|discriminate].
          apply andb_prop in Hpx. destruct Hpx as [Hvm _].
          unfold mp_value_list in Eu. rewrite (plain_msg_no_unwrap vmd Hvm) in Eu. discriminate. }
      rewrite Hsel, (IHr Hpr). reflexivity. }
    rewrite Hloop. reflexivity.
Qed.

(* Spec side of a NUMBER field *)
Lemma mp_scalar_num f z : is_number_i64 f = true -> mp_scalar E sc (Some f) (f_kind f) (VInt z) = ROk (JNum z).
Proof.
  intros Hn. destruct (number_i64_facts f Hn) as [Hk [_ Hi]].
  destruct (f_kind f); try discriminate Hk; simpl; rewrite Hi; reflexivity.
Qed.
Lemma mp_list_num f zs : is_number_i64 f = true ->
  mp_list E sc (Some f) (f_kind f) (map vint64 zs) = ROk (map JNum zs).
Proof.
  intros Hn. induction zs as [|z r IH]; [reflexivity|].
  change (mp_list E sc (Some f) (f_kind f) (map vint64 (z :: r)))
    with (mp_fval E sc (Some f) (f_kind f) (FS (VInt z)) >>= (fun j =>
          mp_list E sc (Some f) (f_kind f) (map vint64 r) >>= (fun t => ROk (j :: t)))).
  rewrite mp_fval_FS, (mp_scalar_num f z Hn), IH. reflexivity.
Qed.
Lemma mp_num f x : is_number_i64 f = true -> shape f x ->
  mp_fval E sc (Some f) (f_kind f) x = ROk (num_json x).
Proof.
  intros Hn [[_ [z [Hx _]]]|[_ [zs [Hx _]]]]; subst x.
  - rewrite mp_fval_FS. apply mp_scalar_num. exact Hn.
  - rewrite mp_fval_FL, (mp_list_num f zs Hn). simpl. rewrite map_num_elem. reflexivity.
Qed.
End Plain64.

Section Conforms.
Variable E : ExtLib.
Variable sc : schema.

Lemma i64plain_no_unwrap md : i64plain_msg md = true -> mp_root_unwrap md = None.
Proof.
  intros Hmd. unfold i64plain_msg in Hmd. apply andb_prop in Hmd. destruct Hmd as [Hf _].
  rewrite forallb_forall in Hf. unfold mp_root_unwrap, mp_unwrap_field.
  assert (Hnil : filter (fun f => f_unwrap f) (m_fields md) = []).
  { induction (m_fields md) as [|a r IH]; [reflexivity|]. simpl.
    destruct (i64plain_facts a (Hf a (or_introl eq_refl))) as [Hu _]. rewrite Hu. apply IH.
    intros f Hin. apply Hf. right. exact Hin. }
  rewrite Hnil. destruct (m_fields md) as [|? [|? ?]]; reflexivity.
Qed.

Lemma i64plain_no_nulls md (m : mval) : i64plain_msg md = true ->
  flat_map (fun f => match f_nullable f, mget m (f_name f) with
                     | Some true, None => [(json_name (f_name f), JNull)]
                     | _, _ => []
                     end) (m_fields md) = [].
Proof.
  intros Hmd. unfold i64plain_msg in Hmd. apply andb_prop in Hmd. destruct Hmd as [Hf _].
  rewrite forallb_forall in Hf.
  induction (m_fields md) as [|a r IH]; [reflexivity|]. simpl.
  destruct (i64plain_facts a (Hf a (or_introl eq_refl))) as [_ [_ [Hn _]]]. rewrite Hn. simpl.
  apply IH. intros f Hin. apply Hf. right. exact Hin.
Qed.

Section Value.
Variable md : message.
Variable m : mval.
Hypothesis Hbuild : buildable sc FtInt64 md = true.
Hypothesis Hnd : nodup_str (map jn (m_fields md)) = true.
Hypothesis Hplain : i64plain_msg md = true.
Hypothesis Hsorted : sorted_Z (map (fun e => num_of md (fst e)) m) = true.
Hypothesis Hwf : wt_fields sc md m = true.

(* the documented mapping, field by field, is the protojson entry with the NUMBER rewrite applied *)
Lemma mp_msg_int64 r :
  incl r m ->
  forallb (fun e => match find_field (m_fields md) (fst e) with
                    | Some f => plain_in sc (f_kind f) (snd e)
                    | None => false end) r = true ->
  mp_msg E sc md r =
  m_msg E sc md r >>= (fun es => ROk (map (fun e => PField (fst e) (snd e)) (map (tr (upd_enc m) (m_fields md)) es))).
Proof.
  pose proof Hplain as Hmd. unfold i64plain_msg in Hmd. apply andb_prop in Hmd. destruct Hmd as [Hfs Ho].
  rewrite forallb_forall in Hfs.
  induction r as [|[name x] r IH]; intros Hincl Hch; [reflexivity|].
  simpl in Hch. simpl mp_msg. simpl m_msg.
  assert (Hinm : In (name, x) m) by (apply Hincl; left; reflexivity).
  destruct (field_of_name sc md m Hsorted Hwf name x Hinm) as [f [Hf [Hinf [Hname [Hj [Hw Hm]]]]]].
  rewrite Hf in Hch |- *.
  apply andb_prop in Hch. destruct Hch as [Hpx Hr].
  assert (Hincl' : incl r m) by (intros e He; apply Hincl; right; exact He).
  destruct (i64plain_facts f (Hfs f Hinf)) as [_ [Hee [_ [Hem [Htf [Hbe [Hfl Heff]]]]]]].
  unfold mp_entry. rewrite Hem, Hfl, (no_cfg_oneof md f Ho). rewrite <- Hj.
  remember (is_number_i64 f) as nb eqn:En. symmetry in En. destruct nb.
  - pose proof (shape_of_wt sc md f x Hbuild Hinf En Hw) as Hsh.
    destruct (number_i64_facts f En) as [Hk _].
    rewrite (mp_num E sc f x En Hsh), (pj_num E sc f x Hk Hsh). simpl rbind.
    rewrite (IH Hincl' Hr). destruct (m_msg E sc md r) as [t|e|w]; simpl; try reflexivity.
    rewrite (tr_at (upd_enc m) (m_fields md) f _ Hnd Hinf), (upd_enc_val m f x _ En Hm Hsh). reflexivity.
  - assert (Hc : ctx_ok64 (Some f) (f_kind f)).
    { simpl. repeat split; try assumption. symmetry. exact Heff. }
    rewrite (mapping_plain64 E sc x (Some f) (f_kind f) Hc Hpx).
    destruct (pj_fval E sc (f_kind f) x) as [j|e|w]; simpl; try reflexivity.
    rewrite (IH Hincl' Hr). destruct (m_msg E sc md r) as [t|e|w]; simpl; try reflexivity.
    rewrite (tr_at (upd_enc m) (m_fields md) f _ Hnd Hinf), (upd_enc_plain m f _ En). reflexivity.
Qed.
End Value.

Theorem conforms_int64 : forall tn md m,
  str_eqb tn ts_name = false -> is_wkt_other tn = false ->
  find_message (all_messages sc) tn = Some md -> owner_of sc md = Own FtInt64 ->
  buildable sc FtInt64 md = true ->
  nodup_str (map jn (m_fields md)) = true ->
  i64plain_msg md = true ->
  wt sc (KMessage tn) (FM m) = true ->
  forallb (fun e => match find_field (m_fields md) (fst e) with
                    | Some f => plain_in sc (f_kind f) (snd e)
                    | None => false end) m = true ->
  encode E sc tn m = to_json E sc tn m.
Proof.
  intros tn md m Hts Hwk Hfm Hown Hb Hnd Hmd Hwt Hch.
  pose proof Hwt as Hwt'. rewrite wt_FM, Hts, Hwk, Hfm in Hwt'. simpl negb in Hwt'. rewrite Bool.andb_true_l in Hwt'.
  apply andb_prop in Hwt'. destruct Hwt' as [Hwt' Hwf]. apply andb_prop in Hwt'. destruct Hwt' as [Hok Hsorted].
  (* Impl *)
  rewrite (encode_int64 E sc tn md m Hts Hwk Hfm Hown Hb (wt_fields_declared sc md m Hwf)).
  (* Spec *)
  unfold to_json. rewrite mp_fval_FM, Hts, Hwk, Hfm.
  rewrite (mp_msg_int64 md m Hb Hnd Hmd Hsorted Hwf m (incl_refl m) Hch).
  destruct (m_msg E sc md m) as [es|e|w] eqn:Hes; simpl; try reflexivity.
  unfold mp_finish. rewrite (i64plain_no_unwrap md Hmd), fields_of_pieces, (i64plain_no_nulls md m Hmd), app_nil_r.
  rewrite (enc_int64_tr E sc md m Hb Hnd Hsorted Hwf es Hes). reflexivity.
Qed.
End Conforms.
Close Scope Z_scope.

(* ---- non-vacuity and the need for each added hypothesis --------------------------------------------------------- *)
From SebufProofs Require Import CodecExamples.
Open Scope Z_scope.

Example conforms_int64_nonvacuous :
  exists md,
    find_message (all_messages i64s) (q "Wide") = Some md /\ owner_of i64s md = Own FtInt64 /\
    buildable i64s FtInt64 md = true /\ nodup_str (map jn (m_fields md)) = true /\ i64plain_msg md = true /\
    wt i64s (KMessage (q "Wide")) (FM wide_val) = true /\
    forallb (fun e => match find_field (m_fields md) (fst e) with
                      | Some f => plain_in i64s (f_kind f) (snd e)
                      | None => false end) wide_val = true /\
    encode Ex i64s (q "Wide") wide_val = ROk wide_json /\ to_json Ex i64s (q "Wide") wide_val = ROk wide_json.
Proof. eexists. vm_compute. repeat split; reflexivity. Qed.

(* a value that lists a zero singular field is not a proto3 value (Value.v); MarshalJSON deletes the key
   (`if x.Big == 0 { delete(raw, "big") }`), the mapping applied to that non-canonical term does not *)
Example conforms_int64_needs_wt :
  let m := [(s "big", vint 0)] in
  exists md,
    find_message (all_messages xs) (q "Nums") = Some md /\ owner_of xs md = Own FtInt64 /\
    buildable xs FtInt64 md = true /\ nodup_str (map jn (m_fields md)) = true /\ i64plain_msg md = true /\
    forallb (fun e => match find_field (m_fields md) (fst e) with
                      | Some f => plain_in xs (f_kind f) (snd e)
                      | None => false end) m = true /\
    wt xs (KMessage (q "Nums")) (FM m) = false /\
    encode Ex xs (q "Nums") m = ROk (JObj []) /\ to_json Ex xs (q "Nums") m = ROk (JObj [(s "big", JNum 0)]).
Proof. eexists. vm_compute. repeat split; reflexivity. Qed.

(* NUMBER on a map with 64-bit values: the emitter skips map fields, the server sends strings
   (defect class annotation-on-map-field-skipped:int64-number, C05_refuted_map_int64) *)
Example conforms_int64_needs_nonmap :
  let m := [(s "by_k", FMap [(VStr (s "k"), vint 5)])] in
  exists md,
    find_message (all_messages xs) (q "NumMap") = Some md /\ owner_of xs md = Own FtInt64 /\
    buildable xs FtInt64 md = true /\ nodup_str (map jn (m_fields md)) = true /\
    wt xs (KMessage (q "NumMap")) (FM m) = true /\
    forallb (fun e => match find_field (m_fields md) (fst e) with
                      | Some f => plain_in xs (f_kind f) (snd e)
                      | None => false end) m = true /\
    i64plain_msg md = false /\
    encode Ex xs (q "NumMap") m = ROk (JObj [(s "byK", JObj [(s "k", JStr (s "5"))])]) /\
    to_json Ex xs (q "NumMap") m = ROk (JObj [(s "byK", JObj [(s "k", JNum 5)])]).
Proof. eexists. vm_compute. repeat split; reflexivity. Qed.

(* NUMBER on an `optional` 64-bit field: the emitted MarshalJSON does not compile (C13); the model declines *)
Example conforms_int64_needs_buildable :
  let m := [(s "o", vint 5)] in
  exists md w,
    find_message (all_messages i64s) (q "Opt") = Some md /\ owner_of i64s md = Own FtInt64 /\
    nodup_str (map jn (m_fields md)) = true /\ i64plain_msg md = true /\
    wt i64s (KMessage (q "Opt")) (FM m) = true /\
    buildable i64s FtInt64 md = false /\
    encode Ex i64s (q "Opt") m = RUnm w /\ to_json Ex i64s (q "Opt") m = ROk (JObj [(s "o", JNum 5)]).
Proof. eexists. eexists. vm_compute. repeat split; reflexivity. Qed.
Close Scope Z_scope.
