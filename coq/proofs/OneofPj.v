(* OneofPj.v — protojson on messages WITH oneof members (ProtoJsonFacts.wt excludes them), and decoding an
   object whose entries come in another order than the field numbers:
     wt1          : well-typed top-level value of a message that may declare oneofs (members singular, at most one
                    member of each oneof populated); children are well-typed in the sense of ProtoJsonFacts.wt;
     pj_un_perm   : protojson.Unmarshal of an object given entry by entry, entries in any order;
     assemble_perm: the decoded message lists its fields in field-number order whatever the order of the keys. *)
From Coq Require Import Lia ZArith List Permutation.
From Sebuf Require Import CodecCases.
From SebufProofs Require Import TextFacts CodecTextFacts ProtoJsonFacts.
From SebufProofs Require NullableFacts Int64Facts BytesFacts TimestampFacts EmptyFacts.
Import ListNotations.

Open Scope Z_scope.

(* ---- descriptors that may declare oneofs ------------------------------------------------------------------ *)
Definition singular_card (f : field) : bool := match f_card f with Singular => true | _ => false end.

(* msg_ok without "no field is a oneof member": distinct numbers, every field found again by its JSON name,
   oneof members singular (protoc) *)
Definition msg_ok1 (md : message) : bool :=
  nodup_Z (map f_number (m_fields md)) &&
  forallb (fun f => match field_of_key md (json_name (f_name f)) with
                    | Some f' => f_number f' =? f_number f
                    | None => false
                    end && match f_oneof f with None => true | Some _ => singular_card f end) (m_fields md).

(* the oneofs of the populated entries *)
Definition set_oneofs (md : message) (m : mval) : list str :=
  flat_map (fun e => match find_field (m_fields md) (fst e) with Some f => opt_list (f_oneof f) | None => [] end) m.

(* a well-typed value of message type tn: as ProtoJsonFacts.wt (children included), but the type may declare
   oneofs and at most one member of each oneof is populated *)
Definition wt1 (sc : schema) (tn : str) (m : mval) : bool :=
  negb (str_eqb tn ts_name) && negb (is_wkt_other tn) &&
  match find_message (all_messages sc) tn with
  | None => false
  | Some md => msg_ok1 md && sorted_Z (map (fun e => num_of md (fst e)) m) && wt_fields sc md m
               && NullableFacts.nodup_str (set_oneofs md m)
  end.

Lemma msg_ok_ok1 md : msg_ok md = true -> msg_ok1 md = true.
Proof.
  unfold msg_ok, msg_ok1. intros H. apply andb_prop in H. destruct H as [H1 H2]. rewrite H1. cbn [andb].
  rewrite forallb_forall in H2. apply forallb_forall. intros f Hin. specialize (H2 f Hin).
  apply andb_prop in H2. destruct H2 as [Ha Hb]. rewrite Ha. destruct (f_oneof f); [discriminate Hb|reflexivity].
Qed.

Lemma set_oneofs_msg_ok md m : msg_ok md = true -> set_oneofs md m = [].
Proof.
  intros Hok. unfold set_oneofs. induction m as [|[name x] r IH]; [reflexivity|]. cbn [flat_map fst].
  rewrite IH. destruct (find_field (m_fields md) name) as [f|] eqn:Ef; [|reflexivity].
  destruct (msg_ok_key md name f Hok Ef) as [_ Ho]. rewrite Ho. reflexivity.
Qed.

(* wt1 generalises wt *)
Lemma wt_wt1 sc tn m : str_eqb tn ts_name = false -> wt sc (KMessage tn) (FM m) = true -> wt1 sc tn m = true.
Proof.
  intros Hts Hwt. rewrite wt_FM, Hts in Hwt. unfold wt1. rewrite Hts. cbn [negb andb].
  apply andb_prop in Hwt. destruct Hwt as [Hwk Hwt]. rewrite Hwk. cbn [andb].
  destruct (find_message (all_messages sc) tn) as [md|]; [|discriminate Hwt].
  apply andb_prop in Hwt. destruct Hwt as [Hwt Hwf]. apply andb_prop in Hwt. destruct Hwt as [Hok Hs].
  rewrite (msg_ok_ok1 md Hok), Hs, Hwf, (set_oneofs_msg_ok md m Hok). reflexivity.
Qed.

Lemma wt1_inv sc tn m : wt1 sc tn m = true ->
  str_eqb tn ts_name = false /\ is_wkt_other tn = false /\
  exists md, find_message (all_messages sc) tn = Some md /\ lookup_message sc tn = Some md /\ msg_ok1 md = true /\
             sorted_Z (map (fun e => num_of md (fst e)) m) = true /\ wt_fields sc md m = true /\
             NullableFacts.nodup_str (set_oneofs md m) = true.
Proof.
  unfold wt1. intros H. apply andb_prop in H. destruct H as [H H3]. apply andb_prop in H. destruct H as [H1 H2].
  apply Bool.negb_true_iff in H1. apply Bool.negb_true_iff in H2. split; [exact H1|]. split; [exact H2|].
  destruct (find_message (all_messages sc) tn) as [md|] eqn:Hfm; [|discriminate H3].
  apply andb_prop in H3. destruct H3 as [H3 H7]. apply andb_prop in H3. destruct H3 as [H3 H6].
  apply andb_prop in H3. destruct H3 as [H4 H5].
  exists md. unfold lookup_message. rewrite H1. repeat split; assumption.
Qed.

Lemma msg_ok1_key md name f :
  msg_ok1 md = true -> find_field (m_fields md) name = Some f -> field_of_key md (json_name name) = Some f.
Proof.
  intros Hok Hf. unfold msg_ok1 in Hok. apply andb_prop in Hok. destruct Hok as [Hnd Hall].
  destruct (find_field_spec _ _ _ Hf) as [Hin Hn]. subst name.
  rewrite forallb_forall in Hall. specialize (Hall f Hin). apply andb_prop in Hall. destruct Hall as [Hk _].
  destruct (field_of_key md (json_name (f_name f))) as [f'|] eqn:Ek; [|discriminate].
  f_equal. eapply nodup_num_inj; eauto.
  - eapply field_of_key_in. exact Ek.
  - apply Z.eqb_eq. exact Hk.
Qed.

Lemma msg_ok1_key_in md f : msg_ok1 md = true -> In f (m_fields md) -> field_of_key md (jn f) = Some f.
Proof.
  intros Hok Hin. pose proof Hok as Hok'. unfold msg_ok1 in Hok'. apply andb_prop in Hok'. destruct Hok' as [Hnd Hall].
  rewrite forallb_forall in Hall. specialize (Hall f Hin). apply andb_prop in Hall. destruct Hall as [Hk _].
  unfold jn. destruct (field_of_key md (json_name (f_name f))) as [f'|] eqn:Ek; [|discriminate].
  f_equal. eapply nodup_num_inj; eauto.
  - eapply field_of_key_in. exact Ek.
  - apply Z.eqb_eq. exact Hk.
Qed.

Lemma msg_ok1_member_singular md f o :
  msg_ok1 md = true -> In f (m_fields md) -> f_oneof f = Some o -> f_card f = Singular.
Proof.
  intros Hok Hin Ho. unfold msg_ok1 in Hok. apply andb_prop in Hok. destruct Hok as [_ Hall].
  rewrite forallb_forall in Hall. specialize (Hall f Hin). apply andb_prop in Hall. destruct Hall as [_ Hs].
  rewrite Ho in Hs. unfold singular_card in Hs. destruct (f_card f); try discriminate Hs. reflexivity.
Qed.

Lemma msg_ok1_nodup_jn md : msg_ok1 md = true -> NullableFacts.nodup_str (map jn (m_fields md)) = true.
Proof.
  intros Hok. unfold msg_ok1 in Hok. apply andb_prop in Hok. destruct Hok as [Hnd Hall].
  rewrite forallb_forall in Hall.
  apply BytesFacts.nodup_jn_of_numbers; [exact Hnd|].
  intros a b Ha Hb Hab.
  pose proof (Hall a Ha) as Hka. pose proof (Hall b Hb) as Hkb.
  apply andb_prop in Hka. destruct Hka as [Hka _]. apply andb_prop in Hkb. destruct Hkb as [Hkb _].
  change (json_name (f_name a)) with (jn a) in Hka. change (json_name (f_name b)) with (jn b) in Hkb.
  rewrite <- Hab in Hkb.
  destruct (field_of_key md (jn a)) as [f'|]; [|discriminate].
  apply Z.eqb_eq in Hka. apply Z.eqb_eq in Hkb. congruence.
Qed.

Lemma msg_ok1_nodup_num md : msg_ok1 md = true -> nodup_Z (map f_number (m_fields md)) = true.
Proof. unfold msg_ok1. intros H. apply andb_prop in H. apply H. Qed.

(* ---- duplicates, as propositions ----------------------------------------------------------------------------- *)
Lemma dup_nums_NoDup l : NoDup l -> dup_nums l = false.
Proof.
  induction 1 as [|x r Hx _ IH]; [reflexivity|]. cbn [dup_nums]. rewrite IH, Bool.orb_false_r.
  destruct (existsb (Z.eqb x) r) eqn:Ex; [|reflexivity]. exfalso. apply Hx.
  apply existsb_exists in Ex. destruct Ex as [y [Hy Hxy]]. apply Z.eqb_eq in Hxy. subst y. exact Hy.
Qed.
Lemma dup_strs_NoDup l : NoDup l -> dup_strs l = false.
Proof.
  induction 1 as [|x r Hx _ IH]; [reflexivity|]. cbn [dup_strs]. rewrite IH, Bool.orb_false_r.
  destruct (existsb (str_eqb x) r) eqn:Ex; [|reflexivity]. exfalso. apply Hx.
  apply existsb_exists in Ex. destruct Ex as [y [Hy Hxy]]. apply str_eqb_eq in Hxy. subst y. exact Hy.
Qed.
Lemma nodup_Z_NoDup l : nodup_Z l = true -> NoDup l.
Proof.
  induction l as [|x r IH]; intros H; [constructor|]. cbn [nodup_Z] in H. apply andb_prop in H. destruct H as [H1 H2].
  constructor; [|apply IH; exact H2]. intros Hin. apply Bool.negb_true_iff in H1.
  assert (existsb (Z.eqb x) r = true) by (apply existsb_exists; exists x; split; [exact Hin|apply Z.eqb_refl]). congruence.
Qed.
Lemma sorted_Z_NoDup l : sorted_Z l = true -> NoDup l.
Proof.
  induction l as [|x r IH]; intros H; [constructor|]. cbn [sorted_Z] in H. apply andb_prop in H. destruct H as [H1 H2].
  constructor; [|apply IH; exact H2]. exact (Int64Facts.lt_all_notin x r H1).
Qed.

(* ---- assemble of a permuted field list -------------------------------------------------------------------------- *)
Definition keyed := (Z * (str * fval))%type.
Fixpoint lt_all_k (x : Z) (l : list keyed) : Prop := match l with [] => True | y :: r => x < fst y /\ lt_all_k x r end.
Fixpoint sorted_k (l : list keyed) : Prop := match l with [] => True | x :: r => lt_all_k (fst x) r /\ sorted_k r end.

Lemma lt_all_k_in x l y : lt_all_k x l -> In y l -> x < fst y.
Proof. induction l as [|z r IH]; cbn [lt_all_k]; intros H []; [subst; apply H|apply IH; [apply H|assumption]]. Qed.
Lemma lt_all_k_of x l : (forall y, In y l -> x < fst y) -> lt_all_k x l.
Proof. induction l as [|z r IH]; cbn [lt_all_k]; intros H; [exact I|]. split; [apply H; left; reflexivity|apply IH; intros y Hy; apply H; right; exact Hy]. Qed.

Lemma insert_in n e l y : In y (insert_by_num n e l) <-> y = (n, e) \/ In y l.
Proof.
  induction l as [|[n' e'] r IH]; cbn [insert_by_num].
  - simpl. intuition.
  - destruct (n <=? n'); simpl.
    + intuition.
    + rewrite IH. intuition.
Qed.
Lemma insert_sorted n e l : sorted_k l -> ~ In n (map fst l) -> sorted_k (insert_by_num n e l).
Proof.
  induction l as [|[n' e'] r IH]; cbn [insert_by_num]; intros Hs Hn.
  - cbn. auto.
  - destruct (Z.leb_spec n n') as [Hle|Hgt].
    + assert (Hlt : n < n'). { destruct (Z.eq_dec n n') as [->|]; [exfalso; apply Hn; left; reflexivity|lia]. }
      cbn [sorted_k lt_all_k fst]. split; [|exact Hs]. split; [exact Hlt|].
      apply lt_all_k_of. intros y Hy. cbn [sorted_k] in Hs. pose proof (lt_all_k_in _ _ y (proj1 Hs) Hy). cbn [fst] in *. lia.
    + cbn [sorted_k] in *. destruct Hs as [Hs1 Hs2]. split.
      * apply lt_all_k_of. intros y Hy. apply insert_in in Hy. destruct Hy as [->|Hy]; [cbn [fst]; lia|].
        apply (lt_all_k_in _ _ y Hs1 Hy).
      * apply IH; [exact Hs2|]. intros Hin. apply Hn. right. exact Hin.
Qed.
Lemma insert_perm n e l : Permutation (insert_by_num n e l) ((n, e) :: l).
Proof.
  induction l as [|[n' e'] r IH]; cbn [insert_by_num]; [apply Permutation_refl|].
  destruct (n <=? n'); [apply Permutation_refl|].
  eapply perm_trans; [apply perm_skip; exact IH|apply perm_swap].
Qed.

Lemma sorted_k_perm_eq (l1 l2 : list keyed) : sorted_k l1 -> sorted_k l2 -> Permutation l1 l2 -> l1 = l2.
Proof.
  revert l2. induction l1 as [|a r1 IH]; intros l2 H1 H2 HP.
  - apply Permutation_nil in HP. subst. reflexivity.
  - destruct l2 as [|b r2]; [apply Permutation_sym, Permutation_nil in HP; discriminate HP|].
    assert (Hab : a = b).
    { assert (Ha : In a (b :: r2)) by (eapply Permutation_in; [exact HP|left; reflexivity]).
      assert (Hb : In b (a :: r1)) by (eapply Permutation_in; [apply Permutation_sym; exact HP|left; reflexivity]).
      destruct Ha as [Ha|Ha]; [symmetry; exact Ha|]. destruct Hb as [Hb|Hb]; [exact Hb|].
      cbn [sorted_k] in H1, H2. pose proof (lt_all_k_in _ _ _ (proj1 H1) Hb). pose proof (lt_all_k_in _ _ _ (proj1 H2) Ha). lia. }
    subst b. f_equal. apply IH; [apply H1|apply H2|]. eapply Permutation_cons_inv. exact HP.
Qed.

Definition tagk (fv : field * fval) : keyed := (f_number (fst fv), (f_name (fst fv), snd fv)).

Lemma fold_step_perm fvs :
  Forall (fun fv => populated (fst fv) (snd fv) = true) fvs ->
  Permutation (fold_right step [] fvs) (map tagk fvs).
Proof.
  induction 1 as [|fv r Hp _ IH]; [apply Permutation_refl|]. cbn [fold_right map]. unfold step at 1. rewrite Hp.
  eapply perm_trans; [apply insert_perm|]. apply perm_skip. exact IH.
Qed.
Lemma fold_step_sorted fvs :
  Forall (fun fv => populated (fst fv) (snd fv) = true) fvs ->
  NoDup (map (fun fv => f_number (fst fv)) fvs) -> sorted_k (fold_right step [] fvs).
Proof.
  intros Hp. induction Hp as [|fv r Hfv Hr IH]; intros Hnd; [exact I|]. cbn [fold_right map] in *. unfold step at 1. rewrite Hfv.
  inversion Hnd as [|x l Hx Hl]; subst. apply insert_sorted; [apply IH; exact Hl|].
  intros Hin. apply Hx.
  assert (HP : Permutation (map fst (fold_right step [] r)) (map fst (map tagk r))) by (apply Permutation_map, fold_step_perm; exact Hr).
  rewrite map_map in HP. cbn [tagk fst] in HP. eapply Permutation_in; [exact HP|exact Hin].
Qed.

Lemma sorted_Z_sorted_k (l : list keyed) : sorted_Z (map fst l) = true -> sorted_k l.
Proof.
  induction l as [|x r IH]; intros H; [exact I|]. cbn [map sorted_Z] in H. apply andb_prop in H. destruct H as [H1 H2].
  split; [|apply IH; exact H2]. apply lt_all_k_of. intros y Hy.
  apply (TimestampFacts.lt_all_Z_in (fst x) (map fst r) (fst y) H1). apply in_map. exact Hy.
Qed.

(* the decoded message lists its fields in field-number order whatever the order of the keys *)
Lemma assemble_perm fvs cfvs :
  Forall (fun fv => populated (fst fv) (snd fv) = true) fvs ->
  sorted_Z (map (fun fv => f_number (fst fv)) cfvs) = true ->
  Permutation fvs cfvs ->
  assemble fvs = map (fun fv => (f_name (fst fv), snd fv)) cfvs.
Proof.
  intros Hp Hs HP. unfold assemble. change (fold_right _ [] fvs) with (fold_right step [] fvs).
  assert (Heq : fold_right step [] fvs = map tagk cfvs).
  { apply sorted_k_perm_eq.
    - apply fold_step_sorted; [exact Hp|].
      eapply Permutation_NoDup; [apply Permutation_map, Permutation_sym; exact HP|]. apply sorted_Z_NoDup. exact Hs.
    - apply sorted_Z_sorted_k. rewrite map_map. exact Hs.
    - eapply perm_trans; [apply fold_step_perm; exact Hp|]. apply Permutation_map. exact HP. }
  rewrite Heq, map_map. reflexivity.
Qed.

(* ---- a value as (field, value) pairs ------------------------------------------------------------------------------- *)
Definition tags (md : message) (m : mval) : list (field * fval) :=
  flat_map (fun e => match find_field (m_fields md) (fst e) with Some f => [(f, snd e)] | None => [] end) m.

Lemma tags_names md m : BytesFacts.declared md m = true -> map (fun fv => (f_name (fst fv), snd fv)) (tags md m) = m.
Proof.
  induction m as [|[name x] r IH]; intros Hd; [reflexivity|]. unfold BytesFacts.declared in Hd. cbn [forallb fst] in Hd.
  unfold tags. cbn [flat_map fst snd]. destruct (find_field (m_fields md) name) as [f|] eqn:Ef; [|discriminate Hd].
  cbn [app map fst snd]. destruct (find_field_spec _ _ _ Ef) as [_ Hn]. rewrite Hn. f_equal. apply IH. exact Hd.
Qed.
Lemma tags_nums md m : BytesFacts.declared md m = true ->
  map (fun fv => f_number (fst fv)) (tags md m) = map (fun e => num_of md (fst e)) m.
Proof.
  induction m as [|[name x] r IH]; intros Hd; [reflexivity|]. unfold BytesFacts.declared in Hd. cbn [forallb fst] in Hd.
  unfold tags. cbn [flat_map fst snd map]. unfold num_of at 1. destruct (find_field (m_fields md) name) as [f|] eqn:Ef; [|discriminate Hd].
  cbn [app map fst]. f_equal. apply IH. exact Hd.
Qed.
Lemma tags_in md m f x : In (f, x) (tags md m) <-> exists name, In (name, x) m /\ find_field (m_fields md) name = Some f.
Proof.
  unfold tags. rewrite in_flat_map. split.
  - intros [[name y] [Hin H]]. cbn [fst snd] in H. destruct (find_field (m_fields md) name) as [g|] eqn:Eg; [|destruct H].
    destruct H as [H|[]]. inversion H; subst. exists name. split; assumption.
  - intros [name [Hin Hf]]. exists (name, x). split; [exact Hin|]. cbn [fst snd]. rewrite Hf. left. reflexivity.
Qed.
Lemma tags_app md a b : tags md (a ++ b) = tags md a ++ tags md b.
Proof. unfold tags. apply flat_map_app. Qed.

Lemma wt_entry_populated sc f x : wt_entry sc f x = true -> populated f x = true.
Proof.
  unfold wt_entry. destruct x as [v|cm|l|kv].
  - destruct (f_card f); try discriminate; intros H; apply andb_prop in H; apply H.
  - reflexivity.
  - destruct l; [destruct (f_card f); discriminate|reflexivity].
  - destruct kv; [destruct (f_card f); discriminate|reflexivity].
Qed.

Lemma tags_populated sc md m : wt_fields sc md m = true -> Forall (fun fv => populated (fst fv) (snd fv) = true) (tags md m).
Proof.
  intros Hw. apply Forall_forall. intros [f x] Hin. apply tags_in in Hin. destruct Hin as [name [Hin Hf]].
  destruct (BytesFacts.wt_fields_in sc md m name x Hw Hin) as [g [Hg Hwe]]. assert (g = f) by congruence. subst g.
  cbn [fst snd]. exact (wt_entry_populated sc f x Hwe).
Qed.

(* ---- decoding an object entry by entry, entries in any order ---------------------------------------------------------- *)
Section Entries.
Variable E : ExtLib.
Variable sc : schema.

Definition ent1 (md : message) (fv : field * fval) (e : str * json) : Prop :=
  In (fst fv) (m_fields md) /\ fst e = jn (fst fv) /\ u_value E sc (fst fv) (snd e) = ROk (Some (snd fv)) /\
  populated (fst fv) (snd fv) = true /\ snd e <> JNull.

Lemma u_fields_ent1 md fvs es :
  msg_ok1 md = true -> Forall2 (ent1 md) fvs es ->
  u_fields E sc md es = ROk fvs /\
  flat_map (fun e => match field_of_key md (fst e) with Some f => [(f, snd e)] | None => [] end) es
  = map (fun p => (fst (fst p), snd (snd p))) (combine fvs es).
Proof.
  intros Hok HF. induction HF as [|[g x] [k j] r r' Hhd _ IH]; [split; reflexivity|].
  destruct Hhd as [Hin [Hk [Hu [Hpop Hnn]]]]. cbn [fst snd] in Hin, Hk, Hu, Hpop, Hnn. subst k.
  destruct IH as [Hfs Hfm]. pose proof (msg_ok1_key_in md g Hok Hin) as Hkey. split.
  - cbn [u_fields]. change (u_fields E sc md r') with (u_fields E sc md r') in Hfs.
    simpl. rewrite Hkey, Hu. simpl. rewrite Hfs. reflexivity.
  - simpl. rewrite Hkey. simpl. rewrite Hfm. reflexivity.
Qed.

Lemma pj_un_perm tn md fvs es :
  str_eqb tn ts_name = false -> is_wkt_other tn = false ->
  find_message (all_messages sc) tn = Some md -> msg_ok1 md = true ->
  Forall2 (ent1 md) fvs es ->
  NoDup (map (fun fv => f_number (fst fv)) fvs) ->
  NoDup (flat_map (fun fv => opt_list (f_oneof (fst fv))) fvs) ->
  pj_un E sc (KMessage tn) (JObj es) = ROk (FM (assemble fvs)).
Proof.
  intros Hts Hwk Hfm Hok HF Hn Ho.
  rewrite (pj_un_msg E sc tn (JObj es) Hts Hwk), Hfm.
  destruct (u_fields_ent1 md fvs es Hok HF) as [Hu Hflat].
  assert (Hdup : dup_check md es = false).
  { unfold dup_check. rewrite Hflat. rewrite map_map. cbn [fst].
    assert (H1 : map (fun x : field * fval * (str * json) => f_number (fst (fst x))) (combine fvs es)
                 = map (fun fv => f_number (fst fv)) fvs).
    { clear -HF. induction HF as [|a b r r' _ _ IH]; [reflexivity|]. cbn [combine map]. rewrite IH. reflexivity. }
    rewrite H1, (dup_nums_NoDup _ Hn). cbn [orb].
    assert (H2 : flat_map (fun p : field * json => match snd p, f_oneof (fst p) with
                                                   | JNull, _ => [] | _, Some o => [o] | _, None => [] end)
                          (map (fun p : field * fval * (str * json) => (fst (fst p), snd (snd p))) (combine fvs es))
                 = flat_map (fun fv => opt_list (f_oneof (fst fv))) fvs).
    { clear -HF. induction HF as [|a b r r' Hab _ IH]; [reflexivity|]. cbn [combine map flat_map fst snd]. rewrite IH. f_equal.
      destruct Hab as [_ [_ [_ [_ Hnn]]]]. destruct (snd b); try (exfalso; apply Hnn; reflexivity); destruct (f_oneof (fst a)); reflexivity. }
    rewrite H2. apply dup_strs_NoDup. exact Ho. }
  rewrite Hdup, Hu. reflexivity.
Qed.
End Entries.
Close Scope Z_scope.
